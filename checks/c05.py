"""C05 - reading an untrusted image never corrupts memory, hangs or aborts.
Spec: spec/ImageReader.tla - catalogue of reader steps over an adversarial image (fields x hostile value
classes, plans of <=2 corrupted fields; each step rejects, or accesses a buffer with explicit length and
capacity, or recurses); Safe = no overflow, no unbounded recursion.  Binding R: every plan TLC enumerates is
concretised by the independent encoder (uncompressed metadata, arbitrary field values) and fed to the ASan
builds of rdsquashfs (-l -d -s -c -x -u), sqfs2tar and sqfsdiff under a time-out; the observed outcome must
never be a signal, a sanitizer report or a time-out.  Seeded bit flips of real (compressed) images on top."""
import json, os, random, re, shutil, struct, subprocess, sys
from concurrent.futures import ThreadPoolExecutor
import vlib, build, bpbind, sqfsimg
from vlib import VERIF, Evidence, Reporter, run_tlc, write_cfg, scratch, SEED, sh

PID = "C05"
CHECKS = ["MetaSizeChecked", "InodeTypeChecked", "DirCountChecked", "NameSizeChecked", "FragIdxChecked", "FragBoundsChecked",
          "DiskSizeCheckedRead", "DiskSizeCheckedStream", "LoopCheckedTree", "LoopCheckedIter", "XattrIdxChecked", "IdIdxChecked",
          "TableBoundsChecked", "LongLinkBySize", "FragSumNoWrap", "XattrAbsenceChecked", "XattrKvChecked"]
BS = 4096


def base_tree(plan):
    data = bytes((i * 7) % 251 for i in range(2 * BS + 300))
    f = {"kind": "file", "name": b"f", "data": data, "mode": 0o644, "xattrs": {b"user.k": b"vvvvvvvv"}, "uid": 3}
    g = {"kind": "file", "name": b"g", "data": b"small tail", "mode": 0o600}
    lnk = {"kind": "slink", "name": b"l", "target": b"../g"}
    # enough inode bytes behind the symlink for an oversized target to stay inside the table
    pads = [{"kind": "file", "name": b"p%02d" % i, "data": b"", "mode": 0o600} for i in range(40)]
    sub = {"kind": "dir", "name": b"sub", "mode": 0o755, "children": [lnk] + pads, "id": "sub"}
    d = {"kind": "dir", "name": b"d", "mode": 0o755, "children": [g, sub], "id": "d"}
    root = {"kind": "dir", "name": b"", "mode": 0o755, "children": [f, d], "id": "root"}
    so = {}
    v = plan["super_block_size"]
    if v == "zero":
        so.update(block_size=0)
    elif v == "notpow2":
        so.update(block_size=12345)
    elif v == "huge":
        so.update(block_size=1 << 30, block_log=30)
    v = plan["super_id_count"]
    if v == "zero":
        so.update(id_count=0)
    elif v == "huge":
        so.update(id_count=65535)
    if plan["inode_type"] == "bad":
        g["o_type"] = 15
    if plan["dir_size"] == "huge":
        d["o_size"] = 0xFFF0
    if plan["name_size"] == "huge":
        g["o_namesize"] = 0xFFF0
    if plan["entry_ref"] == "nowhere":
        sub["children"].append({"link": "root", "name": b"zz", "o_offset": 8190, "etype": 2})
    elif plan["entry_ref"] == "ancestor":
        sub["children"].append({"link": "d", "name": b"zz", "etype": 1})
    elif plan["entry_ref"] == "self":
        sub["children"].append({"link": "sub", "name": b"zz", "etype": 1})
    if plan["blk_word"] == "oversize":
        f["o_words"] = [(1 << 24) | 7000, 7000]
    if plan["blk_count"] == "huge_filesize":
        f["o_size"] = (1 << 40) + 5
        f["ext"] = True
    if plan["frag_idx"] == "outofrange":
        f["o_frag"] = (99, 0)
    if plan["frag_off"] == "beyond":
        f["o_frag"] = (0, 4000)
    elif plan["frag_off"] == "wrap":
        f["o_frag"] = (0, 0xFFFFFFF0)
    if plan["xattr_idx"] == "outofrange":
        f["o_xattr_idx"] = 500
        f["ext"] = True
    if plan["id_idx"] == "outofrange":
        g["o_uid_idx"] = 999
    if plan.get("xattr_table") == "absent":
        so.update(xattr_tbl=0xFFFFFFFFFFFFFFFF)
    if plan["slink_size"] == "beyond_string":
        lnk["o_target_size"] = 600
    elif plan["slink_size"] == "huge":
        lnk["o_target_size"] = 0x00FFFFF0      # 16 MiB: allocation succeeds (also under ASan), the read runs off the inode table
    return root, so


def concretise(plan):
    root, so = base_tree(plan)
    raw, info = sqfsimg.encode(root, {"frag": True, "block_size": BS, "super_overrides": so})
    raw = bytearray(raw)
    sup = info["super"]
    ts = plan["table_start"]
    if ts == "beyond":
        struct.pack_into("<Q", raw, 48, len(raw) + 1000)          # id table start
    elif ts == "self":
        struct.pack_into("<Q", raw, 80, 0)                        # fragment table start -> superblock
    if plan["meta_hdr_size"] == "over8k":
        struct.pack_into("<H", raw, sup["inode_tbl"], 0x8000 | 9000)
    xk = plan.get("xattr_kv", "ok")
    if xk != "ok" and sup["xattr_tbl"] != sqfsimg.INVALID64:
        kvs = struct.unpack_from("<Q", raw, sup["xattr_tbl"])[0]
        ent = kvs + 2                                   # behind the metadata block header: type u16, key size u16, key, value size u32, value
        ksz = struct.unpack_from("<H", raw, ent + 2)[0]
        voff = ent + 4 + ksz
        if xk == "prefix_bad":
            struct.pack_into("<H", raw, ent, 0x0055)
        elif xk == "key_huge":
            struct.pack_into("<H", raw, ent + 2, 0xFFF0)
        elif xk == "val_huge":
            struct.pack_into("<I", raw, voff, 0xFFFFFF00)
        elif xk == "ool_oob":
            struct.pack_into("<H", raw, ent, struct.unpack_from("<H", raw, ent)[0] | 0x0100)
            struct.pack_into("<IQ", raw, voff, 8, (0xFFFFFFFF << 16) | 5)
        elif xk == "count_huge":
            idloc = struct.unpack_from("<Q", raw, sup["xattr_tbl"] + 16)[0]
            struct.pack_into("<I", raw, idloc + 2 + 8, 0x00FFFFFF)
    if plan["dir_count"] == "over256":
        # first directory header of the directory table: count field
        struct.pack_into("<I", raw, sup["dir_tbl"] + 2, 5000)
    return bytes(raw), sorted(set(info["exports"].values()))


def api_script(refs):
    """every reader API call of harness/replay_readers.c on every inode reference of the image"""
    ops = ["M 0 0 0 64", "M 0 0 8000 400", "M 1 0 0 64", "M 0 99999 0 8", "P f", "P d/g", "P d/sub/l", "P d/sub/zz/zz/zz"]
    # seeks into the block that is already cached, beyond what it holds, with reads that run past the 8 KiB buffer
    for tbl in (0, 1):
        for off in (100, 1000, 2000, 4096, 8000, 8191):
            ops += ["M %d 0 0 8" % tbl, "M %d 0 %d 8" % (tbl, off), "M %d 0 0 8" % tbl, "M %d 0 %d 9000" % (tbl, off)]
    for r in refs:
        ops += ["I %d" % r, "D %d" % r, "R %d 0 100000" % r, "R %d 4096 300" % r, "R %d 8200 5000" % r, "B %d 0" % r, "B %d 1" % r, "B %d 2" % r,
                "B %d 99" % r, "F %d" % r, "S %d" % r]
    ops += ["I 8190", "I 4294967295", "D 281474976710655"]
    ops += ["X %d" % i for i in (0, 1, 2, 500, 4294967295)] + ["U %d" % i for i in (0, 1, 2, 999, 65535)]
    return "\n".join(ops) + "\n"


API_BIN = [None]


def invocations(tools, img, outdir):
    api = [("api", [API_BIN[0], img, img + ".ops"])] if API_BIN[0] and os.path.exists(img + ".ops") else []
    return api + [("list", [tools + "/rdsquashfs", "-l", "/", img]), ("describe", [tools + "/rdsquashfs", "-d", img]),
            ("stat", [tools + "/rdsquashfs", "-s", "f", img]), ("cat", [tools + "/rdsquashfs", "-c", "f", img]),
            ("cat2", [tools + "/rdsquashfs", "-c", "d/g", img]), ("xattr", [tools + "/rdsquashfs", "-x", "f", img]),
            ("unpack", [tools + "/rdsquashfs", "-q", "-u", "/", "-p", outdir, img]), ("sqfs2tar", [tools + "/sqfs2tar", img]),
            ("sqfsdiff", [tools + "/sqfsdiff", "-a", img, "-b", img])]


def observe(tools, img, outdir):
    res = {}
    for name, cmd in invocations(tools, img, outdir):
        shutil.rmtree(outdir, ignore_errors=True)
        os.makedirs(outdir)
        try:
            p = subprocess.run(cmd, stdout=(subprocess.PIPE if name == "api" else subprocess.DEVNULL), stderr=subprocess.PIPE, timeout=(30 if name == "api" else 10),
                               env=dict(os.environ, ASAN_OPTIONS="detect_leaks=0:abort_on_error=0:allocator_may_return_null=1:max_allocation_size_mb=512"))
            rc, err = p.returncode, p.stderr.decode(errors="replace")
        except subprocess.TimeoutExpired:
            rc, err = 124, ""
        if rc == 124:
            res[name] = "timeout"
        elif "ERROR: AddressSanitizer" in err or "runtime error" in err:
            kind = "asan"
            for k in ("heap-buffer-overflow", "stack-buffer-overflow", "SEGV", "heap-use-after-free", "stack-overflow", "allocation-size-too-big", "out of memory"):
                if k in err:
                    kind = "asan:" + k.replace(" ", "-")
                    break
            # an allocation request ASan refuses or cannot satisfy is the sanitizer's stand-in for malloc returning NULL (the
            # "WARNING: ... failed to allocate" lines of allocator_may_return_null are not errors at all): not a memory error
            res[name] = "error" if kind in ("asan:allocation-size-too-big", "asan:out-of-memory") else kind
        elif rc < 0 or rc in (134, 139):
            res[name] = "signal"
        else:
            res[name] = "ok" if rc == 0 else "error"
            if name == "api":
                # every call is made on readers with a history and on fresh ones: a different answer means a reader handed out
                # bytes that are not (any more) valid contents of its buffer
                for line in p.stdout.decode(errors="replace").split("\n"):
                    if line.startswith('{"i"'):
                        try:
                            x = json.loads(line)
                        except ValueError:
                            continue
                        if x["h"] != x["f"]:
                            res[name] = "stale:%s h=%s f=%s" % (x["op"], x["h"][:3], x["f"][:3])
                            break
    shutil.rmtree(outdir, ignore_errors=True)
    return res


def table_images(work):
    """one image per class of spec/TableLoad.tla and per table: the step of the loader that fails"""
    okplan = {k: "ok" for k in ["super_block_size", "super_id_count", "table_start", "meta_hdr_size", "inode_type", "dir_count", "dir_size", "name_size",
                                "entry_ref", "blk_word", "blk_count", "frag_idx", "frag_off", "xattr_idx", "id_idx", "slink_size", "xattr_table"]}
    root, so = base_tree(okplan)
    raw, info = sqfsimg.encode(root, {"frag": True, "block_size": BS, "pad": 0})
    sup = info["super"]
    # the same tree without xattrs and without fragments (class "none")
    root2, _ = base_tree(okplan)
    root2["children"][0].pop("xattrs")
    raw_nox, _ = sqfsimg.encode(root2, {"frag": True, "block_size": BS, "pad": 0})
    raw_nofrag, _ = sqfsimg.encode(root, {"frag": False, "block_size": BS, "pad": 0})
    SUPOFF = {"id": 48, "xattr": 56, "frag": 80}
    imgs = {}

    def put(kind, cls, data):
        p = "%s/tl_%s_%s.sqfs" % (work, kind, cls)
        open(p, "wb").write(bytes(data))
        imgs.setdefault(kind, {})[cls] = p

    for kind, tbl in (("xattr", "xattr"), ("idtable", "id"), ("fragtable", "frag"), ("datareader", "frag")):
        start = sup[tbl + "_tbl"]
        listoff = start + (16 if tbl == "xattr" else 0)
        loc0 = struct.unpack_from("<Q", raw, listoff)[0]
        put(kind, "ok", raw)
        if kind == "xattr":
            put(kind, "none", raw_nox)
        elif kind != "idtable":
            put(kind, "none", raw_nofrag)
        b = bytearray(raw)
        struct.pack_into("<Q", b, SUPOFF[tbl], len(raw) + 1000)
        put(kind, "start_oob", b)
        if kind == "xattr":
            b = bytearray(raw[:start + 6])                    # the 16 byte header of the id table is cut
            struct.pack_into("<Q", b, 40, len(b))
            put(kind, "hdr_cut", b)
            b = bytearray(raw[:listoff + 4])                  # header complete, location list cut
            struct.pack_into("<Q", b, 40, len(b))
            put(kind, "list_cut", b)
        elif kind == "idtable":
            b = bytearray(raw)
            struct.pack_into("<H", b, 26, 60000)              # id count: 30 blocks, the location list runs off the file
            assert start + 8 * 30 > len(raw)
            put(kind, "list_cut", b)
        else:
            b = bytearray(raw)
            struct.pack_into("<I", b, 16, 70000)              # fragment count: 137 blocks, the location list runs off the file
            assert start + 8 * 137 > len(raw)
            put(kind, "list_cut", b)
        b = bytearray(raw)
        struct.pack_into("<Q", b, listoff, len(raw) + 1000)
        put(kind, "entry_oob", b)
        if kind != "xattr":
            b = bytearray(raw)
            struct.pack_into("<H", b, loc0, 0x8000 | 9000)    # the metadata block claims more than 8 KiB
            put(kind, "block_bad", b)
    return imgs


def table_load_stage(work, rep, ev, tier, cfg, tools=None):
    """spec/TableLoad.tla: loads of good and hostile images into ONE reader object, queries in between, destructor.
    R: every program TLC emits on the real xattr reader / id table / fragment table / data reader (ASan + LSan)."""
    kinds = ["xattr", "idtable", "fragtable", "datareader"]
    MO = 3 if tier == "quick" else 4
    base = {"MaxOps": MO, "Emit": False, "FailKeepsPointer": False, "ReloadSkipsCleanup": False, "QueryChecksLoaded": True}
    progs = {}
    for k in kinds:
        write_cfg(cfg, spec="Spec", constants=dict(base, Kind='"%s"' % k), invariants=["MemorySafe", "NoDangling"], deadlock=False)
        r = run_tlc("TableLoad", cfg, workers=4, timeout=600)
        ev.tlc(r, "TableLoad %s ops<=%d" % (k, MO))
        if not r["ok"]:
            print("MODEL-FAILURE: TableLoad(%s) violates %s" % (k, r["violated"]))
            return None
        write_cfg(cfg, spec="Spec", constants=dict(base, Kind='"%s"' % k, Emit=True), invariants=["EmitOK"], deadlock=False)
        r = run_tlc("TableLoad", cfg, workers=2, timeout=600)
        progs[k] = bpbind.parse_emitted(r["out"])
        if len(progs[k]) < 100:
            print("SELF-CHECK-FAILED: TableLoad(%s) emitted %d programs" % (k, len(progs[k])))
            return None
    for dev, inv in (("FailKeepsPointer", "NoDangling"), ("ReloadSkipsCleanup", "MemorySafe"), ("QueryChecksLoaded", "MemorySafe")):
        c = dict(base, Kind='"xattr"')
        c[dev] = not c[dev]
        write_cfg(cfg, spec="Spec", constants=c, invariants=["MemorySafe", "NoDangling"], deadlock=False)
        r = run_tlc("TableLoad", cfg, workers=4, timeout=600)
        ev.tlc(r, "dev TableLoad " + dev)
        if r["violated"] not in ("MemorySafe", "NoDangling"):
            print("SELF-CHECK-FAILED: TableLoad deviation %s without counterexample" % dev)
            return None
    binp = work + "/replay_tableload"
    if not build.compile_harness(VERIF + "/harness/replay_tableload.c", binp, variant="asan"):
        raise RuntimeError("harness build failed")
    imgs = table_images(work)
    jobs = [(k, p) for k in kinds for p in progs[k]]

    def do(j):
        k, p = jobs[j]
        prog = ",".join(("L" + op[1]) if op[0] == "load" else "Q" for op in p["prog"])
        cmd = ["timeout", "20", binp, k, prog] + ["%s=%s" % (c, f) for c, f in imgs[k].items()]
        q = subprocess.run(cmd, capture_output=True, text=True,
                           env=dict(os.environ, ASAN_OPTIONS="detect_leaks=1:allocator_may_return_null=1:max_allocation_size_mb=512"))
        return j, q.returncode, q.stdout, q.stderr
    n, drift, seen = 0, [], set()
    with ThreadPoolExecutor(16) as ex:
        for j, rc, out, err in ex.map(do, range(len(jobs))):
            n += 1
            k, p = jobs[j]
            what = None
            if "ERROR: AddressSanitizer" in err and "allocation-size-too-big" not in err and "out of memory" not in err:
                what = "memory error"
            elif "ERROR: LeakSanitizer" in err:
                what = "leak"
            elif rc == 124:
                what = "hang"
            elif rc != 0:
                what = "harness exits %d: %s" % (rc, err[-200:])
            if what:
                key = "tableload-%s-%s" % (k, what.split()[0])
                if key not in seen:
                    seen.add(key)
                    m = re.search(r"ERROR: AddressSanitizer: ([\w-]+)", err)
                    rep.violation(key, "%s reader object, operations %s (L<class> = load an image of that class, Q = query, then destroy): %s %s"
                                  % (k, [o[-1] if o[0] == "load" else "Q" for o in p["prog"]], what, m.group(1) if m else ""), data={"kind": k, "prog": p["prog"], "stderr": err[-1500:]})
                continue
            try:
                ans = json.loads(out)["answers"]
            except Exception:
                rep.violation("tableload-%s-noanswer" % k, "%s reader: no answer for %s" % (k, p["prog"]))
                continue
            got = ["ok" if a == "ok" else "err" for a in ans]
            if got != p["answers"]:
                drift.append((k, p["prog"], got, p["answers"]))
    # the same images through the tools: the error exit of the loader is followed by the tool's own clean-up
    if tools:
        flat = sorted({f for k in imgs for f in imgs[k].values()})

        def obs(f):
            return f, observe(tools, f, f + ".out")
        with ThreadPoolExecutor(16) as ex:
            for f, res in ex.map(obs, flat):
                n += len(res)
                for c, o in res.items():
                    if o not in ("ok", "error"):
                        rep.violation("tableload-tool-%s-%s" % (c, o.split(":")[0]), "%s on %s (table loader class image): %s" % (c, os.path.basename(f), o), artefact=f)
    ev.set("table_load_programs_replayed", n)
    ev.set("table_load_answers_that_differ_from_the_model(spec drift, no alarm)", len(drift))
    if drift:
        print("SPEC-DRIFT (no alarm): %d answer sequences of the real table loaders differ from TableLoad.tla, e.g. %s" % (len(drift), json.dumps(drift[0])[:300]))
    return n


def comp_opts_hostile_stage(work, rep, ev, tier, tools):
    """spec/CompOpts.tla, reader side: hostile option records (field classes of gzip / xz / lz4 / zstd + header faults) on the real read_options
    (ASan) and, planted in a real image, on the tools: refused or taken as the model says, never a memory error; a taken record leaves the
    configuration the record states."""
    import compopt_bind
    mc = compopt_bind.model_check(work, ev, 1)
    if mc is None:
        return None
    _, hostile = mc
    if len(hostile) < 700:
        print("SELF-CHECK-FAILED: CompOpts emitted %d hostile records" % len(hostile))
        return None
    read = compopt_bind.reader(work, "c05")
    jobs = []

    def with_header(b, cls):
        n = len(b) - 2
        word = {"ok": 0x8000 | n, "shorter": 0x8000 | (n - 1), "longer": 0x8000 | (n + 1), "fills64": 0x8000 | 63, "block8k": 0x8000 | 8192 if False else 0x8000 | 8191,
                "max": 0xFFFF, "compressed": n}[cls]
        return struct.pack("<H", word & 0xFFFF) + b[2:]
    for h in hostile:
        r = h["r"]
        if h["h"] != "ok" and not (r.get("level", 1) in (1, 3, 22) or r.get("dict") == 8192 or r.get("version") == 1):
            continue                                     # header faults on a sample of the field classes
        jobs.append((r, h["ok"], with_header(compopt_bind.encode(r), h["h"]), h["h"]))
    # planted in a real image of that compressor (the tools must survive whatever they make of it)
    base, BASE_START = {}, {}
    os.makedirs(work + "/coh/t", exist_ok=True)
    open(work + "/coh/t/f", "wb").write(b"some content\n" * 3000)
    for comp, x in (("gzip", "level=3"), ("xz", "x86"), ("lz4", "hc"), ("zstd", "level=3")):
        img = "%s/coh/%s.sqfs" % (work, comp)
        rc, o, e = sh([tools + "/gensquashfs", "-q", "-f", "-c", comp, "-X", x, "-D", work + "/coh/t", img], timeout=60)
        if rc:
            raise RuntimeError("cannot pack base image for %s: %s" % (comp, e[-200:]))
        base[comp] = open(img, "rb").read()
        BASE_START[comp] = sqfsimg.SqfsImage(base[comp]).data_start

    def do(j):
        r, ok, b, how = jobs[j]
        comp = r["kind"]
        res = read(comp, 131072, b, j)
        out = []
        if res.get("crash"):
            out.append(("compopt-memory-error", "read_options(%s) on record %s: %s" % (comp, b.hex(), res["crash"][-200:])))
        elif res.get("create"):
            out.append(("harness", "cannot create %s" % comp))
        else:
            if (res["read"] == 0) != ok:
                out.append(("compopt-record-judged", "read_options(%s) on record %s (%s, %s): %s, the specification says %s"
                            % (comp, b.hex(), r, how, "accepted" if res["read"] == 0 else "refused (%d)" % res["read"], "accept" if ok else "refuse")))
            elif ok and how == "ok":
                if comp == "gzip" and (res["level"], res["window"], res["flags"]) != (r["level"], r["window"], compopt_bind.bits(r["flags"])):
                    out.append(("compopt-config", "read_options(gzip) on %s leaves %s" % (r, res)))
                if comp == "xz" and (res["dict"], res["flags"]) != (r["dict"], compopt_bind.bits(r["flags"])):
                    out.append(("compopt-config", "read_options(xz) on %s leaves %s" % (r, res)))
        raw = bytearray(base[comp])
        if len(b) == BASE_START[comp] - 96:
            raw[96:96 + len(b)] = b
            p = "%s/coh/h%d.sqfs" % (work, j)
            open(p, "wb").write(raw)
            for inv in (["rdsquashfs", "-c", "f", p], ["sqfs2tar", p], ["sqfsdiff", "-a", p, "-b", p]):
                rc, o, e = sh([tools + "/" + inv[0]] + inv[1:], timeout=20)
                if rc < 0 or rc == 124 or b"ERROR: AddressSanitizer" in e:
                    out.append(("reader-%s-compopt" % inv[0], "%s on an image with the option record %s: %s" % (inv[0], b.hex(), "hang" if rc == 124 else e.decode(errors="replace")[-200:] or "signal %d" % -rc)))
            os.unlink(p)
        return out
    n, seen, drift = 0, set(), []
    with ThreadPoolExecutor(16) as ex:
        for outs in ex.map(do, range(len(jobs))):
            n += 1
            for kind, what in outs:
                if kind == "harness":
                    raise RuntimeError(what)
                if kind in ("compopt-record-judged", "compopt-config"):
                    # which records the reader takes is the model's description of the code, not part of C05 (terminate, no memory error)
                    if kind not in seen:
                        print("SPEC-DRIFT (no alarm): %s" % what)
                    seen.add(kind)
                    drift.append(what)
                    continue
                if kind not in seen:
                    seen.add(kind)
                    rep.violation(kind, what)
    ev.set("hostile_option_records", n)
    ev.set("option_record_drift", drift[:5])
    return n


def deep_image_stage(work, rep, ev, tier):
    """valid images with very deep directory nesting (one chain of n directories, written by gensquashfs itself): the readers build and walk the
    tree recursively.  Plain build, stack limit pinned to the usual 8 MiB so that the outcome is the same in every environment."""
    import resource
    tools = build.build("plain") + "/bin"
    lim = lambda: resource.setrlimit(resource.RLIMIT_STACK, (8 << 20, 8 << 20))
    n_runs = 0
    for n in (2000, 200000):
        pf = "%s/deep%d.txt" % (work, n)
        open(pf, "w").write("dir " + "/".join(["a"] * n) + " 0755 0 0\n")
        img = "%s/deep%d.sqfs" % (work, n)
        q = subprocess.run([tools + "/gensquashfs", "-q", "-f", "-F", pf, img], capture_output=True, timeout=300, preexec_fn=lim)
        if q.returncode != 0:
            raise RuntimeError("cannot pack the nesting image %d: %s" % (n, q.stderr[-200:]))
        un = "%s/deep_un%d" % (work, n)
        for name, cmd in (("rdsquashfs-list", ["rdsquashfs", "-l", "/", img]), ("rdsquashfs-describe", ["rdsquashfs", "-d", img]),
                          ("rdsquashfs-stat", ["rdsquashfs", "-s", "a/a/a", img]), ("rdsquashfs-unpack", ["rdsquashfs", "-q", "-u", "/a/a", "-p", un, img]),
                          ("sqfsdiff", ["sqfsdiff", "-a", img, "-b", img])):
            if name == "rdsquashfs-unpack" and n > 2000:
                continue                                  # 200 000 nested directories on the host: not worth the disk churn; the tree is read the same way as for -d
            try:
                p = subprocess.run([tools + "/" + cmd[0]] + cmd[1:], stdout=subprocess.DEVNULL, stderr=subprocess.PIPE, timeout=300, preexec_fn=lim)
                rc = p.returncode
            except subprocess.TimeoutExpired:
                rc = 124
            n_runs += 1
            if rc < 0 or rc in (134, 139):
                rep.violation("reader-%s-signal-nesting-%d" % (name, n), "%s on a VALID image with %d nested directories (written by gensquashfs): dies on signal %d - stack exhaustion "
                              "in the recursive tree reader / walker" % (name, n, -rc if rc < 0 else rc - 128), data={"components": n, "invocation": cmd[:-1]})
            elif rc == 124:
                rep.violation("reader-%s-hang-nesting-%d" % (name, n), "%s on a valid image with %d nested directories does not finish within 300 s" % (name, n), data={"components": n})
        subprocess.run(["rm", "-rf", un])                 # (shutil.rmtree is recursive as well)
        for f in (pf, img):
            os.unlink(f)
    ev.set("deep_nesting_reader_runs", n_runs)
    return n_runs


def run(tier):
    ev = Evidence(PID, tier, "exploration")
    rep = Reporter(PID, ev)
    work = scratch("c05")
    tools = build.build("asan") + "/bin"
    rng = random.Random(SEED)
    API_BIN[0] = work + "/replay_readers"
    if not build.compile_harness(VERIF + "/harness/replay_readers.c", API_BIN[0], variant="asan"):
        print("harness build failed")
        return 2
    cfg = work + "/r.cfg"
    allc = {k: True for k in CHECKS}
    allc["Emit"] = False
    write_cfg(cfg, spec="Spec", constants=allc, invariants=["Safe"], deadlock=False)
    r = run_tlc("ImageReader", cfg, workers=16, timeout=900)
    ev.tlc(r, "ImageReader (all checks present)")
    if not r["ok"]:
        print("MODEL-FAILURE: ImageReader violates %s" % r["violated"])
        ev.write()
        return 2
    devres = {}
    for chk in CHECKS:
        c = dict(allc)
        c[chk] = False
        write_cfg(cfg, spec="Spec", constants=c, invariants=["Safe"], deadlock=False)
        r = run_tlc("ImageReader", cfg, workers=4, timeout=300)
        ev.tlc(r, "dev not " + chk)
        devres["missing:" + chk] = bool(r["violated"])
    ev.set("deviations", devres)
    if not all(devres.values()):
        print("SELF-CHECK-FAILED: deviation without counterexample: %s" % devres)
        ev.write()
        return 2
    c = dict(allc)
    c["Emit"] = True
    write_cfg(cfg, spec="Spec", constants=c, invariants=["EmitOK"], deadlock=False)
    r = run_tlc("ImageReader", cfg, workers=4, timeout=600)
    ev.tlc(r, "ImageReader emit")
    plans = bpbind.parse_emitted(r["out"])
    singles = [p for p in plans if sum(1 for v in p["plan"].values() if v != "ok") <= 1]
    pairs = [p for p in plans if p not in singles]
    rng.shuffle(pairs)
    if tier == "quick":
        pairs = pairs[:60]
    sel = singles + pairs
    evaluations = 0
    outcomes = {}
    drift = []

    def do(i):
        p = sel[i]
        img = "%s/h%d.sqfs" % (work, i)
        raw, refs = concretise(p["plan"])
        open(img, "wb").write(raw)
        open(img + ".ops", "w").write(api_script(refs))
        o = observe(tools, img, "%s/out%d" % (work, i))
        return i, o, img

    with ThreadPoolExecutor(max_workers=16) as ex:
        for i, o, img in ex.map(do, range(len(sel))):
            evaluations += 1
            plan = {k: v for k, v in sel[i]["plan"].items() if v != "ok"}
            outcomes[json.dumps(plan, sort_keys=True)] = o
            if i < 3:
                ev.sample({"kind": "corruption-plan", "plan": plan, "observed": o, "model": sel[i]["outcome"]}, limit=5)
            for inv, res in o.items():
                if res in ("ok", "error"):
                    continue
                fields = "+".join("%s=%s" % kv for kv in sorted(plan.items()))
                key = "reader-%s-%s-%s" % (inv, res.split(":")[0], fields)
                keep = "%s/keep_%d.sqfs" % (work, i)
                shutil.copy(img, keep)
                rep.violation(key, "%s on an image with %s: %s" % (inv, plan or "no corruption", res), artefact=keep,
                              data={"plan": plan, "invocation": inv, "observed": res})
            # tier B: the model says 'reject' but every tool accepted, or vice versa (informational)
            m = sel[i]["outcome"]
            if m.get("list") == "reject" and all(v == "ok" for v in o.values()):
                drift.append(plan)
            os.unlink(img)
            os.unlink(img + ".ops")
    ev.set("model_predicts_reject_but_all_tools_accept(tier B, informational)", drift[:10])
    # ---- seeded bit flips on real compressed images -------------------------------------------------------
    plain = build.build("plain") + "/bin"
    import gen
    s = gen.standard_scenarios(work, rng, bs=4096)
    nflip = 240 if tier == "quick" else 3000
    srcs = []
    for si, comp in ((1, "gzip"), (4, "xz"), (5, "zstd"), (2, "lz4")):
        out = "%s/real_%s.sqfs" % (work, comp)
        rc, o, e = sh([plain + "/gensquashfs", "-q", "-f", "-c", comp, "-b", "4096", "-F", s[si].packfile(), out], timeout=60)
        if rc == 0:
            srcs.append(open(out, "rb").read())

    def flip(i):
        r2 = random.Random(SEED * 991 + i)
        data = bytearray(srcs[i % len(srcs)])
        img = sqfsimg.SqfsImage(bytes(data))
        lo, hi = (0, 96) if i % 7 == 0 else (img.super["inode_tbl"], img.super["bytes_used"])
        for _ in range(r2.choice([1, 1, 2, 4])):
            pos = r2.randrange(lo, hi)
            if r2.random() < 0.5:
                data[pos] ^= 1 << r2.randrange(8)
            else:
                data[pos] = r2.choice([0, 0xFF, 0x80, 0x7F])
        p = "%s/flip%d.sqfs" % (work, i)
        open(p, "wb").write(data)
        open(p + ".ops", "w").write(api_script(sorted((b << 16) | o for (b, o) in img.by_ref)[:40]))
        return i, observe(tools, p, "%s/fo%d" % (work, i)), p

    with ThreadPoolExecutor(max_workers=16) as ex:
        for i, o, p in ex.map(flip, range(nflip)):
            evaluations += 1
            for inv, res in o.items():
                if res not in ("ok", "error"):
                    keep = "%s/keepflip_%d.sqfs" % (work, i)
                    shutil.copy(p, keep)
                    rep.violation("reader-%s-%s-bitflip" % (inv, res.split(":")[0]), "%s on a bit-flipped real image (seed %d): %s" % (inv, SEED * 991 + i, res),
                                  artefact=keep, data={"seed": SEED * 991 + i, "invocation": inv})
            os.unlink(p)
    tn = table_load_stage(work, rep, ev, tier, cfg, tools)
    if tn is None:
        ev.write()
        return 2
    evaluations += tn
    hn = comp_opts_hostile_stage(work, rep, ev, tier, tools)
    if hn is None:
        ev.write()
        return 2
    evaluations += hn
    evaluations += deep_image_stage(work, rep, ev, tier)
    ev.set("evaluations", evaluations)
    ev.set("distinct_nontrivial", len(outcomes) + nflip)
    ev.set("rule", "structured: every plan with one corrupted field and %s plans with two (of %d), each encoded as an image and given to 9 tool invocations; "
                   "unstructured: %d seeded bit flips of real images; non-trivial = at least one field differs from a valid image" % ("60 sampled" if tier == "quick" else "all", len(plans), nflip))
    ev.set("exhaustive", False)
    ev.set("traces_validated_against_impl", evaluations)
    ev.assumptions += ["only field-structured corruptions and sparse bit flips are explored - no coverage-guided byte mutation (outside this technique)",
                       "ASan detects out-of-bounds accesses on the executed paths; 10 s per invocation counts as a hang"]
    shutil.rmtree(work, ignore_errors=True)
    return rep.finish()


def replay(path):
    d = json.load(open(path))
    print(json.dumps(d, indent=1)[:3000])
    return run("quick")
