"""C05 - reading an untrusted image never corrupts memory, hangs or aborts.
Spec: spec/ImageReader.tla - catalogue of reader steps over an adversarial image (fields x hostile value
classes, plans of <=2 corrupted fields; each step rejects, or accesses a buffer with explicit length and
capacity, or recurses); Safe = no overflow, no unbounded recursion.  Binding R: every plan TLC enumerates is
concretised by the independent encoder (uncompressed metadata, arbitrary field values) and fed to the ASan
builds of rdsquashfs (-l -d -s -c -x -u), sqfs2tar and sqfsdiff under a time-out; the observed outcome must
never be a signal, a sanitizer report or a time-out.  Seeded bit flips of real (compressed) images on top."""
import json, os, random, shutil, struct, subprocess, sys
from concurrent.futures import ThreadPoolExecutor
import vlib, build, bpbind, sqfsimg
from vlib import VERIF, Evidence, Reporter, run_tlc, write_cfg, scratch, SEED, sh

PID = "C05"
CHECKS = ["MetaSizeChecked", "InodeTypeChecked", "DirCountChecked", "NameSizeChecked", "FragIdxChecked", "FragBoundsChecked",
          "DiskSizeCheckedRead", "DiskSizeCheckedStream", "LoopCheckedTree", "LoopCheckedIter", "XattrIdxChecked", "IdIdxChecked",
          "TableBoundsChecked", "LongLinkBySize", "FragSumNoWrap", "XattrAbsenceChecked"]
BS = 4096


def base_tree(plan):
    data = bytes((i * 7) % 251 for i in range(2 * BS + 300))
    f = {"kind": "file", "name": b"f", "data": data, "mode": 0o644, "xattrs": {b"user.k": b"v"}, "uid": 3}
    g = {"kind": "file", "name": b"g", "data": b"small tail", "mode": 0o600}
    lnk = {"kind": "slink", "name": b"l", "target": b"../g"}
    # enough inode bytes behind the symlink for an oversized target to stay inside the table
    pads = [{"kind": "file", "name": b"p%02d" % i, "data": b"", "mode": 0o600} for i in range(40)]
    sub = {"kind": "dir", "name": b"sub", "mode": 0o755, "children": [lnk] + pads, "id": "sub"}
    d = {"kind": "dir", "name": b"d", "mode": 0o755, "children": [g, sub], "id": "d"}
    root = {"kind": "dir", "name": b"", "mode": 0o755, "children": [f, d], "id": "root"}
    so = {}
    v = plan["super_block_size"]
    if v == "zero":
        so.update(block_size=0)
    elif v == "notpow2":
        so.update(block_size=12345)
    elif v == "huge":
        so.update(block_size=1 << 30, block_log=30)
    v = plan["super_id_count"]
    if v == "zero":
        so.update(id_count=0)
    elif v == "huge":
        so.update(id_count=65535)
    if plan["inode_type"] == "bad":
        g["o_type"] = 15
    if plan["dir_size"] == "huge":
        d["o_size"] = 0xFFF0
    if plan["name_size"] == "huge":
        g["o_namesize"] = 0xFFF0
    if plan["entry_ref"] == "nowhere":
        sub["children"].append({"link": "root", "name": b"zz", "o_offset": 8190, "etype": 2})
    elif plan["entry_ref"] == "ancestor":
        sub["children"].append({"link": "d", "name": b"zz", "etype": 1})
    elif plan["entry_ref"] == "self":
        sub["children"].append({"link": "sub", "name": b"zz", "etype": 1})
    if plan["blk_word"] == "oversize":
        f["o_words"] = [(1 << 24) | 7000, 7000]
    if plan["blk_count"] == "huge_filesize":
        f["o_size"] = (1 << 40) + 5
        f["ext"] = True
    if plan["frag_idx"] == "outofrange":
        f["o_frag"] = (99, 0)
    if plan["frag_off"] == "beyond":
        f["o_frag"] = (0, 4000)
    elif plan["frag_off"] == "wrap":
        f["o_frag"] = (0, 0xFFFFFFF0)
    if plan["xattr_idx"] == "outofrange":
        f["o_xattr_idx"] = 500
        f["ext"] = True
    if plan["id_idx"] == "outofrange":
        g["o_uid_idx"] = 999
    if plan.get("xattr_table") == "absent":
        so.update(xattr_tbl=0xFFFFFFFFFFFFFFFF)
    if plan["slink_size"] == "beyond_string":
        lnk["o_target_size"] = 600
    elif plan["slink_size"] == "huge":
        lnk["o_target_size"] = 0x00FFFFF0      # 16 MiB: allocation succeeds (also under ASan), the read runs off the inode table
    return root, so


def concretise(plan):
    root, so = base_tree(plan)
    raw, info = sqfsimg.encode(root, {"frag": True, "block_size": BS, "super_overrides": so})
    raw = bytearray(raw)
    sup = info["super"]
    ts = plan["table_start"]
    if ts == "beyond":
        struct.pack_into("<Q", raw, 48, len(raw) + 1000)          # id table start
    elif ts == "self":
        struct.pack_into("<Q", raw, 80, 0)                        # fragment table start -> superblock
    if plan["meta_hdr_size"] == "over8k":
        struct.pack_into("<H", raw, sup["inode_tbl"], 0x8000 | 9000)
    if plan["dir_count"] == "over256":
        # first directory header of the directory table: count field
        struct.pack_into("<I", raw, sup["dir_tbl"] + 2, 5000)
    return bytes(raw), sorted(set(info["exports"].values()))


def api_script(refs):
    """every reader API call of harness/replay_readers.c on every inode reference of the image"""
    ops = ["M 0 0 0 64", "M 0 0 8000 400", "M 1 0 0 64", "M 0 99999 0 8", "P f", "P d/g", "P d/sub/l", "P d/sub/zz/zz/zz"]
    # seeks into the block that is already cached, beyond what it holds, with reads that run past the 8 KiB buffer
    for tbl in (0, 1):
        for off in (100, 1000, 2000, 4096, 8000, 8191):
            ops += ["M %d 0 0 8" % tbl, "M %d 0 %d 8" % (tbl, off), "M %d 0 0 8" % tbl, "M %d 0 %d 9000" % (tbl, off)]
    for r in refs:
        ops += ["I %d" % r, "D %d" % r, "R %d 0 100000" % r, "R %d 4096 300" % r, "R %d 8200 5000" % r, "B %d 0" % r, "B %d 1" % r, "B %d 2" % r,
                "B %d 99" % r, "F %d" % r, "S %d" % r]
    ops += ["I 8190", "I 4294967295", "D 281474976710655"]
    ops += ["X %d" % i for i in (0, 1, 2, 500, 4294967295)] + ["U %d" % i for i in (0, 1, 2, 999, 65535)]
    return "\n".join(ops) + "\n"


API_BIN = [None]


def invocations(tools, img, outdir):
    api = [("api", [API_BIN[0], img, img + ".ops"])] if API_BIN[0] and os.path.exists(img + ".ops") else []
    return api + [("list", [tools + "/rdsquashfs", "-l", "/", img]), ("describe", [tools + "/rdsquashfs", "-d", img]),
            ("stat", [tools + "/rdsquashfs", "-s", "f", img]), ("cat", [tools + "/rdsquashfs", "-c", "f", img]),
            ("cat2", [tools + "/rdsquashfs", "-c", "d/g", img]), ("xattr", [tools + "/rdsquashfs", "-x", "f", img]),
            ("unpack", [tools + "/rdsquashfs", "-q", "-u", "/", "-p", outdir, img]), ("sqfs2tar", [tools + "/sqfs2tar", img]),
            ("sqfsdiff", [tools + "/sqfsdiff", "-a", img, "-b", img])]


def observe(tools, img, outdir):
    res = {}
    for name, cmd in invocations(tools, img, outdir):
        shutil.rmtree(outdir, ignore_errors=True)
        os.makedirs(outdir)
        try:
            p = subprocess.run(cmd, stdout=(subprocess.PIPE if name == "api" else subprocess.DEVNULL), stderr=subprocess.PIPE, timeout=(30 if name == "api" else 10),
                               env=dict(os.environ, ASAN_OPTIONS="detect_leaks=0:abort_on_error=0:allocator_may_return_null=1:max_allocation_size_mb=512"))
            rc, err = p.returncode, p.stderr.decode(errors="replace")
        except subprocess.TimeoutExpired:
            rc, err = 124, ""
        if rc == 124:
            res[name] = "timeout"
        elif "ERROR: AddressSanitizer" in err or "runtime error" in err:
            kind = "asan"
            for k in ("heap-buffer-overflow", "stack-buffer-overflow", "SEGV", "heap-use-after-free", "stack-overflow", "allocation-size-too-big", "out of memory"):
                if k in err:
                    kind = "asan:" + k.replace(" ", "-")
                    break
            # an allocation request ASan refuses or cannot satisfy is the sanitizer's stand-in for malloc returning NULL (the
            # "WARNING: ... failed to allocate" lines of allocator_may_return_null are not errors at all): not a memory error
            res[name] = "error" if kind in ("asan:allocation-size-too-big", "asan:out-of-memory") else kind
        elif rc < 0 or rc in (134, 139):
            res[name] = "signal"
        else:
            res[name] = "ok" if rc == 0 else "error"
            if name == "api":
                # every call is made on readers with a history and on fresh ones: a different answer means a reader handed out
                # bytes that are not (any more) valid contents of its buffer
                for line in p.stdout.decode(errors="replace").split("\n"):
                    if line.startswith('{"i"'):
                        try:
                            x = json.loads(line)
                        except ValueError:
                            continue
                        if x["h"] != x["f"]:
                            res[name] = "stale:%s h=%s f=%s" % (x["op"], x["h"][:3], x["f"][:3])
                            break
    shutil.rmtree(outdir, ignore_errors=True)
    return res


def run(tier):
    ev = Evidence(PID, tier, "exploration")
    rep = Reporter(PID, ev)
    work = scratch("c05")
    tools = build.build("asan") + "/bin"
    rng = random.Random(SEED)
    API_BIN[0] = work + "/replay_readers"
    if not build.compile_harness(VERIF + "/harness/replay_readers.c", API_BIN[0], variant="asan"):
        print("harness build failed")
        return 2
    cfg = work + "/r.cfg"
    allc = {k: True for k in CHECKS}
    allc["Emit"] = False
    write_cfg(cfg, spec="Spec", constants=allc, invariants=["Safe"], deadlock=False)
    r = run_tlc("ImageReader", cfg, workers=16, timeout=900)
    ev.tlc(r, "ImageReader (all checks present)")
    if not r["ok"]:
        print("MODEL-FAILURE: ImageReader violates %s" % r["violated"])
        ev.write()
        return 2
    devres = {}
    for chk in CHECKS:
        c = dict(allc)
        c[chk] = False
        write_cfg(cfg, spec="Spec", constants=c, invariants=["Safe"], deadlock=False)
        r = run_tlc("ImageReader", cfg, workers=4, timeout=300)
        ev.tlc(r, "dev not " + chk)
        devres["missing:" + chk] = bool(r["violated"])
    ev.set("deviations", devres)
    if not all(devres.values()):
        print("SELF-CHECK-FAILED: deviation without counterexample: %s" % devres)
        ev.write()
        return 2
    c = dict(allc)
    c["Emit"] = True
    write_cfg(cfg, spec="Spec", constants=c, invariants=["EmitOK"], deadlock=False)
    r = run_tlc("ImageReader", cfg, workers=4, timeout=600)
    ev.tlc(r, "ImageReader emit")
    plans = bpbind.parse_emitted(r["out"])
    singles = [p for p in plans if sum(1 for v in p["plan"].values() if v != "ok") <= 1]
    pairs = [p for p in plans if p not in singles]
    rng.shuffle(pairs)
    if tier == "quick":
        pairs = pairs[:60]
    sel = singles + pairs
    evaluations = 0
    outcomes = {}
    drift = []

    def do(i):
        p = sel[i]
        img = "%s/h%d.sqfs" % (work, i)
        raw, refs = concretise(p["plan"])
        open(img, "wb").write(raw)
        open(img + ".ops", "w").write(api_script(refs))
        o = observe(tools, img, "%s/out%d" % (work, i))
        return i, o, img

    with ThreadPoolExecutor(max_workers=16) as ex:
        for i, o, img in ex.map(do, range(len(sel))):
            evaluations += 1
            plan = {k: v for k, v in sel[i]["plan"].items() if v != "ok"}
            outcomes[json.dumps(plan, sort_keys=True)] = o
            if i < 3:
                ev.sample({"kind": "corruption-plan", "plan": plan, "observed": o, "model": sel[i]["outcome"]}, limit=5)
            for inv, res in o.items():
                if res in ("ok", "error"):
                    continue
                fields = "+".join("%s=%s" % kv for kv in sorted(plan.items()))
                key = "reader-%s-%s-%s" % (inv, res.split(":")[0], fields)
                keep = "%s/keep_%d.sqfs" % (work, i)
                shutil.copy(img, keep)
                rep.violation(key, "%s on an image with %s: %s" % (inv, plan or "no corruption", res), artefact=keep,
                              data={"plan": plan, "invocation": inv, "observed": res})
            # tier B: the model says 'reject' but every tool accepted, or vice versa (informational)
            m = sel[i]["outcome"]
            if m.get("list") == "reject" and all(v == "ok" for v in o.values()):
                drift.append(plan)
            os.unlink(img)
            os.unlink(img + ".ops")
    ev.set("model_predicts_reject_but_all_tools_accept(tier B, informational)", drift[:10])
    # ---- seeded bit flips on real compressed images -------------------------------------------------------
    plain = build.build("plain") + "/bin"
    import gen
    s = gen.standard_scenarios(work, rng, bs=4096)
    nflip = 240 if tier == "quick" else 3000
    srcs = []
    for si, comp in ((1, "gzip"), (4, "xz"), (5, "zstd"), (2, "lz4")):
        out = "%s/real_%s.sqfs" % (work, comp)
        rc, o, e = sh([plain + "/gensquashfs", "-q", "-f", "-c", comp, "-b", "4096", "-F", s[si].packfile(), out], timeout=60)
        if rc == 0:
            srcs.append(open(out, "rb").read())

    def flip(i):
        r2 = random.Random(SEED * 991 + i)
        data = bytearray(srcs[i % len(srcs)])
        img = sqfsimg.SqfsImage(bytes(data))
        lo, hi = (0, 96) if i % 7 == 0 else (img.super["inode_tbl"], img.super["bytes_used"])
        for _ in range(r2.choice([1, 1, 2, 4])):
            pos = r2.randrange(lo, hi)
            if r2.random() < 0.5:
                data[pos] ^= 1 << r2.randrange(8)
            else:
                data[pos] = r2.choice([0, 0xFF, 0x80, 0x7F])
        p = "%s/flip%d.sqfs" % (work, i)
        open(p, "wb").write(data)
        open(p + ".ops", "w").write(api_script(sorted((b << 16) | o for (b, o) in img.by_ref)[:40]))
        return i, observe(tools, p, "%s/fo%d" % (work, i)), p

    with ThreadPoolExecutor(max_workers=16) as ex:
        for i, o, p in ex.map(flip, range(nflip)):
            evaluations += 1
            for inv, res in o.items():
                if res not in ("ok", "error"):
                    keep = "%s/keepflip_%d.sqfs" % (work, i)
                    shutil.copy(p, keep)
                    rep.violation("reader-%s-%s-bitflip" % (inv, res.split(":")[0]), "%s on a bit-flipped real image (seed %d): %s" % (inv, SEED * 991 + i, res),
                                  artefact=keep, data={"seed": SEED * 991 + i, "invocation": inv})
            os.unlink(p)
    ev.set("evaluations", evaluations)
    ev.set("distinct_nontrivial", len(outcomes) + nflip)
    ev.set("rule", "structured: every plan with one corrupted field and %s plans with two (of %d), each encoded as an image and given to 9 tool invocations; "
                   "unstructured: %d seeded bit flips of real images; non-trivial = at least one field differs from a valid image" % ("60 sampled" if tier == "quick" else "all", len(plans), nflip))
    ev.set("exhaustive", False)
    ev.set("traces_validated_against_impl", evaluations)
    ev.assumptions += ["only field-structured corruptions and sparse bit flips are explored - no coverage-guided byte mutation (outside this technique)",
                       "ASan detects out-of-bounds accesses on the executed paths; 10 s per invocation counts as a hang"]
    shutil.rmtree(work, ignore_errors=True)
    return rep.finish()


def replay(path):
    d = json.load(open(path))
    print(json.dumps(d, indent=1)[:3000])
    return run("quick")
