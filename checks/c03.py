"""C03 - every produced image satisfies the on-disk invariants other readers rely on.
Spec: spec/ImageInv.tla - the format rules as guards of a trace specification over the event log the
independent decoder produces from an image (the image is the writer's append-only log); plus the writer
side invariants of spec/BlockProc.tla (StoredNotLarger, FragTableSane).
Binding T: a representative batch of images is produced by the real gensquashfs / tar2sqfs (scenario
family + boundary classes x all compressors x options), decoded independently and validated by TLC."""
import json, os, random, shutil, subprocess, sys, copy
from concurrent.futures import ThreadPoolExecutor
import vlib, build, bpbind, gen, sqfsimg
from vlib import VERIF, Evidence, Reporter, run_tlc, write_cfg, scratch, SEED, sh
import c01

PID = "C03"


def validate_batches(work, ev, batches, tag):
    """batches: list of (list of (label, events)); returns list of (label, event index, event)"""
    bad = []

    def one(bi):
        items = batches[bi]
        p = "%s/%s_%d.ndjson" % (work, tag, bi)
        with open(p, "w") as f:
            for label, events in items:
                for e in events:
                    f.write(json.dumps(e) + "\n")
        cfg = "%s/%s_%d.cfg" % (work, tag, bi)
        write_cfg(cfg, init="Init", nxt="Next", invariants=["AllImagesValid"], deadlock=False)
        r = run_tlc("ImageInv", cfg, workers=1, timeout=900, env={"TRACE": p}, heap="6g")
        return bi, r, p

    with ThreadPoolExecutor(max_workers=8) as ex:
        for bi, r, p in ex.map(one, range(len(batches))):
            ev.tlc(r, "ImageInv %s batch %d (%d images)" % (tag, bi, len(batches[bi])))
            if r["violated"] == "AllImagesValid":
                flat = [e for _, evs in batches[bi] for e in evs]
                for (img_no, idx) in r["trace"][0]["badEvents"]:
                    label = batches[bi][img_no - 1][0]
                    bad.append((label, idx, flat[idx - 1]))
            elif not r["ok"]:
                raise RuntimeError("ImageInv did not run: %s" % r["out"][-800:])
    return bad


def meta_writer_stage(work, rep, ev, tier):
    """spec/MetaWriter.tla: append / flush / write_to_file sequences on the real metadata writer (both modes); every position get_position()
    hands out names a block start + an offset inside the block, and the real metadata reader finds the appended bytes exactly there; no
    stored block exceeds its content or 8 KiB."""
    M = 4 if tier == "quick" else 5
    INV = ["PositionsResolve", "BlocksFit", "OrderKept"]
    cfg = work + "/mw.cfg"
    cases = []
    for keep in (False, True):
        C = {"Cap": 8, "MaxOps": M, "Emit": False, "Keep": keep, "LazyFlushWhenFull": False, "EmptyFlushEmitsBlock": False}
        write_cfg(cfg, spec="Spec", constants=C, invariants=INV, deadlock=False)
        r = run_tlc("MetaWriter", cfg, workers=8, timeout=1500, heap="8g")
        ev.tlc(r, "MetaWriter keep=%s MaxOps=%d" % (keep, M))
        if not r["ok"]:
            print("MODEL-FAILURE: MetaWriter violates %s" % r["violated"])
            return None
        for dev, want in (("LazyFlushWhenFull", "PositionsResolve"), ("EmptyFlushEmitsBlock", "BlocksFit")):
            write_cfg(cfg, spec="Spec", constants=dict(C, **{dev: True}), invariants=INV, deadlock=False)
            r = run_tlc("MetaWriter", cfg, workers=4, timeout=600)
            ev.tlc(r, "dev MetaWriter %s keep=%s" % (dev, keep))
            if r["violated"] != want:
                print("SELF-CHECK-FAILED: MetaWriter deviation %s: %s" % (dev, r["violated"]))
                return None
        write_cfg(cfg, spec="Spec", constants=dict(C, Emit=True), invariants=["EmitOK"], deadlock=False)
        r = run_tlc("MetaWriter", cfg, workers=8, timeout=1500, heap="8g")
        got = bpbind.parse_emitted(r["out"])
        if len(got) != (7 if keep else 6) ** M:
            print("SELF-CHECK-FAILED: MetaWriter emitted %d call sequences (keep=%s)" % (len(got), keep))
            return None
        cases += [(keep, c) for c in got]
    binp = work + "/replay_metawr"
    if not build.compile_harness(VERIF + "/harness/replay_metawr.c", binp, variant="asan"):
        raise RuntimeError("harness build failed")

    def do(i):
        keep, c = cases[i]
        prog = [("A%d" % e[1]) if e[0] == "A" else e[0] for e in c["log"]]
        f = "%s/mw%d.bin" % (work, i)
        try:
            q = subprocess.run([binp, f, "1" if keep else "0"] + prog, capture_output=True, text=True, timeout=60, env=dict(os.environ, ASAN_OPTIONS="detect_leaks=1"))
        finally:
            if os.path.exists(f):
                os.unlink(f)
        return i, prog, q.returncode, q.stdout, q.stderr
    n, seen, drift = 0, set(), []
    with ThreadPoolExecutor(16) as ex:
        for i, prog, rc, out, err in ex.map(do, range(len(cases))):
            n += 1
            keep, c = cases[i]
            what = None
            if "ERROR: AddressSanitizer" in err or "LeakSanitizer" in err:
                what = ("metawriter-memory", err[err.find("ERROR:"):][:160])
            elif rc != 0:
                what = ("metawriter-crash", "exit %d %s" % (rc, err[-100:]))
            else:
                real = json.loads(out.strip().split("\n")[-1])
                if "err" in real:
                    what = ("metawriter-error", "a call fails with %s" % real["err"])
                elif not real["stored_ok"]:
                    what = ("meta-block-size", "a stored metadata block is empty, larger than its content or than 8 KiB, or the block chain does not end at the end of the file (blocks %s)" % real["blocks"])
                elif any(not a["ok"] or a["blk"] < 0 or not a["cells"] or a["off"] >= 8 for a in real["appends"]):
                    bad = next(a for a in real["appends"] if not a["ok"] or a["blk"] < 0 or not a["cells"] or a["off"] >= 8)
                    what = ("meta-position-dangling", "the position handed out before an append of %d KiB (block #%d, offset %d KiB) does not lead the metadata reader to those bytes"
                            % (bad["n"], bad["blk"], bad["off"]))
                else:
                    wantpos = [[a["pos"][0], a["pos"][1], a["n"]] for a in c["appends"]]
                    gotpos = [[a["blk"], a["off"], a["n"]] for a in real["appends"]]
                    if real["blocks"] != list(c["blocks"]) or real["infile"] != c["infile"] or gotpos != wantpos:
                        drift.append({"keep": keep, "calls": prog, "real": real, "model": {"blocks": c["blocks"], "infile": c["infile"], "pos": wantpos}})
            if what and what[0] not in seen:
                seen.add(what[0])
                rep.violation(what[0], "metadata writer (%s), calls %s: %s" % ("KEEP_IN_MEMORY" if keep else "direct", " ".join(prog), what[1]), data={"keep": keep, "calls": prog})
    if drift:
        print("SPEC-DRIFT (no alarm): %d call sequences leave another block structure than MetaWriter.tla, e.g. %s" % (len(drift), json.dumps(drift[0])[:400]))
    ev.set("meta_writer_sequences_replayed", n)
    ev.set("meta_writer_drift", len(drift))
    return n


def inode_form_stage(work, rep, ev, tier, rng):
    """spec/InodeForm.tla: the basic / extended form of a file inode under every sequence of <= 4 (5) calls of the inode helpers
    and the direct field updates of the block processor and the tree serialiser.  R: every emitted program on the real
    functions, the inode written by the real meta writer and read back by the real meta reader (harness/replay_inode.c):
    every value set last must come back; the form chosen is compared with the model (drift only)."""
    cfg = work + "/if.cfg"
    MO = 4 if tier == "quick" else 5
    base = {"MaxOps": MO, "Emit": False, "BasicChecksSparse": True, "BasicChecksNlink": True, "BasicChecksStart": True, "BasicChecksSize": True, "ExtKeepsFrag": True, "ListOnStack": False, "Kind": '"file"', "IpcExtInitsDevField": True}
    write_cfg(cfg, spec="Spec", constants=base, invariants=["Faithful", "BasicHoldsAll", "NoTruncation", "SerialisesAnyLength"], deadlock=False)
    r = run_tlc("InodeForm", cfg, workers=16, timeout=3000, heap="16g")
    ev.tlc(r, "InodeForm ops<=%d" % MO)
    if not r["ok"]:
        print("MODEL-FAILURE: InodeForm violates %s" % r["violated"])
        return None
    for dev in ("BasicChecksSparse", "BasicChecksNlink", "BasicChecksStart", "BasicChecksSize", "ExtKeepsFrag", "ListOnStack"):
        write_cfg(cfg, spec="Spec", constants=dict(base, MaxOps=3, **{dev: dev == "ListOnStack"}), invariants=["Faithful", "BasicHoldsAll", "NoTruncation", "SerialisesAnyLength"], deadlock=False)
        r = run_tlc("InodeForm", cfg, workers=8, timeout=900)
        ev.tlc(r, "dev InodeForm not " + dev)
        if not r["violated"]:
            print("SELF-CHECK-FAILED: InodeForm deviation %s without counterexample" % dev)
            return None
    write_cfg(cfg, spec="Spec", constants=dict(base, MaxOps=4 if tier != "quick" else 3, Emit=True), invariants=["EmitOK"], deadlock=False)
    r = run_tlc("InodeForm", cfg, workers=4, timeout=3000, heap="16g")
    progs = bpbind.parse_emitted(r["out"])
    # the other inode kinds (directory, symlink, device, fifo / socket): link count + xattr index
    other = []
    for k in ("dir", "slink", "dev", "ipc"):
        write_cfg(cfg, spec="Spec", constants=dict(base, MaxOps=4, Kind='"%s"' % k), invariants=["FaithfulViaSetters", "BasicHoldsAll"], deadlock=False)
        r = run_tlc("InodeForm", cfg, workers=4, timeout=600)
        ev.tlc(r, "InodeForm kind %s" % k)
        if not r["ok"]:
            print("MODEL-FAILURE: InodeForm(%s) violates %s" % (k, r["violated"]))
            return None
        write_cfg(cfg, spec="Spec", constants=dict(base, MaxOps=4, Kind='"%s"' % k, Emit=True), invariants=["EmitOK"], deadlock=False)
        r = run_tlc("InodeForm", cfg, workers=2, timeout=600)
        other += bpbind.parse_emitted(r["out"])
    write_cfg(cfg, spec="Spec", constants=dict(base, MaxOps=2, Kind='"ipc"'), invariants=["Faithful"], deadlock=False)
    r = run_tlc("InodeForm", cfg, workers=2, timeout=600)
    ev.tlc(r, "InodeForm ipc as built: bare make_extended leaves xattr index 0")
    ev.set("ipc_make_extended_quirk_in_the_model", bool(r["violated"]))
    if len(other) < 4000:
        print("SELF-CHECK-FAILED: InodeForm emitted %d programs for the other kinds" % len(other))
        return None
    if len(progs) < 5000:
        print("SELF-CHECK-FAILED: InodeForm emitted %d programs" % len(progs))
        return None
    if tier == "quick" and len(progs) > 12000 and False:
        # keep every program that involves a 64 bit value, a sample of the rest
        hot = [p for p in progs if any(len(o) > 1 and o[1] in ("hi", "max", "huge") for o in p["prog"])]
        rest = [p for p in progs if p not in hot] if len(progs) < 30000 else []
        rng.shuffle(hot); rng.shuffle(rest)
        progs = hot[:9000] + rest[:3000]
    binp = work + "/replay_inode"
    if not build.compile_harness(VERIF + "/harness/replay_inode.c", binp, variant="asan"):
        raise RuntimeError("harness build failed")

    progs = progs + other

    def render(p):
        pre = "" if p.get("kind", "file") == "file" else "kind:%s " % p["kind"]
        return pre + " ".join(o[0] if len(o) == 1 else "%s:%s" % (o[0], o[1]) for o in p["prog"])

    def chunk(ci):
        part = progs[ci::16]
        q = subprocess.run(["timeout", "900", binp, "%s/if%d.bin" % (work, ci)], input="\n".join(render(p) for p in part) + "\n", capture_output=True, text=True,
                           env=dict(os.environ, ASAN_OPTIONS="detect_leaks=1"))
        return part, q
    n, drift, seen = 0, 0, set()
    with ThreadPoolExecutor(16) as ex:
        for part, q in ex.map(chunk, range(16)):
            lines = [l for l in q.stdout.split("\n") if l.startswith("{")]
            if q.returncode != 0 or "ERROR: AddressSanitizer" in q.stderr or len(lines) != len(part):
                if "mem" not in seen:
                    seen.add("mem")
                    import re as _re
                    m = _re.search(r"ERROR: AddressSanitizer: ([\w-]+)", q.stderr)
                    at = render(part[len(lines)]) if len(lines) < len(part) else "?"
                    rep.violation("inode-form-memory", "writing / reading back the file inode after the calls '%s' ends the process (rc %d%s)"
                                  % (at, q.returncode, ", AddressSanitizer: " + m.group(1) if m else ""), data={"prog": at, "stderr": q.stderr[-1500:]})
                continue
            for p, l in zip(part, lines):
                n += 1
                g = json.loads(l)
                want = p["got"]
                if "io" in g:
                    if "io" not in seen:
                        seen.add("io")
                        rep.violation("inode-form-unreadable", "file inode after '%s' cannot be written / read back: error %d" % (render(p), g["io"]), data={"prog": p["prog"]})
                    continue
                lost = [k for k in ("size", "start", "frag", "sparse", "nlink", "xattr") if g[k] != want[k]]
                if lost and p.get("kind", "file") != "file" and any(o[0] == "ext" for o in p["prog"]):
                    drift += 1            # a bare make_extended() on these kinds: no tool does that, the model records what the code does
                    if drift <= 3:
                        print("  (drift sample) '%s': real %s, model %s" % (render(p), {k: g[k] for k in lost}, {k: want[k] for k in lost}))
                elif lost:
                    key = "inode-form-" + lost[0]
                    if key not in seen:
                        seen.add(key)
                        rep.violation(key, "file inode after the calls '%s': %s reads back as %s, set last: %s (form on disk: %s)"
                                      % (render(p), lost, {k: g[k] for k in lost}, {k: want[k] for k in lost}, "extended" if g["ext"] else "basic"), data={"prog": p["prog"], "real": g})
                elif g["ext"] != p["ext"]:
                    drift += 1
    ev.set("inode_form_programs_replayed", n)
    ev.set("inode_forms_that_differ_from_the_model(spec drift, no alarm)", drift)
    if drift:
        print("SPEC-DRIFT (no alarm): %d inode programs end in another form (basic / extended) than InodeForm.tla predicts, all values intact" % drift)
    return n


def dir_writer_stage(work, rep, ev, tier, rng):
    """spec/DirWriter.tla: how a listing is cut into header runs (inode block, 16 bit inode number difference, 256 entries, end of
    the metadata block).  Exhaustive with small constants; with the REAL constants TLC evaluates a family of explicit long
    listings around every limit, and each is written by the real directory writer and decoded again (harness/replay_dirwr.c)."""
    cfg = work + "/dw.cfg"
    small = {"M": 2, "L": 2, "Cap": 12, "Hdr": 2, "Ent": 2, "MaxEntries": 3 if tier == "quick" else 4, "Emit": False, "DeltaLimit": '"both"', "CountLimit": '"M"',
             "BlockChecked": True, "SizeFromOffset": True, "IndexAfterHeader": False}
    sdefs = {"Blocks": "{0, 1}", "Nums": "{1, 2, 3, 4, 5, 6}", "NameLens": "{1, 3}", "Offsets": "{0, 5, 11}", "Explicit": "{}"}
    INV = ["RoundTrip", "CountsOK", "OneBlockPerRun", "RunInsideBlock", "IndexPointsAtHeaders"]
    write_cfg(cfg, spec="Spec", constants=small, defs=sdefs, invariants=INV, deadlock=False)
    r = run_tlc("DirWriter", cfg, workers=8, timeout=1800)
    ev.tlc(r, "DirWriter small constants")
    if not r["ok"]:
        print("MODEL-FAILURE: DirWriter violates %s" % r["violated"])
        return None
    for dev in ({"DeltaLimit": '"plusone"'}, {"CountLimit": '"Mplus1"'}, {"BlockChecked": False}, {"SizeFromOffset": False}, {"IndexAfterHeader": True}):
        write_cfg(cfg, spec="Spec", constants=dict(small, MaxEntries=3, **dev), defs=sdefs, invariants=INV, deadlock=False)
        r = run_tlc("DirWriter", cfg, workers=8, timeout=600)
        ev.tlc(r, "dev DirWriter %s" % dev)
        if not r["violated"]:
            print("SELF-CHECK-FAILED: DirWriter deviation %s without counterexample" % dev)
            return None
    # ---- explicit long listings, real constants ----
    fam = []
    N0 = 100000

    def run_of(n, blk=0, start=N0, step=1, nlen=4):
        return [[blk, start + i * step, nlen] for i in range(n)]
    for n in (1, 255, 256, 257, 511, 512, 513):
        fam.append((0, run_of(n)))
    for d in (32766, 32767, 32768, 32769, 65535, 65536):
        fam.append((0, [[0, N0, 3], [0, N0 + d, 3], [0, N0 + d + 1, 3]]))
        fam.append((0, [[0, N0, 3], [0, N0 - d, 3], [0, N0 - d - 1, 3]]))
        fam.append((0, [[0, N0, 3], [0, N0 + 5, 3], [0, N0 + d, 3], [0, N0 + 6, 3]]))
    fam.append((0, run_of(10) + run_of(10, blk=1, start=N0 + 10) + run_of(10, blk=0, start=N0 + 20)))
    fam.append((0, [[i % 2, N0 + i, 5] for i in range(40)]))
    for off in (0, 1, 12, 8000, 8179, 8180, 8181, 8191):
        for nl in (256, 255, 100):
            for n in (30, 31, 32, 33, 64):
                fam.append((off, run_of(n, nlen=nl)))
    r3 = random.Random(SEED + 3)
    for _ in range(12 if tier == "quick" else 120):
        n = r3.randrange(200, 700)
        num, ents = N0, []
        for i in range(n):
            num += r3.choice([1, 1, 1, 2, 7, -3, 30000, -30000, 40000, -40000])
            num = max(num, 1)
            ents.append([r3.choice([0, 0, 0, 1]), num, r3.choice([1, 2, 8, 60, 256])])
        fam.append((r3.choice([0, 100, 8000, 8185]), ents))
    lit = "{" + ", ".join("[off |-> %d, ents |-> <<%s>>]" % (off, ", ".join("[blk |-> %d, num |-> %d, nlen |-> %d]" % tuple(e) for e in ents)) for off, ents in fam) + "}"
    real = {"M": 256, "L": 32767, "Cap": 8192, "Hdr": 12, "Ent": 8, "MaxEntries": 1, "Emit": True, "DeltaLimit": '"both"', "CountLimit": '"M"', "BlockChecked": True, "SizeFromOffset": True, "IndexAfterHeader": False}
    rdefs = {"Blocks": "{0}", "Nums": "{1}", "NameLens": "{1}", "Offsets": "{0}", "Explicit": lit}
    write_cfg(cfg, spec="Spec", constants=real, defs=rdefs, invariants=INV + ["EmitOK"], deadlock=False)
    r = run_tlc("DirWriter", cfg, workers=4, timeout=3000, heap="12g")
    ev.tlc(r, "DirWriter real constants, %d explicit listings" % len(fam))
    if not r["ok"]:
        print("MODEL-FAILURE: DirWriter (explicit listings) violates %s: %s" % (r["violated"], r["out"][-600:]))
        return None
    em = bpbind.parse_emitted(r["out"])
    if len(em) != len({json.dumps(f) for f in fam}):
        print("SELF-CHECK-FAILED: DirWriter emitted %d of %d listings" % (len(em), len(fam)))
        return None
    binp = work + "/replay_dirwr"
    if not build.compile_harness(VERIF + "/harness/replay_dirwr.c", binp, variant="asan"):
        raise RuntimeError("harness build failed")

    def chunk(ci):
        part = em[ci::8]
        txt = []
        for c in part:
            txt.append("D %d" % c["input"]["off"])
            txt += ["E %d %d %d" % (e["blk"], e["num"], e["nlen"]) for e in c["input"]["ents"]]
            txt.append("F")
        q = subprocess.run(["timeout", "600", binp, "%s/dw%d.bin" % (work, ci)], input="\n".join(txt) + "\n", capture_output=True, text=True,
                           env=dict(os.environ, ASAN_OPTIONS="detect_leaks=1"))
        return part, q
    n, drift, seen = 0, 0, set()
    with ThreadPoolExecutor(8) as ex:
        for part, q in ex.map(chunk, range(8)):
            lines = [l for l in q.stdout.split("\n") if l.startswith("{")]
            if q.returncode != 0 or "ERROR: AddressSanitizer" in q.stderr or len(lines) != len(part):
                if "mem" not in seen:
                    seen.add("mem")
                    rep.violation("dirwriter-memory", "directory writer replay: rc %d, %d of %d answers: %s" % (q.returncode, len(lines), len(part), q.stderr[-300:]))
                continue
            for c, l in zip(part, lines):
                n += 1
                g = json.loads(l)
                ents = c["input"]["ents"]
                desc = "listing of %d entries starting %d bytes into a metadata block" % (len(ents), c["input"]["off"])
                what = None
                if g["err"] or g["rerr"]:
                    what = ("dirwriter-unreadable", "%s: writing / decoding fails (%d / %d)" % (desc, g["err"], g["rerr"]))
                else:
                    back = [(run["blk"], e[0], e[1]) for run in g["runs"] for e in run["ents"]]
                    if back != [(e["blk"], e["num"], e["nlen"]) for e in ents]:
                        k = next((i for i, (a, b) in enumerate(zip(back, [(e["blk"], e["num"], e["nlen"]) for e in ents])) if a != b), min(len(back), len(ents)))
                        what = ("dirwriter-roundtrip", "%s does not decode to what was added: entry %d comes back as (inode block, inode number, name length) %s, added %s"
                                % (desc, k + 1, back[k] if k < len(back) else None, (ents[k]["blk"], ents[k]["num"], ents[k]["nlen"]) if k < len(ents) else None))
                    elif any(not (1 <= run["count"] <= 256) or run["count"] != len(run["ents"]) for run in g["runs"]):
                        what = ("dirwriter-count", "%s: a header announces a count outside 1..256" % desc)
                    elif g["consumed"] != g["size"]:
                        what = ("dirwriter-size", "%s: the directory size %d differs from the %d bytes of its headers and entries" % (desc, g["size"], g["consumed"]))
                    elif any(ix[1] < 0 for ix in g.get("index", [])) or [ix[1] for ix in g.get("index", [])] != [x["blkno"] for x in c["index"]][:len(g.get("index", []))] and \
                            [(x["count"], x["blk"], x["base"]) for x in g["runs"]] == [(x["count"], x["blk"], x["base"]) for x in c["runs"]]:
                        bad = next((k for k, ix in enumerate(g["index"]) if ix[1] != c["index"][k]["blkno"]), 0)
                        what = ("dirwriter-index", "%s: index entry %d (header %d bytes into the listing) names metadata block %d, its header starts in block %d"
                                % (desc, bad + 1, g["index"][bad][0], g["index"][bad][1], c["index"][bad]["blkno"]))
                    elif [(x["count"], x["blk"], x["base"]) for x in g["runs"]] != [(x["count"], x["blk"], x["base"]) for x in c["runs"]] or \
                            [list(ix) for ix in g.get("index", [])] != [[x["index"], x["blkno"], x["nlen"]] for x in c["index"]] or g.get("entry_count") != len(ents):
                        drift += 1
                if what and what[0] not in seen:
                    seen.add(what[0])
                    rep.violation(what[0], what[1], data={"off": c["input"]["off"], "entries": ents[:600]})
    ev.set("dir_writer_listings_replayed", n)
    ev.set("dir_writer_partitions_that_differ_from_the_model(spec drift, no alarm)", drift)
    if drift:
        print("SPEC-DRIFT (no alarm): %d listings are cut into other header runs than DirWriter.tla predicts (all decode correctly)" % drift)
    return n


def run(tier):
    ev = Evidence(PID, tier, "exploration")
    rep = Reporter(PID, ev)
    work = scratch("c03")
    tools = build.build("plain") + "/bin"
    rng = random.Random(SEED)
    # writer-side model invariants (scaled): compressed => smaller, fragment table entries point at stored blocks
    cfg = work + "/bp.cfg"
    bpbind.cfg_for(cfg, nf=2, mb=1, backlogs=(3,), flagsets=[[], ["IGNORE_SPARSE"], ["DONT_COMPRESS"]], tails=(1, 3),
                   invariants=("NoError", "StoredNotLarger", "FragTableSane", "DataIntegrity"))
    r = run_tlc("BlockProc", cfg, workers=16, timeout=1800, heap="16g")
    ev.tlc(r, "BlockProc StoredNotLarger/FragTableSane")
    if not r["ok"]:
        print("MODEL-FAILURE: BlockProc violates %s" % r["violated"])
        ev.write()
        return 2
    bpbind.cfg_for(cfg, sparsefrag=True, nf=1, mb=0, backlogs=(3,), flagsets=[["IGNORE_SPARSE"]], tails=(1,),
                   invariants=("FragTableSane",))
    r = run_tlc("BlockProc", cfg, workers=4, timeout=600, heap="8g")
    ev.tlc(r, "dev ZeroFragBlockDropped(pre-fix tree)")
    devres = {"ZeroFragBlockDropped(pre-fix tree)": bool(r["violated"])}
    # ---- produce the batch of real images ----------------------------------------------------------------
    scen = [(s, []) for s in gen.standard_scenarios(work, rng, bs=4096)] + c01.boundary_scenarios(work, rng, tier)
    comps = ["gzip", "xz", "lz4", "zstd", "lzma"]
    optsets = [[], ["-e"], ["-T"], ["-b", "131072"], ["-B", "65536"], ["-j", "4"], ["-X", "@"], ["-e", "-X", "@"],
               # combinations: each option adds or moves a table / changes block boundaries, the invariants hold for all of them together
               ["-e", "-T"], ["-e", "-T", "-b", "8192", "-X", "@"], ["-T", "-B", "65536", "-j", "3"], ["-e", "-b", "1048576"]]
    XOPT = {"gzip": "level=3,window=10,huffman,default", "xz": "dictsize=8192,x86,level=1", "lz4": "hc", "zstd": "level=7", "lzma": "dictsize=8192,lc=1,lp=1,pb=1"}
    jobs = []
    for si, (s, base) in enumerate(scen):
        for k in range(3 if tier == "quick" else 6):
            opts = optsets[(si + 2 * k) % len(optsets)] if k < 2 or tier != "quick" else optsets[8 + si % 4]
            if "-b" in base and "-b" in opts:
                opts = []
            comp_ = comps[(si + k) % len(comps)]
            jobs.append(("gensquashfs", s, base + [XOPT[comp_] if o == "@" else o for o in opts], comp_, None))
    for name, data in gen.standard_tars(rng):
        for comp in comps[:4] if tier == "quick" else comps:
            jobs.append(("tar2sqfs", name, ["-e"] if comp == "xz" else [], comp, data))
    # a [nosparse] file with an all-zero tail (regression of the zero fragment block defect)
    z = gen.Scenario(work, "z_nosparse")
    z.add_file("/z", b"\0" * 100)
    z.add_file("/y", b"\0" * 4096 + b"\0" * 50)
    open(z.dir + "/sort.txt", "w").write("0 [nosparse] z\n0 [nosparse] y\n")
    jobs.append(("gensquashfs", z, ["-S", z.dir + "/sort.txt", "-b", "4096"], "lz4", None))
    jobs.append(("gensquashfs", z, ["-S", z.dir + "/sort.txt", "-b", "4096"], "gzip", None))

    def make(job):
        tool, s, opts, comp, stdin = job
        if tool == "gensquashfs":
            out = "%s/c03_%s_%s.sqfs" % (s.dir, comp, "_".join(x.strip("-/").replace("/", "_")[-12:] for x in opts))
            args = [tools + "/gensquashfs", "-q", "-f", "-c", comp, "-F", s.packfile()] + opts
            xf = s.xattrfile()
            if xf:
                args += ["-A", xf]
            label = "%s -c %s %s" % (os.path.basename(s.dir), comp, " ".join(o for o in opts if not o.startswith("/")))
        else:
            out = "%s/c03_%s_%s.sqfs" % (work, s, comp)
            args = [tools + "/tar2sqfs", "-q", "-f", "-c", comp] + opts
            label = "tar2sqfs %s -c %s" % (s, comp)
        rc, o, e = sh(args + [out], timeout=300, stdin=stdin)
        if rc != 0:
            return label, None, "tool failed: %s" % e.decode(errors="replace")[-200:]
        try:
            img = sqfsimg.load(out)
            events = img.event_log()
            err = None
        except (sqfsimg.DecodeError, Exception) as ex:
            events, err = None, "image cannot be decoded: %s" % ex
        os.unlink(out)
        return label, events, err

    items = []
    with ThreadPoolExecutor(max_workers=8) as ex:
        for label, events, err in ex.map(make, jobs):
            if err and events is None and err.startswith("tool failed"):
                raise RuntimeError("%s: %s" % (label, err))
            if err:
                rep.violation("image-undecodable", "%s: %s" % (label, err), data={"case": label})
                continue
            items.append((label, events))
    # batches of bounded size
    batches, cur, n = [], [], 0
    for it in items:
        if n + len(it[1]) > 6000 and cur:
            batches.append(cur)
            cur, n = [], 0
        cur.append(it)
        n += len(it[1])
    if cur:
        batches.append(cur)
    bad = validate_batches(work, ev, batches, "real")
    for label, idx, e in bad:
        rep.violation("format-%s" % e["e"], "%s: on-disk record rejected by the format rules: %s" % (label, json.dumps(e)[:300]),
                      data={"case": label, "event": e})
    # ---- binding demonstration / anti-vacuity: corrupted event logs must be rejected -------------------------
    # corrupt, per rule, the smallest real log that contains the record kind the rule is about
    def base_for(kind):
        c = [it for it in items if any(e["e"] == kind for e in it[1])]
        return min(c, key=lambda it: len(it[1]))[1] if c else None
    muts = {"MetaBlockLargerThanContent": ("MetaBlock", lambda e: e.update(stored=e["usize"] + 1, compressed=True)),
            "CompressedLarger": ("DataBlock", lambda e: e.update(compressed=True, stored=e["usize"] + 1, usize=e["usize"], sparse=False, expands_ok=True)),
            "ListingNotSorted": ("DirEnt", lambda e: e.update(gt_prev=False)),
            "HeaderRun257": ("DirHeader", lambda e: e.update(count=257)),
            "InodeNumberOutOfRange": ("Inode", lambda e: e.update(num=10 ** 6)),
            "EntryPointsNowhere": ("DirEnt", lambda e: e.update(resolves=False)),
            "IdIndexOutOfRange": ("Inode", lambda e: e.update(uid_idx=65000)),
            "IndexNamesWrongBlock": ("DirIndex", lambda e: e.update(block_matches=False)),
            "OptionsFlagWithoutBlock": ("Super", lambda e: e.update(flags=sorted(set(e["flags"]) ^ {"COMP_OPTS"}))),
            "LinkCountWrong": ("Inode", lambda e: e.update(nlink=e["nlink"] + 1) if e["type"] != "dir" else e.update(num=0)),
            "NotPadded": ("Super", lambda e: e.update(file_len_mod4k=123)),
            "IndexListTooLong": ("IndexLayout", lambda e: e.update(xattr_exact=False)),
            "IndexListNotAscending": ("IndexLayout", lambda e: e.update(id_ascending=False)),
            "TablesOutOfOrder": ("Super", lambda e: e.update(table_order=list(reversed(e["table_order"])))),
            "BasicInodeForLargeFile": ("Inode", lambda e: e.update(needs_ext=True, ext=False) if e["type"] == "file" else e.update(num=0))}
    mut_items = []
    for name, (kind, f) in muts.items():
        evs = copy.deepcopy(base_for(kind) or [])
        cands = [x for x in evs if x["e"] == kind]
        if not cands:
            devres["corrupted-log:" + name] = False
            continue
        f(cands[len(cands) // 2])
        mut_items.append((name, evs))
    mbad = {label for label, idx, e in validate_batches(work, ev, [[it] for it in mut_items], "mut")}
    for name, _ in mut_items:
        devres["corrupted-log:" + name] = name in mbad
    ev.set("deviations", devres)
    if not all(devres.values()):
        print("SELF-CHECK-FAILED: corrupted event logs accepted: %s" % [k for k, v in devres.items() if not v])
        ev.write()
        return 2
    nev = sum(len(e) for _, e in items)
    ev.set("images_with_index_entry_for_a_header_continuing_in_the_next_metadata_block",
           sum(1 for _, evs in items if any(e["e"] == "DirIndex" and e["header_straddles"] for e in evs)))
    ev.set("directory_index_entries_validated", sum(1 for _, evs in items for e in evs if e["e"] == "DirIndex"))
    fn = inode_form_stage(work, rep, ev, tier, rng)
    if fn is None:
        ev.write()
        return 2
    dn = dir_writer_stage(work, rep, ev, tier, rng)
    if dn is None:
        ev.write()
        return 2
    mn = meta_writer_stage(work, rep, ev, tier)
    if mn is None:
        ev.write()
        return 2
    dn += mn
    ev.set("evaluations", len(items) + fn + dn)
    ev.set("distinct_nontrivial", len({l for l, _ in items}))
    ev.set("events_validated", nev)
    ev.set("rule", "one evaluation = one image produced by gensquashfs / tar2sqfs from the scenario family and boundary classes under a "
                   "compressor and option tuple, decoded into its event log (%d events in total) and validated by TLC against ImageInv; "
                   "distinct = distinct (scenario, compressor, options)" % nev)
    ev.sample({"kind": "validated-images", "cases": [l for l, _ in items[:10]]}, limit=3)
    ev.sample({"kind": "event-log-prefix", "case": items[0][0], "events": items[0][1][:6]}, limit=3)
    ev.set("traces_validated_against_impl", len(items))
    ev.assumptions += ["the independent decoder reports what is on disk faithfully (cross-checked against the library reader in C01)",
                       "format rules taken from doc/format.adoc and the Linux kernel's sanity checks; unsquashfs / kernel are not installed"]
    shutil.rmtree(work, ignore_errors=True)
    return rep.finish()


def replay(path):
    d = json.load(open(path))
    print(json.dumps(d, indent=1)[:3000])
    return run("quick")
