"""C08 - deduplication never changes data, even when checksums collide.
Spec: spec/BlockProc.tla with every checksum colliding (H = 0): DataIntegrity (every file reads back as
written through inode / fragment table / disk) and Sharing (identical files share storage).
Binding R: emitted inputs replayed on the real block processor built with a 0-bit checksum; tool level:
gensquashfs built with 1/2/4-bit checksums packs many equal-sized incompressible blocks and tails; every
file is read back (rdsquashfs -c and the independent decoder) and compared byte-wise; sharing is read
off the decoded inodes."""
import json, os, random, shutil, subprocess, sys
from concurrent.futures import ThreadPoolExecutor
import vlib, build, bpbind, gen, sqfsimg
from vlib import VERIF, Evidence, Reporter, run_tlc, write_cfg, scratch, SEED, sh

PID = "C08"
DEVS = ["DedupHashOnly", "FragHashOnly", "InFlightCopyDropped"]
PROPS = ("NoError", "DataIntegrity", "Sharing", "NoLeak", "FragTableSane")


def hash_table_stage(work, rep, ev, tier):
    """spec/HashTable.tla: the open-addressing table behind fragment de-duplication, transcribed (insert / search / growth); every insertion
    sequence of <= 5 (6) keys over 7 keys whose hashes collide in start slot and step for the first table sizes, on the real table (ASan):
    every inserted key is found, nothing else is, and the slots are the model's."""
    KEYS = "{<<0, 1>>, <<0, 2>>, <<35, 1>>, <<5, 1>>, <<15, 1>>, <<7, 1>>, <<12, 1>>}"
    ALL = [(0, 1), (0, 2), (35, 1), (5, 1), (15, 1), (7, 1), (12, 1)]
    M = 5 if tier == "quick" else 6
    C = {"MaxIns": M, "Emit": False, "SearchStopsAtOtherHash": False, "ReinsertNoProbe": False}
    INV = ["AllFound", "NothingElse", "CountRight", "RoomLeft"]
    cfg = work + "/ht.cfg"
    write_cfg(cfg, spec="Spec", constants=C, defs={"Keys": KEYS}, invariants=INV, deadlock=False)
    r = run_tlc("HashTable", cfg, workers=8, timeout=1500, heap="8g")
    ev.tlc(r, "HashTable MaxIns=%d" % M)
    if not r["ok"]:
        print("MODEL-FAILURE: HashTable violates %s" % r["violated"])
        return None
    for dev in ("SearchStopsAtOtherHash", "ReinsertNoProbe"):
        write_cfg(cfg, spec="Spec", constants=dict(C, **{dev: True}), defs={"Keys": KEYS}, invariants=INV, deadlock=False)
        r = run_tlc("HashTable", cfg, workers=4, timeout=600)
        ev.tlc(r, "dev HashTable " + dev)
        if not r["violated"]:
            print("SELF-CHECK-FAILED: HashTable deviation %s without counterexample" % dev)
            return None
    write_cfg(cfg, spec="Spec", constants=dict(C, Emit=True), defs={"Keys": KEYS}, invariants=["EmitOK"], deadlock=False)
    r = run_tlc("HashTable", cfg, workers=8, timeout=1500, heap="8g")
    cases = bpbind.parse_emitted(r["out"])
    if len(cases) != 7 ** M:
        print("SELF-CHECK-FAILED: HashTable emitted %d insertion sequences" % len(cases))
        return None
    binp = work + "/replay_hashtable"
    if not build.compile_harness(VERIF + "/harness/replay_hashtable.c", binp, variant="asan"):
        raise RuntimeError("harness build failed")

    def do(i):
        c = cases[i]
        args = ["%d:%d" % (k[0], k[1]) for k in c["ins"]] + ["--"] + ["%d:%d" % k for k in ALL]
        q = subprocess.run([binp] + args, capture_output=True, text=True, timeout=60, env=dict(os.environ, ASAN_OPTIONS="detect_leaks=1"))
        return i, q.returncode, q.stdout, q.stderr
    n, seen, drift = 0, set(), 0
    with ThreadPoolExecutor(16) as ex:
        for i, rc, out, err in ex.map(do, range(len(cases))):
            n += 1
            c = cases[i]
            what = None
            if "ERROR: AddressSanitizer" in err or "LeakSanitizer" in err:
                what = ("hashtable-memory", err[err.find("ERROR:"):][:160])
            elif rc != 0:
                what = ("hashtable-crash", "exit %d" % rc)
            else:
                real = json.loads(out.strip().split("\n")[-1])
                inserted = {tuple(k) for k in c["ins"]}
                wrong = [f for f in real.get("found", []) if f[2] != ((f[0], f[1]) in inserted)]
                if "insert_failed" in real or wrong:
                    what = ("hashtable-lookup", "after inserting %s: %s" % (c["ins"], "insert refused" if "insert_failed" in real else
                                                                            "keys answered wrongly (hash, id, found): %s" % wrong[:4]))
                elif real["size"] != c["size"] or real["entries"] != c["entries"] or [list(x) for x in real["slots"]] != [list(x) for x in c["slots"]]:
                    drift += 1
            if what and what[0] not in seen:
                seen.add(what[0])
                rep.violation(what[0], what[1], data={"ins": c["ins"]})
    if drift:
        print("SPEC-DRIFT (no alarm): %d tables differ in slot layout from HashTable.tla although every key is answered correctly" % drift)
    ev.set("hash_table_sequences_replayed", n)
    ev.set("hash_table_layout_drift", drift)
    return n


def bp_api_stage(work, rep, ev, tier):
    """spec/BlockProcApi.tla: ANY sequence of front end calls (legal or not) has a specified result; every such sequence of <= 4 (5: sample)
    calls on the real block processor (ASan, 2 workers): whatever was begun, appended and ended reads back intact from the output, every
    manually submitted block is written exactly once."""
    M = 4
    ALL = {'"%s"' % o for o in ("B0", "BF", "BX", "A1", "A4", "A5", "E", "M1", "M4", "M5", "MX", "S", "F")}
    CORE = {'"%s"' % o for o in ("B0", "BF", "A4", "A5", "M1", "E")}
    C = {"MaxCalls": M, "Emit": False, "EndKeepsBegun": False, "SubmitIgnoresBegun": False, "OpSet": ALL}
    INV = ["BegunConsistent", "FilesAreEnds", "NothingBetweenBlocks", "UnitsAccounted", "StatsCoverFiles"]
    cfg = work + "/bpapi.cfg"
    write_cfg(cfg, spec="Spec", constants=C, invariants=INV, deadlock=False)
    r = run_tlc("BlockProcApi", cfg, workers=8, timeout=1500, heap="8g")
    ev.tlc(r, "BlockProcApi MaxCalls=%d" % M)
    if not r["ok"]:
        print("MODEL-FAILURE: BlockProcApi violates %s" % r["violated"])
        return None
    for dev, want in (("EndKeepsBegun", "BegunConsistent"), ("SubmitIgnoresBegun", "NothingBetweenBlocks")):
        write_cfg(cfg, spec="Spec", constants=dict(C, **{dev: True}), invariants=INV, deadlock=False)
        r = run_tlc("BlockProcApi", cfg, workers=4, timeout=600)
        ev.tlc(r, "dev BlockProcApi " + dev)
        if r["violated"] != want:
            print("SELF-CHECK-FAILED: BlockProcApi deviation %s: %s" % (dev, r["violated"]))
            return None
    cases = []
    plan = [(ALL, 3, None), (ALL, 4, 4000), (CORE, 5, None)] if tier == "quick" else [(ALL, 4, None), (ALL, 5, 60000), (CORE, 6, None)]
    for ops, m, cap in plan:
        write_cfg(cfg, spec="Spec", constants=dict(C, MaxCalls=m, Emit=True, OpSet=ops), invariants=["EmitOK"], deadlock=False)
        r = run_tlc("BlockProcApi", cfg, workers=8, timeout=2400, heap="12g")
        got = bpbind.parse_emitted(r["out"])
        if len(got) != len(ops) ** m:
            print("SELF-CHECK-FAILED: BlockProcApi emitted %d call sequences of length %d" % (len(got), m))
            return None
        if cap:
            random.Random(SEED).shuffle(got)
            got = got[:cap]
        cases += got
    binp = work + "/replay_bpapi"
    if not build.compile_harness(VERIF + "/harness/replay_bpapi.c", binp, variant="asan"):
        raise RuntimeError("harness build failed")

    def do(i):
        c = cases[i]
        prog = [e[0] for e in c["log"]]
        try:
            q = subprocess.run([binp] + prog, capture_output=True, text=True, timeout=60, env=dict(os.environ, ASAN_OPTIONS="detect_leaks=1"))
            return i, prog, q.returncode, q.stdout, q.stderr
        except subprocess.TimeoutExpired:
            return i, prog, 124, "", "timeout"
    n, seen, drift = 0, set(), []
    with ThreadPoolExecutor(16) as ex:
        for i, prog, rc, out, err in ex.map(do, range(len(cases))):
            n += 1
            c = cases[i]
            what = None
            if "ERROR: AddressSanitizer" in err or "LeakSanitizer" in err:
                what = ("bpapi-memory-error", err[err.find("ERROR:"):][:160])
            elif rc == 124:
                what = ("bpapi-hang", "a call never returns")
            elif rc != 0:
                what = ("bpapi-crash", "exit status %d %s" % (rc, err[-100:]))
            else:
                real = json.loads(out.strip().split("\n")[-1])
                if any(not f["intact"] for f in real["files"]):
                    what = ("bpapi-file-content", "a file that was begun, appended to and ended does not read back from the output: %s" % real["files"])
                elif any(mb["written"] != 1 or not mb["intact"] for mb in real["manual"]):
                    what = ("bpapi-manual-block", "a manually submitted block is not written exactly once, intact: %s" % real["manual"])
                else:
                    wl = [[e[0], e[1]] for e in c["log"]]
                    wf = [{"units": f["units"], "nblk": f["nblk"], "frag": f["frag"], "intact": True} for f in c["files"]]
                    wm = [{"units": u, "written": 1, "intact": True} for u in c["manual"]]
                    if real["log"] != wl or real["files"] != wf or real["manual"] != wm or real["finish"] != 0 or real["stats"] != c["stats"]:
                        drift.append({"calls": prog, "real": real, "model": {"log": wl, "files": wf, "manual": wm}})
            if what and what[0] not in seen:
                seen.add(what[0])
                rep.violation(what[0], "block processor, calls %s: %s" % (" ".join(prog), what[1]), data={"bpapi": prog})
    if drift:
        print("SPEC-DRIFT (no alarm): %d call sequences answer differently from BlockProcApi.tla (results / shapes), e.g. %s" % (len(drift), json.dumps(drift[0])[:400]))
    ev.set("block_processor_call_sequences", n)
    ev.set("block_processor_call_sequence_drift", len(drift))
    return n


def run(tier):
    ev = Evidence(PID, tier, "model_checking")
    rep = Reporter(PID, ev)
    bpbind.JUDGE = {"integrity", "sharing"}          # a check raises alarms for its own property only
    work = scratch("c08")
    cfgs = [dict(nf=3, mb=1, ids=["a", "c", "z"], backlogs=(3, 4), flagsets=[[]], tails=(2, 3)),
            dict(nf=2, mb=2, ids=["a", "c", "b"], backlogs=(3,), flagsets=[[], ["DONT_DEDUP"]], tails=(3,)),
            dict(nf=4, mb=0, ids=["a", "c"], backlogs=(3, 5), flagsets=[[], ["DONT_DEDUP"]], tails=(2, 3)),
            # files that END IN A SHORT DATA BLOCK (no fragment): equal leading block, colliding last blocks of one size
            dict(nf=3, mb=1, ids=["a", "c"], backlogs=(3,), flagsets=[["DONT_FRAGMENT"], []], tails=(2,))]
    if tier != "quick":
        cfgs += [dict(nf=3, mb=2, ids=["a", "c"], backlogs=(3, 4), flagsets=[[]], tails=(3,)),
                 dict(nf=5, mb=0, ids=["a", "c"], backlogs=(3,), flagsets=[[]], tails=(2, 3)),
                 dict(nf=3, mb=1, ids=["a", "c", "z"], backlogs=(3, 4, 5), flagsets=[[], ["IGNORE_SPARSE"], ["DONT_DEDUP"]], tails=(1, 3))]
    for i, c in enumerate(cfgs):
        cfg = work + "/mc%d.cfg" % i
        bpbind.cfg_for(cfg, invariants=PROPS, **c)
        r = run_tlc("BlockProc", cfg, workers=16, timeout=3000, heap="20g")
        ev.tlc(r, "BlockProc(H=0) %s" % json.dumps(c))
        if not r["ok"]:
            print("MODEL-FAILURE: BlockProc violates %s with %s" % (r["violated"], c))
            print(r["out"][-1500:])
            ev.write()
            return 2
    devres = {}
    for dev in DEVS:
        found = False
        for c in cfgs[:4]:
            cfg = work + "/dev.cfg"
            bpbind.cfg_for(cfg, dev=dev, invariants=PROPS, **c)
            r = run_tlc("BlockProc", cfg, workers=16, timeout=1200, heap="12g")
            ev.tlc(r, "dev %s" % dev)
            if r["violated"]:
                found = True
                if r["trace"]:
                    ev.sample({"kind": "deviation-counterexample", "deviation": dev, "violates": r["violated"],
                               "input": r["trace"][0].get("input")}, limit=3)
                break
        devres[dev] = found
    ev.set("deviations", devres)
    if not all(devres.values()):
        print("SELF-CHECK-FAILED: deviation without counterexample: %s" % devres)
        ev.write()
        return 2

    # ---- R: block processor on the zero-bit checksum build -----------------------------------------
    rng = random.Random(SEED)
    total = 0
    binp = bpbind.build_harness(work, "hash0")
    for pi, c in enumerate(cfgs[:4] if tier == "quick" else cfgs):
        cfg = work + "/emit%d.cfg" % pi
        bpbind.cfg_for(cfg, emit=True, invariants=PROPS, **c)
        r = run_tlc("BlockProc", cfg, workers=16, timeout=3000, heap="20g")
        ev.tlc(r, "emit %s" % json.dumps(c))
        em = bpbind.parse_emitted(r["out"])
        # inputs with repeated contents are the interesting ones
        def interesting(e):
            seen = [json.dumps([s["blocks"], s["tail"]]) for s in e["input"]]
            withblocks = sum(1 for s in e["input"] if s["blocks"])
            withtails = sum(1 for s in e["input"] if s["tail"])
            return len(set(seen)) < len(seen) or len(e["input"]) >= 3 or withblocks >= 2 or withtails >= 2
        em = [e for e in em if interesting(e)]
        cap = 3000 if tier == "quick" else 50000
        if len(em) > cap:
            em = rng.sample(em, cap)
        n, bad = bpbind.replay(binp, work, em, workers=(1, 3), tag="c08_%d" % pi)
        total += n
        for (e, W, what, exp, got) in bad[:5]:
            n2, bad2 = bpbind.replay(binp, work, [e], workers=(W,), tag="again")
            if bad2:
                p = work + "/viol_%d.txt" % W
                bpbind.input_file(p, e["input"], e["mb"], W)
                rep.violation("dedup-layout", "real block processor with colliding checksums (%d workers, backlog %d): %s for input %s"
                              % (W, e["mb"], what, json.dumps(e["input"])), artefact=p,
                              data={"input": e["input"], "predicted": exp, "real": got})
        if em:
            ev.sample({"kind": "replayed-input(colliding checksums)", "input": em[0]["input"], "predicted": em[0]["res"]}, limit=4)

    # ---- the long collision chain: 12 single-block files with one stored size and one checksum, then a copy of one of them:
    #      the candidate search of deduplicate_blocks at a depth the general bounds (<= 3 files) cannot reach ---------------
    chain = list("defghijklmno")
    ccfg = work + "/chain.cfg"
    cc = dict(nf=len(chain) + 1, mb=1, ids=["z"] + chain, backlogs=(3, 10), flagsets=[[]], tails=(1,), chain=chain)
    bpbind.cfg_for(ccfg, invariants=PROPS, **cc)
    r = run_tlc("BlockProc", ccfg, workers=8, timeout=1200, heap="12g")
    ev.tlc(r, "BlockProc collision chain of %d files" % len(chain))
    if not r["ok"]:
        print("MODEL-FAILURE: BlockProc (collision chain) violates %s" % r["violated"])
        ev.write()
        return 2
    bpbind.cfg_for(ccfg, emit=True, invariants=PROPS, **cc)
    r = run_tlc("BlockProc", ccfg, workers=8, timeout=1200, heap="12g")
    em = bpbind.parse_emitted(r["out"])
    ev.set("collision_chain_inputs", len(em))
    n, bad = bpbind.replay(binp, work, em, workers=(1, 3), tag="c08_chain")
    total += n
    for (e, W, what, exp, got) in bad[:3]:
        p = work + "/viol_chain_%d.txt" % W
        bpbind.input_file(p, e["input"], e["mb"], W)
        rep.violation("dedup-layout", "real block processor with colliding checksums (%d workers, backlog %d): %s for the collision chain %s"
                      % (W, e["mb"], what, json.dumps([f["blocks"] for f in e["input"]])), artefact=p, data={"input": e["input"], "predicted": exp, "real": got})

    # ---- fragment blocks on disk, raw and compressed, looked up in every order: the block cache behind the byte comparison -------
    #      two fragment blocks are filled and flushed (one of compressible tails a/c, one of incompressible tails d/e, either order),
    #      a third one pushes the second out to disk, then two more tails repeat earlier ones (every ordered pair)
    fam = []
    T = lambda c: {"flags": [], "blocks": [], "tail": [{"c": c, "n": 2}]}
    for first, second in ((("a", "c"), ("d", "e")), (("d", "e"), ("a", "c"))):
        for filler in (("c", "e"), ("e", "c")):
            for x in "acde":
                for y in "acde":
                    fam.append([T(first[0]), T(first[1]), T(second[0]), T(second[1]), T(filler[0] + ""), T(x), T(y)])
    fcfg = work + "/fragfam.cfg"
    fa = dict(nf=7, mb=0, ids=["z", "a", "c", "d", "e"], backlogs=(3,), flagsets=[[]], tails=(2,), explicit=fam)
    bpbind.cfg_for(fcfg, invariants=PROPS, **fa)
    r = run_tlc("BlockProc", fcfg, workers=8, timeout=1200, heap="12g")
    ev.tlc(r, "BlockProc fragment-block family (%d inputs)" % len(fam))
    if not r["ok"]:
        print("MODEL-FAILURE: BlockProc (fragment family) violates %s" % r["violated"])
        ev.write()
        return 2
    bpbind.cfg_for(fcfg, emit=True, invariants=PROPS, **fa)
    r = run_tlc("BlockProc", fcfg, workers=8, timeout=1200, heap="12g")
    em = bpbind.parse_emitted(r["out"])
    ev.set("fragment_family_inputs", len(em))
    n, bad = bpbind.replay(binp, work, em, workers=(1, 3), tag="c08_frag")
    total += n
    for (e, W, what, exp, got) in bad[:3]:
        p = work + "/viol_frag_%d.txt" % W
        bpbind.input_file(p, e["input"], e["mb"], W)
        rep.violation("dedup-layout", "real block processor with colliding checksums (%d workers, backlog %d): %s for the tails %s"
                      % (W, e["mb"], what, [f["tail"][0]["c"] for f in e["input"]]), artefact=p, data={"input": e["input"], "predicted": exp, "real": got})

    # ---- tool level: truncated checksums, read everything back -----------------------------------
    reader = build.build("plain") + "/bin"
    runs = 0
    files_checked = 0
    bits_list = [1, 2] if tier == "quick" else [1, 2, 4, 8]
    comps = ["gzip", "lz4"] if tier == "quick" else ["gzip", "xz", "lz4", "zstd"]
    for bits in bits_list:
        packer = build.build("hash%d" % bits) + "/bin"
        for ci, comp in enumerate(comps):
            for bs in ([4096] if tier == "quick" else [4096, 131072]):
                r2 = random.Random(SEED * 31 + bits * 7 + ci)
                s = gen.Scenario(work, "h%d_%s_%d" % (bits, comp, bs))
                blocks = [gen.content(r2, "random", bs) for _ in range(6)]       # incompressible, equal stored size
                tails = [gen.content(r2, "random", 700) for _ in range(6)]
                names = []
                for i in range(14):
                    nb = r2.randrange(0, 3)
                    data = b"".join(r2.choice(blocks) for _ in range(nb)) + (r2.choice(tails) if r2.random() < 0.8 else b"")
                    s.add_file("/f%02d" % i, data)
                    names.append("f%02d" % i)
                s.add_file("/dupA", s.files["f00"])
                s.add_file("/dupB", s.files["f00"])
                # a chain of distinct one-block files of equal stored size (with few checksum bits many of them collide), then copies
                for i in range(24):
                    s.add_file("/k%02d" % i, gen.content(r2, "random", bs))
                s.add_file("/kdup_first", s.files["k00"])
                s.add_file("/kdup_last", s.files["k23"])
                out = s.dir + "/img.sqfs"
                for j, extra in ((1, []), (4, []), (2, ["-T"])):             # -T: every file ends in a short data block instead of a fragment
                    rc, o, e = sh([packer + "/gensquashfs", "-q", "-f", "-c", comp, "-b", str(bs), "-j", str(j)] + extra + ["-F", s.packfile(), out], timeout=120)
                    runs += 1
                    if rc != 0:
                        raise RuntimeError("gensquashfs(hash%d) failed: %s" % (bits, e[-300:]))
                    img = sqfsimg.load(out)
                    t = img.tree()
                    for name, data in s.files.items():
                        files_checked += 1
                        n = t.get(name.encode())
                        rc2, o2, e2 = sh([reader + "/rdsquashfs", "-c", name, out], timeout=60)
                        if n is None or n["sha"] != vlib.sha(data) or rc2 != 0 or o2 != data:
                            keep = work + "/collide_%d_%s.sqfs" % (bits, comp)
                            shutil.copy(out, keep)
                            rep.violation("dedup-data-changed", "%d-bit checksum, %s, -b %d, -j %d %s: file %s reads back with different bytes"
                                          % (bits, comp, bs, j, " ".join(extra), name), artefact=keep, data={"file": name, "bits": bits, "options": extra})
                            break
                    ia, ib, i0 = (img.by_num[t[x]["inum"]] for x in (b"dupA", b"dupB", b"f00"))
                    if len({(x["start"], x["frag_idx"], x["frag_off"], tuple(w[2] for w in x["blocks"])) for x in (ia, ib, i0)}) != 1:
                        rep.violation("dedup-not-shared", "%d-bit checksum, %s: identical files do not share storage" % (bits, comp),
                                      artefact=out, data={"bits": bits})
    hn = hash_table_stage(work, rep, ev, tier)
    if hn is None:
        ev.write()
        return 2
    total += hn
    an = bp_api_stage(work, rep, ev, tier)
    if an is None:
        ev.write()
        return 2
    total += an
    ev.set("block_processor_replays", total)
    ev.set("tool_runs", runs)
    ev.set("files_read_back", files_checked)
    ev.set("real_results_that_differ_from_the_model_but_satisfy_the_properties(spec drift, no alarm)", len(bpbind.DRIFT))
    if bpbind.DRIFT:
        print("SPEC-DRIFT (no alarm): %d real block processor results satisfy the properties but differ from BlockProc's prediction, e.g. %s"
              % (len(bpbind.DRIFT), json.dumps(bpbind.DRIFT[0])[:300]))
    ev.set("traces_validated_against_impl", total + runs)
    ev.assumptions += ["xxh32 replaced by its low k bits at link time (build variant hash<k>) forces collisions",
                       "compression is deterministic and injective (equal stored bytes <=> equal data)"]
    shutil.rmtree(work, ignore_errors=True)
    return rep.finish()


def replay(path):
    d = json.load(open(path))
    print(json.dumps(d, indent=1)[:3000])
    return run("quick")
