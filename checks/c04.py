"""C04 - tar <-> SquashFS conversion preserves the archive; byte-exact fixpoint.
Spec: spec/TarSem.tla (meaning of a header sequence with GNU / PAX extension records: transcription of the
read loop = declarative precedence rule; sparse map meaning).  Binding R: every emitted header sequence is
rendered by an independent record writer, converted by the real tar2sqfs and the decoded image compared
with the specified meaning; every hole layout over 6 units in the four GNU sparse formats (archives made by
GNU tar); a dialect / boundary matrix (v7, ustar, GNU, PAX; name lengths around 100/155/256, base-256 and
PAX numbers, timestamps out of range, xattrs, hard links before/after targets, ./ prefixes); sqfs2tar
output read back by Python tarfile, GNU tar and bsdtar; tar -> image -> tar -> image fixpoint."""
import hashlib, io, json, os, random, shutil, subprocess, sys, tarfile
from concurrent.futures import ThreadPoolExecutor
import vlib, build, bpbind, gen, sqfsimg, fidelity, tarfmt
from vlib import VERIF, Evidence, Reporter, run_tlc, write_cfg, scratch, SEED, sh

PID = "C04"
NAMEV = {0: b"hdr_name", 1: b"n" * 120 + b"_one", 2: b"dir2/" + b"m" * 130 + b"_two"}
LINKV = {0: b"hdr_target", 1: b"t" * 110 + b"_one", 2: b"tt/" + b"u" * 140 + b"_two"}
UIDV = {0: 17, 1: 3000000, 2: 70000}


def render_entry(ent, idx):
    out = b""
    for x in ent["exts"]:
        if x["t"] == "L":
            out += tarfmt.gnu_long(b"L", b"e%d_" % idx + NAMEV[x["v"]])
        elif x["t"] == "K":
            out += tarfmt.gnu_long(b"K", LINKV[x["v"]])
        elif x["t"] == "g":
            out += tarfmt.pax([(b"comment", b"global header, must be ignored"), (b"uid", b"99")], global_=True)
        else:
            f = []
            if x["name"]:
                f.append((b"path", b"e%d_" % idx + NAMEV[x["name"]]))
            if x["link"]:
                f.append((b"linkpath", LINKV[x["link"]]))
            if x["uid"]:
                f.append((b"uid", b"%d" % UIDV[x["uid"]]))
            f.append((b"comment", b"x"))
            out += tarfmt.pax(f)
    k = ent["kind"]
    name = b"e%d_" % idx + NAMEV[0]
    data = b""
    if k == "file":
        data = b"payload of entry %d\n" % idx
        out += tarfmt.header(name, b"0", size=len(data), uid=UIDV[0]) + tarfmt.pad(data)
    elif k == "dir":
        out += tarfmt.header(name, b"5", mode=0o755, uid=UIDV[0])
    elif k == "slink":
        out += tarfmt.header(name, b"2", uid=UIDV[0], linkname=LINKV[0])
    else:
        out += tarfmt.header(name, b"1", uid=UIDV[0], linkname=LINKV[0])
    return out


def expect_entry(ent, m, idx):
    name = b"e%d_" % idx + NAMEV[m["name"]]
    kind = {"file": "file", "dir": "dir", "slink": "slink", "hlink": "hlink"}[ent["kind"]]
    return name, kind, UIDV[m["uid"]], (LINKV[m["link"]] if m["link"] >= 0 else None)


def check_sequence_archive(rec):
    # targets of hard links must exist: provide them first
    pre = b""
    for v in LINKV.values():
        d = b"hard link target\n"
        nm = v
        if len(nm) > 100:
            pre += tarfmt.gnu_long(b"L", nm)
        pre += tarfmt.header(nm[:100], b"0", size=len(d)) + tarfmt.pad(d)
    return pre + render_entry(rec["e1"], 1) + render_entry(rec["e2"], 2) + tarfmt.terminator()


def check_sequence(tools, work, i, rec):
    arch = check_sequence_archive(rec)
    out = "%s/seq%d.sqfs" % (work, i)
    rc, o, e = sh([tools + "/tar2sqfs", "-q", "-f", "-c", "gzip", out], stdin=arch, timeout=30)
    if rc != 0:
        return ("tar-rejected", "tar2sqfs rejects a valid header sequence: %s" % e.decode(errors="replace")[-200:], arch)
    t = sqfsimg.load(out).tree(with_content=False)
    os.unlink(out)
    for idx, (ent, m) in enumerate(((rec["e1"], rec["m1"]), (rec["e2"], rec["m2"])), 1):
        name, kind, uid, link = expect_entry(ent, m, idx)
        n = t.get(name)
        if n is None:
            return ("tar-name", "entry %d: expected name %r not in the image (names: %s)" % (idx, name[:40], [k[:30] for k in t if k.startswith(b"e%d_" % idx)]), arch)
        if kind == "hlink":
            tgt = t.get(link)
            if tgt is None or tgt["inum"] != n["inum"]:
                return ("tar-hardlink", "entry %d: not a hard link of %r" % (idx, link[:40]), arch)
            continue
        if n["kind"] != kind:
            return ("tar-kind", "entry %d: kind %s, expected %s" % (idx, n["kind"], kind), arch)
        if n["uid"] != uid:
            return ("tar-uid", "entry %d: uid %d, expected %d" % (idx, n["uid"], uid), arch)
        if kind == "slink" and n["target"] != link:
            return ("tar-linktarget", "entry %d: symlink target %r, expected %r" % (idx, n["target"][:40], link[:40]), arch)
    return None


def tar_record_types(data):
    """independent walk over the 512-byte records: [(typeflag, name, payload bytes)] in archive order"""
    out, pos = [], 0
    while pos + 512 <= len(data):
        h = data[pos:pos + 512]
        if h == b"\0" * 512:
            break
        sz = h[124:136]
        size = int.from_bytes(sz[1:], "big") if sz[0] & 0x80 else int(sz.strip(b"\0 ") or b"0", 8)
        out.append((chr(h[156]) if h[156] else "0", h[:100].rstrip(b"\0"), data[pos + 512:pos + 512 + size]))
        pos += 512 + (size + 511) // 512 * 512
    return out


def writer_matrix(tools, work, rep, ev, tier):
    """two images: entries with at most one xattr, and entries with several (their order is what the known finding
    fixpoint-xattr-order is about; keeping them apart means any other difference is still reported)"""
    return writer_matrix1(tools, work, rep, ev, tier, (0, 1), "w_matrix") + writer_matrix1(tools, work, rep, ev, tier, (2, 3), "w_matrix_multi")


def writer_matrix1(tools, work, rep, ev, tier, nxs, tag):
    """TarSem.Attr x boundary lengths x number of xattrs on the real sqfs2tar / tar2sqfs pair: predicted extension
    records (WriterExts), tree preserved, second conversion byte-identical to the first"""
    s = gen.Scenario(work, tag)
    attrs = {}
    i = 0
    for kind in ("file", "dir", "slink"):
        for nlen in (20, 99, 100, 101, 180):
            for llen in ((30, 99, 100, 150) if kind == "slink" else (0,)):
                for nx in nxs:
                    if tier == "quick" and (i * 7 + nlen + llen + nx) % 3 == 0 and not (nlen >= 100 and nx):
                        i += 1
                        continue
                    i += 1
                    nm = "/" + ("%s%03d_" % (kind[0], i)).ljust(nlen, "n")
                    if kind == "file":
                        s.add_file(nm, b"content %d" % i, uid=i % 5)
                    elif kind == "dir":
                        s.add_dir(nm, uid=i % 5)
                    else:
                        s.add_slink(nm, ("t%03d_" % i).ljust(llen, "t"))
                    for k in range(nx):
                        s.set_xattr(nm[1:], "user.k%d_%d" % (i, k), b"value %d of %d" % (k, i))
                    attrs[nm[1:].encode()] = {"kind": kind, "longname": nlen + (kind == "dir") >= 100,       # directories are written as "name/"
                                             "longlink": kind == "slink" and llen >= 100, "xattr": nx > 0}
    img0 = s.dir + "/i0.sqfs"
    args = [tools + "/gensquashfs", "-q", "-f", "-c", "gzip", "-F", s.packfile(), "-A", s.xattrfile(), img0]
    rc, o, e = sh(args, timeout=120)
    if rc != 0:
        raise RuntimeError("gensquashfs failed on the writer matrix: %s" % e[-300:])
    rc, tar1, e = sh([tools + "/sqfs2tar", img0], timeout=120)
    if rc != 0:
        rep.violation("sqfs2tar-fails", "sqfs2tar fails on the attribute matrix: %s" % e.decode(errors="replace")[-200:])
        return 0
    # conformance of the writer model: records in front of every entry (evidence only; a different but working order is no alarm)
    drift, pending = [], []
    longname = None
    for t, name, payload in tar_record_types(tar1):
        if t in "xKLg":
            pending.append(t)
            if t == "L":
                longname = payload.rstrip(b"\0")
            continue
        real = (longname or name).rstrip(b"/")
        a = attrs.get(real)
        if a is not None:
            pred = (["x"] if a["xattr"] else []) + (["K"] if a["longlink"] else []) + (["L"] if a["longname"] else [])
            if pending != pred:
                drift.append((real[:20].decode(), pending, pred))
        pending, longname = [], None
    ev.set(tag + "_entries", len(attrs))
    ev.set(tag + "_records_differing_from_WriterExts", len(drift))
    if drift:
        print("SPEC-DRIFT (no alarm): sqfs2tar writes %s where TarSem.WriterExts predicts %s (%d entries)" % (drift[0][1], drift[0][2], len(drift)))
    i1, i2 = s.dir + "/i1.sqfs", s.dir + "/i2.sqfs"
    rc, o, e = sh([tools + "/tar2sqfs", "-q", "-f", "-c", "gzip", i1], stdin=tar1, timeout=120)
    if rc != 0:
        rep.violation("roundtrip-rejected", "tar2sqfs rejects sqfs2tar's own output: %s" % e.decode(errors="replace")[-200:])
        return 1
    t0 = {p: {k: v for k, v in n.items() if k != "inum"} for p, n in fidelity.decoded_tree(sqfsimg.load(img0)).items()}
    t1 = {p: {k: v for k, v in n.items() if k != "inum"} for p, n in fidelity.decoded_tree(sqfsimg.load(i1)).items()}
    if t0 != t1:
        bad = sorted(p for p in set(t0) | set(t1) if t0.get(p) != t1.get(p))
        a = attrs.get(bad[0], {})
        rep.violation("roundtrip-semantic", "image -> tar -> image changes the tree: %d entries differ, first %r (%s): %s -> %s"
                      % (len(bad), bad[0][:30], a, str(t0.get(bad[0]))[:150], str(t1.get(bad[0]))[:150]), data={"entries": [b.decode(errors="replace")[:40] for b in bad[:10]]})
        return 1
    rc, tar2, e = sh([tools + "/sqfs2tar", i1], timeout=120)
    sh([tools + "/tar2sqfs", "-q", "-f", "-c", "gzip", i2], stdin=tar2, timeout=120)
    if not os.path.exists(i2) or vlib.fsha(i1) != vlib.fsha(i2):
        # name the entry class: first record that differs between the two archives
        r1, r2 = tar_record_types(tar1), tar_record_types(tar2)
        first = next((k for k in range(min(len(r1), len(r2))) if r1[k] != r2[k]), None)
        what = "record %s (%s %r)" % (first, r1[first][0], r1[first][1][:30]) if first is not None else "no record differs (images differ)"
        nx = max((x.count(b"SCHILY.xattr") for _, _, x in r1[first:first + 1]), default=0) if first is not None else 0
        rep.violation("fixpoint-xattr-order" if nx >= 2 else "fixpoint",
                      "converting image -> tar -> image a second time does not reproduce the first result byte for byte: first difference at %s%s"
                      % (what, ", an x record with %d xattr keys, written in reversed order" % nx if nx >= 2 else ""))
    return 2


def pax_fields_stage(tools, work, rep, ev, tier, cfg):
    """spec/PaxFields.tla: the record kinds of one local PAX header (uid twice, gid, mtime, path, size, SCHILY / LIBARCHIVE xattrs with
    url-encoded key and padded / unpadded base64, ignored keys) in every order of <= 3 (4) records; each emitted header in front of
    a file entry, followed by a second plain entry that must stay untouched."""
    import base64
    MR = 3 if tier == "quick" else 4
    C = {"MaxRecs": MR, "Emit": False, "SizeIgnored": False, "LibarchiveRaw": False}
    write_cfg(cfg, spec="Spec", constants=C, invariants=["Faithful", "IgnoredKeysIgnored"], deadlock=False)
    r = run_tlc("PaxFields", cfg, workers=4, timeout=600)
    ev.tlc(r, "PaxFields records<=%d" % MR)
    if not r["ok"]:
        print("MODEL-FAILURE: PaxFields violates %s" % r["violated"])
        return None
    for dev in ("SizeIgnored", "LibarchiveRaw"):
        write_cfg(cfg, spec="Spec", constants=dict(C, **{dev: True}), invariants=["Faithful"], deadlock=False)
        r = run_tlc("PaxFields", cfg, workers=4, timeout=600)
        ev.tlc(r, "dev PaxFields " + dev)
        if not r["violated"]:
            print("SELF-CHECK-FAILED: PaxFields deviation %s without counterexample" % dev)
            return None
    write_cfg(cfg, spec="Spec", constants=dict(C, Emit=True), invariants=["EmitOK"], deadlock=False)
    r = run_tlc("PaxFields", cfg, workers=2, timeout=600)
    cases = bpbind.parse_emitted(r["out"])
    if len(cases) < 1000:
        print("SELF-CHECK-FAILED: PaxFields emitted %d headers" % len(cases))
        return None
    DATA = b"payload that is longer than the header's size field admits\n" * 3
    SHORT = 10
    XV = {"sx": (b"user.schily", b"raw value \xff\x01"), "lx": (b"user.libarchive", b"decoded value\x00\x02"), "lxsp": (b"user.l p%", b"sp"), "lxpad": (b"user.pad", b"abcd")}

    def rec(k):
        if k == "uid1":
            return (b"uid", b"3000001")
        if k == "uid2":
            return (b"uid", b"3000002")
        if k == "gid":
            return (b"gid", b"4000000000")
        if k == "mtime":
            return (b"mtime", b"1234567.5")
        if k == "size":
            return (b"size", b"%d" % len(DATA))
        if k == "path":
            return (b"path", b"dir/from_pax")
        if k == "sx":
            return (b"SCHILY.xattr." + XV[k][0], XV[k][1])
        if k == "lx":
            return (b"LIBARCHIVE.xattr." + XV[k][0], base64.b64encode(XV[k][1]).rstrip(b"="))         # libarchive writes no padding
        if k == "lxsp":
            return (b"LIBARCHIVE.xattr.user.l%20p%25", base64.b64encode(XV[k][1]))
        if k == "lxpad":
            return (b"LIBARCHIVE.xattr." + XV[k][0], base64.b64encode(XV[k][1]))                        # "YWJjZA==" with padding
        if k == "comment":
            return (b"comment", b"nothing")
        return (b"VENDOR.thing", b"value=with=equals")

    def do(i):
        c = cases[i]
        arch = tarfmt.pax([rec(k) for k in c["recs"]]) if c["recs"] else b""
        has_size = "size" in c["recs"]
        arch += tarfmt.header(b"hdr_name", b"0", size=SHORT if has_size else len(DATA), uid=17, gid=18, mtime=99) + tarfmt.pad(DATA)
        arch += tarfmt.header(b"second", b"0", size=3, uid=21, gid=22, mtime=77) + tarfmt.pad(b"two") + tarfmt.terminator()
        out = "%s/pf%d.sqfs" % (work, i)
        rc, o, e = sh([tools + "/tar2sqfs", "-q", "-f", out], stdin=arch, timeout=30)
        if rc != 0:
            return i, "tar2sqfs refuses the archive: %s" % e.decode(errors="replace")[-150:]
        try:
            t = sqfsimg.load(out).tree()
        finally:
            if os.path.exists(out):
                os.unlink(out)
        m = c["m"]
        name = b"dir/from_pax" if m["name"] == "p1" else b"hdr_name"
        n = t.get(name)
        if n is None:
            return i, "entry %r missing (names %s)" % (name, sorted(t)[:5])
        want = {"uid": {"h": 17, "u1": 3000001, "u2": 3000002}[m["uid"]], "gid": 18 if m["gid"] == "h" else 4000000000, "mtime": 99 if m["mtime"] == "h" else 1234567}
        for k, v in want.items():
            if n[k] != v:
                return i, "%s is %s, the header sequence says %s" % (k, n[k], v)
        if n["sha"] != vlib.sha(DATA):
            return i, "content differs: %d bytes stored, %d archived" % (n["size"], len(DATA))
        wx = {XV[k][0].replace(b"l p%", b"l p%"): XV[k][1] for k in m["xattrs"]}
        if n["xattrs"] != wx:
            return i, "xattrs %s, expected %s" % (n["xattrs"], wx)
        s2 = t.get(b"second")
        if s2 is None or (s2["uid"], s2["gid"], s2["mtime"], s2["size"]) != (21, 22, 77, 3) or s2["xattrs"]:
            return i, "the entry BEHIND the extended header is affected: %s" % (s2 and {k: s2[k] for k in ("uid", "gid", "mtime", "size", "xattrs")})
        return i, None
    n, seen = 0, set()
    with ThreadPoolExecutor(16) as ex:
        for i, bad in ex.map(do, range(len(cases))):
            n += 1
            if bad:
                key = "pax-record-" + ("size" if "content" in bad or "BEHIND" in bad or "missing" in bad else "xattr" if "xattr" in bad else "field")
                if key not in seen:
                    seen.add(key)
                    rep.violation(key, "file entry behind one PAX header with the records %s: %s" % (cases[i]["recs"], bad), data={"records": cases[i]["recs"]})
    ev.set("pax_headers_replayed", n)
    return n


def tar_num_stage(work, rep, ev, tier, cfg):
    """spec/TarNum.tla: numeric header fields - w-1 octal digits + blank, w octal digits, base 256 - as written by sqfs2tar's header writer
    and read by tar2sqfs' reader: exhaustively for every value up to Max at the widths 3 and 4 in the model, and the table of the REAL
    write_number / write_number_signed / read_number over the same domain (+ the boundaries of the 8 byte fields) validated by TLC."""
    MAX = 70000 if tier == "quick" else 300000
    INV = ["RoundTrip", "FieldWidth", "FormByRange", "NegRoundTrip"]
    C = {"Max": MAX, "BinaryWithoutFlag": False, "FullFormShort": False}
    write_cfg(cfg, init="Init", nxt="Next", constants=C, invariants=INV, deadlock=False)
    r = run_tlc("TarNum", cfg, workers=8, timeout=1500)
    ev.tlc(r, "TarNum Max=%d" % MAX)
    if not r["ok"]:
        print("MODEL-FAILURE: TarNum violates %s" % r["violated"])
        return None
    for dev in ("BinaryWithoutFlag", "FullFormShort"):
        write_cfg(cfg, init="Init", nxt="Next", constants=dict(C, **{dev: True}), invariants=INV, deadlock=False)
        r = run_tlc("TarNum", cfg, workers=4, timeout=600)
        ev.tlc(r, "dev TarNum " + dev)
        if r["violated"] != "RoundTrip":
            print("SELF-CHECK-FAILED: TarNum deviation %s: %s" % (dev, r["violated"]))
            return None
    binp = work + "/replay_tarnum"
    if not build.compile_harness(VERIF + "/harness/replay_tarnum.c", binp, variant="asan",
                                 extra=['-DWRITE_HEADER_C="%s/lib/tar/src/write_header.c"' % build.REPO, "-I%s/lib/tar/src" % build.REPO]):
        raise RuntimeError("harness build failed")
    q = subprocess.run([binp, str(MAX)], capture_output=True, text=True, timeout=600, env=dict(os.environ, ASAN_OPTIONS="detect_leaks=0"))
    if q.returncode != 0 or "ERROR: AddressSanitizer" in q.stderr:
        rep.violation("tar-number-memory", "the tar number writer / reader: %s" % q.stderr[-300:])
        return 0
    tp = work + "/tarnum.ndjson"
    lines = [l for l in q.stdout.split("\n") if l.startswith("{")]
    if any('"guard":false' in l for l in lines):
        rep.violation("tar-number-memory", "write_number writes beyond its field: %s" % next(l for l in lines if '"guard":false' in l))
    open(tp, "w").write("\n".join(lines) + "\n")
    write_cfg(cfg, init="TInit", nxt="TNext", constants=C, invariants=["AllRecordsAgree", "NonEmpty"], deadlock=False)
    r = run_tlc("TraceTarNum", cfg, workers=1, timeout=1500, env={"TRACE": tp}, heap="8g")
    ev.tlc(r, "TraceTarNum (%d records)" % len(lines))
    if r["violated"] == "AllRecordsAgree":
        bad = sorted(r["trace"][0].get("bad")) if r["trace"] else []
        first = json.loads(lines[bad[0] - 1]) if bad else None
        back_wrong = first and (first["rc"] != 0 or first["back"] != first["v"])
        # a number that does not read back is C04 (the conversion changes an attribute); another byte layout alone is drift
        if back_wrong:
            rep.violation("tar-number-roundtrip", "a %d byte header field holding %s%d is written as %s and read back as %s (rc %d)"
                          % (first["w"], "-" if first["neg"] else "", first["v"], first["bytes"], first["back"], first["rc"]), artefact=tp, data={"first": first})
        else:
            print("SPEC-DRIFT (no alarm): %d header fields are laid out differently from TarNum.tla but read back, e.g. %s" % (len(bad), first))
            ev.set("tar_number_layout_drift", len(bad))
    elif not r["ok"]:
        print("CHECK-BROKEN: TraceTarNum failed to run: %s" % r["out"][-600:])
        return None
    ev.set("tar_number_records", len(lines))
    return len(lines)


def exclude_stage(tools, work, rep, ev, tier, rng, cfg):
    """spec/TarExclude.tla: archives of <= 3 members x --exclude-dir globs x --root-becomes: exactly the matching members are missing from
    the image, the members behind a skipped file are still read from the right place (contents), directories that are only implied
    have the default attributes."""
    import tarfmt
    C = {"Emit": False, "MaxEntries": 3, "StarStopsAtSlash": False, "ExcludeTakesSubtree": False}
    INV = ["OnlyMatchesDropped", "NoExcludeNoChange", "StarCrossesSlash"]
    write_cfg(cfg, init="Init", nxt="Next", constants=C, invariants=INV, deadlock=False)
    r = run_tlc("TarExclude", cfg, workers=8, timeout=900)
    ev.tlc(r, "TarExclude")
    if not r["ok"]:
        print("MODEL-FAILURE: TarExclude violates %s" % r["violated"])
        return None
    for dev, want in (("StarStopsAtSlash", "StarCrossesSlash"), ("ExcludeTakesSubtree", "OnlyMatchesDropped")):
        write_cfg(cfg, init="Init", nxt="Next", constants=dict(C, **{dev: True}), invariants=INV, deadlock=False)
        r = run_tlc("TarExclude", cfg, workers=8, timeout=900)
        ev.tlc(r, "dev TarExclude " + dev)
        if r["violated"] != want:
            print("SELF-CHECK-FAILED: TarExclude deviation %s: %s" % (dev, r["violated"]))
            return None
    write_cfg(cfg, init="Init", nxt="Next", constants=dict(C, Emit=True), invariants=["EmitOK"], deadlock=False)
    r = run_tlc("TarExclude", cfg, workers=4, timeout=900, heap="8g")
    cases = bpbind.parse_emitted(r["out"])
    if len(cases) < 20000:
        print("SELF-CHECK-FAILED: TarExclude emitted %d cases" % len(cases))
        return None
    rng.shuffle(cases)
    withg = [c for c in cases if c["gs"]]
    cases = withg[:900 if tier == "quick" else len(withg)] + [c for c in cases if not c["gs"]][:100 if tier == "quick" else 2000]
    d = work + "/excl"
    os.makedirs(d, exist_ok=True)

    def do(i):
        c = cases[i]
        arch = b""
        content = {}
        for k, e in enumerate(c["arch"]):
            name = "/".join(e["path"])
            if e["kind"] == "dir":
                arch += tarfmt.header((name + "/").encode(), b"5", mode=0o750, uid=5, gid=6, mtime=1000)
            else:
                body = ("member %d of %s\n" % (k, name)).encode() * (40 + 30 * k)
                content[tuple(e["path"])] = body
                arch += tarfmt.header(name.encode(), b"0", size=len(body), mode=0o640, uid=5, gid=6, mtime=1000) + tarfmt.pad(body)
        arch += tarfmt.terminator()
        img = "%s/e%d.sqfs" % (d, i)
        args = [tools + "/tar2sqfs", "-q", "-f"]
        for g in sorted(c["gs"]):
            args += ["-E", g]
        if c["rb"]:
            args += ["-r", "r"]
        desc = "tar2sqfs %s on members %s" % (" ".join(args[3:]), ["/".join(e["path"]) + ("/" if e["kind"] == "dir" else "") for e in c["arch"]])
        try:
            rc, o, e = sh(args + [img], stdin=arch, timeout=60)
            if rc < 0 or b"ERROR: AddressSanitizer" in e:
                return "convert-memory-error", "%s: %s" % (desc, e.decode(errors="replace")[-200:])
            if c["refused"]:
                return None if rc != 0 else ("exclude-accepted", "%s: exit 0, specified: refused (the new root is not a directory)" % desc)
            if rc != 0:
                return "exclude-refused", "%s: refused: %s" % (desc, e.decode(errors="replace").strip()[-150:])
            im = sqfsimg.load(img)
            t = im.tree(with_content=True)
            got = {}
            for pth, n in t.items():
                if not pth:
                    continue
                implicit = n["kind"] == "dir" and (n["mode"], n["uid"]) != (0o750, 5)
                got[tuple(pth.decode().split("/"))] = ("dir" if n["kind"] == "dir" else "file", implicit)
            want = {tuple(x["path"]): (x["kind"], bool(x["implicit"])) for x in c["out"]}
            if got != want:
                return "exclude-tree", "%s: the image holds %s, specified %s" % (desc, sorted(got.items()), sorted(want.items()))
            for e2 in c["arch"]:
                p0 = tuple(e2["path"])
                p1 = p0[1:] if c["rb"] else p0
                if e2["kind"] == "file" and p1 in want and p0 in content and not want[p1][1] and (not c["rb"] or p0[0] == "r"):
                    if t["/".join(p1).encode()].get("sha") != vlib.sha(content[p0]):
                        return "exclude-content", "%s: member %s has other bytes in the image (data of a skipped member not stepped over?)" % (desc, "/".join(p0))
            return None
        finally:
            if os.path.exists(img):
                os.unlink(img)
    n, seen = 0, set()
    with ThreadPoolExecutor(16) as ex:
        for res in ex.map(do, range(len(cases))):
            n += 1
            if res and res[0] not in seen:
                seen.add(res[0])
                rep.violation(res[0], res[1])
    ev.set("exclude_cases_replayed", n)
    return n


def options_stage(tools, work, rep, ev, tier, rng, cfg):
    """spec/TarOpts.tla: archives x tar2sqfs --root-becomes / --no-symlink-retarget, and the fixed image x sqfs2tar
    --subdir / --keep-as-dir / --root-becomes / --no-hard-links; every emitted case on the real converters"""
    import re
    OC = {"Emit": False, "MaxEntries": 2, "CanonMutatesTarget": False, "NoRetargetCoversHardLinks": False}
    for side, invs in (("t2s", ["TargetsUntouched", "HardLinksFollow"]), ("s2t", ["LinksResolve", "RoundTripShape"])):
        write_cfg(cfg, spec="Spec", constants=dict(OC, Side='"%s"' % side), invariants=invs, deadlock=False)
        r = run_tlc("TarOpts", cfg, workers=8, timeout=900)
        ev.tlc(r, "TarOpts " + side)
        if not r["ok"]:
            print("MODEL-FAILURE: TarOpts violates %s" % r["violated"])
            return None
    write_cfg(cfg, spec="Spec", constants=dict(OC, Side='"t2s"', CanonMutatesTarget=True), invariants=["TargetsUntouched"], deadlock=False)
    r = run_tlc("TarOpts", cfg, workers=8, timeout=900)
    ev.tlc(r, "dev TarOpts CanonMutatesTarget")
    if r["violated"] != "TargetsUntouched":
        print("SELF-CHECK-FAILED: CanonMutatesTarget without counterexample")
        return None
    write_cfg(cfg, spec="Spec", constants=dict(OC, Side='"t2s"', NoRetargetCoversHardLinks=True), invariants=["HardLinksFollow"], deadlock=False)
    r = run_tlc("TarOpts", cfg, workers=8, timeout=900)
    ev.tlc(r, "dev TarOpts NoRetargetCoversHardLinks")
    if r["violated"] != "HardLinksFollow":
        print("SELF-CHECK-FAILED: NoRetargetCoversHardLinks without counterexample")
        return None
    n = 0
    # ---- tar2sqfs side ----
    write_cfg(cfg, spec="Spec", constants=dict(OC, Side='"t2s"', Emit=True), invariants=["EmitOK"], deadlock=False)
    r = run_tlc("TarOpts", cfg, workers=4, timeout=900)
    cases = bpbind.parse_emitted(r["out"])
    ev.set("tar2sqfs_option_cases_emitted", len(cases))
    key = lambda c: json.dumps(c, sort_keys=True)
    hl = [c for c in cases if any(e["kind"] == "hlink" for e in c["arch"])]                 # every archive with a hard link (few): all of them
    hlk = {key(c) for c in hl}
    withlink = [c for c in cases if c["rb"] and key(c) not in hlk and any(e["kind"] == "slink" for e in c["arch"])]
    wk = {key(c) for c in withlink}
    rest = [c for c in cases if key(c) not in hlk and key(c) not in wk]
    rng.shuffle(hl)
    rng.shuffle(withlink)
    rng.shuffle(rest)
    cap = 700 if tier == "quick" else 20000
    cases = hl[:cap] + withlink[:cap] + rest[:cap // 3]
    ev.set("tar2sqfs_option_cases_with_hard_links", len(hl))

    def t2s(i):
        c = cases[i]
        arch = b""
        for e in c["arch"]:
            name = "/".join(e["path"]).encode()
            if e["kind"] == "dir":
                arch += tarfmt.header(name + b"/", b"5", mode=0o755)
            elif e["kind"] == "file":
                d = b"content of " + name
                arch += tarfmt.header(name, b"0", size=len(d)) + tarfmt.pad(d)
            elif e["kind"] == "hlink":
                arch += tarfmt.header(name, b"1", linkname=e["tgt"].encode())
            else:
                arch += tarfmt.header(name, b"2", linkname=e["tgt"].encode())
        arch += tarfmt.terminator()
        out = "%s/opt%d.sqfs" % (work, i)
        rc, o, e2 = sh([tools + "/tar2sqfs", "-q", "-f"] + (["-r", "r"] if c["rb"] else []) + (["-S"] if c["nr"] else []) + [out], stdin=arch, timeout=30)
        if c["refused"]:
            return i, (None if rc != 0 else "tar2sqfs accepts an archive whose new root %r is not a directory" % "r"), arch
        if rc != 0:
            return i, "tar2sqfs fails: %s" % e2.decode(errors="replace")[-150:], arch
        t = sqfsimg.load(out).tree(with_content=False)
        os.unlink(out)
        for e in c["out"]:
            if not e["path"]:
                continue
            g = t.get("/".join(e["path"]).encode())
            if e["kind"] == "hlink":
                tg = t.get(e["tgt"].encode())
                if g is None or tg is None or g["inum"] != tg["inum"] or g["kind"] != "file":
                    return i, "hard link /%s: not another name of /%s in the image (%s)" % ("/".join(e["path"]), e["tgt"], g and g["kind"]), arch
                continue
            if g is None or g["kind"] != e["kind"]:
                return i, "entry /%s: image has %s, specification %s" % ("/".join(e["path"]), g and g["kind"], e["kind"]), arch
            if e["kind"] == "slink" and g["target"] != e["tgt"].encode():
                return i, "symlink /%s points at %r, specification %r" % ("/".join(e["path"]), g["target"], e["tgt"]), arch
        extra = [p for p in t if p and t[p]["kind"] != "dir" and p.decode() not in {"/".join(e["path"]) for e in c["out"]}]
        if extra:
            return i, "image has entries the specification drops: %s" % extra[:3], arch
        return i, None, arch

    with ThreadPoolExecutor(max_workers=16) as ex:
        for i, bad, arch in ex.map(t2s, range(len(cases))):
            n += 1
            if bad:
                c = cases[i]
                f = work + "/bad_opt_%d.tar" % i
                open(f, "wb").write(arch)
                key = "tar2sqfs-root-becomes-symlink-target" if "points at" in bad else "tar2sqfs-root-becomes"
                rep.violation(key, "tar2sqfs %s%son the archive %s: %s" % ("--root-becomes r " if c["rb"] else "", "--no-symlink-retarget " if c["nr"] else "",
                              [("/".join(e["path"]), e["kind"], e["tgt"]) for e in c["arch"]], bad), artefact=f, data={"case": c})
    # ---- tar2sqfs attribute options: -k (no keep time), -x (no xattr), with / without --root-becomes ----
    write_cfg(cfg, spec="Spec", constants=dict(OC, Side='"attr"', MaxEntries=1), invariants=["AttrOptionsHonoured"], deadlock=False)
    r = run_tlc("TarOpts", cfg, workers=4, timeout=600)
    ev.tlc(r, "TarOpts attr")
    if not r["ok"]:
        print("MODEL-FAILURE: TarOpts violates %s" % r["violated"])
        return None
    write_cfg(cfg, spec="Spec", constants=dict(OC, Side='"attr"', MaxEntries=1, Emit=True), invariants=["EmitAttr"], deadlock=False)
    r = run_tlc("TarOpts", cfg, workers=1, timeout=600)
    acases = [json.loads(t) for t in sorted(set(m.encode().decode("unicode_escape") for m in re.findall(r'<<"ATTR", "((?:[^"\\]|\\.)*)">>', r["out"])))]
    ev.set("tar2sqfs_attribute_option_cases", len(acases))
    if not acases:
        print("SELF-CHECK-FAILED: no attribute option cases emitted")
        return None

    def attr(i):
        c = acases[i]
        e = c["e"]
        name = "/".join(e["path"]).encode()
        arch = b""
        MT = {"5": 5, "big": (1 << 33) + 5, "neg": -86400}
        WANT = {"0": 0, "5": 5, "max": 0xFFFFFFFF}
        if e["late"]:                                        # a child first: the directory exists implicitly when its own record arrives
            arch += tarfmt.header(name + b"/zz_child", b"0", size=1, mtime=5) + tarfmt.pad(b"c")
        rec = [(b"mtime", b"%d" % MT[e["mtime"]])] if e["mtime"] != "5" else []
        if e["xa"]:
            rec.append((b"SCHILY.xattr.user.k", b"v%d" % i))
        if rec:
            arch += tarfmt.pax(rec)
        if e["kind"] == "dir":
            arch += tarfmt.header(name + b"/", b"5", mode=0o755, mtime=5)
        else:
            arch += tarfmt.header(name, b"0", size=3, mtime=5) + tarfmt.pad(b"abc")
        arch += tarfmt.terminator()
        out = "%s/attr%d.sqfs" % (work, i)
        args = (["-r", "r"] if c["rb"] else []) + (["-k"] if c["nk"] else []) + (["-x"] if c["nx"] else [])
        rc, o, e2 = sh([tools + "/tar2sqfs", "-q", "-f"] + args + [out], stdin=arch, timeout=30)
        if c["refused"]:
            return i, None if rc != 0 else "accepted although the new root is not a directory", args
        if rc != 0:
            return i, "tar2sqfs fails: %s" % e2.decode(errors="replace")[-120:], args
        t = sqfsimg.load(out).tree(with_content=False)
        os.unlink(out)
        for n in c["out"]:
            g = t.get("/".join(n["path"]).encode())
            if g is None:
                return i, "entry /%s missing from the image" % "/".join(n["path"]), args
            if g["mtime"] != WANT[n["mtime"]]:
                return i, "entry /%s has time stamp %d, specification %d" % ("/".join(n["path"]), g["mtime"], WANT[n["mtime"]]), args
            if bool(g["xattrs"]) != n["xa"]:
                return i, "entry /%s %s an xattr, specification: %s" % ("/".join(n["path"]), "has" if g["xattrs"] else "lacks", n["xa"]), args
        return i, None, args

    with ThreadPoolExecutor(max_workers=16) as ex:
        for i, bad, args in ex.map(attr, range(len(acases))):
            n += 1
            if bad:
                rep.violation("tar2sqfs-attribute-options", "tar2sqfs %s on one %s entry %s (mtime %d, xattr %s): %s"
                              % (" ".join(args) or "(no options)", acases[i]["e"]["kind"] + (" (listed after its child)" if acases[i]["e"]["late"] else ""), "/".join(acases[i]["e"]["path"]), 0, acases[i]["e"]["xa"], bad) + " [mtime class %s]" % acases[i]["e"]["mtime"],
                              data={"case": acases[i]})
    # ---- sqfs2tar side ----
    write_cfg(cfg, spec="Spec", constants=dict(OC, Side='"s2t"', Emit=True, MaxEntries=1), invariants=["EmitS2T"], deadlock=False)
    r = run_tlc("TarOpts", cfg, workers=1, timeout=900)
    scases = [json.loads(m.encode().decode("unicode_escape")) for m in re.findall(r'<<"S2T", "((?:[^"\\]|\\.)*)">>', r["out"])]
    ev.set("sqfs2tar_option_cases_emitted", len(scases))
    if not scases:
        print("SELF-CHECK-FAILED: no sqfs2tar option cases emitted")
        return None
    src = work + "/optsrc.bin"
    open(src, "wb").write(b"shared content\n")
    pf = work + "/optimg.txt"
    open(pf, "w").write("dir /r 0755 1 2\nfile /r/x 0644 3 4 %s\nlink /r/y 0 0 0 /r/x\nfile /x 0600 5 6 %s\ndir /y 0700 7 8\nlink /y/x 0 0 0 /r/x\n" % (src, src))
    img = work + "/optimg.sqfs"
    rc, o, e = sh([tools + "/gensquashfs", "-q", "-f", "-F", pf, img], timeout=60)
    if rc != 0:
        raise RuntimeError("cannot build the option image: %s" % e[-200:])
    for c in scases:
        args = [tools + "/sqfs2tar"]
        for sd in c["subs"]:
            args += ["-d", "/".join(sd)]
        args += (["-k"] if c["kad"] else []) + (["-r", c["rn"]] if c["rn"] != "-" else []) + (["-L"] if c["nl"] else []) + [img]
        rc, tarb, e = sh(args, timeout=60)
        n += 1
        label = " ".join(args[1:-1]) or "(no options)"
        if rc != 0:
            rep.violation("sqfs2tar-options", "sqfs2tar %s fails: %s" % (label, e.decode(errors="replace")[-150:]), data={"case": c})
            continue
        try:
            got = [(m.name.rstrip("/") if m.name not in (".", "./") else ".", "dir" if m.isdir() else "file" if (m.isfile() or m.islnk()) else "?", m.linkname if m.islnk() else "")
                   for m in tarfile.open(fileobj=io.BytesIO(tarb)).getmembers()]
        except Exception as ex:
            rep.violation("sqfs2tar-options", "sqfs2tar %s: archive cannot be read: %s" % (label, ex), data={"case": c})
            continue
        want = [("/".join(e2["path"]), e2["kind"], "/".join(e2["link"])) for e2 in c["out"]]
        if got != want:
            rep.violation("sqfs2tar-options", "sqfs2tar %s writes the members %s, the specification says %s" % (label, got, want), data={"case": c, "got": got})
    return n


def sparse_cases(work, tools, tier, rep):
    """every hole layout over N units x GNU sparse formats; returns number of conversions"""
    N = 5 if tier == "quick" else 7
    unit = 4096
    d = work + "/sparse"
    os.makedirs(d, exist_ok=True)
    files = {}
    for mask in range(1 << N):
        p = "%s/s%03d" % (d, mask)
        with open(p, "wb") as f:
            for u in range(N):
                if mask >> u & 1:
                    f.seek(u * unit)
                    f.write(bytes([65 + u]) * unit)
            f.truncate(N * unit)
        files["s%03d" % mask] = open(p, "rb").read()
    n = 0
    fmts = [("gnu-old", ["--format=gnu", "-S"]), ("pax-0.0", ["--format=pax", "-S", "--sparse-version=0.0"]),
            ("pax-0.1", ["--format=pax", "-S", "--sparse-version=0.1"]), ("pax-1.0", ["--format=pax", "-S", "--sparse-version=1.0"])]
    for fname, fa in fmts:
        ar = "%s/%s.tar" % (work, fname)
        rc, o, e = sh(["tar", "-C", d, "-c", "-f", ar] + fa + sorted(files), timeout=120)
        if rc != 0:
            raise RuntimeError("GNU tar failed: %s" % e[-200:])
        out = "%s/%s.sqfs" % (work, fname)
        rc, o, e = sh([tools + "/tar2sqfs", "-q", "-f", "-c", "gzip", "-b", "4096", out], stdin=open(ar, "rb").read(), timeout=120)
        n += 1
        if rc != 0:
            rep.violation("tar-sparse-rejected-%s" % fname, "tar2sqfs rejects a GNU tar %s sparse archive: %s" % (fname, e.decode(errors="replace")[-200:]), artefact=ar)
            continue
        t = sqfsimg.load(out).tree()
        for nm, data in files.items():
            g = t.get(nm.encode())
            if g is None or g["sha"] != vlib.sha(data):
                rep.violation("tar-sparse-content-%s" % fname, "sparse format %s: file %s (hole layout mask %s over %d units) is not expanded to its real content"
                              % (fname, nm, nm[1:], N), artefact=ar, data={"file": nm})
                break
    return n


def sparse_boundaries(work, tools, tier, rep):
    """sparse maps around the capacities of their encodings: 4 entries in an old GNU header, 21 per extension header,
    ~42 regions per 512-byte record of a PAX 1.0 map (offset\\nsize\\n text), with members FOLLOWING the sparse file so
    that a wrong record count shows up as a lost or garbled neighbour"""
    regions = [1, 4, 5, 21, 25, 26, 40, 42, 43, 44, 60, 86, 130] if tier != "quick" else [4, 5, 25, 26, 42, 44, 60, 90]
    unit = 4096
    d = work + "/sparseb"
    os.makedirs(d, exist_ok=True)
    n = 0
    fmts = [("gnu-old", ["--format=gnu", "-S"]), ("pax-0.0", ["--format=pax", "-S", "--sparse-version=0.0"]),
            ("pax-0.1", ["--format=pax", "-S", "--sparse-version=0.1"]), ("pax-1.0", ["--format=pax", "-S", "--sparse-version=1.0"])]
    for R in regions:
        sub = "%s/r%d" % (d, R)
        os.makedirs(sub + "/zdir")
        with open(sub + "/a_sparse", "wb") as f:
            for k in range(R):
                f.seek((2 * k + 1) * unit)
                f.write(bytes([33 + k % 90]) * unit)
            f.truncate((2 * R + 1) * unit)
        open(sub + "/b_after.txt", "wb").write(b"the member after the sparse file %d\n" % R)
        os.symlink("b_after.txt", sub + "/c_link")
        open(sub + "/zdir/inner", "wb").write(b"inner")
        want = {b"a_sparse": vlib.sha(open(sub + "/a_sparse", "rb").read()), b"b_after.txt": vlib.sha(open(sub + "/b_after.txt", "rb").read()),
                b"zdir/inner": vlib.sha(b"inner")}
        for fname, fa in fmts:
            ar = "%s/b_%s_%d.tar" % (work, fname, R)
            rc, o, e = sh(["tar", "-C", sub, "-c", "-f", ar] + fa + ["a_sparse", "b_after.txt", "c_link", "zdir"], timeout=120)
            if rc != 0:
                raise RuntimeError("GNU tar failed: %s" % e[-200:])
            out = "%s/b_%s_%d.sqfs" % (work, fname, R)
            rc, o, e = sh([tools + "/tar2sqfs", "-q", "-f", "-c", "gzip", "-b", "4096", out], stdin=open(ar, "rb").read(), timeout=120)
            n += 1
            if rc != 0:
                rep.violation("tar-sparse-rejected-%s" % fname, "tar2sqfs rejects a GNU tar %s archive whose sparse member has %d data regions: %s"
                              % (fname, R, e.decode(errors="replace")[-200:]), artefact=ar)
                continue
            t = sqfsimg.load(out).tree()
            probs = [p.decode() for p, h in want.items() if p not in t or t[p].get("sha") != h]
            if b"c_link" not in t or t[b"c_link"]["kind"] != "slink":
                probs.append("c_link")
            if b"zdir" not in t:
                probs.append("zdir")
            if probs:
                rep.violation("tar-sparse-neighbours-%s" % fname, "sparse format %s, %d data regions: entries %s are missing or differ in the image" % (fname, R, probs),
                              artefact=ar, data={"regions": R, "entries": probs})
            os.unlink(out)
            if not probs:
                os.unlink(ar)
    return n


def dialect_entries(rng):
    long99, long100, long101 = "a" * 99, "b" * 100, "c" * 101
    ents = [dict(name="d", type="dir", mode=0o750, uid=5, gid=6, mtime=1500000000),
            dict(name="d/" + long99[:97], data=b"99"), dict(name=long100, data=b"100"), dict(name=long101, data=b"101"),
            dict(name="p" * 150 + "/" + "q" * 90, data=b"prefix split"), dict(name="r" * 200 + "/" + "s" * 55, data=b"255"),
            dict(name="d/big_ids", data=b"ids", uid=2500000, gid=4000000000), dict(name="d/sym", type="slink", target="t" * 120),
            dict(name="d/hl_after", type="hlink", target="d/big_ids"), dict(name="d/chr", type="chr", devmajor=200, devminor=70000),
            dict(name="d/fifo", type="fifo", mode=0o600), dict(name="d/old", data=b"old", mtime=1), dict(name="d/future", data=b"future", mtime=2 ** 33 + 5),
            dict(name="d/xa", data=b"xattr carrier", xattrs={"user.one": "1", "user.two": "two words"}),
            dict(name="d/zero", data=b""), dict(name="d/blk", data=gen.content(rng, "mixed", 4096 * 3 + 7))]
    return ents


def expected_from_entries(ents, fmt):
    out = {}
    for e in ents:
        t = e.get("type", "file")
        rec = {"kind": {"file": "file", "dir": "dir", "slink": "slink", "chr": "chr", "fifo": "fifo", "hlink": None}[t],
               "mode": e.get("mode", 0o644) & 0o7777, "uid": e.get("uid", 0), "gid": e.get("gid", 0)}
        if t == "slink":
            rec["target"] = e["target"].encode()
            rec["mode"] = 0o777
        if t == "file":
            rec["sha"] = vlib.sha(e.get("data", b""))
        if t == "chr":
            maj, mi = e["devmajor"], e["devminor"]
            rec["devno"] = (maj << 8) | (mi & 0xFF) | ((mi & ~0xFF) << 12)
        mt = e.get("mtime", 1000000000)
        rec["mtime"] = min(max(mt, 0), 0xFFFFFFFF)
        if e.get("xattrs") and fmt == tarfile.PAX_FORMAT:
            rec["xattrs"] = {k.encode(): v.encode() for k, v in e["xattrs"].items()}
        if t == "hlink":
            rec = {"linkof": e["target"].encode()}
        out[e["name"].encode()] = rec
    return out


def run(tier):
    ev = Evidence(PID, tier, "exploration")
    rep = Reporter(PID, ev)
    work = scratch("c04")
    tools = build.build("plain") + "/bin"
    rng = random.Random(SEED)
    cfg = work + "/t.cfg"
    TC = {"MaxExt": 2, "Emit": False, "Pairs": tier != "quick", "NVals": 2, "AnySeq": False, "SetByPaxSurvivesClear": False, "WriterXLast": False}
    INV = ["ImplIsSpec", "SparseRoundTrip", "NoNullDeref", "BitsAgree", "WriterReaderRoundTrip"]
    write_cfg(cfg, spec="Spec", constants=TC, invariants=INV, deadlock=False)
    r = run_tlc("TarSem", cfg, workers=16, timeout=3000, heap="16g")
    ev.tlc(r, "TarSem")
    if not r["ok"]:
        print("MODEL-FAILURE: TarSem violates %s" % r["violated"])
        ev.write()
        return 2
    write_cfg(cfg, spec="Spec", constants=dict(TC, MaxExt=3, Pairs=False, NVals=1, AnySeq=True), invariants=["NoNullDeref", "BitsAgree"], deadlock=False)
    r = run_tlc("TarSem", cfg, workers=16, timeout=3000, heap="16g")
    ev.tlc(r, "TarSem any sequence of <=3 extension records")
    if not r["ok"]:
        print("MODEL-FAILURE: TarSem (any sequence) violates %s" % r["violated"])
        ev.write()
        return 2
    devres = {}
    for dev, extra, inv in (("SetByPaxSurvivesClear", dict(AnySeq=True, Pairs=False, NVals=1), "NoNullDeref"), ("WriterXLast", dict(Pairs=False), "WriterReaderRoundTrip")):
        c = dict(TC, **extra)
        c[dev] = True
        write_cfg(cfg, spec="Spec", constants=c, invariants=[inv], deadlock=False)
        r = run_tlc("TarSem", cfg, workers=8, timeout=900, heap="8g")
        ev.tlc(r, "dev " + dev)
        devres[dev] = r["violated"] == inv
    ev.set("deviations", devres)
    if not all(devres.values()):
        print("SELF-CHECK-FAILED: deviation without counterexample: %s" % devres)
        ev.write()
        return 2
    evaluations = 0
    nontrivial = set()
    # ---- R: header sequences ----------------------------------------------------------------------------
    write_cfg(cfg, spec="Spec", constants=dict(TC, Emit=True, Pairs=False), invariants=["EmitOK"], deadlock=False)
    r = run_tlc("TarSem", cfg, workers=4, timeout=900, heap="8g")
    ev.tlc(r, "TarSem emit")
    recs = bpbind.parse_emitted(r["out"])
    cap = 400 if tier == "quick" else 3000
    if len(recs) > cap:
        recs = rng.sample(recs, cap)

    def do(i):
        return i, check_sequence(tools, work, i, recs[i])

    with ThreadPoolExecutor(max_workers=16) as ex:
        for i, bad in ex.map(do, range(len(recs))):
            evaluations += 1
            nontrivial.add(json.dumps([recs[i]["e1"], recs[i]["e2"]], sort_keys=True))
            if i < 2:
                ev.sample({"kind": "header-sequence", "entry1": recs[i]["e1"], "meaning1": recs[i]["m1"]}, limit=3)
            if bad:
                p = work + "/bad_%d.tar" % i
                open(p, "wb").write(bad[2])
                rep.violation(bad[0], "%s; extension records: %s / %s" % (bad[1], json.dumps(recs[i]["e1"]["exts"]), json.dumps(recs[i]["e2"]["exts"])),
                              artefact=p, data={"e1": recs[i]["e1"], "e2": recs[i]["e2"]})
    # ---- writer model: attribute matrix on the real pair of converters ------------------------------------------
    n = writer_matrix(tools, work, rep, ev, tier)
    evaluations += n
    nontrivial.update("writer-matrix-%d" % k for k in range(n))
    # ---- path-transforming options (spec/TarOpts.tla) -----------------------------------------------------------
    pn = pax_fields_stage(tools, work, rep, ev, tier, cfg)
    if pn is None:
        ev.write()
        return 2
    n = options_stage(tools, work, rep, ev, tier, rng, cfg)
    if n is None:
        ev.write()
        return 2
    evaluations += n
    nontrivial.update("option-case-%d" % k for k in range(n))
    tn_ = tar_num_stage(work, rep, ev, tier, cfg)
    if tn_ is None:
        ev.write()
        return 2
    evaluations += tn_
    xn = exclude_stage(tools, work, rep, ev, tier, rng, cfg)
    if xn is None:
        ev.write()
        return 2
    evaluations += xn
    # ---- sparse layouts ------------------------------------------------------------------------------------
    n = sparse_cases(work, tools, tier, rep) + sparse_boundaries(work, tools, tier, rep)
    evaluations += n
    nontrivial.update("sparse%d" % k for k in range(n))
    # ---- dialect matrix --------------------------------------------------------------------------------------
    ents = dialect_entries(rng)
    for fname, fmt in (("pax", tarfile.PAX_FORMAT), ("gnu", tarfile.GNU_FORMAT)):
        arch = gen.tar_bytes(ents, fmt)
        out = work + "/dial_%s.sqfs" % fname
        rc, o, e = sh([tools + "/tar2sqfs", "-q", "-f", "-c", "zstd", out], stdin=arch, timeout=120)
        evaluations += 1
        nontrivial.add("dialect-" + fname)
        if rc != 0:
            rep.violation("tar-dialect-rejected-%s" % fname, "tar2sqfs rejects the %s archive: %s" % (fname, e.decode(errors="replace")[-200:]))
            continue
        exp = expected_from_entries(ents, fmt)
        # implicit parent directories get defaults
        dec = fidelity.decoded_tree(sqfsimg.load(out))
        for p in list(dec):
            if p not in exp and dec[p]["kind"] == "dir":
                del dec[p]
        for p in exp:
            if "mtime" in exp[p]:
                pass
        diffs = fidelity.compare(exp, dec)[:4]
        if diffs:
            rep.violation("tar-dialect-%s" % fname, "%s archive: image differs from the archive: %s" % (fname, diffs), data={"diffs": diffs})
    # ustar / v7 through GNU tar on a real directory
    src = work + "/srcdir"
    os.makedirs(src + "/sub")
    open(src + "/sub/f1", "wb").write(b"one")
    open(src + "/" + "L" * 99, "wb").write(b"long99")
    os.symlink("f1", src + "/sub/sl")
    os.link(src + "/sub/f1", src + "/sub/hl")
    for d, dn, fn in os.walk(src):
        for x in dn + fn:
            os.utime(os.path.join(d, x), (1234567890, 1234567890), follow_symlinks=False)
    for fname in ("v7", "ustar", "oldgnu", "posix"):
        ar = work + "/%s.tar" % fname
        rc, o, e = sh(["tar", "-C", src, "--format=" + fname, "--owner=11", "--group=12", "--numeric-owner", "-c", "-f", ar, "."], timeout=60)
        if rc != 0:
            continue
        out = work + "/d_%s.sqfs" % fname
        rc, o, e = sh([tools + "/tar2sqfs", "-q", "-f", out], stdin=open(ar, "rb").read(), timeout=60)
        evaluations += 1
        nontrivial.add("gnutar-" + fname)
        if rc != 0:
            rep.violation("tar-dialect-rejected-%s" % fname, "tar2sqfs rejects GNU tar's %s archive: %s" % (fname, e.decode(errors="replace")[-200:]), artefact=ar)
            continue
        t = sqfsimg.load(out).tree()
        want = {b"sub": "dir", b"sub/f1": "file", ("L" * 99).encode(): "file", b"sub/sl": "slink", b"sub/hl": "file"}
        for p, k in want.items():
            if p not in t or t[p]["kind"] != k or (fname != "v7" and t[p]["uid"] != 11):
                rep.violation("tar-dialect-%s" % fname, "%s archive: entry %r comes out as %s" % (fname, p, t.get(p)), artefact=ar)
                break
        if b"sub/f1" in t and b"sub/hl" in t and t[b"sub/f1"]["inum"] != t[b"sub/hl"]["inum"]:
            rep.violation("tar-hardlink", "%s archive: hard link pair does not share an inode" % fname, artefact=ar)
    # ---- sqfs2tar read back by independent tar implementations; fixpoint ---------------------------------------
    for si, s in enumerate(gen.standard_scenarios(work, rng, bs=4096)):
        img = s.dir + "/a.sqfs"
        rc, o, e = sh([tools + "/gensquashfs", "-q", "-f", "-c", "gzip", "-F", s.packfile(), img], timeout=60)
        if rc != 0:
            raise RuntimeError("gensquashfs failed")
        rc, tar1, e = sh([tools + "/sqfs2tar", img], timeout=60)
        evaluations += 1
        nontrivial.add("sqfs2tar-%d" % si)
        if rc != 0:
            rep.violation("sqfs2tar-fails", "sqfs2tar fails on %s: %s" % (os.path.basename(s.dir), e.decode(errors="replace")[-200:]))
            continue
        try:
            tf = tarfile.open(fileobj=io.BytesIO(tar1))
            members = {m.name.rstrip("/"): m for m in tf.getmembers()}
        except Exception as ex:
            rep.violation("sqfs2tar-malformed", "Python tarfile cannot read sqfs2tar output: %s" % ex)
            continue
        exp = s.expected()
        for p, rec in exp.items():
            if rec["kind"] == "sock":
                if p.decode() in members:
                    rep.violation("sqfs2tar-socket", "socket %r is emitted" % p)
                continue
            m = members.get(p.decode())
            if m is None:
                rep.violation("sqfs2tar-missing", "%s: entry %r missing from the archive" % (os.path.basename(s.dir), p))
                break
            ok = (m.uid == rec["uid"] and m.gid == rec["gid"] and (m.mode & 0o7777) == rec["mode"] or rec["kind"] == "slink")
            if rec["kind"] == "file":
                ok = ok and m.isfile() and vlib.sha(tf.extractfile(m).read()) == rec["sha"]
            if rec["kind"] == "slink":
                ok = m.issym() and m.linkname.encode() == rec["target"]
            if not ok:
                rep.violation("sqfs2tar-entry", "%s: entry %r reads back differently through Python tarfile" % (os.path.basename(s.dir), p))
                break
        for reader in [r_ for r_ in (["tar", "-t", "-f", "-"], ["bsdtar", "-t", "-f", "-"]) if vlib.have(r_[0])]:
            rc, o, e = sh(reader, stdin=tar1, timeout=60)
            if rc != 0:
                rep.violation("sqfs2tar-malformed", "%s rejects sqfs2tar output of %s: %s" % (reader[0], os.path.basename(s.dir), e.decode(errors="replace")[-150:]))
        # fixpoint
        i1, i2, i3 = s.dir + "/i1.sqfs", s.dir + "/i2.sqfs", s.dir + "/i3.sqfs"
        sh([tools + "/tar2sqfs", "-q", "-f", "-c", "gzip", i1], stdin=tar1, timeout=60)
        rc, tar2, e = sh([tools + "/sqfs2tar", i1], timeout=60)
        sh([tools + "/tar2sqfs", "-q", "-f", "-c", "gzip", i2], stdin=tar2, timeout=60)
        rc, tar3, e = sh([tools + "/sqfs2tar", i2], timeout=60)
        sh([tools + "/tar2sqfs", "-q", "-f", "-c", "gzip", i3], stdin=tar3, timeout=60)
        evaluations += 1
        if not (os.path.exists(i2) and os.path.exists(i3)) or vlib.fsha(i2) != vlib.fsha(i3) or tar2 != tar3:
            rep.violation("fixpoint", "%s: converting to tar and back a second time does not reproduce the first result byte for byte" % os.path.basename(s.dir))
        else:
            t1 = {p: {k: v for k, v in n.items() if k != "inum"} for p, n in fidelity.decoded_tree(sqfsimg.load(i1)).items()}
            t2 = {p: {k: v for k, v in n.items() if k != "inum"} for p, n in fidelity.decoded_tree(sqfsimg.load(i2)).items()}
            if t1 != t2:
                rep.violation("roundtrip-semantic", "%s: image -> tar -> image changes the tree" % os.path.basename(s.dir))
    ev.set("evaluations", evaluations)
    ev.set("distinct_nontrivial", len(nontrivial))
    ev.set("rule", "header sequences: every pair (entry with <=2 extension records of L/K/x/g, second entry) emitted by TLC (sampled to 400 quick / 3000 "
                   "thorough), rendered by an independent record writer; sparse: every hole layout over 5 (7) units x 4 GNU sparse formats; "
                   "dialects: PAX/GNU via Python tarfile, v7/ustar/oldgnu/posix via GNU tar; sqfs2tar read back by 3 tar implementations; fixpoint per scenario")
    ev.set("traces_validated_against_impl", evaluations)
    ev.assumptions += ["numeric field encodings and the archive byte format are observed through independent implementations (Python tarfile, GNU tar, bsdtar), not modelled in TLA+",
                       "mixing GNU L/K records before a PAX x record for the same entry is implementation-defined and excluded"]
    shutil.rmtree(work, ignore_errors=True)
    return rep.finish()


def replay(path):
    d = json.load(open(path))
    print(json.dumps(d, indent=1)[:3000])
    return run("quick")
