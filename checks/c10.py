"""C10 - reader answers depend only on image and query, never on earlier queries.
Spec: spec/MetaReader.tla (one-block cache vs. pure reference function Ref), spec/DataReader.tla (block /
fragment caches).  Binding R: every history of the TLC state graph (edge cover) is executed on the real
readers over a concrete image built to match the abstract one; each call's (status, payload) is compared
with the model's prediction (Ref) and with the same call on freshly created readers.  Seeded random
histories over all reader APIs on valid and damaged images (differential)."""
import json, os, random, shutil, struct, subprocess, sys, zlib
from concurrent.futures import ThreadPoolExecutor
import vlib, build, bpbind, sqfsimg
from vlib import VERIF, Evidence, Reporter, run_tlc, write_cfg, scratch, SEED, sh

PID = "C10"
UNIT = [(0, 4000), (4000, 8191), (8191, 8192)]


def make_image(work, tools, name="img", comp="gzip", nlinks=400):
    pf = work + "/%s.pack" % name
    with open(pf, "w") as f:
        f.write("dir /d 0755 0 0\n")
        for i in range(nlinks):
            f.write("slink /d/l%04d 0777 %d %d %s\n" % (i, i % 7, (i * 3) % 5, ("t%04d" % i) * 8))
        f.write("file /small 0644 1 2 %s\n" % (work + "/small.bin"))
        f.write("file /big 0644 3 4 %s\n" % (work + "/big.bin"))
        f.write("file /big2 0600 3 4 %s\n" % (work + "/big.bin"))
        f.write("file /sparse 0644 0 0 %s\n" % (work + "/sparse.bin"))
    rnd = random.Random(5)
    open(work + "/small.bin", "wb").write(bytes(rnd.randrange(256) for _ in range(700)))
    open(work + "/big.bin", "wb").write(b"".join(bytes([rnd.randrange(4)]) * 37 for _ in range(900)) + b"tail" * 50)
    open(work + "/sparse.bin", "wb").write(b"\0" * 9000 + b"x" * 300 + b"\0" * 5000)
    out = work + "/%s.sqfs" % name
    rc, o, e = sh([tools + "/gensquashfs", "-q", "-f", "-c", comp, "-b", "4096", "-F", pf, out], timeout=60)
    if rc != 0:
        raise RuntimeError("gensquashfs failed: %s" % e[-500:])
    return out


def inode_blocks(img):
    """[(abs addr, stored size, usize or None, bytes or None)] of the inode table, by walking headers"""
    out = []
    pos = img.super["inode_tbl"]
    end = img.super["dir_tbl"]
    d = img.data
    while pos < end:
        hdr = struct.unpack_from("<H", d, pos)[0]
        size = hdr & 0x7FFF
        raw = d[pos + 2:pos + 2 + size]
        try:
            b = raw if hdr & 0x8000 else sqfsimg.decompress(img.comp, raw, 8192)
        except sqfsimg.DecodeError:
            b = None
        out.append((pos, size, b))
        pos += 2 + size
    return out


def abstract_to_ops(hist, blocks, used):
    """hist: list of (b, o, n) model queries -> list of (op line, nbytes)"""
    ops = []
    NB = len(blocks)
    for (b, o, n) in hist:
        if 1 <= b <= NB:
            addr = blocks[b - 1][0]
            L = len(blocks[b - 1][2]) if blocks[b - 1][2] is not None else 8192
        else:
            addr = 3 if b == 0 else blocks[-1][0] + 2 + blocks[-1][1] + 50   # below start / beyond limit
            L = 8192
        U = used[b - 1] if 1 <= b <= NB else 3

        def off_of(o):
            if o < U:
                return UNIT[o][0] if U == 3 else 0
            return L + (o - U)
        # byte count: walk n units forward from (b, o)
        cnt, bb, oo = 0, b, o
        for _ in range(n):
            Ub = used[bb - 1] if 1 <= bb <= NB else 3
            if oo >= Ub:
                bb, oo = bb + 1, 0
                Ub = used[bb - 1] if 1 <= bb <= NB else 3
            if 1 <= bb <= NB and blocks[bb - 1][2] is not None:
                Lb = len(blocks[bb - 1][2])
                cnt += (UNIT[oo][1] - UNIT[oo][0]) if Ub == 3 else Lb
            else:
                cnt += 100
            oo += 1
        ops.append("M 0 %d %d %d" % (addr, off_of(o), cnt))
    return ops


def expected_bytes(last, blocks, used):
    if last[0] == "err":
        return None
    out = b""
    for (b, j) in last[1]:
        blk = blocks[b - 1][2]
        if used[b - 1] == 3:
            out += blk[UNIT[j][0]:UNIT[j][1]]
        else:
            out += blk
    return out


def run_hist(binp, image, ops, work, tag):
    p = work + "/h_%s.txt" % tag
    open(p, "w").write("\n".join(ops) + "\n")
    rc, o, e = sh([binp, image, p], timeout=120)
    recs = [json.loads(l) for l in o.decode(errors="replace").split("\n") if l.startswith("{")]
    return rc, recs, e.decode(errors="replace"), p


XA_VAL = {"s": b"s", "L": b"L" * 12, "M": b"M" * 12}


def xattr_reader_stage(work, rep, ev, tier, rng, cfg):
    """spec/XattrReader.tla: the xattr reader as a cursor over the key/value area with out-of-line values; walks that are
    abandoned after a key or a value, then a complete read.  R: every program TLC emits, on every key/value area the real
    writer produces for the add sequences emitted from spec/XattrWriter.tla (ASan): the last answer has to be the one a
    fresh reader gives."""
    MW = 2 if tier == "quick" else 3
    write_cfg(cfg, spec="Spec", constants={"Emit": False, "MaxWalks": MW, "ReturnMode": '"eager"', "DescSharesCursor": False}, invariants=["HistoryFree", "NothingPendingAtSeek"], deadlock=False)
    r = run_tlc("XattrReader", cfg, workers=8, timeout=900)
    ev.tlc(r, "XattrReader walks<=%d" % MW)
    if not r["ok"]:
        print("MODEL-FAILURE: XattrReader violates %s" % r["violated"])
        return None
    write_cfg(cfg, spec="Spec", constants={"Emit": False, "MaxWalks": 2, "ReturnMode": '"lazy"', "DescSharesCursor": False}, invariants=["HistoryFree"], deadlock=False)
    r = run_tlc("XattrReader", cfg, workers=8, timeout=900)
    ev.tlc(r, "dev XattrReader lazy return")
    if r["violated"] != "HistoryFree":
        print("SELF-CHECK-FAILED: XattrReader deviation 'lazy' without a HistoryFree counterexample")
        return None
    write_cfg(cfg, spec="Spec", constants={"Emit": False, "MaxWalks": 1, "ReturnMode": '"eager"', "DescSharesCursor": True}, invariants=["HistoryFree"], deadlock=False)
    r = run_tlc("XattrReader", cfg, workers=8, timeout=900)
    ev.tlc(r, "dev XattrReader DescSharesCursor")
    if r["violated"] != "HistoryFree":
        print("SELF-CHECK-FAILED: XattrReader deviation DescSharesCursor without a HistoryFree counterexample")
        return None
    write_cfg(cfg, spec="Spec", constants={"Emit": True, "MaxWalks": 2, "ReturnMode": '"eager"', "DescSharesCursor": False}, invariants=["EmitOK"], deadlock=False)
    r = run_tlc("XattrReader", cfg, workers=2, timeout=900)
    progs = bpbind.parse_emitted(r["out"])
    qlines = sorted({"Q " + " ".join("%d:%d:%d:%d" % (w["s"] - 1, w["n"], 1 if w["k"] else 0, w["d"]) for w in p["prog"]) + " ; %d" % (p["final"] - 1) for p in progs})
    if len(qlines) < 100:
        print("SELF-CHECK-FAILED: XattrReader emitted %d programs" % len(qlines))
        return None
    if len(qlines) > 250:
        rng.shuffle(qlines)
        single = [q for q in qlines if q.count(":") == 4]                       # one walk + the final read: every position of a descriptor lookup
        qlines = sorted(set(single[:80] + qlines[:250]))
    # key/value areas: the add sequences of XattrWriter with 3 inodes in which a long value is shared (out-of-line references exist)
    write_cfg(cfg, spec="Spec", constants={"Emit": True, "MaxInodes": 3, "MaxAdds": 2, "Compare": '"pairs"', "ReplaceSameKey": True, "OolNeedsLong": True,
                                           "OolByValue": True, "NLong": 1}, invariants=["EmitOK"], deadlock=False)
    r = run_tlc("XattrWriter", cfg, workers=4, timeout=1800, heap="12g")
    cases = [c for c in bpbind.parse_emitted(r["out"]) if len(c["input"]) == 3 and any(not e["inl"] for st in c["layout"] for e in st)]
    if len(cases) < 500:
        print("SELF-CHECK-FAILED: only %d key/value areas with out-of-line values" % len(cases))
        return None
    rng.shuffle(cases)
    cases = cases[: (160 if tier == "quick" else 2500)]
    binp = work + "/replay_xattrwr"
    if not build.compile_harness(VERIF + "/harness/replay_xattrwr.c", binp, variant="asan"):
        raise RuntimeError("harness build failed")

    def chunk(ci):
        part = cases[ci::16]
        txt = []
        for c in part:
            txt.append("C")
            for ino in c["input"]:
                txt.append("I")
                for k, v in ino:
                    txt.append("A %s %s" % (k, XA_VAL[v].hex()))
                txt.append("E")
            txt += qlines
            txt.append("F")
        p = subprocess.run(["timeout", "900", binp, "%s/xr%d.bin" % (work, ci)], input="\n".join(txt) + "\n", capture_output=True, text=True,
                           env=dict(os.environ, ASAN_OPTIONS="detect_leaks=1"))
        return part, p
    n = 0
    done = set()
    with ThreadPoolExecutor(16) as ex:
        for part, p in ex.map(chunk, range(16)):
            lines = [l for l in p.stdout.split("\n") if l.startswith("{")]
            if "ERROR: AddressSanitizer" in p.stderr or p.returncode != 0 or len(lines) != len(part):
                if "mem" not in done:
                    done.add("mem")
                    rep.violation("xattr-reader-memory", "xattr reader under abandoned walks: rc %d %s" % (p.returncode, p.stderr[-300:]))
                continue
            for c, l in zip(part, lines):
                rr = json.loads(l)
                for qi, h in enumerate(rr.get("hist", [])):
                    if h >= 0:
                        n += 1
                    if h == 0 and "hist" not in done:
                        done.add("hist")
                        rep.violation("xattr-reader-history", "xattr sets %s: during / after the walks '%s' (inode:pairs:extra key:descriptor lookup at ... ; inode read completely) the reader returns "
                                      "other keys or values than a fresh reader" % (c["input"], qlines[qi][2:]), data={"input": c["input"], "history": qlines[qi]})
                if not rr.get("history_free", True) and "seq" not in done:
                    done.add("seq")
                    rep.violation("xattr-reader-history", "xattr sets %s: reading the sets one after the other on one reader differs from fresh readers" % c["input"], data={"input": c["input"]})
    ev.set("xattr_reader_histories_replayed", n)
    ev.set("xattr_reader_programs", len(qlines))
    return n


def run(tier):
    ev = Evidence(PID, tier, "model_checking")
    rep = Reporter(PID, ev)
    drift_spec = []
    work = scratch("c10")
    bdir = build.build("asan")
    tools = bdir + "/bin"
    binp = work + "/replay_readers"
    if not build.compile_harness(VERIF + "/harness/replay_readers.c", binp, variant="asan"):
        raise RuntimeError("harness build failed")
    env_asan = {"ASAN_OPTIONS": "detect_leaks=0"}
    os.environ.update(env_asan)
    rng = random.Random(SEED)
    replays = 0

    # ---- concrete images matching the abstract ones --------------------------------------------
    base = make_image(work, tools)
    img = sqfsimg.load(base)
    blks = inode_blocks(img)
    if len(blks) != 4 or any(len(b[2]) != 8192 for b in blks[:3]):
        # adjust the number of symlinks until the inode table has exactly 3 full blocks + a short one
        for n in (380, 420, 440, 360, 460, 340):
            base = make_image(work, tools, nlinks=n)
            img = sqfsimg.load(base)
            blks = inode_blocks(img)
            if len(blks) == 4 and all(len(b[2]) == 8192 for b in blks[:3]):
                break
        else:
            raise RuntimeError("cannot shape inode table into 4 blocks (got %d)" % len(blks))
    # image A: block 2 undecompressable; image B: block 3 header announces > 8 KiB
    data = bytearray(img.data)
    a2 = blks[1][0]
    for k in range(20, 40):
        data[a2 + 2 + k] ^= 0x5A
    imgA = work + "/A.sqfs"
    open(imgA, "wb").write(data)
    blkA = inode_blocks(sqfsimg_raw(bytes(data), img))
    data = bytearray(img.data)
    struct.pack_into("<H", data, blks[2][0], 0x7FFF)
    imgB = work + "/B.sqfs"
    open(imgB, "wb").write(data)
    blkB = list(blks)
    scen = [("A", imgA, blkA, [3, 3, 3, 1], [True, blkA[1][2] is not None, True, True], [True] * 4),
            ("B", imgB, blkB, [3, 3, 3, 1], [True] * 4, [True, True, False, True]),
            ("V", base, blks, [3, 3, 3, 1], [True] * 4, [True] * 4)]
    if blkA[1][2] is not None:
        raise RuntimeError("corrupted block still decompresses")

    def consts(fix, dev, mh):
        return {"NB": 4, "InvalidateBeforeLoad": fix, "Dev": '"%s"' % dev, "MaxHist": mh}

    def defs(used, ok, hdr):
        f = lambda l: "<<" + ",".join(("TRUE" if x else "FALSE") if isinstance(x, bool) else str(x) for x in l) + ">>"
        return {"Used": f(used), "Ok": f(ok), "HdrOk": f(hdr)}

    # ---- TLC: exhaustive histories, deviations ---------------------------------------------------
    MH = 3 if tier == "quick" else 4
    for (nm, path, bl, used, ok, hdr) in scen:
        cfg = work + "/mc_%s.cfg" % nm
        write_cfg(cfg, spec="Spec", constants=consts(True, "none", MH), defs=defs(used, ok, hdr),
                  invariants=["HistoryFree", "Coherent"], deadlock=False)
        r = run_tlc("MetaReader", cfg, workers=16, timeout=1800, coverage=True)
        ev.tlc(r, "MetaReader image %s histories<=%d" % (nm, MH))
        if not r["ok"]:
            print("MODEL-FAILURE: MetaReader violates %s" % r["violated"])
            ev.write()
            return 2
    devres = {}
    witnesses = []
    for dev, fix in [("TagSetAfterLoad(pre-fix tree)", False), ("OffsetUnchecked", True), ("NextNotUpdated", True)]:
        found = False
        for (nm, path, bl, used, ok, hdr) in scen:
            cfg = work + "/dev.cfg"
            write_cfg(cfg, spec="Spec", constants=consts(fix, dev if fix else "none", 3), defs=defs(used, ok, hdr),
                      invariants=["HistoryFree"], deadlock=False)
            r = run_tlc("MetaReader", cfg, workers=8, timeout=600)
            ev.tlc(r, "dev %s image %s" % (dev, nm))
            if r["violated"]:
                found = True
                hist = [tuple(s["call"]) for s in r["trace"][1:]]
                witnesses.append((dev, nm, hist))
        devres[dev] = found
    ev.set("deviations", devres)
    if not all(devres.values()):
        print("SELF-CHECK-FAILED: deviation without counterexample: %s" % devres)
        ev.write()
        return 2

    sc = {s[0]: s for s in scen}

    def check_hist(nm, hist, states, tag):
        """execute one abstract history on the real readers; compare with model prediction + fresh readers"""
        _, path, bl, used, ok, hdr = sc[nm]
        ops = abstract_to_ops(hist, bl, used)
        rc, recs, err, p = run_hist(binp, path, ops, work, tag)
        steps = [x for x in recs if "i" in x]
        if rc != 0 or len(steps) != len(ops):
            return ("reader-crash", "reader harness died (rc=%d) on history %s: %s" % (rc, ops, err[-300:]), p, ops)
        for k, st in enumerate(steps):
            if st["h"] != st["f"]:
                return ("meta-history", "call %d (%s) answers %s after this history but %s on fresh readers"
                        % (k + 1, st["op"], st["h"][:3], st["f"][:3]), p, ops)
            if states is not None:
                exp = expected_bytes(states[k], bl, used)
                got_ok = st["h"][0] == 0
                if (exp is None) != (not got_ok):
                    # accepted / refused differently from MetaReader.tla, but the same with and without history: spec drift, no alarm
                    drift_spec.append("call %d (%s): spec says %s, real reader returned %d" % (k + 1, st["op"], "error" if exp is None else "ok", st["h"][0]))
                    break
                if exp is not None and (zlib.crc32(exp) != st["h"][1] or len(exp) != st["h"][2]):
                    return ("meta-vs-spec", "call %d (%s): payload differs from the reference function" % (k + 1, st["op"]), p, ops)
        try:
            os.unlink(p)
        except OSError:
            pass
        return None

    for (dev, nm, hist) in witnesses:
        bad = check_hist(nm, hist, None, "w")
        replays += 1
        ev.sample({"kind": "deviation-witness", "deviation": dev, "image": nm, "history(block,offset,units)": hist,
                   "real": "differs" if bad else "history-free"}, limit=3)
        if bad:
            rep.violation(bad[0], "witness of %s: %s" % (dev, bad[1]), artefact=bad[2], data={"ops": bad[3], "image": nm})

    # ---- state graph path cover, replayed with prediction compare --------------------------------
    for (nm, path, bl, used, ok, hdr) in scen:
        cfg = work + "/g.cfg"
        write_cfg(cfg, spec="Spec", constants=consts(True, "none", 3), defs=defs(used, ok, hdr),
                  invariants=["HistoryFree"], deadlock=False)
        dump = work + "/graph"
        r = run_tlc("MetaReader", cfg, workers=16, timeout=900, dump=dump)
        ev.tlc(r, "graph image %s" % nm)
        nodes, edges, init = vlib.load_dot(dump + ".dot")
        os.unlink(dump + ".dot")
        paths, unc = vlib.path_cover(nodes, edges, init, rng=rng)
        if tier == "quick":
            paths = paths[:1200]
        # plus a seeded sample of complete histories (an edge cover merges histories that reach the same model state)
        paths += vlib.all_paths(nodes, edges, init, 3, cap=500 if tier == "quick" else 8000, rng=rng)
        ev.add("graph_edges", len(edges))
        ev.add("graph_paths", len(paths))

        def do(i):
            hist, states = [], []
            for k in paths[i]:
                st = nodes[edges[k][1]]
                hist.append(tuple(st["call"]))
                states.append(st["last"])
            return i, hist, check_hist(nm, hist, states, "g%d" % i)

        with ThreadPoolExecutor(max_workers=16) as ex:
            for i, hist, bad in ex.map(do, range(len(paths))):
                replays += 1
                if i < 1:
                    ev.sample({"kind": "graph-history", "image": nm, "history(block,offset,units)": hist}, limit=6)
                if bad:
                    rep.violation(bad[0], bad[1], artefact=bad[2], data={"ops": bad[3], "image": nm})

    # ---- data reader caches: model + replay on the hostile twin image ----------------------------
    twin, tref = make_twin(work, tools)
    dconst = lambda key, dev: {"Locs": {1, 2}, "Words": {1, 2}, "Frags": {1}, "KeyIncludesWord": key,
                               "Dev": '"%s"' % dev, "MaxHist": 3 if tier == "quick" else 4}
    ddefs = {"Bad": "{<<1,2>>, <<2,2>>}", "BadFrag": "{}"}
    cfg = work + "/dr.cfg"
    write_cfg(cfg, spec="Spec", constants=dconst(True, "none"), defs=ddefs, invariants=["HistoryFree"], deadlock=False)
    dump = work + "/dgraph"
    r = run_tlc("DataReader", cfg, workers=8, timeout=600, dump=dump, coverage=True)
    ev.tlc(r, "DataReader caches")
    if not r["ok"]:
        print("MODEL-FAILURE: DataReader violates %s" % r["violated"])
        ev.write()
        return 2
    for key, dev, nm in [(False, "none", "DataCacheKeyedByLocationOnly(pre-fix tree)"), (True, "KeepOnError", "KeepOnError")]:
        write_cfg(cfg, spec="Spec", constants=dconst(key, dev), defs=ddefs, invariants=["HistoryFree"], deadlock=False)
        r2 = run_tlc("DataReader", cfg, workers=4, timeout=300)
        ev.tlc(r2, "dev " + nm)
        devres[nm] = bool(r2["violated"])
    ev.set("deviations", devres)
    if not all(devres.values()):
        print("SELF-CHECK-FAILED: deviation without counterexample: %s" % devres)
        ev.write()
        return 2
    nodes, edges, init = vlib.load_dot(dump + ".dot")
    os.unlink(dump + ".dot")
    # every history, not an edge cover: histories that merge in the model (the cache is invalidated after a failed load) are exactly
    # the ones a defective reader tells apart
    paths = vlib.all_paths(nodes, edges, init, 3 if tier == "quick" else 4, cap=3000 if tier == "quick" else 40000, rng=rng)
    ev.set("data_reader_histories", len(paths))
    cmap = {("block", 1, 1): "R %d 0 100" % tref["a"], ("block", 1, 2): "R %d 0 100" % tref["b"],
            ("block", 2, 1): "R %d 0 100" % tref["c"], ("block", 2, 2): "R %d 0 100" % tref["d"],
            ("frag", 1, 0): "F %d" % tref["a"], ("frag", 99, 0): "F %d" % tref["e"]}
    for i, path in enumerate(paths):
        calls = [tuple(nodes[edges[k][1]]["call"]) for k in path]
        lasts = [nodes[edges[k][1]]["last"] for k in path]
        ops = [cmap[c] for c in calls]
        rc, recs, err, p = run_hist(binp, twin, ops, work, "d%d" % i)
        steps = [x for x in recs if "i" in x]
        replays += 1
        if rc != 0 or len(steps) != len(ops):
            rep.violation("reader-crash", "data reader harness died on %s: %s" % (ops, err[-300:]), artefact=p, data={"ops": ops})
            continue
        for k, st in enumerate(steps):
            if st["h"] != st["f"]:
                rep.violation("data-cache-history", "twin image: call %d (%s) answers %s after this history but %s on fresh readers"
                              % (k + 1, st["op"], st["h"][:3], st["f"][:3]), artefact=p, data={"ops": ops[:k + 1]})
                break
            if (lasts[k][0] == "ok") != (st["h"][0] == 0):
                # the reader accepts / refuses something else than DataReader.tla predicts, but consistently (history and fresh
                # readers agree): that is not what C10 is about - counted as spec drift, no alarm
                drift_spec.append("call %d (%s): spec predicts %s, reader returned %d" % (k + 1, st["op"], lasts[k][0], st["h"][0]))
                break
        if i < 1:
            ev.sample({"kind": "data-reader-history", "calls": calls, "ops": ops}, limit=8)
    ev.add("graph_paths", len(paths))

    # ---- a stream that failed, asked again: every file of the twin image (b, d: undecodable blocks, e: fragment index beyond the table) ----
    timg = sqfsimg.load(twin)
    tops = ["S %d" % ((i["ref"][0] << 16) | i["ref"][1]) for i in timg.inode_list if i["type"] == "file"] * 2
    rc, recs, err, p = run_hist(binp, twin, tops, work, "retry")
    replays += 1
    for k, st in enumerate(x for x in recs if "i" in x):
        if -7777 in (st["h"][0], st["f"][0]):
            rep.violation("reader-stream-data-after-error", "twin image, call %d (%s): the file stream reports an error and, asked again, hands out bytes (stale buffer contents)"
                          % (k + 1, st["op"]), artefact=p, data={"ops": tops[:k + 1]})
            break
    # ---- random long histories over all reader APIs (differential) -------------------------------
    nrand = 40 if tier == "quick" else 400
    variants = [("valid", base)] + [(n, p) for (n, p, *_r) in scen[:2]]
    variants += damaged_variants(work, img, rng, 4 if tier == "quick" else 30)
    refs = [(i["ref"][0] << 16) | i["ref"][1] for i in img.inode_list]
    files = [(i["ref"][0] << 16) | i["ref"][1] for i in img.inode_list if i["type"] == "file"]
    dirs = [(i["ref"][0] << 16) | i["ref"][1] for i in img.inode_list if i["type"] == "dir"]
    sizes = {(i["ref"][0] << 16) | i["ref"][1]: i["size"] for i in img.inode_list if i["type"] == "file"}
    maddr = [b[0] for b in blks]

    def gen_ops(r2, n):
        ops = []
        for _ in range(n):
            k = r2.randrange(12)
            if k < 3:
                a = r2.choice(maddr + [maddr[0] - 1, maddr[-1] + 3, maddr[1] + 1])
                ops.append("M 0 %d %d %d" % (a, r2.choice([0, 1, 100, 4000, 8191, 8192, 8193, 20000]), r2.choice([1, 7, 100, 4192, 9000])))
            elif k == 3:
                ops.append("I %d" % r2.choice(refs + [12345, refs[-1] + 1, 1 << 40]))
            elif k == 4:
                ops.append(r2.choice(["D %d", "D %d", "E %d"]) % r2.choice(dirs + [refs[0]]))
            elif k == 5:
                ops.append("P %s" % r2.choice(["d", "d/l0003", "small", "nonexistent", "d/l0399", "big/x", ""]))
            elif k in (6, 7):
                f = r2.choice(files)
                ops.append("R %d %d %d" % (f, r2.choice([0, 1, 4095, 4096, 4097, 9000, sizes[f], sizes[f] + 5]), r2.choice([1, 100, 4096, 5000, 40000])))
            elif k == 8:
                ops.append("B %d %d" % (r2.choice(files), r2.randrange(0, 10)))
            elif k == 9:
                ops.append("F %d" % r2.choice(files + dirs[:1]))
            elif k == 10:
                ops.append("S %d" % r2.choice(files))
            else:
                ops.append(r2.choice(["U 0", "U 3", "U 99", "X 0", "X 7", "Y %d" % r2.randrange(1, 40), "Y 99999"]))
        return ops

    def dorand(i):
        r2 = random.Random(SEED * 7 + i)
        nm, path = variants[i % len(variants)]
        ops = gen_ops(r2, 120)
        rc, recs, err, p = run_hist(binp, path, ops, work, "r%d" % i)
        return i, nm, ops, rc, recs, err, p

    ndiff = 0
    learned_reported = set()
    with ThreadPoolExecutor(max_workers=16) as ex:
        for i, nm, ops, rc, recs, err, p in ex.map(dorand, range(nrand)):
            replays += 1
            steps = [x for x in recs if "i" in x]
            if any("fatal" in x for x in recs):
                continue
            if rc != 0 or not recs or not recs[-1].get("end"):
                # memory errors on damaged images belong to C05; only note them here
                ev.add("harness_aborts_on_damaged_images(C05 territory)")
                continue
            for k, st in enumerate(steps):
                if st.get("learning"):
                    # the reader with dot entries learns while it is used: it may refuse what it cannot know yet, but an answer it GIVES
                    # is the one a reader that has seen the whole tree gives
                    wrong = [w for w in ("h", "f") if st[w][0] == 0 and st[w] != st["o"]]
                    if wrong and "learning" not in learned_reported:
                        learned_reported.add("learning")
                        rep.violation("reader-history-dot-entries", "image %s, call %d (%s) on the reader with dot entries %s answers %s, a reader that knows the whole tree answers %s"
                                      % (nm, k + 1, st["op"], "after earlier calls" if wrong[0] == "h" else "freshly created", st[wrong[0]][:3], st["o"][:3]), artefact=p,
                                      data={"image": nm, "ops": ops[:k + 1]})
                    continue
                if -7777 in (st["h"][0], st["f"][0]) and "retry" not in learned_reported:
                    learned_reported.add("retry")
                    rep.violation("reader-stream-data-after-error", "image %s, call %d (%s): the file stream reports an error and, asked again, hands out bytes"
                                  % (nm, k + 1, st["op"]), artefact=p, data={"image": nm, "ops": ops[:k + 1]})
                if st["h"] != st["f"]:
                    key = "reader-history-%s" % st["op"][0]
                    rep.violation(key, "image %s: call %d (%s) answers %s after the history but %s on fresh readers"
                                  % (nm, k + 1, st["op"], st["h"][:3], st["f"][:3]), artefact=p,
                                  data={"image": nm, "ops": ops[:k + 1]})
                    break
            if i < 1:
                ev.sample({"kind": "random-history", "image": nm, "ops": ops[:25]}, limit=8)
            try:
                os.unlink(p)
            except OSError:
                pass
    xn = xattr_reader_stage(work, rep, ev, tier, rng, work + "/xr.cfg")
    if xn is None:
        ev.write()
        return 2
    replays += xn
    ev.set("random_histories", nrand)
    ev.set("answers_that_differ_from_the_model_but_not_between_histories(spec drift, no alarm)", drift_spec[:5])
    if drift_spec:
        print("SPEC-DRIFT (no alarm): %d answers of the real data reader differ from DataReader.tla's prediction (same with and without history), e.g. %s" % (len(drift_spec), drift_spec[0]))
    ev.set("traces_validated_against_impl", replays)
    ev.set("bounds", {"meta_blocks": 4, "history_length_exhaustive": MH, "random_history_length": 120})
    ev.assumptions += ["abstract block units map to byte ranges [0,4000) [4000,8191) [8191,8192) of a full block",
                       "the dir reader is created with flags 0 (no documented learning cache)"]
    shutil.rmtree(work, ignore_errors=True)
    return rep.finish()


def make_twin(work, tools):
    """hostile image for the data reader (independent encoder, everything stored uncompressed): b names
    a's block location with a different size word (flag says 'compressed': decoding fails), d does the
    same for c, e has fragment index 99"""
    rnd = random.Random(11)
    A = (b"abcd" * 1024) + (b"efgh" * 1024) + b"tailA" * 20
    C = bytes(rnd.randrange(256) for _ in range(4096)) + b"tailC" * 10

    def tree(over):
        f = lambda n, d: dict({"kind": "file", "name": n, "data": d, "mode": 0o644}, **over.get(n, {}))
        return {"kind": "dir", "name": b"", "mode": 0o755,
                "children": [f(b"a", A), f(b"b", A), f(b"c", C), f(b"d", C), f(b"e", b"E" * 50)]}

    raw, _ = sqfsimg.encode(tree({}), {"frag": True, "block_size": 4096})
    img = sqfsimg.SqfsImage(raw)
    t = img.tree(with_content=False)
    ino = {n: img.by_num[t[n.encode()]["inum"]] for n in "abcde"}
    tw = lambda i: [w[2] for w in i["blocks"]]
    over = {b"b": {"o_start": ino["a"]["start"], "o_words": [tw(ino["a"])[0] & ~(1 << 24)] + tw(ino["a"])[1:]},
            b"d": {"o_start": ino["c"]["start"], "o_words": [tw(ino["c"])[0] & ~(1 << 24)] + tw(ino["c"])[1:]},
            b"e": {"o_frag": (99, 0)}}
    raw, _ = sqfsimg.encode(tree(over), {"frag": True, "block_size": 4096})
    out = work + "/twin.sqfs"
    open(out, "wb").write(raw)
    img = sqfsimg.SqfsImage(raw)
    t = img.tree(with_content=False)
    ino = {n: img.by_num[t[n.encode()]["inum"]] for n in "abcde"}
    ref = {n: (i["ref"][0] << 16) | i["ref"][1] for n, i in ino.items()}
    return out, ref


class sqfsimg_raw:
    """minimal view for inode_blocks on patched bytes (no full parse, damaged images may not parse)"""

    def __init__(self, data, like):
        self.data = data
        self.super = like.super
        self.comp = like.comp


def damaged_variants(work, img, rng, n):
    out = []
    s = img.super
    for k in range(n):
        data = bytearray(img.data)
        lo = s["inode_tbl"]
        hi = min(len(data), s["bytes_used"])
        for _ in range(rng.randrange(1, 4)):
            pos = rng.randrange(lo, hi)
            data[pos] ^= 1 << rng.randrange(8)
        p = work + "/dmg%d.sqfs" % k
        open(p, "wb").write(data)
        out.append(("damaged%d" % k, p))
    return out


def replay(path):
    d = json.load(open(path))
    print(json.dumps(d, indent=1)[:3000])
    return run("quick")
