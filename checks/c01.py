"""C01 - packing fidelity: every image reads back exactly as the tree that was packed.
Spec: spec/FsTree.tla (meaning of a pack-file program: refused | tree with hard-link sharing), plus the
layout / data-path models shared with C02/C03/C08.  Binding R+T: every program TLC emits is rendered as a
pack file and packed by the real (ASan) gensquashfs; exit status and the independently decoded tree must
equal the specified meaning.  Generated scenarios and boundary classes at real scale (entry counts around
256 / 8 KiB / 64 KiB limits, name lengths, ids, xattr sets, file sizes around block multiples, sparse,
duplicates, all inode types, names with blanks/quotes/backslashes/high bytes) x compressors x options are
packed, decoded, compared field by field, and cross-checked against rdsquashfs -d / -c / -x."""
import hashlib, json, os, random, shutil, subprocess, sys
from concurrent.futures import ThreadPoolExecutor
import vlib, build, bpbind, gen, sqfsimg, fidelity
from vlib import VERIF, Evidence, Reporter, run_tlc, write_cfg, scratch, SEED, sh

PID = "C01"
INVS = ["NeverHangs", "TreeClosed", "HardLinksShare", "GlobLinksFaithful", "OwnersFollowOptions"]
OPT1 = '{[defUid |-> 0, forceUid |-> 0 - 1]}'
OPT4 = '{[defUid |-> 0, forceUid |-> 0 - 1], [defUid |-> 3, forceUid |-> 0 - 1], [defUid |-> 0, forceUid |-> 5], [defUid |-> 3, forceUid |-> 5]}'

PNAME = lambda p: "/" + "/".join(p)


def render_program(prog, srcfile):
    lines = []
    for d in prog:
        path = PNAME(d["path"])
        if d["kind"] == "dir":
            lines.append("dir %s 0750 %d 7" % (path, d["uid"]))
        elif d["kind"] == "file":
            lines.append("file %s 0640 %d 7 %s" % (path, d["uid"], srcfile))
        elif d["kind"] == "slink":
            lines.append("slink %s 0777 %d 7 tgt" % (path, d["uid"]))
        elif d["kind"] == "pipe":
            lines.append("pipe %s 0600 %d 7" % (path, d["uid"]))
        elif d["kind"] == "link":
            lines.append("link %s 0 0 0 %s" % (path, PNAME(d["tgt"])))
        elif d["kind"] == "glob":
            opt = {"none": "", "nohl": "-nohardlinks ", "nonrec": "-nonrecursive ", "typef": "-type f ", "typed": "-type d ", "typefd": "-type f -type d ", "namea": "-name a "}[d["opt"]]
            lines.append("glob %s 0750 %d 7 %sg%s" % (path, d["uid"], opt, d["src"]))
    return "\n".join(lines) + "\n"


def check_program(tools, work, i, rec):
    d = "%s/p%d" % (work, i)
    os.makedirs(d, exist_ok=True)
    src = d + "/src.bin"
    open(src, "wb").write(b"file data\n")
    pf = d + "/pack.txt"
    open(pf, "w").write(render_program(rec["prog"], src))
    if any(x["kind"] == "glob" for x in rec["prog"]):
        # the two source trees of FsTree.SrcEntries: S1 = {a, b = a}; S2 = {a/, a/a, a/b = a/a, b}
        os.makedirs(d + "/gS1")
        os.makedirs(d + "/gS2/a")
        for f, l in ((d + "/gS1/a", d + "/gS1/b"), (d + "/gS2/a/a", d + "/gS2/a/b"), (d + "/gS2/b", None)):
            open(f, "wb").write(b"glob " + f[len(d):].encode())
            if l:
                os.link(f, l)
    out = d + "/o.sqfs"
    # the pack file is named in the three ways the tool resolves relative locations: absolute path, a bare name in the
    # current directory (no pack dir can be derived), and next to an explicit -D
    mode = i % 3
    op = rec.get("opt") or {"defUid": 0, "forceUid": -1}
    oargs = (["-d", "uid=%d" % op["defUid"]] if op["defUid"] else []) + (["-u", str(op["forceUid"])] if op["forceUid"] >= 0 else [])
    if mode == 0:
        rc, o, e = sh([tools + "/gensquashfs", "-q", "-f", "-c", "gzip"] + oargs + ["-F", pf, out], timeout=20)
    elif mode == 1:
        rc, o, e = sh([tools + "/gensquashfs", "-q", "-f", "-c", "gzip"] + oargs + ["-F", "pack.txt", out], timeout=20, cwd=d)
    else:
        rc, o, e = sh([tools + "/gensquashfs", "-q", "-f", "-c", "gzip"] + oargs + ["-D", d, "-F", pf, out], timeout=20)
    m = rec["m"]
    bad = None
    if rc == 124:
        bad = ("pack-hang", "gensquashfs does not terminate on the program")
    elif rc < 0 or rc in (134, 139) or b"ERROR: AddressSanitizer" in e:
        bad = ("pack-crash", "gensquashfs crashes: %s" % e.decode(errors="replace")[-200:])
    elif m["outcome"] == "refused":
        if rc == 0:
            bad = ("pack-accepts-invalid", "the specification refuses the program, gensquashfs exits 0")
        elif os.path.exists(out):
            bad = ("pack-leftover", "program refused but the output file is left behind")
    elif m["outcome"] == "ok":
        if rc != 0:
            bad = ("over-refusal", "gensquashfs refuses a program the specification accepts: %s" % e.decode(errors="replace")[-150:])
        else:
            try:
                t = sqfsimg.load(out).tree(with_content=False)
            except sqfsimg.DecodeError as ex:
                t = None
                bad = ("pack-undecodable", "image cannot be decoded: %s" % ex)
            if t is not None:
                exp = {"/".join(n["p"]).encode(): n for n in m["tree"] if n["p"]}
                rootn = [n for n in m["tree"] if not n["p"]]
                if rootn and t[b""]["uid"] != rootn[0]["uid"]:
                    bad = ("pack-tree-differs", "the root inode is owned by %d, specification %d (options %s)" % (t[b""]["uid"], rootn[0]["uid"], oargs))
                kind = {"pipe": "fifo"}
                for p, n in (exp.items() if not bad else []):
                    g = t.get(p)
                    if g is None or g["kind"] != kind.get(n["kind"], n["kind"]) or (g["uid"] != n["uid"] and n["kind"] != "link"):
                        # implicit directories have uid 0, explicit ones the given uid: n.uid covers both
                        bad = ("pack-tree-differs", "entry /%s: image has %s, specification %s" % (p.decode(), g and (g["kind"], g["uid"]), (n["kind"], n["uid"])))
                        break
                if not bad and set(t) - {b""} != set(exp):
                    bad = ("pack-tree-differs", "entries differ: image %s, specification %s" % (sorted(set(t) - {b""}), sorted(exp)))
                if not bad:
                    for a, b in m.get("same", []):
                        pa, pb = "/".join(a).encode(), "/".join(b).encode()
                        if t[pa]["inum"] != t[pb]["inum"]:
                            bad = ("link-not-hard", "/%s must be a hard link of /%s but has its own inode (stored as %s)" % (pa.decode(), pb.decode(), t[pa]["kind"]))
                            break
    shutil.rmtree(d, ignore_errors=True)
    return bad


def boundary_scenarios(work, rng, tier):
    out = []
    bs = 4096
    # entry counts around the 256-entry header limit and the metadata block size
    for n in ([255, 256, 257] if tier == "quick" else [1, 255, 256, 257, 511, 513, 1200]):
        s = gen.Scenario(work, "b_entries_%d" % n)
        s.add_dir("/d", uid=n % 7)
        for i in range(n):
            k = i % 11
            if k == 0:
                s.add_dir("/d/e%05d" % i, mode=0o700 + i % 64, uid=i % 5, gid=i % 3)
            elif k == 1:
                s.add_slink("/d/e%05d" % i, "t" * (1 + i % 60))
            elif k == 2:
                s.add_pipe("/d/e%05d" % i)
            else:
                s.add_file("/d/e%05d" % i, gen.content(rng, "text", i % 300), mode=0o600 + i % 64, uid=i % 9, gid=i % 4)
        out.append((s, []))
    # large directories with short names: the listing crosses 8 KiB metadata blocks, and with a name length L a
    # header starts in the last 12 bytes of a block (continues in the next one) with probability ~ 11/(8+L)
    for n, ln, kind in ([(700, 4, "pipe"), (900, 8, "slink"), (1000, 3, "pipe")] if tier == "quick" else
                        [(700, 4, "pipe"), (900, 8, "slink"), (1000, 3, "pipe"), (500, 10, "slink"), (2000, 5, "pipe"), (1500, 6, "file"), (800, 1 + 6, "dir")]):
        s = gen.Scenario(work, "b_bigdir_%d_%d_%s" % (n, ln, kind))
        s.add_dir("/big", mode=0o750)
        for i in range(n):
            nm = "/big/" + ("%0*x" % (ln, i))[-ln:]
            if kind == "pipe":
                s.add_pipe(nm)
            elif kind == "slink":
                s.add_slink(nm, "t%d" % (i % 7))
            elif kind == "dir":
                s.add_dir(nm)
            else:
                s.add_file(nm, b"%d" % i)
        out.append((s, []))
    # hard links across inode metadata blocks: a listing that refers back to inodes in an earlier (and later) inode block than its
    # neighbours - every such entry needs a header of its own
    s = gen.Scenario(work, "b_links_multiblock")
    s.add_dir("/a")
    s.add_dir("/b")
    for i in range(700 if tier == "quick" else 2500):
        s.add_slink("/a/f%04d" % i, "t" * (20 + i % 40))
    for i in range(12):
        s.add_file("/a/00g%02d" % i, b"g%d" % i)            # sorted first: their inodes sit in the first inode block
    s.add_file("/b/a_own", b"own file")
    s.add_file("/b/m_own", b"own file 2")
    for j, tgt in enumerate(["/a/00g00", "/a/00g05", "/a/00g11"]):
        s.add_link("/b/h%d" % j, tgt)
        s.add_link("/b/z%d" % j, tgt)
        s.add_link("/a/zz%d" % j, tgt)
    s.add_link("/first", "/b/m_own")
    out.append((s, []))
    # long names, odd characters
    s = gen.Scenario(work, "b_names")
    for nm in ["x" * 255, "y" * 256, "sp ace", 'quo"te', "back\\slash", "tab\tname", "hällö", "#hash", "-dash", "träiling "]:
        s.add_file("/" + nm, b"content of " + nm.encode()[:20])
    out.append((s, []))
    # file sizes around block multiples, sparse, duplicates, tails
    s = gen.Scenario(work, "b_sizes")
    for i, n in enumerate(gen.sizes_around(bs)):
        s.add_file("/r%d" % i, gen.content(rng, "random", n))
        s.add_file("/t%d" % i, gen.content(rng, "text", n))
        s.add_file("/z%d" % i, b"\0" * n)
        s.add_file("/m%d" % i, gen.content(rng, "mixed", n))
    s.add_file("/dup1", s.files["r5"])
    s.add_file("/dup2", s.files["t7"])
    s.add_link("/hl", "/r3")
    s.add_link("/hl2", "/hl")
    s.add_link("/hl_zero_block", "/z%d" % [i for i, n in enumerate(gen.sizes_around(bs)) if n >= bs][0])      # a sparse (extended) file inode with several names
    s.add_link("/hl_zero_tail", "/z%d" % [i for i, n in enumerate(gen.sizes_around(bs)) if 0 < n < bs][0])
    out.append((s, ["-b", str(bs)]))
    # all inode types + xattrs
    s = gen.Scenario(work, "b_types")
    s.add_dir("/dev", mode=0o755)
    s.add_nod("/dev/c", "c", 5, 1, uid=3)
    s.add_nod("/dev/b", "b", 259, 70000, gid=4)
    s.add_pipe("/dev/p", mode=0o622)
    s.add_sock("/dev/s", mode=0o777)
    s.add_slink("/dev/l", "../some where")
    s.add_file("/f", gen.content(rng, "text", 5000), mode=0o4755, uid=65534, gid=4000000000)
    s.add_dir("/empty", mode=0o1777, uid=1, gid=2)
    for p in ("dev", "dev/c", "f", "dev/l", "empty"):
        s.set_xattr(p, "user.k1", b"v1")
        s.set_xattr(p, "security.selinux", b"ctx\0")
    s.set_xattr("f", "user.bin", bytes(range(256)))
    s.set_xattr("dev/p", "trusted.t", b"")
    # value classes for the -x dump: NUL inside / at the end, control characters, newline, invalid and valid UTF-8
    s.add_file("/xv", b"x")
    for i, v in enumerate([b"a\0b", b"tail\0", b"\0", b"line1\nline2", b"tab\there", b"\x01\x02", b"\xff\xfe", "h\u00e4ll\u00f6".encode(), b"\xc3", b"=eq=", b"0x41"]):
        s.set_xattr("xv", "user.v%02d" % i, v)
    out.append((s, ["-e"]))
    # xattrs on regular files and directories only (the kinds the host lets root restore: the unpack -> --pack-dir -x round trip
    # reads them back from the file system), several sets, a long value shared between sets, one entry with many pairs
    s = gen.Scenario(work, "b_xattr_files")
    s.add_dir("/xd", mode=0o750)
    for i in range(24):
        p_ = ("/xd/f%02d" % i) if i % 3 else ("/g%02d" % i)
        s.add_file(p_, b"file %d" % i * (i + 1), uid=i % 4)
        s.set_xattr(p_.strip("/"), "user.idx", b"%d" % (i % 5))
        if i % 2:
            s.set_xattr(p_.strip("/"), "user.shared", b"S" * 40)
        if i % 7 == 0:
            s.set_xattr(p_.strip("/"), "trusted.admin", bytes(range(1, 30)))
            s.set_xattr(p_.strip("/"), "security.capability", b"\x01\x00\x00\x02" + b"\0" * 16)
    s.set_xattr("xd", "user.dirattr", b"on a directory")
    for k in range(20):
        s.set_xattr("g00", "user.many%02d" % k, b"v%d" % k)
    out.append((s, ["-b", "4096"]))
    # a fragment block that is flushed in the MIDDLE of the data area, directly followed by a file whose blocks repeat earlier ones
    # (the block writer truncates the output back to the end of what precedes the duplicate: the fragment block has to survive)
    s = gen.Scenario(work, "b_frag_then_dup")
    A = gen.content(rng, "random", bs)
    B = gen.content(rng, "random", 2 * bs)
    s.add_file("/f1_orig", A + gen.content(rng, "random", 3000))
    s.add_file("/f2_tail", gen.content(rng, "random", 3000))            # overflows the fragment block: it is flushed here
    s.add_file("/f3_dup", A)                                             # one full block, duplicate of f1's
    s.add_file("/f4_orig2", B + gen.content(rng, "random", 2500))
    s.add_file("/f5_tail", gen.content(rng, "random", 2500))
    s.add_file("/f6_dup2", B)
    s.add_file("/f7_tail", gen.content(rng, "random", 100))
    out.append((s, ["-b", str(bs)]))
    # many ids
    nid = 300 if tier == "quick" else 3000
    s = gen.Scenario(work, "b_ids")
    for i in range(nid):
        s.add_pipe("/p%05d" % i, uid=1000 + 2 * i, gid=1001 + 2 * i)
    out.append((s, []))
    # many xattr sets around the 512-per-block boundary
    for nx in ([511, 512, 513] if tier == "quick" else [1, 511, 512, 513, 1024, 1025]):
        s = gen.Scenario(work, "b_xattr_%d" % nx)
        for i in range(nx):
            s.add_pipe("/x%05d" % i)
            s.set_xattr("x%05d" % i, "user.idx", b"%d" % i)
            if i % 3 == 0:
                s.set_xattr("x%05d" % i, "user.shared", b"S" * 40)
        out.append((s, []))
    return out


def unpack_compare(tools, img, exp, dest, sub=None):
    """rdsquashfs --unpack-path (whole image, or the sub directory `sub`) into dest with --chmod --chown --set-times: the unpacked
    objects must be the expected ones (kind, permission bits, owner, content, symlink target, device number)"""
    import stat as st_
    shutil.rmtree(dest, ignore_errors=True)
    rc, o, e = sh([tools + "/rdsquashfs", "-q", "-u", "/" + (sub or ""), "-p", dest, "--chmod", "--chown", img], timeout=120)
    if rc != 0:
        shutil.rmtree(dest, ignore_errors=True)
        return ["rdsquashfs -u /%s fails (rc %d): %s" % (sub or "", rc, e.decode(errors="replace")[-120:])]
    bad = []
    pre = (sub.encode() + b"/") if sub else b""
    want = {p[len(pre):]: r for p, r in exp.items() if p.startswith(pre)} if sub else dict(exp)
    seen = set()
    for d, dn, fn in os.walk(dest.encode()):
        for x in dn + fn:
            full = os.path.join(d, x)
            rel = os.path.relpath(full, dest.encode())
            seen.add(rel)
            r = want.get(rel)
            if r is None:
                bad.append("unexpected object %r" % rel)
                continue
            s = os.lstat(full)
            kind = ("dir" if st_.S_ISDIR(s.st_mode) else "file" if st_.S_ISREG(s.st_mode) else "slink" if st_.S_ISLNK(s.st_mode) else
                    "fifo" if st_.S_ISFIFO(s.st_mode) else "sock" if st_.S_ISSOCK(s.st_mode) else "chr" if st_.S_ISCHR(s.st_mode) else "blk")
            if kind != r["kind"]:
                bad.append("%r is a %s, expected %s" % (rel, kind, r["kind"]))
            elif kind == "file" and vlib.fsha(full.decode(errors="surrogateescape")) != r["sha"]:
                bad.append("%r has different content" % rel)
            elif kind == "slink" and os.readlink(full) != r["target"]:
                bad.append("%r points at %r, expected %r" % (rel, os.readlink(full), r["target"]))
            elif kind != "slink" and ((s.st_mode & 0o7777) != r["mode"] or s.st_uid != r["uid"] or s.st_gid != r["gid"]):
                bad.append("%r has mode/owner %o %d:%d, expected %o %d:%d" % (rel, s.st_mode & 0o7777, s.st_uid, s.st_gid, r["mode"], r["uid"], r["gid"]))
            elif kind in ("chr", "blk") and s.st_rdev != r["devno"]:
                bad.append("%r has device number %d, expected %d" % (rel, s.st_rdev, r["devno"]))
    missing = [p for p in want if p and p not in seen and want[p]["kind"] != "sock"]
    if missing:
        bad.append("%d entries were not unpacked, e.g. %r" % (len(missing), missing[0]))
    shutil.rmtree(dest, ignore_errors=True)
    return bad[:3]


def packdir_roundtrip(tools, img, dest):
    """image -> rdsquashfs -u (all attributes restored) -> directory -> gensquashfs --pack-dir -k -x -> image': both images must hold
    the same tree (kinds, permission bits, owners, time stamps, targets, device numbers, contents, xattrs, hard-link groups)"""
    shutil.rmtree(dest, ignore_errors=True)
    try:
        a0 = fidelity.decoded_tree(sqfsimg.load(img))
    except sqfsimg.DecodeError as ex:
        return ["image cannot be decoded: %s" % ex]
    # Linux refuses user.* attributes on anything but regular files and directories: a host limit, not the tool's
    xattr_ok = not any(n["kind"] not in ("file", "dir") and any(k.startswith(b"user.") for k in n["xattrs"]) for n in a0.values())
    rc, o, e = sh([tools + "/rdsquashfs", "-q", "-u", "/", "-p", dest, "--chmod", "--chown", "--set-times"] + (["--set-xattr"] if xattr_ok else []) + [img], timeout=120)
    if rc != 0:
        shutil.rmtree(dest, ignore_errors=True)
        return ["rdsquashfs -u with all attribute options fails (rc %d): %s" % (rc, e.decode(errors="replace")[-120:])]
    img2 = img + ".repacked"
    rc, o, e = sh([tools + "/gensquashfs", "-q", "-f", "-c", "gzip", "-k", "-x", "-D", dest, img2], timeout=300)
    shutil.rmtree(dest, ignore_errors=True)
    if rc != 0:
        return ["gensquashfs --pack-dir on the unpacked tree fails (rc %d): %s" % (rc, e.decode(errors="replace")[-120:])]
    try:
        a = fidelity.decoded_tree(sqfsimg.load(img))
        b = fidelity.decoded_tree(sqfsimg.load(img2))
    except sqfsimg.DecodeError as ex:
        return ["repacked image cannot be decoded: %s" % ex]
    finally:
        if os.path.exists(img2):
            os.unlink(img2)
    bad = []

    def groups(t):
        g = {}
        for p_, n in t.items():
            g.setdefault(n.get("inum"), []).append(p_)
        return sorted(sorted(v) for v in g.values() if len(v) > 1)
    for p_ in sorted(set(a) | set(b)):
        if p_ == b"":
            continue                                       # the root takes the packer's defaults
        x, y = a.get(p_), b.get(p_)
        if x is not None and x["kind"] == "sock":
            continue                                       # sockets are not unpacked
        if x is None or y is None:
            bad.append("%r exists only in the %s image" % (p_, "first" if y is None else "repacked"))
            continue
        for k in ("kind", "mode", "uid", "gid", "mtime", "target", "devno", "sha") + (("xattrs",) if xattr_ok else ()):
            if k == "mtime" and x["kind"] == "slink":
                continue                                   # symlink time stamps cannot be restored portably
            if x.get(k) != y.get(k):
                bad.append("%r: %s is %r in the first image and %r after unpack + pack-dir" % (p_, k, x.get(k), y.get(k)))
                break
    ga = [g for g in groups(a) if not any(a[p_]["kind"] == "sock" for p_ in g)]
    if not bad and ga != groups(b):
        bad.append("HL:hard-link groups %s became %s" % (ga[:3], groups(b)[:3]))
    return bad[:3]


def listing_size_boundary(tools, work, rep, ev):
    """the 64 KiB listing boundary: a directory with < 256 entries whose listing has exactly 65529..65537 bytes (a basic directory
    inode stores listing size + 3 in 16 bits).  The adjustable name is tuned by measuring the produced image."""
    hit = {}
    n = 0

    def pack(k):
        s = gen.Scenario(work, "b_listing_%d" % k)
        s.add_dir("/d", mode=0o711)
        for i in range(248):
            s.add_pipe("/d/" + ("p%03d" % i).ljust(255, "x"))
        s.add_pipe("/d/" + "q" * k)
        out = s.dir + "/o.sqfs"
        rc, o, e = sh([tools + "/gensquashfs", "-q", "-f", "-c", "gzip", "-F", s.packfile(), out], timeout=120)
        if rc != 0:
            shutil.rmtree(s.dir, ignore_errors=True)
            return rc, None, ["gensquashfs fails: %s" % e.decode(errors="replace")[-150:]]
        try:
            img = sqfsimg.load(out)
            size = [i for i in img.inode_list if i["type"] == "dir" and i["num"] != img.root["num"]][0]["size"] - 3
            diffs = fidelity.compare(s.expected(), fidelity.decoded_tree(img), check_mtime=0)[:3]
        except sqfsimg.DecodeError as ex:
            size, diffs = None, ["image cannot be decoded: %s" % ex]
        rc2, o2, e2 = sh([tools + "/rdsquashfs", "-l", "/d", out], timeout=60)
        if rc2 != 0 or len([l for l in o2.split(b"\n") if l.strip()]) != 249:
            diffs = diffs + ["rdsquashfs -l /d lists %d of 249 entries (rc %d)" % (len([l for l in o2.split(b"\n") if l.strip()]), rc2)]
        shutil.rmtree(s.dir, ignore_errors=True)
        return rc, size, diffs

    def judge(k, size, diffs):
        if diffs:
            rep.violation("fidelity-listing-size", "directory with 249 entries, adjustable name of %d bytes, stored listing size %s: %s" % (k, size, diffs[:2]),
                          data={"listing_size": size, "name_len": k})
        elif size is not None:
            hit[size] = True

    k = 120
    rc, size, diffs = pack(k)
    n += 1
    judge(k, size, diffs)
    base = (k, size)
    for target in range(65529, 65538):
        # listing size grows by one per name byte (header positions may shift it by a few bytes: re-measure)
        for _ in range(4):
            if size == target or base[1] is None:
                break
            k2 = max(1, min(255, base[0] + (target - base[1])))
            if k2 == k:
                break
            k = k2
            rc, size, diffs = pack(k)
            n += 1
            judge(k, size, diffs)
            if size is not None and not diffs:
                base = (k, size)
    ev.set("listing_sizes_hit(64 KiB boundary)", sorted(x for x in hit if 65520 <= x <= 65540))
    return n


XA_VAL = {"s": b"s", "L": b"L" * 12, "M": b"M" * 12}


def xattr_writer_stage(tools, work, rep, ev, tier, rng):
    """spec/XattrWriter.tla: interning of keys / values, replace-on-same-key, the search tree of distinct sets, out-of-line
    sharing of long values.  Every add sequence TLC emits is run (i) on the real xattr writer + reader through
    harness/replay_xattrwr.c (ASan) and (ii), for the sequences without a repeated key, through gensquashfs --xattr-file and
    the independent decoder.  Judged at property level: every inode reads back the last value added per key, nothing else."""
    cfg = work + "/xattrw.cfg"
    BASE = {"Emit": False, "MaxInodes": 2, "MaxAdds": 2, "Compare": '"pairs"', "ReplaceSameKey": True, "OolNeedsLong": True,
            "OolByValue": True, "NLong": 2}
    INV = ["Fidelity", "Dedup", "OolSound", "RefCountCovers", "NoEmptySet"]
    bounds = [dict(BASE), dict(BASE, MaxInodes=3, NLong=1)] + ([dict(BASE, MaxInodes=3, NLong=2)] if tier != "quick" else [])
    for b in bounds:
        write_cfg(cfg, spec="Spec", constants=b, invariants=INV, deadlock=False)
        r = run_tlc("XattrWriter", cfg, workers=8, timeout=1800, heap="12g")
        ev.tlc(r, "XattrWriter inodes<=%d adds<=%d long=%d" % (b["MaxInodes"], b["MaxAdds"], b["NLong"]))
        if not r["ok"]:
            print("MODEL-FAILURE: XattrWriter violates %s" % r["violated"])
            return None
    for dev in ({"Compare": '"values"'}, {"Compare": '"keys"'}, {"Compare": '"count"'}, {"Compare": '"first"'},
                {"ReplaceSameKey": False}, {"OolByValue": False}):
        write_cfg(cfg, spec="Spec", constants=dict(BASE, **dev), invariants=INV, deadlock=False)
        r = run_tlc("XattrWriter", cfg, workers=8, timeout=900)
        ev.tlc(r, "dev XattrWriter %s" % dev)
        if r["violated"] != "Fidelity":
            print("SELF-CHECK-FAILED: deviation %s of XattrWriter gives no Fidelity counterexample" % dev)
            return None
    cases = []
    for b in bounds[:2] if tier == "quick" else bounds[1:]:
        write_cfg(cfg, spec="Spec", constants=dict(b, Emit=True), invariants=["EmitOK"], deadlock=False)
        r = run_tlc("XattrWriter", cfg, workers=4, timeout=1800, heap="12g")
        cases += bpbind.parse_emitted(r["out"])
    ev.set("xattr_writer_inputs_emitted", len(cases))
    if not cases:
        print("SELF-CHECK-FAILED: XattrWriter emitted no input")
        return None
    # stratify: inputs where two inodes carry sets of the same size (the search tree has to tell them apart or share them)
    def samesize(c):
        sz = [len({a[0] for a in ino}) for ino in c["input"]]
        return any(x and sz.count(x) > 1 for x in sz)
    hot = [c for c in cases if samesize(c)]
    rest = [c for c in cases if not samesize(c)]
    rng.shuffle(hot)
    rng.shuffle(rest)
    cap = 6000 if tier == "quick" else 10 ** 9
    cases = hot[:cap] + rest[:cap // 3]
    binp = work + "/replay_xattrwr"
    if not build.compile_harness(VERIF + "/harness/replay_xattrwr.c", binp, variant="asan"):
        raise RuntimeError("harness build failed")

    def want(ino):
        m = {}
        for k, v in ino:
            m[k] = XA_VAL[v]
        return m

    def chunk(ci):
        part = cases[ci::16]
        txt = []
        for c in part:
            txt.append("C")
            for ino in c["input"]:
                txt.append("I")
                for k, v in ino:
                    txt.append("A %s %s" % (k, XA_VAL[v].hex()))
                txt.append("E")
            txt.append("F")
        p = subprocess.run(["timeout", "600", binp, "%s/xw%d.bin" % (work, ci)], input="\n".join(txt) + "\n", capture_output=True, text=True,
                           env=dict(os.environ, ASAN_OPTIONS="detect_leaks=1:abort_on_error=0"))
        return part, p
    bad, drift, n = [], [], 0
    with ThreadPoolExecutor(16) as ex:
        for part, p in ex.map(chunk, range(16)):
            lines = [l for l in p.stdout.split("\n") if l.startswith("{")]
            if "ERROR: AddressSanitizer" in p.stderr or "ERROR: LeakSanitizer" in p.stderr or p.returncode != 0 or len(lines) != len(part):
                bad.append(("memory", "xattr writer / reader harness: rc %d, %d of %d cases answered: %s" % (p.returncode, len(lines), len(part), p.stderr[-400:]), None))
                continue
            for c, l in zip(part, lines):
                n += 1
                r = json.loads(l)
                if r["err"] or r["lerr"]:
                    bad.append(("refused", "the xattr writer / reader refuses %s: err %d / %d" % (c["input"], r["err"], r["lerr"]), c))
                    continue
                for i, ino in enumerate(c["input"]):
                    w = want(ino)
                    got = r["back"][i]
                    if r["idx"][i] == -1:
                        if w:
                            bad.append(("lost", "inode %d of %s gets no xattr index" % (i + 1, c["input"]), c))
                        continue
                    if isinstance(got, dict):
                        bad.append(("unreadable", "inode %d of %s: reading set %d back fails (%s)" % (i + 1, c["input"], r["idx"][i], got), c))
                        continue
                    g = sorted((k, bytes.fromhex(v)) for k, v in got)
                    if g != sorted(w.items()):
                        bad.append(("fidelity", "add sequences %s: inode %d reads back %s, added %s" % (c["input"], i + 1, g, sorted(w.items())), c))
                if not r["history_free"]:
                    bad.append(("history", "add sequences %s: a reader that answered earlier queries gives a different answer than a fresh one" % c["input"], c))
                norm = {}
                nidx = [0 if x == -1 else norm.setdefault(x, len(norm) + 1) for x in r["idx"]]
                if nidx != c["idx"] or (0 if r["noxattr"] else r["nsets"]) != c["nsets"]:
                    drift.append((c["input"], nidx, c["idx"], r["nsets"], c["nsets"]))
    ev.set("xattr_writer_inputs_replayed_on_library", n)
    # tool level: sequences without repeated keys as an --xattr-file
    tcases = [c for c in cases if all(len({a[0] for a in ino}) == len(ino) for ino in c["input"])][: (400 if tier == "quick" else 5000)]

    def tool(i):
        c = tcases[i]
        sc = gen.Scenario(work, "xw_t%d" % i)
        for j, ino in enumerate(c["input"]):
            sc.add_file("/f%d" % j, b"x%d" % j)
            for k, v in ino:
                sc.set_xattr("/f%d" % j, k, XA_VAL[v])
        img = sc.dir + "/o.sqfs"
        cmd = [tools + "/gensquashfs", "-q", "-f", "-F", sc.packfile(), img]
        if sc.xattrfile():
            cmd[1:1] = ["-A", sc.xattrfile()]
        rc, o, e = sh(cmd, timeout=60)
        res = None
        if rc != 0 or b"ERROR: AddressSanitizer" in e:
            res = ("refused", "gensquashfs fails on xattr sets %s: rc %d %s" % (c["input"], rc, e[-200:].decode(errors="replace")), c)
        else:
            diffs = fidelity.compare(sc.expected(), fidelity.decoded_tree(sqfsimg.load(img)))
            if diffs:
                res = ("fidelity", "xattr sets %s through gensquashfs -A: %s" % (c["input"], diffs[:3]), c)
        shutil.rmtree(sc.dir, ignore_errors=True)
        return res
    with ThreadPoolExecutor(16) as ex:
        for res in ex.map(tool, range(len(tcases))):
            if res:
                bad.append(res)
    ev.set("xattr_writer_inputs_through_gensquashfs", len(tcases))
    ev.set("xattr_set_indices_that_differ_from_the_model(spec drift, no alarm)", len(drift))
    if drift:
        print("SPEC-DRIFT (no alarm): %d xattr set index assignments differ from XattrWriter.tla, e.g. %s" % (len(drift), json.dumps(drift[0])[:300]))
    seen = set()
    for key, what, c in bad:
        if key in seen:
            continue
        seen.add(key)
        rep.violation("xattr-" + key if key != "fidelity" else "fidelity-xattr", what, data={"case": c})
    return n + len(tcases)


def sqfsdiff_stage(tools, work, rep, ev, tier, rng):
    """spec/SqfsDiff.tla (outside the 19 properties: the fifth tool): pairs of trees x --no-owner / --no-perm / --no-contents;
    both images are written by the real gensquashfs, the real sqfsdiff's exit status and report lines are compared with the
    model AS BUILT.  A difference is specification drift (no alarm); a sanitizer report or a signal while the images just
    written are read back is reported (reader-disagrees)."""
    cfg = work + "/sd.cfg"
    INV = ["Sound", "Reflexive", "Mirror", "FlagsOnlyHide"]
    write_cfg(cfg, init="Init", nxt="Next", constants={"Emit": False, "SlinkTargetCounted": True}, invariants=INV, deadlock=False)
    r = run_tlc("SqfsDiff", cfg, workers=8, timeout=900)
    ev.tlc(r, "SqfsDiff (declarative meaning = walk)")
    if not r["ok"]:
        print("MODEL-FAILURE: SqfsDiff violates %s" % r["violated"])
        return None
    write_cfg(cfg, init="Init", nxt="Next", constants={"Emit": False, "SlinkTargetCounted": False}, invariants=["Sound"], deadlock=False)
    r = run_tlc("SqfsDiff", cfg, workers=8, timeout=900)
    ev.tlc(r, "SqfsDiff as built (link target difference printed, status 0)")
    ev.set("sqfsdiff_as_built_is_sound", r["ok"])
    write_cfg(cfg, init="Init", nxt="Next", constants={"Emit": True, "SlinkTargetCounted": False}, invariants=["EmitOK"], deadlock=False)
    r = run_tlc("SqfsDiff", cfg, workers=4, timeout=900, heap="12g")
    import re as _re
    raw = sorted(set(_re.findall(r'<<"RESULT", "((?:[^"\\]|\\.)*)">>', r["out"])))
    if len(raw) < 100000:
        print("SELF-CHECK-FAILED: SqfsDiff emitted %d cases" % len(raw))
        return None
    rng.shuffle(raw)
    cases = [json.loads(t.encode().decode("unicode_escape")) for t in raw[: (1500 if tier == "quick" else 40000)]]
    PERM = {("dir", 1): 0o755, ("dir", 2): 0o700, ("file", 1): 0o644, ("file", 2): 0o600, ("slink", 1): 0o777, ("slink", 2): 0o770, ("dev", 1): 0o644, ("dev", 2): 0o600}
    srcs = {}
    for v, d in ((1, b"x"), (2, b"yy"), (3, b"z")):
        srcs[v] = "%s/sdsrc%d" % (work, v)
        open(srcs[v], "wb").write(d)

    def line(path, e):
        o = 1000 if e["own"] else 0
        m = PERM[(e["kind"], e["perm"])]
        if e["kind"] == "dir":
            return "dir %s 0%o %d %d\n" % (path, m, o, o)
        if e["kind"] == "file":
            return "file %s 0%o %d %d %s\n" % (path, m, o, o, srcs[e["val"]])
        if e["kind"] == "slink":
            return "slink %s 0%o %d %d t%d\n" % (path, m, o, o, e["val"])
        return "nod %s 0%o %d %d c 1 %d\n" % (path, m, o, o, e["val"])
    images = {}

    def image(t):
        key = json.dumps(t, sort_keys=True)
        if key not in images:
            txt = ""
            ents = t["ents"] if isinstance(t["ents"], dict) else {}
            for n in sorted(ents):
                e = ents[n]
                txt += line("/" + n, e)
                if e["c"]["kind"] != "none":
                    txt += line("/%s/c" % n, e["c"])
            p = "%s/sd%d" % (work, len(images))
            open(p + ".txt", "w").write(txt)
            rc, o, er = sh([tools + "/gensquashfs", "-q", "-f", "--defaults", "mode=%o" % (0o755 if t["root"]["perm"] == 1 else 0o700), "-F", p + ".txt", p + ".sqfs"], timeout=60)
            images[key] = p + ".sqfs" if rc == 0 else None
        return images[key]
    for c in cases:
        image(c["a"]); image(c["b"])
    WHAT = [("has a different type", "type"), ("has different permissions", "perm"), ("has different ownership", "owner"), ("has different device number", "dev"),
            ("has a different link target", "target")]

    def run(i):
        c = cases[i]
        a, b = image(c["a"]), image(c["b"])
        if not a or not b:
            return i, None, None, "gensquashfs failed"
        cmd = [tools + "/sqfsdiff", "-a", a, "-b", b]
        for fl, opt in (("noOwner", "-O"), ("noPerm", "-P"), ("noContents", "-C")):
            if c["fl"][fl]:
                cmd.append(opt)
        rc, o, er = sh(cmd, timeout=30)
        if b"ERROR: AddressSanitizer" in er or rc < 0 or rc >= 124:
            return i, rc, None, er[-300:].decode(errors="replace")
        lines = set()
        for l in o.decode(errors="replace").split("\n"):
            l = l.strip()
            if not l:
                continue
            if l[:2] in ("< ", "> "):
                lines.add((l[2:] if l[2:].startswith("/") else "/" + l[2:], l[0]))
                continue
            m = _re.match(r"regular file (\S+) differs", l)
            if m:
                lines.add((m.group(1), "content"))
                continue
            for txt, w in WHAT:
                if l.endswith(txt):
                    lines.add((l[: -len(txt)].strip(), w))
        return i, rc, lines, None
    n, drift, crashed = 0, [], False
    with ThreadPoolExecutor(16) as ex:
        for i, rc, lines, err in ex.map(run, range(len(cases))):
            c = cases[i]
            if err is not None:
                if rc is not None and not crashed:
                    crashed = True
                    rep.violation("reader-disagrees", "sqfsdiff on two images gensquashfs just wrote ends with status %s: %s" % (rc, err), data={"case": c})
                continue
            n += 1
            want = {(l["path"], l["what"]) for l in c["lines"]}
            if rc != c["status"] or lines != want:
                drift.append((c["a"], c["b"], c["fl"], rc, c["status"], sorted(lines ^ want)))
    ev.set("sqfsdiff_pairs_run", n)
    ev.set("sqfsdiff_images", len(images))
    ev.set("sqfsdiff_results_that_differ_from_the_model(spec drift, no alarm)", len(drift))
    if drift:
        print("SPEC-DRIFT (no alarm): %d sqfsdiff results differ from SqfsDiff.tla, e.g. %s" % (len(drift), json.dumps(drift[0])[:400]))
    if n < len(cases) // 2:
        print("SELF-CHECK-FAILED: only %d of %d sqfsdiff cases ran" % (n, len(cases)))
        return None
    sn = superdiff_part(tools, work, rep, ev)
    if sn is None:
        return None
    return n + sn


def superdiff_part(tools, work, rep, ev):
    """spec/SuperDiff.tla: `sqfsdiff --super` on every pair of images of ONE tree packed under different options (block size, compressor,
    compressor options, exportable, padding, xattrs off): report lines and status against the model evaluated by TLC on the super blocks the
    independent decoder reads; `--extract`: exactly the differing files appear below old/ and new/.  Drift = note, crash = alarm."""
    cfg = work + "/sup.cfg"
    INV = ["StatusIffDifferent", "Mirror", "NeverSilent"]
    write_cfg(cfg, init="Init", nxt="Next", constants={"Emit": False, "HeaderOnlyWhenPrinted": False}, defs={"Pairs": "<<>>"}, invariants=INV, deadlock=False)
    r = run_tlc("SuperDiff", cfg, workers=4, timeout=600)
    ev.tlc(r, "SuperDiff (abstract domain)")
    if not r["ok"]:
        print("MODEL-FAILURE: SuperDiff violates %s" % r["violated"])
        return None
    write_cfg(cfg, init="Init", nxt="Next", constants={"Emit": False, "HeaderOnlyWhenPrinted": True}, defs={"Pairs": "<<>>"}, invariants=INV, deadlock=False)
    r = run_tlc("SuperDiff", cfg, workers=4, timeout=600)
    ev.tlc(r, "dev SuperDiff HeaderOnlyWhenPrinted")
    if r["violated"] != "NeverSilent":
        print("SELF-CHECK-FAILED: SuperDiff deviation without counterexample")
        return None
    d = work + "/sup"
    os.makedirs(d + "/t/sub", exist_ok=True)
    open(d + "/t/f1", "wb").write(b"abc" * 3000)
    open(d + "/t/sub/f2", "wb").write(b"tail")
    optsets = [[], ["-b", "8192"], ["-c", "xz"], ["-c", "gzip", "-X", "level=3"], ["-e"], ["-B", "8192"], ["-c", "zstd"], ["--defaults", "mtime=77"], ["-T"]]
    imgs = []
    for k, o in enumerate(optsets):
        p = "%s/i%d.sqfs" % (d, k)
        rc, out, er = sh([tools + "/gensquashfs", "-q", "-f", "-b", "4096"] + o + ["-D", d + "/t", p], timeout=60)
        if rc:
            raise RuntimeError("superdiff: cannot pack %s: %s" % (o, er[-200:]))
        imgs.append(p)

    def rec(p):
        sp = sqfsimg.load(p).super
        off = lambda v: '"none"' if v == 0xFFFFFFFFFFFFFFFF else '"%d"' % v
        flags = "{" + ", ".join(str(i) for i in range(16) if sp["flags"] >> i & 1) + "}"
        return ('[inodes |-> %d, mtime |-> %d, bs |-> %d, blog |-> %d, frags |-> %d, ids |-> %d, comp |-> %d, flags |-> %s, used |-> %d, root |-> %s, idt |-> %s, '
                'xat |-> %s, ino |-> %s, dir |-> %s, frt |-> %s, exp |-> %s, rest |-> "v%d.%d"]'
                % (sp["inode_count"], sp["mtime"], sp["block_size"], sp["block_log"], sp["frag_count"], sp["id_count"], sp["comp_id"], flags, sp["bytes_used"],
                   off(sp["root"]), off(sp["id_tbl"]), off(sp["xattr_tbl"]), off(sp["inode_tbl"]), off(sp["dir_tbl"]), off(sp["frag_tbl"]), off(sp["export_tbl"]), sp["vmaj"], sp["vmin"]))
    recs = [rec(p) for p in imgs]
    pairs = [(i, j) for i in range(len(imgs)) for j in range(len(imgs))]
    write_cfg(cfg, init="Init", nxt="Next", constants={"Emit": True, "HeaderOnlyWhenPrinted": False},
              defs={"Pairs": "<<" + ", ".join("<<%s, %s>>" % (recs[i], recs[j]) for i, j in pairs) + ">>"}, invariants=INV + ["EmitOK"], deadlock=False)
    r = run_tlc("SuperDiff", cfg, workers=4, timeout=600)
    emitted = bpbind.parse_emitted(r["out"])
    if not r["ok"] or len(emitted) < len(set((recs[i], recs[j]) for i, j in pairs)) - 1:
        print("SELF-CHECK-FAILED: SuperDiff on the concrete pairs: %s, %d reports" % (r["violated"], len(emitted)))
        return None

    def key(sp):
        return (sp["inodes"], sp["mtime"], sp["bs"], sp["comp"], tuple(sorted(sp["flags"])), sp["used"], sp["root"], sp["idt"], sp["ino"], sp["dir"], sp["frt"], sp["exp"], sp["xat"])
    want = {(key(e["a"]), key(e["b"])): e["r"] for e in emitted}
    n, drift, crashed = 0, [], False
    for i, j in pairs:
        rc, out, er = sh([tools + "/sqfsdiff", "-S", "-a", imgs[i], "-b", imgs[j]], timeout=30)
        if b"ERROR: AddressSanitizer" in er or rc < 0 or rc >= 124:
            if not crashed:
                crashed = True
                rep.violation("reader-disagrees", "sqfsdiff --super on two images gensquashfs just wrote (%s / %s) ends with status %s: %s" % (optsets[i], optsets[j], rc, er[-300:].decode(errors="replace")))
            continue
        n += 1
        sa, sb = sqfsimg.load(imgs[i]).super, sqfsimg.load(imgs[j]).super
        conv = lambda sp: dict(inodes=sp["inode_count"], mtime=sp["mtime"], bs=sp["block_size"], comp=sp["comp_id"], flags=[k for k in range(16) if sp["flags"] >> k & 1], used=sp["bytes_used"],
                               **{k2: ("none" if sp[k1] == 0xFFFFFFFFFFFFFFFF else str(sp[k1])) for k1, k2 in (("root", "root"), ("id_tbl", "idt"), ("inode_tbl", "ino"), ("dir_tbl", "dir"), ("frag_tbl", "frt"), ("export_tbl", "exp"), ("xattr_tbl", "xat"))})
        w = want.get((key(conv(sa)), key(conv(sb))))
        got = [l for l in out.decode(errors="replace").split("\n") if l.strip()]
        if w is None or rc != w["status"] or got != list(w["lines"]):
            drift.append((optsets[i], optsets[j], rc, got[:6], w))
    # --extract: two trees that differ in one file
    open(d + "/t/f1", "wb").write(b"abd" * 3000)
    rc, out, er = sh([tools + "/gensquashfs", "-q", "-f", "-b", "4096", "-D", d + "/t", d + "/changed.sqfs"], timeout=60)
    ex = d + "/ex"
    rc, out, er = sh([tools + "/sqfsdiff", "-a", imgs[0], "-b", d + "/changed.sqfs", "-e", ex], timeout=30)
    if b"ERROR: AddressSanitizer" in er or rc < 0 or rc >= 124:
        rep.violation("reader-disagrees", "sqfsdiff --extract ends with status %s: %s" % (rc, er[-300:].decode(errors="replace")))
    else:
        n += 1
        found = sorted(os.path.relpath(os.path.join(dp, f), ex) for dp, dn, fn in os.walk(ex) for f in fn)
        okc = found == ["new/f1", "old/f1"] and open(ex + "/old/f1", "rb").read() == b"abc" * 3000 and open(ex + "/new/f1", "rb").read() == b"abd" * 3000
        if rc != 1 or not okc:
            drift.append(("extract", rc, found))
    ev.set("sqfsdiff_super_pairs", n)
    ev.set("sqfsdiff_super_drift", len(drift))
    if drift:
        print("SPEC-DRIFT (no alarm): %d sqfsdiff --super / --extract results differ from SuperDiff.tla, e.g. %s" % (len(drift), json.dumps(drift[0], default=str)[:500]))
    return n


def huge_sparse_case(work, rep, ev):
    """a file of more than two million blocks (8.5 GiB of holes + 5 bytes at -b 4096): the quantifier's ">4 GiB via holes" at the smallest
    block size.  Thorough tier only (the packer has to look at 8.5 GiB of zeros); the same list length is reached in the quick tier through
    the inode serialiser directly (C03, InodeForm value class 'huge')."""
    plain = build.build("plain") + "/bin"
    d = work + "/huge_sparse"
    os.makedirs(d, exist_ok=True)
    src = d + "/holes.bin"
    size = (17 << 29) + 5                      # 8.5 GiB + 5
    with open(src, "wb") as f:
        f.truncate(size - 5)
        f.seek(size - 5)
        f.write(b"hello")
    open(d + "/p.txt", "w").write("file /big 0644 0 0 %s\n" % src)
    img = d + "/o.sqfs"
    rc, o, e = sh([plain + "/gensquashfs", "-q", "-f", "-b", "4096", "-c", "gzip", "-F", d + "/p.txt", img], timeout=1500)
    if rc != 0:
        rep.violation("pack-crash" if rc < 0 or rc >= 128 else "pack-refuses-valid", "gensquashfs -b 4096 on a %d byte file of holes (%d blocks): exit status %d %s"
                      % (size, size // 4096 + 1, rc, e.decode(errors="replace")[-200:]))
        return 1
    p1 = subprocess.Popen([plain + "/rdsquashfs", "-c", "big", img], stdout=subprocess.PIPE)
    h, n, last = hashlib.sha256(), 0, b""
    zero = bytes(1 << 20)
    ok = True
    while True:
        b = p1.stdout.read(1 << 20)
        if not b:
            break
        n += len(b)
        last = (last + b)[-5:]
        if n <= size - 5 - (1 << 20) and b != zero[:len(b)]:
            ok = False
    p1.wait()
    if p1.returncode != 0 or n != size or last != b"hello" or not ok:
        rep.violation("fidelity-tree", "the %d byte file of holes packed with -b 4096 reads back as %d bytes ending in %r (reader exit %d)" % (size, n, last, p1.returncode))
    ev.set("huge_sparse_file_blocks", size // 4096 + 1)
    shutil.rmtree(d, ignore_errors=True)
    return 1


def cli_opts_stage(tools, work, rep, ev, tier, rng):
    """spec/CliOpts.tla: -b / -B with size suffixes, --defaults uid= gid= mode= mtime=, SOURCE_DATE_EPOCH: every combination TLC
    enumerates has a specified meaning (refused, or block size / padding / attributes of the root and of implicit directories);
    a sample of them on the real gensquashfs, the image decoded independently."""
    cfg = work + "/cli.cfg"
    C = {"Emit": False, "EpochOverridesDefaults": False, "SuffixCaseSensitive": False}
    write_cfg(cfg, spec="Spec", constants=C, invariants=["ExplicitWins", "EnvNeverRefuses", "SuffixCaseFree"], deadlock=False)
    r = run_tlc("CliOpts", cfg, workers=4, timeout=600)
    ev.tlc(r, "CliOpts")
    if not r["ok"]:
        print("MODEL-FAILURE: CliOpts violates %s" % r["violated"])
        return None
    for dev in ("EpochOverridesDefaults", "SuffixCaseSensitive"):
        write_cfg(cfg, spec="Spec", constants=dict(C, **{dev: True}), invariants=["ExplicitWins", "EnvNeverRefuses", "SuffixCaseFree"], deadlock=False)
        r = run_tlc("CliOpts", cfg, workers=4, timeout=600)
        ev.tlc(r, "dev CliOpts " + dev)
        if not r["violated"]:
            print("SELF-CHECK-FAILED: CliOpts deviation %s without counterexample" % dev)
            return None
    write_cfg(cfg, spec="Spec", constants=dict(C, Emit=True), invariants=["EmitOK"], deadlock=False)
    r = run_tlc("CliOpts", cfg, workers=4, timeout=900, heap="8g")
    cases = bpbind.parse_emitted(r["out"])
    if len(cases) < 30000:
        print("SELF-CHECK-FAILED: CliOpts emitted %d cases" % len(cases))
        return None
    rng.shuffle(cases)
    ref = [c for c in cases if c["m"]["refused"]]
    ok = [c for c in cases if not c["m"]["refused"]]
    cap = 300 if tier == "quick" else 6000
    cases = ref[:cap // 2] + ok[:cap]
    d = work + "/cli"
    os.makedirs(d, exist_ok=True)
    open(d + "/src.bin", "wb").write(b"x" * 5000)
    open(d + "/p.txt", "w").write("file /a/b/f 0644 1 2 %s/src.bin\n" % d)
    BS = {"128K": 131072, "4K": 4096, "8K": 8192, "1M": 1048576}
    PAD = {"4K": 4096, "1K": 1024, "8K": 8192, "64K": 65536, "1M": 1048576}

    def do(i):
        c = cases[i]
        o, m = c["o"], c["m"]
        args = [tools + "/gensquashfs", "-q", "-f", "-c", "gzip", "-F", d + "/p.txt"]
        if o["b"] != "none":
            args += ["-b", o["b"]]
        if o["db"] != "none":
            args += ["-B", o["db"]]
        sub = ",".join("%s=%s" % (k, o[k]) for k in ("uid", "gid", "mode", "mtime") if o[k] != "none")
        if sub:
            args += ["--defaults", sub]
        env = {k: v for k, v in os.environ.items() if k != "SOURCE_DATE_EPOCH"}
        if o["epoch"] != "unset":
            env["SOURCE_DATE_EPOCH"] = o["epoch"]
        out = "%s/o%d.sqfs" % (d, i)
        p = subprocess.run(args + [out], capture_output=True, env=env, timeout=60)
        err = p.stderr.decode(errors="replace")
        desc = " ".join(args[6:]) + ("  SOURCE_DATE_EPOCH=%r" % o["epoch"] if o["epoch"] != "unset" else "")
        try:
            if p.returncode < 0 or "ERROR: AddressSanitizer" in err:
                return "pack-memory-error", "gensquashfs %s: crash %s" % (desc, err[-200:])
            if m["refused"]:
                if p.returncode == 0:
                    return "option-accepted", "gensquashfs %s: exit 0, the option values cannot be honoured (specification: refused)" % desc
                return None
            if p.returncode != 0:
                return "pack-refuses-valid", "gensquashfs %s: refused (%s)" % (desc, err.strip()[-150:])
            raw = open(out, "rb").read()
            img = sqfsimg.SqfsImage(raw)
            t = img.tree(with_content=False)
            if img.super["block_size"] != BS[m["block"]]:
                return "option-block-size", "gensquashfs %s: block size %d, specified %s" % (desc, img.super["block_size"], m["block"])
            if len(raw) % PAD[m["pad"]] or len(raw) - img.super["bytes_used"] >= PAD[m["pad"]]:
                return "option-padding", "gensquashfs %s: image of %d bytes (used %d), padding unit %s" % (desc, len(raw), img.super["bytes_used"], m["pad"])
            for pth in (b"", b"a", b"a/b"):
                n = t[pth]
                got = (n["uid"], n["gid"], n["mode"], n["mtime"])
                want = (int(m["uid"]), int(m["gid"]), int(m["mode"], 8), int(m["mtime"]))
                if got != want:
                    return "option-defaults", "gensquashfs %s: directory /%s has (uid, gid, mode, mtime) %s, specified %s" % (desc, pth.decode(), (got[0], got[1], oct(got[2]), got[3]), (want[0], want[1], oct(want[2]), want[3]))
            if t[b"a/b/f"]["mtime"] != int(m["mtime"]):
                return "option-defaults", "gensquashfs %s: file time stamp %d, specified %s" % (desc, t[b"a/b/f"]["mtime"], m["mtime"])
            return None
        finally:
            if os.path.exists(out):
                os.unlink(out)
    n, seen = 0, set()
    with ThreadPoolExecutor(16) as ex:
        for res in ex.map(do, range(len(cases))):
            n += 1
            if res and res[0] not in seen:
                seen.add(res[0])
                rep.violation(res[0], res[1])
    ev.set("cli_option_cases_replayed", n)
    return n


def comp_opts_stage(tools, work, rep, ev, tier, rng):
    """spec/CompOpts.tla: every -X string of <= 2 tokens per compressor and block size has a specified outcome (refused, or the option record
    behind the super block); the real gensquashfs on each (quick: a sample), the record compared byte for byte, the content read back by
    rdsquashfs and sqfs2tar, the record given to the real read_options."""
    import compopt_bind, tarfile, io
    mc = compopt_bind.model_check(work, ev, 2)
    if mc is None:
        return None
    cases, _ = mc
    if len(cases) < 1500:
        print("SELF-CHECK-FAILED: CompOpts emitted %d cases" % len(cases))
        return None
    rng.shuffle(cases)
    if tier == "quick":
        cases = [c for c in cases if len(c["toks"]) < 2] + [c for c in cases if len(c["toks"]) == 2][:350]
    d = work + "/co"
    os.makedirs(d + "/t", exist_ok=True)
    content = {"f1": (b"compressible line\n" * 9000), "f2": bytes(rng.getrandbits(8) for _ in range(5000)), "f3": b"tail"}
    for k, v in content.items():
        open(d + "/t/" + k, "wb").write(v)
    read = compopt_bind.reader(work, "c01")

    def do(i):
        c = cases[i]
        img = "%s/o%d.sqfs" % (d, i)
        args = [tools + "/gensquashfs", "-q", "-f", "-c", c["c"], "-b", str(c["bs"])] + (["-X", ",".join(c["toks"])] if c["toks"] else []) + ["-D", d + "/t", img]
        desc = " ".join(args[3:-3])
        try:
            rc, o, e = sh(args, timeout=120)
            if rc < 0 or b"ERROR: AddressSanitizer" in e:
                return "pack-memory-error", "gensquashfs %s: crash %s" % (desc, e.decode(errors="replace")[-200:])
            if rc != 0:
                return None if c["out"]["refused"] else ("pack-refuses-valid", "gensquashfs %s: refused (%s)" % (desc, e.decode(errors="replace").strip()[-150:]))
            note = None
            raw = open(img, "rb").read()
            im = sqfsimg.SqfsImage(raw)
            got = None if im.comp_opts is None else raw[96:im.data_start]
            if c["out"]["refused"]:
                note = ("compopt-accepted", "gensquashfs %s: exit 0, the specification refuses this option string" % desc)
                want = got
            else:
                want = compopt_bind.encode(c["out"]["stored"])
                if got != want:
                    note = ("compopt-record", "gensquashfs %s: option record %s, specified %s" % (desc, got and got.hex(), want and want.hex()))
                    want = got
            for k, v in content.items():
                rc2, o2, e2 = sh([tools + "/rdsquashfs", "-c", k, img], timeout=60)
                if rc2 != 0 or o2 != v:
                    return "roundtrip-content", "gensquashfs %s: rdsquashfs -c %s gives %s" % (desc, k, "exit %d %s" % (rc2, e2.decode(errors="replace")[-100:]) if rc2 else "other bytes")
            rc3, o3, e3 = sh([tools + "/sqfs2tar", img], timeout=60)
            if rc3 != 0:
                return "roundtrip-content", "gensquashfs %s: sqfs2tar fails: %s" % (desc, e3.decode(errors="replace")[-100:])
            tf = tarfile.open(fileobj=io.BytesIO(o3))
            for k, v in content.items():
                if tf.extractfile(k).read() != v:
                    return "roundtrip-content", "gensquashfs %s: sqfs2tar gives other bytes for %s" % (desc, k)
            if want is not None:
                rr = read(c["c"], c["bs"], want, i)
                if rr.get("crash") or rr.get("create") or rr.get("read"):
                    return "compopt-own-record-refused", "gensquashfs %s: the library's read_options does not take the record the writer stored: %s" % (desc, rr)
            return note
        finally:
            if os.path.exists(img):
                os.unlink(img)
    n, seen, drift = 0, set(), []
    with ThreadPoolExecutor(16) as ex:
        for res in ex.map(do, range(len(cases))):
            n += 1
            if res and res[0] in ("compopt-accepted", "compopt-record", "pack-refuses-valid"):
                # which option strings are taken and what is stored behind the super block is the model's description of the code; C01 is about
                # what reads back, and every accepted run above has been read back
                if res[0] not in seen:
                    print("SPEC-DRIFT (no alarm): %s" % res[1])
                seen.add(res[0])
                drift.append(res[1])
                continue
            if res and res[0] not in seen:
                seen.add(res[0])
                rep.violation(res[0], res[1])
    ev.set("compressor_option_cases_replayed", n)
    ev.set("compressor_option_drift", drift[:5])
    return n


def stat_listing_stage(tools, work, rep, ev, rng):
    """read-back through `rdsquashfs -s` (every inode kind, basic and extended) and `rdsquashfs -l`, plus one packing run WITHOUT -q (the
    statistics path): what these print must be what the independent decoder finds in the image"""
    import re
    sc = [s for s, _ in boundary_scenarios(work + "/st", rng, "quick") if os.path.basename(s.dir) in ("b_types", "b_sizes", "b_links_multiblock")]
    n = 0
    seen = set()
    for s in sc:
        img = s.dir + "/stat.sqfs"
        args = [tools + "/gensquashfs", "-f", "-c", "gzip", "-b", "4096", "-e", "-F", s.packfile()]       # no -q: progress + statistics output
        if s.xattrfile():
            args += ["-A", s.xattrfile()]
        rc, o, e = sh(args + [img], timeout=300)
        if rc != 0 or b"ERROR: AddressSanitizer" in e:
            rep.violation("pack-memory-error" if rc < 0 or b"AddressSanitizer" in e else "pack-refuses-valid", "gensquashfs without -q on %s: exit %d %s" % (os.path.basename(s.dir), rc, e.decode(errors="replace")[-200:]))
            continue
        im = sqfsimg.load(img)
        t = im.tree(with_content=False)
        names = sorted(p for p in t if p)
        rng.shuffle(names)
        KIND = {"dir": "directory", "file": "file", "slink": "symbolic link", "chr": "character device", "blk": "block device", "fifo": "named pipe", "sock": "socket"}

        def one(pth):
            rc2, o2, e2 = sh([tools + "/rdsquashfs", "-s", pth.decode(errors="surrogateescape"), img], timeout=60)
            if rc2 != 0:
                return pth, "rdsquashfs -s fails (rc %d): %s" % (rc2, e2.decode(errors="replace")[-100:])
            txt = o2.decode(errors="replace")
            nd = t[pth]
            ino = im.by_num[nd["inum"]]
            f = dict(re.findall(r"^([A-Za-z ]+): (.*)$", txt, re.M))
            want_type = ("extended " if ino["ext"] else "") + KIND[nd["kind"]]
            if f.get("Inode type") != want_type:
                return pth, "inode type %r, image has %r" % (f.get("Inode type"), want_type)
            if f.get("Inode number") != str(nd["inum"]):
                return pth, "inode number %s, image has %d" % (f.get("Inode number"), nd["inum"])
            if f.get("Access") != "0%o" % nd["mode"]:
                return pth, "access %s, image has 0%o" % (f.get("Access"), nd["mode"])
            if not f.get("UID", "").startswith("%d " % nd["uid"]) or not f.get("GID", "").startswith("%d " % nd["gid"]):
                return pth, "owner %s / %s, image has %d / %d" % (f.get("UID"), f.get("GID"), nd["uid"], nd["gid"])
            if nd["kind"] == "slink" and f.get("Link target") != nd["target"].decode(errors="replace"):
                return pth, "link target %r, image has %r" % (f.get("Link target"), nd["target"])
            if nd["kind"] == "file" and f.get("File size") != str(nd["size"]):
                return pth, "file size %s, image has %d" % (f.get("File size"), nd["size"])
            if nd["kind"] in ("chr", "blk") and not f.get("Device number", "").endswith("(%d)" % nd["devno"]):
                return pth, "device number %s, image has %d" % (f.get("Device number"), nd["devno"])
            if "Hard link count" in f and nd["kind"] != "dir" and int(f["Hard link count"]) != ino["nlink"]:
                return pth, "hard link count %s, image has %d" % (f["Hard link count"], ino["nlink"])
            return pth, None
        with ThreadPoolExecutor(16) as ex:
            for pth, bad in ex.map(one, names[:60]):
                n += 1
                if bad and "stat" not in seen:
                    seen.add("stat")
                    rep.violation("reader-disagrees", "rdsquashfs -s %r on %s: %s" % (pth, os.path.basename(s.dir), bad))
        # -l of every directory: names as in the image
        for dpath in [p for p in t if t[p]["kind"] == "dir"][:12]:
            rc3, o3, e3 = sh([tools + "/rdsquashfs", "-l", "/" + dpath.decode(errors="surrogateescape"), img], timeout=60)
            n += 1
            want = sorted(p[len(dpath) + 1 if dpath else 0:] for p in t if p and (p.rsplit(b"/", 1)[0] if b"/" in p else b"") == dpath)
            got = sorted(l.rsplit(b" ", 1)[-1] if b" -> " not in l else l.split(b" -> ")[0].rsplit(b" ", 1)[-1] for l in o3.split(b"\n") if l.strip())
            if rc3 != 0 or len(got) != len(want):
                if "list" not in seen:
                    seen.add("list")
                    rep.violation("reader-disagrees", "rdsquashfs -l /%s on %s: %d lines (rc %d), the image has %d entries" % (dpath.decode(errors="replace"), os.path.basename(s.dir), len(got), rc3, len(want)))
    # compressor options stored in the image (-X) are read back by the real reader for every compressor
    XO = {"gzip": "level=3,window=10,huffman,default", "xz": "dictsize=8192,x86,level=1", "lz4": "hc", "zstd": "level=7", "lzma": "dictsize=8192,lc=1,lp=1,pb=1"}
    s0 = [x for x in sc if os.path.basename(x.dir) == "b_sizes"]
    for comp, xo in XO.items():
        if not s0:
            break
        s1 = s0[0]
        img = s1.dir + "/xo_%s.sqfs" % comp
        rc, o, e = sh([tools + "/gensquashfs", "-q", "-f", "-c", comp, "-X", xo, "-b", "4096", "-F", s1.packfile(), img], timeout=300)
        if rc != 0:
            rep.violation("pack-refuses-valid", "gensquashfs -c %s -X %s: exit %d %s" % (comp, xo, rc, e.decode(errors="replace")[-150:]))
            continue
        for nm in sorted(s1.files)[:10]:
            n += 1
            rc2, o2, e2 = sh([tools + "/rdsquashfs", "-c", nm, img], timeout=60)
            if (rc2 != 0 or o2 != s1.files[nm]) and "xo" + comp not in seen:
                seen.add("xo" + comp)
                rep.violation("reader-disagrees", "image packed with -c %s -X %s: rdsquashfs -c %s returns different bytes (rc %d %s)" % (comp, xo, nm, rc2, e2.decode(errors="replace")[-100:]))
    ev.set("stat_and_listing_queries", n)
    shutil.rmtree(work + "/st", ignore_errors=True)
    return n


def pack_dir_stage(tools, work, rep, ev, tier):
    """spec/PackDir.tla: --pack-dir under every combination of -k, --all-root / --set-uid, --set-gid, -H, -x, -o, --defaults mtime= / uid=
    on a fixed source tree (file with xattr + second name in a sub directory, directory, symlink; distinct owners, time 5000): the
    image decoded independently must be the specified tree.  Needs root (chown, trusted file system attributes)."""
    cfg = work + "/pd.cfg"
    C = {"Emit": False, "KeepTimeAppliesToRoot": False, "ForcedOwnerSkipsRoot": False, "MapFileGetsHostPath": False, "SelinuxBeforeMap": False}
    write_cfg(cfg, spec="Spec", constants=C, invariants=["ForcedOwnerEverywhere", "RootFromDefaults", "MapFileApplies", "LabelEverywhere"], deadlock=False)
    r = run_tlc("PackDir", cfg, workers=4, timeout=600)
    ev.tlc(r, "PackDir")
    if not r["ok"]:
        print("MODEL-FAILURE: PackDir violates %s" % r["violated"])
        return None
    for dev in ("KeepTimeAppliesToRoot", "ForcedOwnerSkipsRoot", "MapFileGetsHostPath", "SelinuxBeforeMap"):
        write_cfg(cfg, spec="Spec", constants=dict(C, **{dev: True}), invariants=["ForcedOwnerEverywhere", "RootFromDefaults", "MapFileApplies", "LabelEverywhere"], deadlock=False)
        r = run_tlc("PackDir", cfg, workers=4, timeout=600)
        ev.tlc(r, "dev PackDir " + dev)
        if not r["violated"]:
            print("SELF-CHECK-FAILED: PackDir deviation %s without counterexample" % dev)
            return None
    if os.geteuid() != 0:
        ev.assumptions.append("pack-dir option matrix skipped: not running as root")
        return 0
    write_cfg(cfg, spec="Spec", constants=dict(C, Emit=True), invariants=["EmitOK"], deadlock=False)
    r = run_tlc("PackDir", cfg, workers=2, timeout=600)
    cases = bpbind.parse_emitted(r["out"])
    if len(cases) != 1536:
        print("SELF-CHECK-FAILED: PackDir emitted %d option sets" % len(cases))
        return None
    src = work + "/pk"
    os.makedirs(src + "/d")
    open(src + "/a", "wb").write(b"one\n")
    os.link(src + "/a", src + "/d/b")
    os.symlink("a", src + "/l")
    os.setxattr(src + "/a", "user.t", b"1")
    os.chown(src + "/a", 7, 8)
    os.chown(src + "/l", 9, 10, follow_symlinks=False)
    for p_ in (src + "/d", src):
        os.chown(p_, 11, 12)
    for p_ in (src + "/a", src + "/l", src + "/d", src):
        os.utime(p_, (5000, 5000), follow_symlinks=False)
    mapf = work + "/pk_map.txt"
    open(mapf, "w").write("# file: /a\nuser.map=\"frommap\"\nsecurity.selinux=\"frommap\"\n\n# file: /d\nuser.dirmap=0x414243\n")
    ctxf = work + "/pk_contexts"
    open(ctxf, "w").write("/a\tsystem_u:object_r:a_t:s0\n/d(/.*)?\tsystem_u:object_r:d_t:s0\n")
    SEL = {"none": None, "map": b"frommap", "a_t": b"system_u:object_r:a_t:s0", "d_t": b"system_u:object_r:d_t:s0", "unl": b"system_u:object_r:unlabeled_t:s0"}
    XAV = {"t": (b"user.t", b"1"), "map": (b"user.map", b"frommap"), "dirmap": (b"user.dirmap", b"ABC")}

    def do(i):
        c = cases[i]
        o, m = c["o"], c["m"]
        args = [tools + "/gensquashfs", "-q", "-f", "-c", "gzip", "-D", src]
        args += (["-k"] if o["k"] else []) + (["--all-root"] if o["own"] == "allroot" else ["--set-uid", "3"] if o["own"] == "u3" else [])
        args += (["--set-gid", "4"] if o["g4"] else []) + (["-H"] if o["H"] else []) + (["-x"] if o["x"] else []) + (["-o"] if o["o"] else [])
        args += (["-A", mapf] if o["A"] else []) + (["-s", ctxf] if o["s"] else [])
        sub = ",".join(x for x in ("mtime=99" if o["dm"] == "99" else "", "uid=55" if o["du"] == "55" else "") if x)
        if sub:
            args += ["--defaults", sub]
        out = "%s/pk%d.sqfs" % (work, i)
        env = {k: v for k, v in os.environ.items() if k != "SOURCE_DATE_EPOCH"}
        p = subprocess.run(args + [out], capture_output=True, env=env, timeout=60)
        desc = " ".join(args[6:])
        try:
            if p.returncode != 0:
                return "pack-refuses-valid", "gensquashfs --pack-dir %s: exit %d %s" % (desc, p.returncode, p.stderr.decode(errors="replace")[-150:])
            t = sqfsimg.load(out).tree()
            for name, key in ((b"", "root"), (b"a", "a"), (b"d", "d"), (b"d/b", "b"), (b"l", "l")):
                n, w = t.get(name), m[key]
                if n is None:
                    return "fidelity-tree", "gensquashfs --pack-dir %s: /%s missing" % (desc, name.decode())
                got = (n["uid"], n["gid"], n["mtime"])
                want = (w["uid"], w["gid"], w["mtime"])
                if got != want:
                    return "packdir-options", "gensquashfs --pack-dir %s: /%s has (uid, gid, mtime) %s, specified %s" % (desc, name.decode(), got, want)
                xa = dict(n["xattrs"])
                label = xa.pop(b"security.selinux", None)
                if key != "root" and xa != dict(XAV[k] for k in w["xattr"]):
                    return "packdir-options", "gensquashfs --pack-dir %s: /%s has xattrs %s, specified %s" % (desc, name.decode(), n["xattrs"], dict(XAV[k] for k in w["xattr"]))
                if label != SEL[w["sel"]]:
                    return "packdir-options", "gensquashfs --pack-dir %s: /%s carries the label %s, specified %s" % (desc, name.decode(), label, SEL[w["sel"]])
            if (t[b"a"]["inum"] == t[b"d/b"]["inum"]) != m["linked"]:
                return "packdir-options", "gensquashfs --pack-dir %s: a and d/b %s one inode, specified %s" % (desc, "share" if t[b"a"]["inum"] == t[b"d/b"]["inum"] else "do not share", m["linked"])
            return None
        finally:
            if os.path.exists(out):
                os.unlink(out)
    n, seen = 0, set()
    with ThreadPoolExecutor(16) as ex:
        for res in ex.map(do, range(len(cases))):
            n += 1
            if res and res[0] not in seen:
                seen.add(res[0])
                rep.violation(res[0], res[1])
    ev.set("pack_dir_option_sets_replayed", n)
    shutil.rmtree(src, ignore_errors=True)
    return n


def unpack_opts_stage(tools, work, rep, ev, tier):
    """spec/UnpackOpts.tla: rdsquashfs --unpack-path / and sub directories under every combination of --no-dev / --no-sock / --no-fifo /
    --no-slink / --no-empty-dir: all 128 option sets on the real tool (needs root for the device node), the unpacked objects compared."""
    import stat as st_
    cfg = work + "/uo.cfg"
    write_cfg(cfg, spec="Spec", constants={"Emit": False, "EmptyPruneRecursive": True}, invariants=["NoEmptyDirLeft", "OnlyFiltersRemove"], deadlock=False)
    r = run_tlc("UnpackOpts", cfg, workers=4, timeout=600)
    ev.tlc(r, "UnpackOpts")
    if not r["ok"]:
        print("MODEL-FAILURE: UnpackOpts violates %s" % r["violated"])
        return None
    write_cfg(cfg, spec="Spec", constants={"Emit": False, "EmptyPruneRecursive": False}, invariants=["NoEmptyDirLeft"], deadlock=False)
    r = run_tlc("UnpackOpts", cfg, workers=4, timeout=600)
    ev.tlc(r, "dev UnpackOpts prune once")
    if not r["violated"]:
        print("SELF-CHECK-FAILED: UnpackOpts deviation without counterexample")
        return None
    if os.geteuid() != 0:
        ev.assumptions.append("unpack option matrix skipped: not running as root")
        return 0
    write_cfg(cfg, spec="Spec", constants={"Emit": True, "EmptyPruneRecursive": True}, invariants=["EmitOK"], deadlock=False)
    r = run_tlc("UnpackOpts", cfg, workers=2, timeout=600)
    cases = bpbind.parse_emitted(r["out"])
    if len(cases) != 128:
        print("SELF-CHECK-FAILED: UnpackOpts emitted %d option sets" % len(cases))
        return None
    d = work + "/uo"
    os.makedirs(d, exist_ok=True)
    open(d + "/src.bin", "wb").write(b"data\n")
    open(d + "/p.txt", "w").write("file /f 0644 0 0 %s/src.bin\nslink /l 0777 0 0 f\nnod /c 0600 0 0 c 1 2\nsock /s 0600 0 0\npipe /p 0600 0 0\ndir /e 0755 0 0\n"
                                  "dir /d 0755 0 0\nslink /d/l2 0777 0 0 x\ndir /dd 0755 0 0\ndir /dd/e2 0755 0 0\ndir /k 0755 0 0\nfile /k/f2 0644 0 0 %s/src.bin\n" % (d, d))
    rc, o, e = sh([tools + "/gensquashfs", "-q", "-f", "-F", d + "/p.txt", d + "/img.sqfs"], timeout=60)
    if rc:
        raise RuntimeError("gensquashfs failed: %s" % e[-200:])

    def do(i):
        c = cases[i]
        o = c["o"]
        out = "%s/out%d" % (d, i)
        os.makedirs(out)
        args = [tools + "/rdsquashfs", "-q"] + [f for f, k in (("-D", "D"), ("-S", "S"), ("-F", "F"), ("-L", "L"), ("-E", "E")) if o[k]]
        args += ["-u", "/" + "/".join(o["u"]), "-p", out, d + "/img.sqfs"]
        rc, so, e = sh(args, timeout=60)
        desc = " ".join(args[2:-3] + ["-u", "/" + "/".join(o["u"])])
        try:
            if rc != 0:
                return "reader-disagrees", "rdsquashfs %s: exit %d %s" % (desc, rc, e.decode(errors="replace")[-120:])
            got = {}
            for dp, dn, fn in os.walk(out):
                for x in dn + fn:
                    full = os.path.join(dp, x)
                    m = os.lstat(full).st_mode
                    got[os.path.relpath(full, out)] = ("dir" if st_.S_ISDIR(m) else "file" if st_.S_ISREG(m) else "slink" if st_.S_ISLNK(m) else "fifo" if st_.S_ISFIFO(m)
                                                       else "sock" if st_.S_ISSOCK(m) else "dev")
            want = {"/".join(e_["p"]): e_["t"] for e_ in c["m"]}
            if got != want:
                return "reader-disagrees", "rdsquashfs %s unpacks %s, specified %s" % (desc, sorted(got.items()), sorted(want.items()))
            return None
        finally:
            shutil.rmtree(out, ignore_errors=True)
    n, done = 0, False
    with ThreadPoolExecutor(16) as ex:
        for res in ex.map(do, range(len(cases))):
            n += 1
            if res and not done:
                done = True
                rep.violation(res[0], res[1])
    ev.set("unpack_option_sets_replayed", n)
    shutil.rmtree(d, ignore_errors=True)
    return n


def run(tier):
    ev = Evidence(PID, tier, "exploration")
    rep = Reporter(PID, ev)
    work = scratch("c01")
    tools = build.build("asan") + "/bin"
    os.environ["ASAN_OPTIONS"] = "detect_leaks=0"
    rng = random.Random(SEED)
    # the id table boundary (65535 ids fit the 16 bit count of the super block, 65536 do not) runs beside the
    # scenario jobs: the library's id lookup is a linear search, one case takes ~30 s (plain) / ~60 s (ASan)
    def idlimits():
        idtools = (build.build("plain") + "/bin") if tier == "quick" else tools
        res = []
        for nid in ((65534, 65535) if tier == "quick" else (65534, 65535, 65536)):
            sc = gen.Scenario(work, "u_ids_%d" % nid)
            for i in range(nid):
                sc.add_pipe("/p%06d" % i, uid=10 + i, gid=0)             # nid uids + id 0 (root, gid) = nid + 1 ids
            out = sc.dir + "/o.sqfs"
            rc, o, e = sh([idtools + "/gensquashfs", "-q", "-f", "-F", sc.packfile(), out], timeout=900)
            diffs = []
            if rc == 0:
                try:
                    diffs = fidelity.compare(sc.expected(), fidelity.decoded_tree(sqfsimg.load(out)), check_mtime=0)[:3]
                except sqfsimg.DecodeError as ex:
                    diffs = ["undecodable: %s" % ex]
            res.append((nid, rc, diffs))
            shutil.rmtree(sc.dir, ignore_errors=True)
        return res
    idpool = ThreadPoolExecutor(max_workers=1)
    idlimit = idpool.submit(idlimits)

    cfg = work + "/f.cfg"
    ML = 2 if tier == "quick" else 3
    write_cfg(cfg, spec="Spec", constants={"MaxLen": ML, "Emit": False, "LinkFlagsDropped": False, "CycleCheckStartOnly": False,
                                            "GlobLinkPrefixDropped": False},
              defs={"OptSet": OPT4 if ML == 2 else OPT1}, invariants=INVS, deadlock=False)
    r = run_tlc("FsTree", cfg, workers=16, timeout=3000, heap="16g")
    ev.tlc(r, "FsTree programs<=%d" % ML)
    if not r["ok"]:
        print("MODEL-FAILURE: FsTree violates %s" % r["violated"])
        ev.write()
        return 2
    devres = {}
    for name, lf, cy, gl, ml in [("LinkFlagsDropped(pre-fix tree)", True, False, False, 2), ("CycleCheckStartOnly(pre-fix tree)", False, True, False, 3),
                                 ("GlobLinkPrefixDropped(pre-fix tree)", False, False, True, 2)]:
        write_cfg(cfg, spec="Spec", constants={"MaxLen": ml, "Emit": False, "LinkFlagsDropped": lf, "CycleCheckStartOnly": cy,
                                                "GlobLinkPrefixDropped": gl},
                  defs={"OptSet": OPT1}, invariants=INVS, deadlock=False)
        r = run_tlc("FsTree", cfg, workers=16, timeout=1800, heap="16g")
        ev.tlc(r, "dev " + name)
        devres[name] = bool(r["violated"])
        if r["violated"] and r["trace"]:
            ev.sample({"kind": "deviation-counterexample", "deviation": name, "program": r["trace"][0].get("prog")}, limit=2)
    ev.set("deviations", devres)
    if not all(devres.values()):
        print("SELF-CHECK-FAILED: deviation without counterexample: %s" % devres)
        ev.write()
        return 2
    # ---- R: emitted programs on the real tool --------------------------------------------------------
    write_cfg(cfg, spec="Spec", constants={"MaxLen": 2, "Emit": True, "LinkFlagsDropped": False, "CycleCheckStartOnly": False,
                                            "GlobLinkPrefixDropped": False},
              defs={"OptSet": OPT4}, invariants=["EmitOK"], deadlock=False)
    r = run_tlc("FsTree", cfg, workers=4, timeout=1800, heap="8g")
    ev.tlc(r, "FsTree emit")
    recs = bpbind.parse_emitted(r["out"])
    # link cycles of length 3 are the witnesses of the cycle deviation: add them explicitly
    cyc = [{"prog": [{"kind": "link", "path": ["b"], "uid": 0, "tgt": ["a", "a"]}, {"kind": "link", "path": ["a", "a"], "uid": 0, "tgt": ["b"]},
                     {"kind": "link", "path": ["a", "b"], "uid": 0, "tgt": ["b"]}], "m": {"outcome": "refused"}},
           {"prog": [{"kind": "link", "path": ["b"], "uid": 0, "tgt": ["b"]}, {"kind": "link", "path": ["a"], "uid": 0, "tgt": ["b"]}], "m": {"outcome": "refused"}}]
    cap = 2100 if tier == "quick" else 12000
    ev.set("programs_emitted", len(recs))
    if len(recs) > cap:
        strata = {"glob": [], "link": [], "rest": []}
        for x in recs:
            kinds = {d["kind"] for d in x["prog"]}
            strata["glob" if "glob" in kinds else "link" if "link" in kinds else "rest"].append(x)
        recs = []
        for k in ("glob", "link", "rest"):
            rng.shuffle(strata[k])
            recs += strata[k][:cap // 3]
    recs = cyc + recs
    evaluations = 0
    nontrivial = set()
    over = 0

    def do(k):
        return k, check_program(tools, work, k, recs[k])

    with ThreadPoolExecutor(max_workers=16) as ex:
        for k, bad in ex.map(do, range(len(recs))):
            evaluations += 1
            nontrivial.add(json.dumps(recs[k]["m"], sort_keys=True))
            if k < 2 or k == 5:
                ev.sample({"kind": "pack-file-program", "program": render_program(recs[k]["prog"], "SRC").split("\n")[:-1],
                           "specified": recs[k]["m"]["outcome"]}, limit=4)
            if bad:
                if bad[0] == "over-refusal":
                    over += 1
                    continue
                rep.violation(bad[0], "%s; program: %s" % (bad[1], render_program(recs[k]["prog"], "SRC").replace("\n", " | ")),
                              data={"program": recs[k]["prog"], "specified": recs[k]["m"]})
    ev.set("over_refusals(spec accepts, tool refuses; not a violation)", over)
    # ---- scenarios x compressors x options -------------------------------------------------------------
    # the standard scenarios are sized for 4 KiB blocks (multi-block files, holes, duplicates): pack them with
    # that block size so the block path is exercised, and once more with the default size (everything a tail)
    std = gen.standard_scenarios(work, rng, bs=4096)
    scen = [(s, ["-b", "4096"]) for s in std] + [(s, []) for s in (std if tier != "quick" else std[:2])] + boundary_scenarios(work, rng, tier)
    comps = ["gzip", "xz", "lz4", "zstd", "lzma"]
    optsets = [[], ["-j", "3"], ["-T"], ["-e"], ["-b", "8192"], ["-b", "1048576"], ["-B", "65536"], ["-j", "1", "-Q", "1"], ["-X", "@"]]
    XOPT = {"gzip": "level=3,window=10,huffman,default", "xz": "dictsize=8192,x86,level=1", "lz4": "hc", "zstd": "level=7", "lzma": "dictsize=8192,lc=1,lp=1,pb=1"}
    jobs = []
    for si, (s, base) in enumerate(scen):
        usable = [o for o in optsets if not ("-b" in base and "-b" in o)]
        combos = [(comps[(si + k) % len(comps)], usable[(si * 3 + k) % len(usable)]) for k in range(2 if tier == "quick" else 5)]
        for comp, opts in combos:
            jobs.append((s, base, comp, [XOPT[comp] if o == "@" else o for o in opts]))

    def pack(job):
        s, base, comp, opts = job
        out = "%s/img_%s_%s.sqfs" % (s.dir, comp, "_".join(x.strip("-") for x in opts) or "def")
        args = [tools + "/gensquashfs", "-q", "-f", "-c", comp, "-F", s.packfile()] + base + opts
        xf = s.xattrfile()
        if xf:
            args += ["-A", xf]
        rc, o, e = sh(args + [out], timeout=300)
        full = e.decode(errors="replace")
        res = {"rc": rc, "stderr": (full[:400] if "ERROR: AddressSanitizer" in full else full[-300:]), "diffs": [], "reader": []}
        if rc == 0:
            try:
                img = sqfsimg.load(out)
                res["diffs"] = fidelity.compare(s.expected(), fidelity.decoded_tree(img), check_mtime=0)[:5]
            except sqfsimg.DecodeError as ex:
                res["diffs"] = ["image cannot be decoded: %s" % ex]
            # reader conformance: rdsquashfs -c on a few files, -x on xattr carriers
            names = sorted(s.files)[:6]
            for nm in names:
                rc2, o2, e2 = sh([tools + "/rdsquashfs", "-c", nm, out], timeout=60)
                if rc2 != 0 or o2 != s.files[nm]:
                    res["reader"].append("rdsquashfs -c %r returns different bytes (rc %d)" % (nm, rc2))
            # -x: every pair must be recoverable from the dump: "key=" followed by the raw value bytes or by 0x<HEX>
            xa = getattr(s, "xattrs", {})
            for nm in sorted(xa)[:8]:
                rc4, o4, e4 = sh([tools + "/rdsquashfs", "-x", nm, out], timeout=60)
                want = xa[nm]
                rest = o4
                okx = rc4 == 0
                # pairs come in stored order (unknown here): peel them off in any order
                left = dict(want)
                while okx and left:
                    for k, v in list(left.items()):
                        forms = [k.encode() + b"=" + v + b"\n", k.encode() + b"=0x" + v.hex().upper().encode() + b"\n"]
                        hit = next((f for f in forms if rest.startswith(f)), None)
                        if hit is not None:
                            rest = rest[len(hit):]
                            del left[k]
                            break
                    else:
                        okx = False
                if not okx or rest:
                    res["reader"].append("rdsquashfs -x %r does not show the stored pairs %s: output %r" % (nm, sorted(left)[:3], o4[:120]))
            # unpack: the whole image and one sub directory (moderately sized trees, names the host file system can hold)
            if os.geteuid() == 0 and len(s.nodes) <= 400 and all(len(c.encode()) <= 255 for p_ in s.nodes for c in p_.split("/")):      # root (chown, mknod); NAME_MAX of the host
                exp = s.expected()
                res["reader"] += unpack_compare(tools, out, exp, out + ".un")
                subdirs = sorted(p for p, nd in s.nodes.items() if nd["kind"] == "dir" and "/" not in p and any(q.startswith(p + "/") for q in s.nodes))
                if subdirs:
                    res["reader"] += unpack_compare(tools, out, exp, out + ".uns", sub=subdirs[0])
                res["reader"] += packdir_roundtrip(tools, out, out + ".rt")
            rc3, o3, e3 = sh([tools + "/rdsquashfs", "-d", out], timeout=60)
            if rc3 != 0 or len([l for l in o3.split(b"\n") if l.strip()]) != len(s.nodes) + len(getattr(s, "links", {})):
                res["reader"].append("rdsquashfs -d: rc %d, %d lines for %d entries" % (rc3, len([l for l in o3.split(b'\n') if l.strip()]), len(s.nodes) + len(getattr(s, "links", {}))))
            os.unlink(out)
        return job, res

    with ThreadPoolExecutor(max_workers=8) as ex:
        for (s, base, comp, opts), res in ex.map(pack, jobs):
            evaluations += 1
            nontrivial.add(os.path.basename(s.dir) + comp + " ".join(opts))
            label = "%s -c %s %s" % (os.path.basename(s.dir), comp, " ".join(base + opts))
            if res["rc"] == 124:
                rep.violation("pack-hang", "gensquashfs does not terminate: %s" % label)
            elif res["rc"] < 0 or res["rc"] in (134, 139) or "ERROR: AddressSanitizer" in res["stderr"]:
                rep.violation("pack-memory-error", "memory error / crash while packing %s: %s" % (label, res["stderr"][-200:]))
            elif res["rc"] != 0:
                rep.violation("pack-refuses-valid", "gensquashfs refuses a representable input (%s): %s" % (label, res["stderr"][-200:]))
            elif res["diffs"]:
                key = "fidelity-" + ("xattr" if any("xattrs" in x for x in res["diffs"]) else "tree")
                rep.violation(key, "%s: image does not read back as packed: %s" % (label, res["diffs"][:3]), data={"case": label, "diffs": res["diffs"]})
            elif res["reader"]:
                hl = [x[3:] for x in res["reader"] if x.startswith("HL:")]
                other = [x for x in res["reader"] if not x.startswith("HL:")]
                if hl:
                    rep.violation("unpack-loses-hard-links", "%s: image -> rdsquashfs -u -> gensquashfs --pack-dir: %s (every name of a group is unpacked as a file of its own)" % (label, hl[0]))
                if other:
                    rep.violation("reader-disagrees", "%s: %s" % (label, other[:2]))
    evaluations += listing_size_boundary(tools, work, rep, ev)
    if tier != "quick":
        evaluations += huge_sparse_case(work, rep, ev)
    ev.sample({"kind": "scenario-runs", "cases": ["%s -c %s %s" % (os.path.basename(j[0].dir), j[2], " ".join(j[1] + j[3])) for j in jobs[:8]]}, limit=6)
    # ---- unrepresentable inputs must be refused ----------------------------------------------------------
    s = gen.Scenario(work, "u_longname")
    s.add_file("/" + "n" * 257, b"x")
    rc, o, e = sh([tools + "/gensquashfs", "-q", "-f", "-F", s.packfile(), s.dir + "/o.sqfs"], timeout=60)
    evaluations += 1
    if rc == 0:
        t = sqfsimg.load(s.dir + "/o.sqfs").tree()
        if ("n" * 257).encode() not in t:
            rep.violation("unrepresentable-accepted", "a 257 byte name is accepted and stored altered")
    for nid, rc, diffs in idlimit.result():
        evaluations += 1
        nontrivial.add("ids%d" % (nid + 1))
        if rc == 0 and nid + 1 > 0xFFFF:
            rep.violation("id-table-overflow", "%d distinct ids: exit 0 but the super block id count has 16 bits%s" % (nid + 1, "; " + str(diffs) if diffs else ""))
        elif rc == 0 and diffs:
            rep.violation("id-table-overflow", "%d distinct ids: exit 0 but the image does not read back: %s" % (nid + 1, diffs))
        elif rc != 0 and nid + 1 <= 0xFFFF:
            rep.violation("pack-refuses-valid", "%d distinct ids are representable but gensquashfs refuses them (rc %d)" % (nid + 1, rc))
    os.makedirs(work + "/st", exist_ok=True)
    evaluations += stat_listing_stage(tools, work, rep, ev, rng)
    uon = unpack_opts_stage(tools, work, rep, ev, tier)
    if uon is None:
        return 2
    evaluations += uon
    pdn = pack_dir_stage(tools, work, rep, ev, tier)
    if pdn is None:
        return 2
    evaluations += pdn
    cn = cli_opts_stage(tools, work, rep, ev, tier, rng)
    if cn is None:
        return 2
    evaluations += cn
    con = comp_opts_stage(tools, work, rep, ev, tier, rng)
    if con is None:
        return 2
    evaluations += con
    dn = sqfsdiff_stage(tools, work, rep, ev, tier, rng)
    if dn is None:
        return 2
    evaluations += dn
    xn = xattr_writer_stage(tools, work, rep, ev, tier, rng)
    if xn is None:
        return 2
    evaluations += xn
    ev.set("evaluations", evaluations)
    ev.set("distinct_nontrivial", len(nontrivial))
    ev.set("rule", "programs: every pack-file program of <=2 directives over 6 paths x 5 kinds emitted by TLC (all in thorough, half with link "
                   "directives in quick); scenarios: fixed family + boundary classes, each packed with 2 (quick) / 5 (thorough) compressor x option "
                   "tuples; distinct = distinct specified meanings + distinct (scenario, compressor, options)")
    ev.set("traces_validated_against_impl", evaluations)
    ev.assumptions += ["SELinux labelling (-s) and LZO are not covered", "timestamps of pack-file entries default to 0 (SOURCE_DATE_EPOCH unset)"]
    shutil.rmtree(work, ignore_errors=True)
    return rep.finish()


def replay(path):
    d = json.load(open(path))
    print(json.dumps(d, indent=1)[:3000])
    return run("quick")
