"""C09 - worker pool: FIFO, exactly-once, deadlock-free under every interleaving.
Spec: spec/ThreadPool.tla (implementation-shaped) refining spec/PoolAbs.tla.
Binding R: TLC state graph -> edge-covering paths -> replayed 1:1 on the real threadpool.c under the
controlled scheduler (harness/sched.c), projected state compared after every step; deviation witnesses
replayed; seeded random schedules beyond TLC's bounds."""
import json, os, random, subprocess, sys, time
from concurrent.futures import ThreadPoolExecutor
import vlib, build
from vlib import VERIF, Evidence, Reporter, run_tlc, write_cfg, scratch, SEED

PID = "C09"
REPO = build.REPO
H = os.path.join(VERIF, "harness")

DEVS = ["DoneUnsorted", "DequeueAnyTicket", "NoBcastStore", "NoBcastSubmit", "DestroyNoBcast", "IfNotWhile",
        "DequeueIfNotWhile", "NoItemCountDec", "SubmitIgnoresStatus", "StatusOverwritten", "SharedCtx",
        "SafeDoneLIFO", "NoPop"]


def build_harness(out):
    os.makedirs(out, exist_ok=True)
    inc = ["-I" + REPO + "/include", "-I" + REPO, "-DHAVE_CONFIG_H", "-D_GNU_SOURCE"]
    subprocess.check_call(["gcc", "-O1", "-g", "-w", "-c", H + "/sched.c", "-o", out + "/sched.o"])
    drift = False
    for proj in ([], ["-DNO_PROJECTION"]):
        cmd = ["gcc", "-O1", "-g", "-w"] + inc + proj + ["-include", H + "/sched.h",
               '-DREPO_THREADPOOL_C="%s/lib/util/src/threadpool.c"' % REPO, "-c", H + "/replay_pool.c",
               "-o", out + "/replay_pool.o"]
        r = subprocess.run(cmd, capture_output=True, text=True)
        if r.returncode == 0:
            break
        drift = True
    else:
        sys.stderr.write(r.stderr[:3000])
        raise RuntimeError("cannot compile pool harness")
    subprocess.check_call(["gcc", out + "/replay_pool.o", out + "/sched.o", REPO + "/lib/util/src/alloc.c"] + inc +
                          ["-lpthread", "-o", out + "/replay_pool"])
    return out + "/replay_pool", drift


def sched_line(label):
    name = label.split("(")[0]
    args = label[label.index("(") + 1:-1].split(",") if "(" in label else []
    if name in ("WCS", "WFunEnd"):
        return "S %s" % args[0]
    if name == "WSpurious":
        return "P %s" % args[0]
    if name == "MSpurious":
        return "P 0"
    if name == "MSubmitStart":
        return "S 0 sub"
    if name == "MDequeueStart":
        return "S 0 deq"
    if name == "MStatusStart":
        return "S 0 st"
    if name == "MDestroyStart":
        return "S 0 des"
    if name == "MSetPtrStart":
        return "S 0 setptr %s %s" % (args[0].strip(), args[1].strip())
    if name in ("MSubmitCS", "MDequeueCS", "MStatusCS", "MSetPtrCS", "MDestroyCS", "MJoin"):
        return "S 0"
    if name in ("Finished", "Initial predicate"):
        return None
    raise ValueError(label)


def write_sched(path, W, N, fail, lines, mode="replay", finish=False):
    with open(path, "w") as f:
        f.write("W %d N %d\n" % (W, N))
        for t in fail:
            f.write("FAIL %d\n" % t)
        if finish:
            f.write("FINISH 1\n")
        f.write("MODE %s\n" % mode)
        for l in lines:
            f.write(l + "\n")


def run_harness(binp, path):
    try:
        p = subprocess.run([binp, path], capture_output=True, text=True, timeout=120)
        rc, out = p.returncode, p.stdout
    except subprocess.TimeoutExpired as e:
        rc, out = 124, (e.stdout or b"").decode() if isinstance(e.stdout, bytes) else (e.stdout or "")
    recs = []
    for l in out.split("\n"):
        if l.startswith("{"):
            try:
                recs.append(json.loads(l))
            except Exception:
                pass
    return rc, recs


STRUCT_KEYS = ["queue", "done", "safeDone", "nextTicket", "nextDeq", "itemCount", "status", "ctx"]
PROP_KEYS = ["returned", "processed", "lastRet"]


def compare(model, real):
    """returns (property-level mismatches, structural mismatches)"""
    prop, struct = [], []
    for k in PROP_KEYS:
        if model.get(k) != real.get(k):
            prop.append((k, model.get(k), real.get(k)))
    if model["mpc"] != real["mpc"]:
        struct.append(("mpc", model["mpc"], real["mpc"]))
    if list(model["wpc"]) != real["wpc"][:len(model["wpc"])]:
        struct.append(("wpc", model["wpc"], real["wpc"]))
    for i, pc in enumerate(model["wpc"]):
        if pc == "infun" and i < len(real["witem"]) and model["witem"][i] != real["witem"][i]:
            struct.append(("witem", model["witem"], real["witem"]))
    if real.get("proj"):
        for k in STRUCT_KEYS:
            if model.get(k) != real.get(k):
                struct.append((k, model.get(k), real.get(k)))
    return prop, struct


def classify_end(recs):
    """property-level observation from the harness itself"""
    for r in recs:
        if r.get("deadlock"):
            return "deadlock"
        if "monitor" in r:
            return {1: "fifo", 2: "processed-twice", 3: "returned-unprocessed", 4: "shared-context", 5: "failure-not-reported"}.get(r["monitor"], "monitor")
        if "hang" in r:
            return "hang"
    return None


def create_failure_stage(work, rep, ev):
    """thread_pool_create() with a worker thread that cannot be started (pthread_create wrapped to fail at call K): the workers already running
    have to be woken and joined, create returns NULL - it must RETURN (C09: every call returns).  Real threads, 10 s watchdog."""
    binp = work + "/replay_poolcreate"
    if not build.compile_harness(VERIF + "/harness/replay_poolcreate.c", binp, variant="plain", extra=["-Wl,--wrap=pthread_create", "-pthread"]):
        raise RuntimeError("harness build failed")
    n = 0
    for W in (1, 2, 3, 4, 6, 8):
        for K in range(1, W + 2):
            for rep_i in range(5):
                try:
                    q = subprocess.run([binp, str(W), str(K)], capture_output=True, text=True, timeout=30)
                    rc, out = q.returncode, q.stdout
                except subprocess.TimeoutExpired:
                    rc, out = 124, "HANG"
                n += 1
                if rc in (3, 124) or "HANG" in out:
                    rep.violation("pool-create-hang", "thread_pool_create(%d workers) does not return when the start of thread %d fails (the workers already running are never all woken)" % (W, K),
                                  data={"workers": W, "failing_thread": K})
                    return n
                if rc != 0:
                    rep.violation("pool-create-crash", "thread_pool_create(%d workers) with a failing start of thread %d: exit status %d" % (W, K, rc), data={"workers": W, "failing_thread": K})
                    return n
                got = json.loads(out.strip().split("\n")[-1])["created"]
                if got != (K > W):
                    print("SPEC-DRIFT (no alarm): thread_pool_create(%d) with failing thread start %d: created = %s" % (W, K, got))
    ev.set("pool_create_failure_runs", n)
    return n


def serial_stage(work, rep, ev, tier):
    """spec/PoolSerial.tla: the serial implementation of the same interface at list-pointer granularity; every call sequence TLC enumerates
    is replayed on the real threadpool_serial.c (ASan), call results compared one by one."""
    import bpbind
    M = 7 if tier == "quick" else 10
    C = {"MaxOps": M, "Nodes": set(range(1, M + 1)), "FailItems": {0, 1, 2, 3}, "RecycledKeepsNext": False, "LastNotReset": False, "Emit": False}
    INV = ["ListsSound", "QueueIsAbstract", "FifoOnce", "NullOnlyWhenEmpty", "StatusReported", "HeapEnough"]
    cfg = work + "/ps.cfg"
    write_cfg(cfg, spec="Spec", constants=C, invariants=INV, deadlock=False)
    r = run_tlc("PoolSerial", cfg, workers=8, timeout=1500, heap="8g")
    ev.tlc(r, "PoolSerial MaxOps=%d" % M)
    if not r["ok"]:
        print("MODEL-FAILURE: PoolSerial violates %s" % r["violated"])
        return None
    for dev in ("RecycledKeepsNext", "LastNotReset"):
        write_cfg(cfg, spec="Spec", constants=dict(C, **{dev: True}), invariants=INV, deadlock=False)
        r = run_tlc("PoolSerial", cfg, workers=4, timeout=600)
        ev.tlc(r, "dev PoolSerial " + dev)
        if not r["violated"]:
            print("SELF-CHECK-FAILED: PoolSerial deviation %s without counterexample" % dev)
            return None
    write_cfg(cfg, spec="Spec", constants=dict(C, Emit=True), invariants=INV + ["EmitOK"], deadlock=False)
    r = run_tlc("PoolSerial", cfg, workers=8, timeout=1500, heap="8g")
    cases = bpbind.parse_emitted(r["out"])
    if len(cases) != 4 * 2 ** M:
        print("SELF-CHECK-FAILED: PoolSerial emitted %d call sequences, expected %d" % (len(cases), 4 * 2 ** M))
        return None
    binp = work + "/replay_poolserial"
    if not build.compile_harness(VERIF + "/harness/replay_poolserial.c", binp, variant="asan"):
        raise RuntimeError("harness build failed")

    def do(i):
        c = cases[i]
        prog = "".join(e[0] for e in c["log"])
        try:
            q = subprocess.run([binp, str(c["failing"]), prog], capture_output=True, text=True, timeout=60,
                               env=dict(os.environ, ASAN_OPTIONS="detect_leaks=1"))
            return i, prog, q.returncode, q.stdout, q.stderr
        except subprocess.TimeoutExpired as e:
            return i, prog, 124, "", "timeout"
    n, seen = 0, set()
    from concurrent.futures import ThreadPoolExecutor
    with ThreadPoolExecutor(16) as ex:
        for i, prog, rc, out, err in ex.map(do, range(len(cases))):
            n += 1
            c = cases[i]
            what = None
            if "ERROR: AddressSanitizer" in err:
                what = ("serial-memory-error", "memory error (%s)" % err[err.find("ERROR: AddressSanitizer"):][:120])
            elif "LeakSanitizer" in err:
                what = ("serial-leak", "nodes leaked at destroy")
            elif rc in (3, 124) or "HANG" in out:
                what = ("serial-hang", "a call never returns")
            elif rc != 0:
                what = ("serial-crash", "exit status %d %s" % (rc, err[-100:]))
            else:
                real = json.loads(out.strip().split("\n")[-1])
                want = [[e[0], int(e[1]), int(e[2])] for e in c["log"]]
                if real["log"] != want:
                    k = next(j for j in range(len(want)) if real["log"][j] != want[j])
                    what = ("serial-fifo-once", "call %d (%s) answers %s, the specification %s" % (k + 1, prog[k], real["log"][k][1:], want[k][1:]))
                elif real["status"] != c["status"]:
                    what = ("serial-status", "status %d, the specification %d" % (real["status"], c["status"]))
            if what and what[0] not in seen:
                seen.add(what[0])
                rep.violation(what[0], "serial pool, failing item %d, calls %s: %s" % (c["failing"], prog, what[1]),
                              data={"failing": c["failing"], "prog": prog, "serial": True})
    ev.set("serial_pool_call_sequences_replayed", n)
    return n


def run(tier):
    ev = Evidence(PID, tier, "model_checking")
    rep = Reporter(PID, ev)
    work = scratch("c09")
    binp, drift = build_harness(work + "/h")
    ev.set("drift", drift)
    rng = random.Random(SEED)
    replays = 0
    cannot = 0
    structural = []
    divergent = [0]

    def base_consts(W, N, fail, dev="none", fix=True, spur=1):
        return {"W": W, "N": N, "FailSet": set(fail), "MaxSpurious": spur, "FixDequeue": fix,
                "Dev": '"%s"' % dev, "MaxAllocFail": 1}

    # ---- 1. exhaustive model checking of the correct spec -------------------------------------------
    if tier == "quick":
        cfgs = [(1, 2, []), (2, 2, [1]), (2, 3, [2]), (2, 3, [])]
    else:
        cfgs = [(1, 3, [2]), (2, 2, [1]), (2, 3, [2]), (2, 3, []), (2, 4, [2]), (3, 3, [1]), (3, 4, [3]), (3, 4, [])]
    for (W, N, fail) in cfgs:
        cfg = work + "/mc.cfg"
        write_cfg(cfg, spec="FairSpec", constants=base_consts(W, N, fail, spur=(2 if tier != "quick" and W < 3 else 1)),
                  invariants=["Safety"], properties=["CallsReturn", "Refines"], deadlock=True)
        r = run_tlc("ThreadPool", cfg, workers=16, timeout=3000, coverage=True, heap="12g")
        ev.tlc(r, "ThreadPool W=%d N=%d Fail=%s" % (W, N, fail))
        if not r["ok"]:
            # the model itself violates the property: machinery problem (the spec is supposed to be right)
            print("MODEL-FAILURE: ThreadPool spec violates %s for W=%d N=%d" % (r["violated"], W, N))
            print(r["out"][-2000:])
            ev.write()
            return 2
    zero = [a for a, (tk, g) in ev.cov.get("action_coverage", {}).items() if tk == 0]
    ev.set("actions_never_taken", zero)

    # ---- 2. deviations: each must have a counterexample (anti-vacuity); witnesses replayed ----------
    devres = {}
    witnesses = []
    dev_cfgs = [(2, 3, [2]), (2, 3, []), (2, 2, [1])]
    for dev, fix in [("none", False)] + [(d, True) for d in DEVS]:
        found = None
        for (W, N, fail) in dev_cfgs:
            cfg = work + "/dev.cfg"
            c = base_consts(W, N, fail, dev=dev, fix=fix)
            c["MaxAllocFail"] = 0
            write_cfg(cfg, spec="FairSpec", constants=c, invariants=["Safety"],
                      properties=["CallsReturn", "Refines"], deadlock=True)
            r = run_tlc("ThreadPool", cfg, workers=16, timeout=900)
            ev.tlc(r, "dev %s fix=%s W=%d N=%d Fail=%s" % (dev, fix, W, N, fail))
            if r["violated"]:
                found = (W, N, fail, r)
                break
        name = dev if dev != "none" else "DequeueIgnoresStatus(pre-fix tree)"
        devres[name] = bool(found)
        if found:
            W, N, fail, r = found
            lines = [sched_line(s["_action"]) for s in r["trace"]]
            witnesses.append((name, W, N, fail, [l for l in lines if l], r["violated"]))
    ev.set("deviations", devres)
    missing = [d for d, ok in devres.items() if not ok]
    if missing:
        print("SELF-CHECK-FAILED: deviations without counterexample: %s" % missing)
        ev.write()
        return 2
    for (name, W, N, fail, lines, what) in witnesses:
        p = work + "/w_%s.txt" % name.split("(")[0]
        write_sched(p, W, N, fail, lines)
        rc, recs = run_harness(binp, p)
        kind = classify_end(recs)
        replays += 1
        if kind:
            rc2, recs2 = run_harness(binp, p)
            if classify_end(recs2) == kind:
                rep.violation("pool-%s" % kind, "witness of deviation %s (%s) reproduces on the real pool: %s"
                              % (name, what, kind), artefact=p, data={"schedule": lines, "W": W, "N": N, "fail": fail})
        ev.sample({"kind": "deviation-witness", "deviation": name, "W": W, "N": N, "fail": fail,
                   "schedule": lines, "result_on_real_code": kind or "property holds"}, limit=4)

    # ---- 3. state-graph path cover, replayed 1:1 with state comparison -----------------------------
    graph_cfgs = [(2, 2, [1], 1)] if tier == "quick" else [(2, 2, [1], 1), (2, 3, [2], 1), (1, 3, [2], 2)]
    for (W, N, fail, spur) in graph_cfgs:
        cfg = work + "/g.cfg"
        c = base_consts(W, N, fail, spur=spur)
        c["MaxAllocFail"] = 0
        write_cfg(cfg, spec="Spec", constants=c, invariants=["Safety"], deadlock=True)
        dump = work + "/graph"
        r = run_tlc("ThreadPool", cfg, workers=16, timeout=1800, dump=dump)
        ev.tlc(r, "graph W=%d N=%d" % (W, N))
        nodes, edges, init = vlib.load_dot(dump + ".dot")
        os.unlink(dump + ".dot")
        paths, unc = vlib.path_cover(nodes, edges, init, rng=rng)
        if tier == "quick":
            paths = paths[:2500]
        ev.add("graph_edges", len(edges))
        ev.add("graph_paths", len(paths))

        def do(idx):
            path = paths[idx]
            lines, states = [], []
            for k in path:
                l = sched_line(edges[k][2])
                if l:
                    lines.append(l)
                    states.append(nodes[edges[k][1]])
            p = work + "/p%d.txt" % idx
            write_sched(p, W, N, fail, lines)
            rc, recs = run_harness(binp, p)
            return idx, lines, states, rc, recs, p

        with ThreadPoolExecutor(max_workers=16) as ex:
            for idx, lines, states, rc, recs, p in ex.map(do, range(len(paths))):
                kind = classify_end(recs)
                steps = [x for x in recs if "did" in x and x["step"] > 0]
                bad = None
                if kind:
                    bad = ("pool-%s" % kind, "replayed TLC behaviour ends in %s on the real pool" % kind)
                elif any("cannot_follow" in x for x in recs):
                    cannot += 1
                else:
                    for i, (m, s) in enumerate(zip(states, steps)):
                        prop, struct = compare(m, s)
                        if prop:
                            # not step-for-step the specification: judged on the run COMPLETED under a fair scheduler (monitors: FIFO, exactly once,
                            # context exclusivity, every call returns, a failure is reported) - only a property that fails there is an alarm
                            pf = p + ".fin"
                            write_sched(pf, W, N, fail, lines, finish=True)
                            rcf, recsf = run_harness(binp, pf)
                            kf = classify_end(recsf)
                            endf = [x for x in recsf if x.get("end")]
                            if kf:
                                bad = ("pool-%s" % kf, "real pool leaves the specification at step %d (%s) and the completed run ends in %s" % (i + 1, prop[:2], kf))
                            elif not endf or not endf[0].get("finished"):
                                bad = ("pool-hang", "real pool leaves the specification at step %d (%s) and the run does not complete" % (i + 1, prop[:2]))
                            elif len(structural) < 5:
                                structural.append({"step": i + 1, "diff": prop[:2], "schedule": lines[:i + 1], "completed_run": "all monitors hold"})
                            divergent[0] += 1
                            try:
                                os.unlink(pf)
                            except OSError:
                                pass
                            break
                        if struct and len(structural) < 5:
                            structural.append({"step": i + 1, "diff": struct[:3], "schedule": lines[:i + 1]})
                    if len(steps) < len(states) and rc not in (0,):
                        cannot += 1
                replays += 1
                if bad:
                    rc2, recs2 = run_harness(binp, p)
                    rep.violation(bad[0], bad[1], artefact=p, data={"schedule": lines, "W": W, "N": N, "fail": fail})
                if idx < 2:
                    ev.sample({"kind": "graph-path", "W": W, "N": N, "fail": fail, "schedule": lines,
                               "steps_compared": len(steps)}, limit=6)
                try:
                    os.unlink(p)
                except OSError:
                    pass
    ev.set("behaviours_not_step_for_step_but_correct_when_completed(drift)", divergent[0])
    if divergent[0]:
        print("SPEC-DRIFT (no alarm): %d replayed behaviours leave ThreadPool.tla step-wise; completed under a fair scheduler every property monitor holds" % divergent[0])
    ev.set("structural_mismatches(drift)", structural)
    ev.set("schedules_not_followable", cannot)
    if structural or cannot:
        ev.set("drift", True)

    # ---- 4. seeded random schedules beyond TLC's bound (property monitors + deadlock detection) ----
    nrand = 300 if tier == "quick" else 5000

    def dorand(i):
        r2 = random.Random(SEED * 100003 + i)
        W = r2.choice([1, 2, 3, 3, 4])
        N = r2.randint(3, 9)
        fail = [r2.randint(1, N)] if r2.random() < 0.6 else []
        p = work + "/r%d.txt" % i
        with open(p, "w") as f:
            f.write("W %d N %d\n" % (W, N))
            for t in fail:
                f.write("FAIL %d\n" % t)
            f.write("MODE random %d %d %d\n" % (SEED * 7919 + i, 600, 2))
        rc, recs = run_harness(binp, p)
        return i, p, rc, recs, (W, N, fail)

    unfinished = 0
    with ThreadPoolExecutor(max_workers=16) as ex:
        for i, p, rc, recs, cfgx in ex.map(dorand, range(nrand)):
            kind = classify_end(recs)
            replays += 1
            if kind:
                rc2, recs2 = run_harness(binp, p)
                if classify_end(recs2) == kind:
                    sch = [x["sched"] for x in recs if "sched" in x]
                    rep.violation("pool-%s" % kind, "random schedule ends in %s (W,N,fail=%s)" % (kind, cfgx),
                                  artefact=p, data={"schedule": sch})
            end = [x for x in recs if x.get("end")]
            if end and not end[0].get("finished"):
                unfinished += 1
            if i < 1:
                ev.sample({"kind": "random-schedule", "W,N,fail": cfgx,
                           "schedule": [x["sched"] for x in recs if "sched" in x][:60]}, limit=6)
            try:
                os.unlink(p)
            except OSError:
                pass
    # ---- 5. binding T: executions of the real pool on free-running pthreads validated against PoolAbs ----------
    tbin = work + "/h/trace_pool"
    inc = ["-I" + REPO + "/include", "-I" + REPO, "-DHAVE_CONFIG_H", "-D_GNU_SOURCE"]
    subprocess.check_call(["gcc", "-O1", "-g", "-w"] + inc + ['-DREPO_THREADPOOL_C="%s/lib/util/src/threadpool.c"' % REPO,
                           H + "/trace_pool.c", REPO + "/lib/util/src/alloc.c", "-lpthread", "-o", tbin])
    nproc, nexec = (4, 250) if tier == "quick" else (16, 2000)
    tcfg = work + "/tp.cfg"
    write_cfg(tcfg, spec="TSpec", constants={"N": 4096}, invariants=["TraceOK", "TraceFifoOnce"], properties=["RefinesPoolAbs"], deadlock=False)

    def validate(path):
        r = run_tlc("TracePool", tcfg, workers=1, timeout=1200, env={"TRACE": path}, heap="8g")
        if r["ok"]:
            return None, r
        if r["violated"] in ("TraceOK", "TraceFifoOnce", "RefinesPoolAbs"):
            st = r["trace"][-1] if r["trace"] else {}
            return (r["violated"], st.get("bad") or st.get("l")), r
        raise RuntimeError("trace validation did not run: %s" % r["out"][-600:])

    def record(k):
        path = "%s/pooltrace_%d.ndjson" % (work, k)
        with open(path, "wb") as f:
            try:
                subprocess.run([tbin, str(SEED * 131 + k), str(nexec), "8" if k % 2 else "3", "40" if k % 3 else "6"], stdout=f, stderr=subprocess.DEVNULL, timeout=600)
            except subprocess.TimeoutExpired:
                f.write(b'{"e":"Hang"}\n')
        return path

    with ThreadPoolExecutor(max_workers=4) as ex:
        paths = list(ex.map(record, range(nproc)))
    nlines = nexecs = 0
    accepted = []
    for k, path in enumerate(paths):
        lines = open(path).read().split("\n")
        nlines += len(lines)
        nexecs += sum(1 for x in lines if '"Reset"' in x) - 1
        verdict, r = validate(path)
        ev.tlc(r, "TracePool free-running executions, file %d" % k)
        if not verdict:
            accepted.append(path)
        if verdict:
            ln = verdict[1] if isinstance(verdict[1], int) else 0
            what = lines[ln - 1] if 0 < ln <= len(lines) else "?"
            kind = "pool-deadlock" if "Hang" in what else "pool-trace-rejected"
            rep.violation(kind, "an execution of the real pool on free-running threads is not a behaviour of PoolAbs (%s): line %s %s, preceded by %s"
                          % (verdict[0], ln, what, lines[max(0, ln - 6):ln - 1]), artefact=path, data={"line": ln, "event": what})
    ev.set("free_running_executions_validated", nexecs)
    ev.set("free_running_events_validated", nlines)
    # anti-vacuity: corrupted copies of an accepted trace must be rejected
    good = open(accepted[0]).read().split("\n") if accepted else []
    muts = {}
    deq = [i for i, x in enumerate(good) if '"DeqRet"' in x and '"t":0' not in x]
    cbe = [i for i, x in enumerate(good) if '"CbEnd"' in x]
    cbs = [i for i, x in enumerate(good) if '"CbStart"' in x]
    if len(deq) > 3:
        m = list(good); m[deq[1]], m[deq[2]] = m[deq[2]], m[deq[1]]; muts["two tickets handed back in swapped order"] = m
    if cbe:
        m = list(good); del m[cbe[len(cbe) // 2]]; muts["a ticket handed back that was never processed"] = m
    if cbs:
        m = list(good); m.insert(cbs[len(cbs) // 2] + 1, m[cbs[len(cbs) // 2]]); muts["a callback entered twice"] = m
    rejected = {}
    for name, m in muts.items():
        mp = work + "/mut.ndjson"
        open(mp, "w").write("\n".join(m))
        verdict, r = validate(mp)
        rejected[name] = verdict is not None
    ev.set("corrupted_traces_rejected", rejected)
    if accepted and (len(rejected) < 3 or not all(rejected.values())):
        print("SELF-CHECK-FAILED: corrupted pool traces accepted: %s" % rejected)
        ev.write()
        return 2
    replays += nexecs
    # ---- 6. the abstract pool for every N <= 24 and behaviours of any length: inductive invariant with Apalache ------
    def apalache(module_dir, init, inv, length):
        try:
            pr = subprocess.run(["apalache-mc", "check", "--cinit=ConstInit", "--init=" + init, "--next=ANext", "--inv=" + inv, "--length=%d" % length,
                                 "--out-dir=" + work + "/apa", "PoolAbsInd.tla"], cwd=module_dir, capture_output=True, text=True, timeout=900)
        except subprocess.TimeoutExpired:
            return "timeout"
        return "ok" if "EXITCODE: OK" in pr.stdout else ("violated" if "violat" in pr.stdout.lower() or "EXITCODE: ERROR (12)" in pr.stdout else "error")
    ind = {"initiation": apalache(VERIF + "/spec", "AInit", "IndInv", 0), "consecution": apalache(VERIF + "/spec", "IndInit", "IndInv", 1),
           "IndInv=>AFifoOnce": apalache(VERIF + "/spec", "IndInit", "AFifoOnce", 0)}
    # anti-vacuity: a pool that hands back a ticket without looking whether it was processed is not inductive
    os.makedirs(work + "/apam", exist_ok=True)
    open(work + "/apam/PoolAbsInd.tla", "w").write(open(VERIF + "/spec/PoolAbsInd.tla").read().replace("/\\ (aRet + 1) \\in aProc ", ""))
    ind["mutant(AReturn without the processed test) rejected"] = apalache(work + "/apam", "IndInit", "IndInv", 1) == "violated"
    ev.set("apalache_inductive_invariant(PoolAbs, N<=24, unbounded length)", ind)
    if [v for k, v in ind.items() if v not in ("ok", True)]:
        print("MODEL-FAILURE: inductive invariant of PoolAbs not established: %s" % ind)
        ev.write()
        return 2
    ev.set("random_schedules", nrand)
    replays += create_failure_stage(work, rep, ev)
    sn = serial_stage(work, rep, ev, tier)
    if sn is None:
        ev.write()
        return 2
    replays += sn
    ev.set("random_schedules_cut_by_step_bound", unfinished)
    ev.set("traces_validated_against_impl", replays)
    ev.assumptions += ["pthread primitives behave as POSIX specifies (they are replaced by the controlled scheduler)",
                       "critical sections contain no blocking call other than those intercepted",
                       "callback duration and outcome are arbitrary; contexts given by the client are distinct"]
    ev.set("bounds", {"exhaustive": [list(c) for c in cfgs], "spurious_wakeups": "<=1 (quick) / <=2 (thorough)",
                      "alloc_failures_in_submit": "<=1"})
    import shutil
    shutil.rmtree(work, ignore_errors=True)
    return rep.finish()


def replay(path):
    work = scratch("c09r")
    binp, drift = build_harness(work + "/h")
    d = json.load(open(path))
    if (d.get("data") or {}).get("serial"):
        b2 = work + "/replay_poolserial"
        if not build.compile_harness(VERIF + "/harness/replay_poolserial.c", b2, variant="asan"):
            return 2
        q = subprocess.run([b2, str(d["data"]["failing"]), d["data"]["prog"]], capture_output=True, text=True, timeout=60)
        print(q.stdout[-500:], q.stderr[-800:])
        print("VIOLATION property=%s replay=%s  (compare with the log in the replay file)" % (PID, path) if q.returncode else "harness exit 0: compare the log above with spec/PoolSerial.tla")
        return 1 if q.returncode else 0
    p = d.get("artefact")
    if not p or not os.path.exists(p):
        p = work + "/s.txt"
        write_sched(p, d["data"]["W"], d["data"]["N"], d["data"]["fail"], d["data"]["schedule"])
    rc, recs = run_harness(binp, p)
    kind = classify_end(recs)
    for r in recs[-5:]:
        print(json.dumps(r))
    if kind:
        print("VIOLATION property=%s replay=%s" % (PID, path))
        return 1
    return 0
