"""C07 - untrusted tar streams / description files never crash or hang the packers.
Spec: spec/TarReader.tla (archive plans: record classes x truncation x terminator; Robust), spec/FsTree.tla
(all hard-link graphs: NeverHangs), spec/Describe.tla (tokenizer).  Binding R: every plan TLC enumerates is
rendered by the independent record writer and fed to the ASan tar2sqfs under a time-out; all hard-link
graphs over 4 nodes as tar archives and pack files; malformed pack / sort / xattr files.  Outcome must be a
valid image or a diagnostic + non-zero exit + no output file; never a signal, sanitizer report or hang."""
import itertools, json, os, random, shutil, struct, subprocess, sys
from concurrent.futures import ThreadPoolExecutor
import vlib, build, bpbind, sqfsimg, tarfmt
from vlib import VERIF, Evidence, Reporter, run_tlc, write_cfg, scratch, SEED, sh

PID = "C07"
CHECKS = ["ChecksumChecked", "PaxLenChecked", "SparseCountBounded", "SizeFieldValidated", "LinkCycleDetected", "Sparse10Validated"]


def sparse_header(name, entries, realsize, payload_len, isext=0):
    h = bytearray(tarfmt.header(name, b"S", size=payload_len, magic=b"ustar  \0"))
    pos = 386
    for off, n in entries[:4]:
        h[pos:pos + 12] = tarfmt.octal(off, 12)
        h[pos + 12:pos + 24] = tarfmt.octal(n, 12)
        pos += 24
    h[482] = isext
    h[483:495] = tarfmt.octal(realsize, 12)
    h[148:156] = b" " * 8
    chk = sum(h)
    h[148:156] = ("%06o" % chk).encode() + b"\0 "
    return bytes(h)


def render_record(cls, i):
    name = b"f%d" % i
    data = bytes([65 + i]) * 700
    H = tarfmt.header
    if cls == "ok":
        return H(name, b"0", size=len(data)) + tarfmt.pad(data)
    if cls == "badchecksum":
        h = bytearray(H(name, b"0", size=len(data)))
        h[148:154] = b"000001"
        return bytes(h) + tarfmt.pad(data)
    if cls == "badmagic":
        return H(name, b"0", size=len(data), magic=b"xstar\0" + b"00") + tarfmt.pad(data)
    if cls == "size_nonnumeric":
        return H(name, b"0", raw_size=b"zzzzzzzzzzz\0") + tarfmt.pad(data)
    if cls == "size_huge":
        return H(name, b"0", raw_size=b"77777777777\0") + tarfmt.pad(data)
    if cls == "size_negative_b256":
        return H(name, b"0", raw_size=b"\xff" * 12) + tarfmt.pad(data)
    if cls.startswith("pax_"):
        payload = {"pax_len_zero": b"0 path=x\n", "pax_len_over": b"9999 path=x\n", "pax_no_equals": b"12 pathxxxx\n",
                   "pax_no_newline": b"11 path=abc", "pax_huge": b"13 path=abcd\n"}[cls]
        if cls == "pax_huge":
            hdr = H(b"PaxHeaders/x", b"x", raw_size=b"77777777777\0")
        else:
            hdr = H(b"PaxHeaders/x", b"x", size=len(payload))
        return hdr + tarfmt.pad(payload) + H(name, b"0", size=len(data)) + tarfmt.pad(data)
    if cls == "longname_over_limit":
        return H(b"././@LongLink", b"L", size=1 << 20, magic=b"ustar  \0") + tarfmt.pad(b"x" * 600) + H(name, b"0", size=len(data)) + tarfmt.pad(data)
    if cls == "longname_zero":
        return H(b"././@LongLink", b"L", size=0, magic=b"ustar  \0") + H(name, b"0", size=len(data)) + tarfmt.pad(data)
    if cls == "sparse_unordered":
        return sparse_header(name, [(2048, 512), (0, 512)], 4096, 1024) + b"D" * 1024
    if cls == "sparse_overlap":
        return sparse_header(name, [(0, 1024), (512, 512)], 4096, 1536) + tarfmt.pad(b"D" * 1536)
    if cls == "sparse_beyond":
        return sparse_header(name, [(0, 512), (1 << 33, 512)], 4096, 1024) + b"D" * 1024
    if cls == "sparse_count_mismatch":
        return sparse_header(name, [(0, 512), (1024, 512), (2048, 512), (3072, 512)], 8192, 512, isext=1) + b"D" * 512
    if cls.startswith("sp10_"):
        # GNU sparse format 1.0: PAX header (major 1, minor 0, real name, real size) + a member whose payload starts with the map
        m = {"sp10_count_nonnumeric": b"x\n0\n512\n", "sp10_count_huge": b"99999999999999\n0\n512\n", "sp10_entry_nonnumeric": b"1\n0\nabc\n",
             "sp10_map_truncated": b"3\n0\n512\n", "sp10_no_newline": b"1" * 512, "sp10_number_overflow": b"1\n99999999999999999999999999\n512\n"}[cls]
        pax = tarfmt.pax([(b"GNU.sparse.major", b"1"), (b"GNU.sparse.minor", b"0"), (b"GNU.sparse.name", name), (b"GNU.sparse.realsize", b"4096")])
        body = m.ljust(512, b"\0") if cls != "sp10_map_truncated" else m           # truncated: the map ends with the member
        return pax + H(b"GNUSparseFile.0/" + name, b"0", size=len(body) + (512 if cls != "sp10_map_truncated" else 0)) + tarfmt.pad(body) + (b"D" * 512 if cls != "sp10_map_truncated" else b"")
    if cls == "name_dotdot":
        return H(b"../escape%d" % i, b"0", size=len(data)) + tarfmt.pad(data)
    if cls == "name_empty":
        return H(b"", b"0", size=len(data)) + tarfmt.pad(data)
    if cls == "hlink_dangling":
        return H(name, b"1", linkname=b"does/not/exist")
    if cls == "hlink_self":
        return H(name, b"1", linkname=name)
    if cls == "hlink_cycle":
        return H(b"cy%d" % i, b"1", linkname=b"cz%d" % i) + H(b"cz%d" % i, b"1", linkname=b"cy%d" % i) + H(b"cx%d" % i, b"1", linkname=b"cy%d" % i)
    if cls == "hlink_to_dir":
        return H(b"dir%d" % i, b"5", mode=0o755) + H(name, b"1", linkname=b"dir%d" % i)
    if cls == "dup_name":
        return (H(b"dup", b"0", size=len(data)) + tarfmt.pad(data)) * 2
    if cls == "file_under_file":
        return H(b"ff%d" % i, b"0", size=len(data)) + tarfmt.pad(data) + H(b"ff%d/g" % i, b"0", size=len(data)) + tarfmt.pad(data)
    if cls == "unknown_type":
        return H(name, b"Z", size=len(data)) + tarfmt.pad(data)
    raise ValueError(cls)


def render_plan(p):
    parts = [render_record(c, i) for i, c in enumerate(p["recs"], 1)]
    if p["cut"] != "none":
        k = p["cutAt"] - 1
        head = b"".join(parts[:k])
        if p["cut"] == "boundary":
            return head
        if p["cut"] == "in_header":
            return head + parts[k][:256]
        return head + parts[k][:512 + 100]
    out = b"".join(parts)
    return out + (tarfmt.terminator() if p["term"] else b"")


BAD = ("hang", "sanitizer", "signal", "leftover", "invalid-image", "refuse-silent")


def run_packer(tools, cmd, out, stdin=None, timeout=10):
    if os.path.exists(out):
        os.unlink(out)
    try:
        p = subprocess.run(cmd, input=stdin, stdout=subprocess.DEVNULL, stderr=subprocess.PIPE, timeout=timeout,
                           env=dict(os.environ, ASAN_OPTIONS="detect_leaks=0:allocator_may_return_null=1:max_allocation_size_mb=2048"))
        rc, err = p.returncode, p.stderr.decode(errors="replace")
    except subprocess.TimeoutExpired:
        return "hang", ""
    if "ERROR: AddressSanitizer" in err or "runtime error" in err:
        return "sanitizer", err[:300]
    if rc < 0 or rc in (134, 139):
        return "signal", err[-200:]
    if rc == 0:
        try:
            sqfsimg.load(out).tree(with_content=True)
            res = "image"
        except Exception as ex:
            res = "invalid-image"
            err = str(ex)
    else:
        res = "leftover" if os.path.exists(out) else ("refuse" if err.strip() else "refuse-silent")
    if os.path.exists(out):
        os.unlink(out)
    return res, err[-200:]


def link_graph_stage(tools, work, rep, ev, tier, rng, cfg, src):
    """spec/LinkGraph.tla: resolve_link at the granularity of one loop iteration, every graph over N names (file / directory /
    link to a name / link to nothing) x every order of the unresolved list: Terminates, Correct, OrderFree + liveness.
    R: every graph TLC emits as a gensquashfs pack file in several declaration orders and as a tar archive: a good graph
    must pack (link groups as specified), any other one must be refused with a diagnostic - never a hang."""
    import itertools
    NQ = 4
    for n in ((NQ,) if tier == "quick" else (NQ, 5)):
        write_cfg(cfg, spec="FairSpec", constants={"N": n, "Emit": False, "CycleCheck": '"halfspeed"'},
                  invariants=["Terminates", "Correct", "OrderFree", "WorkBound"], properties=["Eventually"] if n == NQ else [], deadlock=False)
        r = run_tlc("LinkGraph", cfg, workers=16, timeout=3000, heap="16g")
        ev.tlc(r, "LinkGraph N=%d" % n)
        if not r["ok"]:
            print("MODEL-FAILURE: LinkGraph violates %s" % r["violated"])
            return None
    for dev, inv in (("startonly", "Terminates"), ("window", "Terminates"), ("everyhop", "Correct")):
        write_cfg(cfg, spec="Spec", constants={"N": NQ, "Emit": False, "CycleCheck": '"%s"' % dev}, invariants=["Terminates", "Correct"], deadlock=False)
        r = run_tlc("LinkGraph", cfg, workers=8, timeout=900)
        ev.tlc(r, "dev LinkGraph " + dev)
        if r["violated"] != inv:
            print("SELF-CHECK-FAILED: LinkGraph deviation %s gives %s, expected a %s counterexample" % (dev, r["violated"], inv))
            return None
    graphs = []
    for n in ((NQ,) if tier == "quick" else (NQ, 5)):
        write_cfg(cfg, spec="Spec", constants={"N": n, "Emit": True, "CycleCheck": '"halfspeed"'}, invariants=["EmitOK"], deadlock=False)
        r = run_tlc("LinkGraph", cfg, workers=4, timeout=3000, heap="16g")
        graphs += [(n, c) for c in bpbind.parse_emitted(r["out"])]
    if len(graphs) < 2000:
        print("SELF-CHECK-FAILED: LinkGraph emitted %d graphs" % len(graphs))
        return None
    ev.set("link_graphs_emitted", len(graphs))
    jobs = []
    for n, c in graphs:
        ids = list(range(1, n + 1))
        if n == NQ and tier != "quick":
            orders = list(itertools.permutations(ids))
        else:
            orders = [tuple(ids), tuple(reversed(ids)), tuple(rng.sample(ids, n))]
        for o in sorted(set(orders)):
            jobs.append((n, c, o, "pack"))
        jobs.append((n, c, tuple(ids), "tar"))
    if tier != "quick" and len(jobs) > 120000:
        keep = [j for j in jobs if j[0] == NQ]
        rest = [j for j in jobs if j[0] != NQ]
        rng.shuffle(rest)
        jobs = keep + rest[:120000 - len(keep)]

    def do(ji):
        n, c, order, how = jobs[ji]
        g = c["g"]
        out = "%s/lg%d.sqfs" % (work, ji)
        if how == "pack":
            txt = ""
            for i in order:
                k = g[i - 1]
                if k == n + 1:
                    txt += "file /n%d 0644 0 0 %s\n" % (i, src)
                elif k == n + 2:
                    txt += "dir /n%d 0755 0 0\n" % i
                else:
                    txt += "link /n%d 0 0 0 /%s\n" % (i, ("n%d" % k) if k else "missing")
            pf = "%s/lg%d.txt" % (work, ji)
            open(pf, "w").write(txt)
            cmd, stdin = [tools + "/gensquashfs", "-q", "-f", "-F", pf, out], None
        else:
            arch = b""
            for i in order:
                k = g[i - 1]
                if k == n + 1:
                    arch += tarfmt.header(b"n%d" % i, b"0", size=3) + tarfmt.pad(b"abc")
                elif k == n + 2:
                    arch += tarfmt.header(b"n%d/" % i, b"5", mode=0o755)
                else:
                    arch += tarfmt.header(b"n%d" % i, b"1", linkname=(b"n%d" % k) if k else b"missing")
            cmd, stdin = [tools + "/tar2sqfs", "-q", "-f", out], arch + tarfmt.terminator()
        if os.path.exists(out):
            os.unlink(out)
        try:
            p = subprocess.run(cmd, input=stdin, stdout=subprocess.DEVNULL, stderr=subprocess.PIPE, timeout=10,
                               env=dict(os.environ, ASAN_OPTIONS="detect_leaks=0:allocator_may_return_null=1"))
            rc, err = p.returncode, p.stderr.decode(errors="replace")
        except subprocess.TimeoutExpired:
            return ji, "hang", ""
        res = None
        if "ERROR: AddressSanitizer" in err:
            res = "sanitizer"
        elif rc < 0 or rc in (134, 139):
            res = "signal"
        elif rc == 0:
            try:
                t = sqfsimg.load(out).tree()
                if not c["good"]:
                    res = "accepted-bad-graph"
                else:
                    # link groups: names that share an inode
                    byino = {}
                    for name, node in t.items():
                        if name:
                            byino.setdefault(node["inum"], []).append(name)
                    for i in range(1, n + 1):
                        if g[i - 1] == n + 1:
                            grp = [x for x in byino.values() if ("n%d" % i).encode() in x]
                            if not grp or len(grp[0]) != c["groups"][i - 1] + 1:
                                res = "wrong-groups"
            except Exception as ex:
                res, err = "invalid-image", str(ex)
        else:
            if os.path.exists(out):
                res = "leftover"
            elif not err.strip():
                res = "refuse-silent"
            elif c["good"]:
                res = "refused-good-graph"
        for f in (out, "%s/lg%d.txt" % (work, ji)):
            if os.path.exists(f):
                os.unlink(f)
        return ji, res, err[-200:]
    n = 0
    seen = set()
    with ThreadPoolExecutor(max_workers=16) as ex:
        for ji, res, err in ex.map(do, range(len(jobs))):
            n += 1
            if res and (res, jobs[ji][3]) not in seen:
                seen.add((res, jobs[ji][3]))
                nn, c, order, how = jobs[ji]
                tool = "gensquashfs" if how == "pack" else "tar2sqfs"
                rep.violation("%s-%s-linkgraph" % (tool, res), "%s on hard-link graph %s (entry i: 1..%d = link to that name, 0 = link to a missing name, %d = file, %d = directory), "
                              "declared in order %s: %s %s" % (tool, c["g"], nn, nn + 1, nn + 2, list(order), res, err[:150]), data={"graph": c["g"], "order": list(order), "how": how})
    ev.set("link_graph_runs", n)
    return n


def run(tier):
    ev = Evidence(PID, tier, "exploration")
    rep = Reporter(PID, ev)
    work = scratch("c07")
    tools = build.build("asan") + "/bin"
    rng = random.Random(SEED)
    cfg = work + "/t.cfg"
    allc = {k: True for k in CHECKS}
    allc.update({"MaxRec": 2 if tier == "quick" else 3, "Emit": False})
    write_cfg(cfg, spec="Spec", constants=allc, invariants=["Robust"], deadlock=False)
    r = run_tlc("TarReader", cfg, workers=16, timeout=1800, heap="12g")
    ev.tlc(r, "TarReader records<=%d" % allc["MaxRec"])
    if not r["ok"]:
        print("MODEL-FAILURE: TarReader violates %s" % r["violated"])
        ev.write()
        return 2
    devres = {}
    for chk in CHECKS[1:]:
        c = dict(allc)
        c[chk] = False
        c["MaxRec"] = 1
        write_cfg(cfg, spec="Spec", constants=c, invariants=["Robust"], deadlock=False)
        r = run_tlc("TarReader", cfg, workers=4, timeout=300)
        ev.tlc(r, "dev not " + chk)
        devres["missing:" + chk] = bool(r["violated"])
    # link graphs: FsTree NeverHangs (with the pre-fix cycle check as deviation)
    write_cfg(cfg, spec="Spec", constants={"MaxLen": 3, "Emit": False, "LinkFlagsDropped": False, "CycleCheckStartOnly": True, "GlobLinkPrefixDropped": False},
              defs={"OptSet": "{[defUid |-> 0, forceUid |-> 0 - 1]}"}, invariants=["NeverHangs"], deadlock=False)
    r = run_tlc("FsTree", cfg, workers=16, timeout=1800, heap="16g")
    ev.tlc(r, "dev FsTree CycleCheckStartOnly")
    devres["CycleCheckStartOnly(pre-fix tree)"] = bool(r["violated"])
    ev.set("deviations", devres)
    if not all(devres.values()):
        print("SELF-CHECK-FAILED: deviation without counterexample: %s" % devres)
        ev.write()
        return 2
    c = dict(allc)
    c.update({"Emit": True, "MaxRec": 2})
    write_cfg(cfg, spec="Spec", constants=c, invariants=["EmitOK"], deadlock=False)
    r = run_tlc("TarReader", cfg, workers=4, timeout=900, heap="8g")
    ev.tlc(r, "TarReader emit")
    plans = bpbind.parse_emitted(r["out"])
    cap = 1200 if tier == "quick" else 20000
    if len(plans) > cap:
        single = [p for p in plans if len(p["plan"]["recs"]) == 1]
        rest = [p for p in plans if len(p["plan"]["recs"]) > 1]
        rng.shuffle(rest)
        plans = single + rest[:cap - len(single)]
    evaluations = 0
    nontrivial = set()
    drift = 0

    def do(i):
        p = plans[i]["plan"]
        arch = render_plan(p)
        out = "%s/t%d.sqfs" % (work, i)
        res, err = run_packer(tools, [tools + "/tar2sqfs", "-q", "-f", "-c", "gzip", out], out, stdin=arch)
        return i, res, err, arch

    with ThreadPoolExecutor(max_workers=16) as ex:
        for i, res, err, arch in ex.map(do, range(len(plans))):
            evaluations += 1
            p = plans[i]["plan"]
            nontrivial.add(json.dumps(p, sort_keys=True))
            if i < 3:
                ev.sample({"kind": "archive-plan", "plan": p, "model": plans[i]["outcome"], "observed": res}, limit=5)
            if res in BAD:
                classes = "+".join(sorted(set(c for c in p["recs"] if c != "ok"))) or "valid"
                key = "tar2sqfs-%s-%s%s" % (res, classes, "" if p["cut"] == "none" else "-cut-" + p["cut"])
                f = "%s/bad_%d.tar" % (work, i)
                open(f, "wb").write(arch)
                rep.violation(key, "tar2sqfs on an archive with records %s (cut: %s, terminator: %s): %s %s" % (p["recs"], p["cut"], p["term"], res, err[:150]),
                              artefact=f, data={"plan": p})
            elif (res == "image") != (plans[i]["outcome"] == "image"):
                drift += 1
    ev.set("tierB_outcome_differs_from_model(informational)", drift)
    # ---- every sequence of <=3 GNU / PAX extension records in front of an entry (spec/TarSem.tla, AnySeq) -------
    TS = {"MaxExt": 3, "Emit": False, "Pairs": False, "NVals": 1, "AnySeq": True, "SetByPaxSurvivesClear": False, "WriterXLast": False}
    write_cfg(cfg, spec="Spec", constants=TS, invariants=["NoNullDeref", "BitsAgree"], deadlock=False)
    r = run_tlc("TarSem", cfg, workers=16, timeout=900, heap="8g")
    ev.tlc(r, "TarSem any sequence of <=3 extension records")
    if not r["ok"]:
        print("MODEL-FAILURE: TarSem violates %s" % r["violated"])
        ev.write()
        return 2
    write_cfg(cfg, spec="Spec", constants=dict(TS, SetByPaxSurvivesClear=True), invariants=["NoNullDeref"], deadlock=False)
    r = run_tlc("TarSem", cfg, workers=8, timeout=900, heap="8g")
    ev.tlc(r, "dev TarSem SetByPaxSurvivesClear")
    if r["violated"] != "NoNullDeref":
        print("SELF-CHECK-FAILED: SetByPaxSurvivesClear without counterexample")
        ev.write()
        return 2
    write_cfg(cfg, spec="Spec", constants=dict(TS, Emit=True), invariants=["EmitOK"], deadlock=False)
    r = run_tlc("TarSem", cfg, workers=4, timeout=900, heap="8g")
    seqs = bpbind.parse_emitted(r["out"])
    ev.set("extension_sequences_emitted", len(seqs))
    short = [x for x in seqs if len(x["e1"]["exts"]) <= 2]
    long_ = [x for x in seqs if len(x["e1"]["exts"]) > 2]
    rng.shuffle(long_)
    seqs = short + long_[:(800 if tier == "quick" else len(long_))]
    import c04

    def doseq(i):
        arch = c04.check_sequence_archive(seqs[i])
        out = "%s/x%d.sqfs" % (work, i)
        return i, run_packer(tools, [tools + "/tar2sqfs", "-q", "-f", "-c", "gzip", out], out, stdin=arch), arch

    with ThreadPoolExecutor(max_workers=16) as ex:
        for i, (res, err), arch in ex.map(doseq, range(len(seqs))):
            evaluations += 1
            nontrivial.add("ext" + json.dumps(seqs[i]["e1"], sort_keys=True))
            if res in BAD:
                recs = [x["t"] + ("(path)" if x.get("name") else "") + ("(linkpath)" if x.get("link") else "") for x in seqs[i]["e1"]["exts"]]
                f = "%s/badx_%d.tar" % (work, i)
                open(f, "wb").write(arch)
                rep.violation("tar2sqfs-%s-extseq" % res, "tar2sqfs on a %s entry preceded by extension records %s: %s %s" % (seqs[i]["e1"]["kind"], recs, res, err[:150]),
                              artefact=f, data={"entry": seqs[i]["e1"]})
    # ---- all hard-link graphs over 4 nodes as tar archives ---------------------------------------------
    N = 3 if tier == "quick" else 4
    graphs = list(itertools.product(range(N + 1), repeat=N))      # node i: 0 = regular file, j = hard link to node j

    def dog(gi):
        g = graphs[gi]
        arch = b""
        for i, t in enumerate(g, 1):
            if t == 0:
                arch += tarfmt.header(b"n%d" % i, b"0", size=3) + tarfmt.pad(b"abc")
            else:
                arch += tarfmt.header(b"n%d" % i, b"1", linkname=b"n%d" % t)
        arch += tarfmt.terminator()
        out = "%s/g%d.sqfs" % (work, gi)
        return gi, run_packer(tools, [tools + "/tar2sqfs", "-q", "-f", out], out, stdin=arch)

    with ThreadPoolExecutor(max_workers=16) as ex:
        for gi, (res, err) in ex.map(dog, range(len(graphs))):
            evaluations += 1
            nontrivial.add("graph%s" % (graphs[gi],))
            if res in BAD:
                rep.violation("tar2sqfs-%s-linkgraph" % res, "tar2sqfs on hard-link graph %s (node i -> entry i, 0 = regular file): %s" % (graphs[gi], res),
                              data={"graph": graphs[gi]})
    # ---- GNU sparse keys inside one PAX record: every sequence of <=4 keys (spec/PaxSparse.tla) ------------------
    PC = {"MaxKeys": 4, "Emit": False, "MapKeepsLast": False}
    write_cfg(cfg, spec="Spec", constants=PC, invariants=["NoUseAfterFree", "NoLeak", "ListLive"], deadlock=False)
    r = run_tlc("PaxSparse", cfg, workers=8, timeout=600, heap="8g")
    ev.tlc(r, "PaxSparse key sequences <=4")
    if not r["ok"]:
        print("MODEL-FAILURE: PaxSparse violates %s" % r["violated"])
        ev.write()
        return 2
    write_cfg(cfg, spec="Spec", constants=dict(PC, MapKeepsLast=True), invariants=["NoUseAfterFree"], deadlock=False)
    r = run_tlc("PaxSparse", cfg, workers=8, timeout=600, heap="8g")
    ev.tlc(r, "dev PaxSparse MapKeepsLast")
    if r["violated"] != "NoUseAfterFree":
        print("SELF-CHECK-FAILED: MapKeepsLast without counterexample")
        ev.write()
        return 2
    write_cfg(cfg, spec="Spec", constants=dict(PC, Emit=True), invariants=["EmitOK"], deadlock=False)
    r = run_tlc("PaxSparse", cfg, workers=4, timeout=600, heap="8g")
    pseqs = bpbind.parse_emitted(r["out"])
    ev.set("pax_sparse_key_sequences_emitted", len(pseqs))
    if tier == "quick":
        short = [x for x in pseqs if len(x["keys"]) <= 3]
        long_ = [x for x in pseqs if len(x["keys"]) > 3]
        rng.shuffle(long_)
        pseqs = short + long_[:400]
    PK = {"offset": (b"GNU.sparse.offset", b"1024"), "numbytes": (b"GNU.sparse.numbytes", b"100"), "map": (b"GNU.sparse.map", b"0,100,1024,100"),
          "map_bad": (b"GNU.sparse.map", b"0,100,oops"), "size": (b"GNU.sparse.size", b"4096"), "other": (b"comment", b"x")}

    def dops(i):
        arch = tarfmt.pax([PK[k] for k in pseqs[i]["keys"]]) + tarfmt.header(b"sp", b"0", size=512) + tarfmt.pad(b"x" * 512) + tarfmt.terminator()
        out = "%s/ps%d.sqfs" % (work, i)
        return i, run_packer(tools, [tools + "/tar2sqfs", "-q", "-f", "-c", "gzip", out], out, stdin=arch), arch

    with ThreadPoolExecutor(max_workers=16) as ex:
        for i, (res, err), arch in ex.map(dops, range(len(pseqs))):
            evaluations += 1
            nontrivial.add("paxsparse" + json.dumps(pseqs[i]["keys"]))
            if res in BAD:
                f = "%s/badps_%d.tar" % (work, i)
                open(f, "wb").write(arch)
                rep.violation("tar2sqfs-%s-paxsparse" % res, "tar2sqfs on a PAX record with the GNU sparse keys %s: %s %s" % (pseqs[i]["keys"], res, err[:150]),
                              artefact=f, data={"keys": pseqs[i]["keys"]})
    # ---- xattr map files: every sequence of <=3 line classes (spec/XattrFile.tla) ------------------------------
    XC = {"MaxLines": 3, "Emit": False, "LinkBeforeValidate": False, "SilentStoreFailure": False}
    write_cfg(cfg, spec="Spec", constants=XC, invariants=["Robust", "Faithful"], deadlock=False)
    r = run_tlc("XattrFile", cfg, workers=16, timeout=900, heap="8g")
    ev.tlc(r, "XattrFile files of <=3 lines")
    if not r["ok"]:
        print("MODEL-FAILURE: XattrFile violates %s" % r["violated"])
        ev.write()
        return 2
    for dev in ("LinkBeforeValidate", "SilentStoreFailure"):
        write_cfg(cfg, spec="Spec", constants=dict(XC, **{dev: True}), invariants=["Robust"], deadlock=False)
        r = run_tlc("XattrFile", cfg, workers=8, timeout=600, heap="8g")
        ev.tlc(r, "dev XattrFile " + dev)
        if r["violated"] != "Robust":
            print("SELF-CHECK-FAILED: %s without counterexample" % dev)
            ev.write()
            return 2
    write_cfg(cfg, spec="Spec", constants=dict(XC, Emit=True), invariants=["EmitOK"], deadlock=False)
    r = run_tlc("XattrFile", cfg, workers=4, timeout=900, heap="8g")
    xfiles = bpbind.parse_emitted(r["out"])
    ev.set("xattr_files_emitted", len(xfiles))
    short = [x for x in xfiles if len(x["file"]) <= 2]
    long_ = [x for x in xfiles if len(x["file"]) > 2]
    rng.shuffle(long_)
    xfiles = short + long_[:(700 if tier == "quick" else len(long_))]
    XL = {"F_f": "# file: f", "F_abs": "# file: /f", "F_nomatch": "# file: zz", "F_dotdot": "# file: ../x", "F_nospace": "# file:",
          "KV_hex": "user.k%d=0x3132", "KV_hex_odd": "user.k%d=0x123", "KV_hex_bad": "user.k%d=0xzz", "KV_b64": "user.k%d=0sQUJD",
          "KV_b64_bad": "user.k%d=0sQ!", "KV_text": "user.k%d=plain", "KV_quoted": 'user.k%d="q\\"x\\101"', "KV_empty": "user.k%d=",
          "KV_nokey": "=v%d", "KV_badprefix": "bogus.k%d=1", "COMMENT": "# just a comment %d", "GARBAGE": "no key value pair %d"}
    xdrift = 0
    open("%s/xgood.txt" % work, "w").write("file /f 0644 0 0 %s\n" % (work + "/xsrc.bin"))
    open(work + "/xsrc.bin", "wb").write(b"data")

    def dox(i):
        txt = "".join((XL[c] % (n + 1) if "%d" in XL[c] else XL[c]) + "\n" for n, c in enumerate(xfiles[i]["file"]))
        xf = "%s/xm%d.txt" % (work, i)
        open(xf, "w").write(txt)
        out = "%s/xm%d.sqfs" % (work, i)
        try:
            p = subprocess.run([tools + "/gensquashfs", "-q", "-f", "-F", work + "/xgood.txt", "-A", xf, out], stdout=subprocess.DEVNULL, stderr=subprocess.PIPE, timeout=10,
                               env=dict(os.environ, ASAN_OPTIONS="detect_leaks=0"))
            rc, err = p.returncode, p.stderr.decode(errors="replace")
        except subprocess.TimeoutExpired:
            return i, "hang", "", None, txt
        keys = None
        if "ERROR: AddressSanitizer" in err or "runtime error" in err:
            res = "sanitizer"
        elif rc < 0 or rc in (134, 139):
            res = "signal"
        elif rc == 0:
            try:
                t = sqfsimg.load(out).tree(with_content=True)
                keys = sorted(k.decode() for k in t[b"f"]["xattrs"])
                res = "image"
            except Exception as ex:
                res, err = "invalid-image", str(ex)
        else:
            res = "leftover" if os.path.exists(out) else ("refuse" if err.strip() else "refuse-silent")
        if os.path.exists(out):
            os.unlink(out)
        return i, res, err[:200], keys, txt

    with ThreadPoolExecutor(max_workers=16) as ex:
        for i, res, err, keys, txt in ex.map(dox, range(len(xfiles))):
            evaluations += 1
            nontrivial.add("xattrfile" + json.dumps(xfiles[i]["file"]))
            m = xfiles[i]["outcome"]
            if res in BAD:
                rep.violation("gensquashfs-%s-xattrfile-%s" % (res, "+".join(sorted(set(c for c in xfiles[i]["file"] if c.startswith(("F_dotdot", "KV_nokey", "KV_bad", "GARBAGE")))))),
                              "gensquashfs -A with the xattr file %r: %s %s" % (txt, res, err[:150]), data={"file": xfiles[i]["file"], "text": txt})
            elif (res == "image") != (m["res"] == "image"):
                xdrift += 1
            elif res == "image" and keys != sorted("user.k%d" % n for n in m["keys"]):
                rep.violation("gensquashfs-xattrfile-keys", "gensquashfs -A with the xattr file %r: file f carries %s, the specification says %s" % (txt, keys, sorted(m["keys"])),
                              data={"file": xfiles[i]["file"], "text": txt})
    ev.set("xattr_file_acceptance_differs_from_model(informational)", xdrift)
    # ---- malformed text inputs for gensquashfs ---------------------------------------------------------------
    src = work + "/src.bin"
    open(src, "wb").write(b"data")
    tok = ["word", '"quoted name"', '"unterminated', '"bad\\escape"', "0644", "99999999999999999999", "-1", "07777777", "", '"', "\\", "#c", "a/../b", "/", ".", "..", "\t", "x" * 300,
           "\xff\xfe", "0", "c", "b", "5", "*"]
    kws = ["dir", "file", "slink", "link", "nod", "pipe", "sock", "glob", "bogus", ""]
    lines = []
    r2 = random.Random(SEED + 7)
    for _ in range(150 if tier == "quick" else 3000):
        n = r2.randrange(0, 9)
        lines.append(" ".join([r2.choice(kws)] + [r2.choice(tok) for _ in range(n)]))
    lines += ["file /a 0644 0 0 " + src + "\nlink /b 0 0 0 /c\nlink /c 0 0 0 /b\nlink /d 0 0 0 /b", "dir / 0755 0 0\ndir / 0755 0 0",
              "glob /x 0755 0 0 -type f -name * -- " + work, "nod /n 0600 0 0 c 99999999999 1", "slink /s 0777 0 0", "file /f 0644 0 0 /nonexistent/file",
              "file \"/a\\", "dir /" + "d/" * 2000 + " 0755 0 0"]

    def dotext(i):
        pf = "%s/pf%d.txt" % (work, i)
        open(pf, "w", errors="surrogateescape").write(lines[i] + "\n")
        out = "%s/pf%d.sqfs" % (work, i)
        res = run_packer(tools, [tools + "/gensquashfs", "-q", "-f", "-F", pf, out], out)
        sf = "%s/sf%d.txt" % (work, i)
        open(sf, "w", errors="surrogateescape").write(lines[i].replace("file", "5").replace("dir", "-3 [glob,dont_compress,") + "\n")
        good = "%s/good.txt" % work
        res2 = run_packer(tools, [tools + "/gensquashfs", "-q", "-f", "-F", good, "-S", sf, out], out)
        xf = "%s/xf%d.txt" % (work, i)
        open(xf, "w", errors="surrogateescape").write("# file: a\n" + lines[i].replace(" ", "=") + "\nuser.x=0x" + lines[i][:7].encode(errors="replace").hex() + "z\nuser.y=0sQUJD!\n")
        res3 = run_packer(tools, [tools + "/gensquashfs", "-q", "-f", "-F", good, "-A", xf, out], out)
        return i, res, res2, res3

    open("%s/good.txt" % work, "w").write("file /a 0644 0 0 %s\ndir /d 0755 0 0\nfile /d/b 0644 0 0 %s\n" % (src, src))
    with ThreadPoolExecutor(max_workers=16) as ex:
        for i, res, res2, res3 in ex.map(dotext, range(len(lines))):
            evaluations += 3
            nontrivial.add(lines[i])
            for kind, (o, err) in (("packfile", res), ("sortfile", res2), ("xattrfile", res3)):
                if o in BAD:
                    rep.violation("gensquashfs-%s-%s" % (o, kind), "gensquashfs with a malformed %s (%r): %s %s" % (kind, lines[i][:80], o, err[:120]),
                                  data={"line": lines[i], "kind": kind})
    # ---- directory nesting: one pack-file line whose path has n components (the tree walks of the packer are recursive).  Plain build, stack limit
    #      pinned to the usual 8 MiB so that the outcome does not depend on the environment of the run ----
    import resource
    ptools = build.build("plain") + "/bin"

    def deep(n):
        pf = "%s/deep%d.txt" % (work, n)
        open(pf, "w").write("dir " + "/".join(["a"] * n) + " 0755 0 0\n")
        out = "%s/deep%d.sqfs" % (work, n)
        try:
            q = subprocess.run([ptools + "/gensquashfs", "-q", "-f", "-F", pf, out], stdout=subprocess.DEVNULL, stderr=subprocess.PIPE, timeout=300,
                               preexec_fn=lambda: resource.setrlimit(resource.RLIMIT_STACK, (8 << 20, 8 << 20)))
            rc, err = q.returncode, q.stderr.decode(errors="replace")
        except subprocess.TimeoutExpired:
            rc, err = 124, ""
        left = os.path.exists(out)
        size = os.path.getsize(out) if left else 0
        for f in (pf, out):
            if os.path.exists(f):
                os.unlink(f)
        return n, rc, err, left, size
    for n, rc, err, left, size in [deep(n) for n in ((2000, 20000, 100000, 300000) if tier == "quick" else (2000, 20000, 100000, 200000, 300000, 1000000))]:
        evaluations += 1
        if rc == 0 or (rc > 0 and rc < 124 and err.strip() and not left):
            continue                                         # packed, or refused cleanly
        what = "hang" if rc == 124 else "signal" if (rc < 0 or rc in (134, 139)) else "leftover" if left else "refuse-silent"
        rep.violation("gensquashfs-%s-packfile-nesting-%d" % (what, n),
                      "gensquashfs on a pack file with one directory line of %d path components: %s (exit status %d%s)"
                      % (n, {"signal": "dies on a signal - stack exhaustion in the recursive tree walk (alloc_inode_num_dfs)", "hang": "does not finish within 300 s",
                             "leftover": "fails but leaves its output file", "refuse-silent": "fails without a diagnostic"}[what], rc,
                         ", a %d byte output file is left behind" % size if left else ""), data={"components": n})
    ln = link_graph_stage(tools, work, rep, ev, tier, rng, cfg, src)
    if ln is None:
        ev.write()
        return 2
    evaluations += ln
    ev.set("evaluations", evaluations)
    ev.set("distinct_nontrivial", len(nontrivial))
    ev.set("rule", "archive plans: every plan of <=2 records with <=2 malformed ones x cut x terminator emitted by TLC (all single-record plans + a seeded sample, "
                   "%d in total); all %d hard-link graphs over %d nodes; %d generated pack-file lines, each also mutated into a sort file and an xattr file"
                   % (len(plans), len(graphs), N, len(lines)))
    ev.set("exhaustive", False)
    ev.set("traces_validated_against_impl", evaluations)
    ev.assumptions += ["only record-structured malformations are explored, no coverage-guided byte mutation (outside this technique)",
                       "10 s per run counts as a hang; corrupted compressed streams are covered by C15"]
    shutil.rmtree(work, ignore_errors=True)
    return rep.finish()


def replay(path):
    d = json.load(open(path))
    print(json.dumps(d, indent=1)[:3000])
    return run("quick")
