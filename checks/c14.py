"""C14 - a killed packer never leaves a file that reads as a complete image.
Spec: spec/Writer.tla (output protocol, every state a crash point; CrashSafe, NothingAfterCommit).
Binding T: output-file system calls of real gensquashfs / tar2sqfs runs (LD_PRELOAD log), classified by
offset against the independently decoded final image, validated by TLC (spec/TraceWriter.tla) - the
invariants are evaluated at every crash point of the real run.  Binding R: the tool is re-run and killed
before every k-th output call; all readers are run on the leftover."""
import json, os, random, shutil, struct, subprocess, sys
from concurrent.futures import ThreadPoolExecutor
import vlib, build, sqfsimg, gen
from vlib import VERIF, Evidence, Reporter, run_tlc, write_cfg, scratch, SEED, sh

PID = "C14"
ORDER = ["data", "inode", "dir", "frag", "export", "id", "xattr"]


preload_so = vlib.preload_so


def regions_of(img):
    """[(name, start, end)] in file order, tiling [data_start, bytes_used)"""
    s = img.super
    regs = [("data", img.data_start, s["inode_tbl"]), ("inode", s["inode_tbl"], s["dir_tbl"])]
    marks = []
    if s["frag_tbl"] != sqfsimg.INVALID64:
        marks.append(("frag", min(img.frag_locs) if img.frag_locs else s["frag_tbl"], s["frag_tbl"] + 8 * len(img.frag_locs)))
    if s["export_tbl"] != sqfsimg.INVALID64:
        marks.append(("export", min(img.export_locs) if img.export_locs else s["export_tbl"], s["export_tbl"] + 8 * len(img.export_locs)))
    marks.append(("id", min(img.id_locs), s["id_tbl"] + 8 * len(img.id_locs)))
    if s["xattr_tbl"] != sqfsimg.INVALID64:
        marks.append(("xattr", img.xattr_kv_start, s["xattr_tbl"] + 16 + 8 * len(img.xattr_id_locs)))
    marks.sort(key=lambda m: m[1])
    regs.append(("dir", s["dir_tbl"], marks[0][1]))
    regs += marks
    return regs


def classify(loglines, img):
    regs = regions_of(img)
    s = img.super
    events = []
    supers = [l.split()[1] for l in loglines if l.startswith("superhex")]
    si = 0

    def region_at(off):
        for (n, a, b) in regs:
            if a <= off < b:
                return n, a, b
        return None

    for l in loglines:
        w = l.split()
        if len(w) < 5 or w[1] != "out":
            continue
        call, off, ln = w[0], int(w[2]), int(w[3])
        if call == "pwrite" and off == 0 and ln == 96:
            raw = bytes.fromhex(supers[si])
            si += 1
            f = struct.unpack("<IIIIIHHHHHHQQQQQQQQ", raw)
            idc = f[8]
            refs = []
            names = {13: "id", 14: "xattr", 15: "inode", 16: "dir", 17: "frag", 18: "export"}
            for i, n in names.items():
                if f[i] != sqfsimg.INVALID64:
                    refs.append(n)
            if "inode" in refs:
                refs.append("data")
            events.append({"k": "super", "idc": 1 if idc else 0, "refs": sorted(refs)})
        elif call in ("pwrite", "write"):
            if off >= s["bytes_used"]:
                events.append({"k": "pad"})
                continue
            if off < img.data_start:
                # compressor options block right after the superblock: part of the header, treat as data prefix
                events.append({"k": "pad"})
                continue
            pos, left = off, ln
            while left > 0:
                r = region_at(pos)
                if r is None:
                    events.append({"k": "pad"})
                    break
                n, a, b = r
                take = min(left, b - pos)
                events.append({"k": "write", "region": n, "end": pos + take - a})
                pos += take
                left -= take
        elif call == "ftruncate":
            if off >= s["bytes_used"]:
                events.append({"k": "pad"})
            else:
                r = region_at(off)
                if r is None:
                    events.append({"k": "pad"})
                else:
                    events.append({"k": "truncate", "region": r[0], "end": off - r[1]})
    header = {"order": [n for n, a, b in regs], "size": {n: b - a for n, a, b in regs}}
    return header, events


def run_tool(tools, tool, args, stdin=None, env=None, timeout=60):
    return sh([tools + "/" + tool] + args, timeout=timeout, env=env, stdin=stdin)


def reader_verdicts(tools, path):
    """returns {reader: (rc, digest of output)}"""
    out = {}
    for name, cmd in (("describe", ["rdsquashfs", "-d", path]), ("list", ["rdsquashfs", "-l", "/", path]),
                      ("sqfs2tar", ["sqfs2tar", path])):
        rc, o, e = sh([tools + "/" + cmd[0]] + cmd[1:], timeout=30)
        out[name] = (rc, vlib.sha(o))
    try:
        img = sqfsimg.load(path)
        t = img.tree()
        out["decoder"] = (0, vlib.sha(repr(sorted((k, sorted((a, repr(b)) for a, b in v.items())) for k, v in t.items())).encode()))
    except (sqfsimg.DecodeError, struct.error, IndexError, KeyError, ValueError) as ex:
        out["decoder"] = (1, "")
    return out


def model_prog(frag, export, xattr, ndata, dedup):
    ev = ['[k |-> "super", idc |-> 0, refs |-> {}]']
    for i in range(ndata):
        ev.append('[k |-> "write", region |-> "data", end |-> %d]' % (i + 1))
    if dedup and ndata >= 2:
        ev.append('[k |-> "truncate", region |-> "data", end |-> %d]' % (ndata - 1))
        ev.append('[k |-> "write", region |-> "data", end |-> %d]' % ndata)
    regs = ["data", "inode", "dir"] + (["frag"] if frag else []) + (["export"] if export else []) + ["id"] + (["xattr"] if xattr else [])
    for r in regs[1:]:
        ev.append('[k |-> "write", region |-> "%s", end |-> 1]' % r)
    ev.append('[k |-> "super", idc |-> 1, refs |-> {%s}]' % ", ".join('"%s"' % r for r in regs))
    ev.append('[k |-> "pad"]')
    size = "[r \\in {%s} |-> IF r = \"data\" THEN %d ELSE 1]" % (", ".join('"%s"' % r for r in regs), ndata)
    order = "<<" + ", ".join('"%s"' % r for r in regs) + ">>"
    return {"Prog": "<<" + ", ".join(ev) + ">>", "Size": size, "Order": order}, regs


def deviate(defs, regs, dev):
    d = dict(defs)
    p = d["Prog"]
    fin = '[k |-> "super", idc |-> 1, refs |-> {%s}]' % ", ".join('"%s"' % r for r in regs)
    if dev == "ProvisionalPlausible":
        d["Prog"] = p.replace('[k |-> "super", idc |-> 0, refs |-> {}]', '[k |-> "super", idc |-> 1, refs |-> {}]')
    elif dev == "FinalSuperBeforeTables":
        p = p.replace(", " + fin, "")
        d["Prog"] = p.replace('[k |-> "write", region |-> "id", end |-> 1]', fin + ', [k |-> "write", region |-> "id", end |-> 1]')
    elif dev == "SuperUpdatedIncrementally":
        part = '[k |-> "super", idc |-> 1, refs |-> {%s}]' % ", ".join('"%s"' % r for r in regs if r != regs[-1])
        last = '[k |-> "write", region |-> "%s", end |-> 1]' % regs[-1]
        d["Prog"] = p.replace(last, part + ", " + last)
    elif dev == "PadBeforeTables":
        d["Prog"] = p.replace(", " + fin, "").replace('[k |-> "pad"]', fin + ', [k |-> "write", region |-> "id", end |-> 1], [k |-> "pad"]')
    return d


def run(tier):
    ev = Evidence(PID, tier, "model_checking")
    rep = Reporter(PID, ev)
    work = scratch("c14")
    bdir = build.build("plain")
    tools = bdir + "/bin"
    so = preload_so()
    rng = random.Random(SEED)

    # ---- 1. the protocol model: every configuration, every crash point ----------------------------
    import itertools
    jobs = []
    for frag, export, xattr, ndata, dedup in itertools.product([0, 1], [0, 1], [0, 1], [0, 1, 2, 3], [0, 1]):
        if dedup and ndata < 2:
            continue
        jobs.append((frag, export, xattr, ndata, dedup))

    def mc(job):
        defs, regs = model_prog(*job)
        cfg = work + "/mc_%s.cfg" % "_".join(map(str, job))
        write_cfg(cfg, spec="Spec", defs=defs, invariants=["CrashSafe", "NothingAfterCommit", "DoneAccepted"], deadlock=False)
        return job, run_tlc("Writer", cfg, workers=1, timeout=300)

    with ThreadPoolExecutor(max_workers=12) as ex:
        for job, r in ex.map(mc, jobs):
            ev.tlc(r, "Writer frag,export,xattr,ndata,dedup=%s" % (job,))
            if not r["ok"]:
                print("MODEL-FAILURE: Writer violates %s for %s" % (r["violated"], job))
                ev.write()
                return 2
    devres = {}
    defs, regs = model_prog(1, 1, 1, 2, 1)
    for dev in ["ProvisionalPlausible", "FinalSuperBeforeTables", "SuperUpdatedIncrementally", "PadBeforeTables"]:
        cfg = work + "/dev.cfg"
        write_cfg(cfg, spec="Spec", defs=deviate(defs, regs, dev), invariants=["CrashSafe", "NothingAfterCommit"], deadlock=False)
        r = run_tlc("Writer", cfg, workers=1, timeout=300)
        ev.tlc(r, "dev " + dev)
        devres[dev] = bool(r["violated"])
    ev.set("deviations", devres)
    if not all(devres.values()):
        print("SELF-CHECK-FAILED: deviation without counterexample: %s" % devres)
        ev.write()
        return 2

    # ---- 2. real runs: record, validate the trace, kill at every crash point -----------------------
    scen = gen.standard_scenarios(work, rng)
    tars = gen.standard_tars(rng)
    runs = []
    comps = ["gzip", "xz", "lz4", "zstd"]
    for i, s in enumerate(scen):
        opts = ["-c", comps[i % len(comps)], "-b", "4096", "-j", str(1 + i % 3)]
        if i % 2:
            opts.append("-e")
        runs.append(("gensquashfs", s.dir, opts + ["-F", s.packfile()], None))
    for i, (name, data) in enumerate(tars):
        d = work + "/" + name
        os.makedirs(d, exist_ok=True)
        runs.append(("tar2sqfs", d, ["-c", comps[(i + 1) % len(comps)], "-b", "4096"] + (["-e"] if i % 2 == 0 else []), data))
    # option combinations and input shapes that add or move output calls: xattr tables + export table + compressor options block + a
    # device block size larger than the image; an empty tree; tar2sqfs with all of them
    sx = gen.Scenario(work, "s_optcombo")
    sx.add_dir("/d")
    for i in range(5):
        sx.add_file("/d/f%d" % i, gen.content(rng, "text", 3000 + 500 * i))
        sx.set_xattr("d/f%d" % i, "user.k%d" % (i % 2), b"value %d" % i)
    sx.add_nod("/d/c", "c", 1, 2)
    runs.append(("gensquashfs", sx.dir, ["-c", "gzip", "-X", "level=3", "-b", "4096", "-B", "65536", "-e", "-A", sx.xattrfile(), "-F", sx.packfile()], None))
    runs.append(("gensquashfs", sx.dir, ["-c", "xz", "-X", "dictsize=8192", "-e", "-A", sx.xattrfile(), "-F", sx.packfile()], None))
    se = gen.Scenario(work, "s_empty")
    open(se.dir + "/pack.txt", "w").write("\n")
    runs.append(("gensquashfs", se.dir, ["-c", "gzip", "-e", "-F", se.dir + "/pack.txt"], None))
    if tars:
        d = work + "/optcombo_tar"
        os.makedirs(d, exist_ok=True)
        runs.append(("tar2sqfs", d, ["-c", "zstd", "-X", "level=5", "-b", "8192", "-B", "65536", "-e"], tars[0][1]))
    if tier != "quick":
        extra = gen.standard_scenarios(work + "/x", random.Random(SEED + 1), bs=131072)
        for i, s in enumerate(extra):
            runs.append(("gensquashfs", s.dir, ["-c", comps[(i + 2) % 4], "-j", "4"] + (["-e"] if i % 2 == 0 else []) + ["-F", s.packfile()], None))
        for i, (name, data) in enumerate(gen.standard_tars(random.Random(SEED + 2), bs=131072)):
            d = work + "/x" + name
            os.makedirs(d, exist_ok=True)
            runs.append(("tar2sqfs", d, ["-c", comps[i % 4], "-j", "3"], data))
    total_points = 0
    traces = 0
    tierB_mismatch = []
    for ri, (tool, d, args, stdin) in enumerate(runs):
        out = d + "/out.sqfs"
        log = d + "/log.txt"
        cnt = d + "/cnt.txt"
        for f in (log, cnt):
            if os.path.exists(f):
                os.unlink(f)
        a = ["-q", "-f"] + args + [out]
        env = {"LD_PRELOAD": so, "VP_OUT": out, "VP_LOG": log, "VP_COUNT_LOG": cnt}
        rc, o, e = run_tool(tools, tool, a, stdin=stdin, env=env)
        if rc != 0:
            raise RuntimeError("%s failed on a generated input: %s" % (tool, e[-400:]))
        nout = max(int(l.split()[1]) for l in open(cnt))
        full = open(out, "rb").read()
        img = sqfsimg.SqfsImage(full)
        header, events = classify(open(log).read().split("\n"), img)
        nev_calls = sum(1 for l in open(log) if l.split()[1:2] == ["out"] and l.split()[0] in ("pwrite", "write", "ftruncate"))
        if nev_calls != nout:
            raise RuntimeError("recorder inconsistency: %d logged output calls, %d counted" % (nev_calls, nout))
        tr = d + "/trace.ndjson"
        with open(tr, "w") as f:
            f.write(json.dumps(header) + "\n")
            for x in events:
                f.write(json.dumps(x) + "\n")
        cfg = d + "/t.cfg"
        write_cfg(cfg, spec="Spec", defs={"Prog": "TraceProg", "Size": "TraceSize", "Order": "TraceOrder"},
                  invariants=["CrashSafe", "NothingAfterCommit", "DoneAccepted"], deadlock=False)
        r = run_tlc("TraceWriter", cfg, workers=1, timeout=300, env={"TRACE": tr})
        ev.tlc(r, "TraceWriter %s #%d (%d events)" % (tool, ri, len(events)))
        traces += 1
        abstract = []
        for x in events:
            a1 = (x["k"], x.get("region", ""))
            if not abstract or abstract[-1] != a1:
                abstract.append(a1)
        if ri < 2:
            ev.sample({"kind": "recorded-output-protocol", "tool": tool, "args": args[:6], "calls": nout, "abstract": abstract}, limit=4)
        if r["violated"]:
            depth = len(r["trace"])
            rep.violation("writer-protocol-%s" % r["violated"], "%s: output protocol violates %s at output call %d (%s)"
                          % (tool, r["violated"], depth - 1, events[depth - 2] if depth >= 2 else "?"), artefact=tr,
                          data={"tool": tool, "args": args, "events": events[:depth]})
        elif not r["ok"]:
            raise RuntimeError("trace validation did not run: %s" % r["out"][-600:])
        good = reader_verdicts(tools, out)

        def crash(k):
            o2 = d + "/crash%d.sqfs" % k
            env2 = {"LD_PRELOAD": so, "VP_OUT": o2, "VP_KILL_AT": str(k)}
            rc2, _, _ = run_tool(tools, tool, ["-q", "-f"] + args + [o2], stdin=stdin, env=env2)
            v = reader_verdicts(tools, o2) if os.path.exists(o2) else None
            return k, rc2, v, o2

        with ThreadPoolExecutor(max_workers=16) as ex:
            for k, rc2, v, o2 in ex.map(crash, range(1, nout + 1)):
                total_points += 1
                if rc2 != 99:
                    raise RuntimeError("kill-at-%d did not kill (rc=%d)" % (k, rc2))
                if v is not None:
                    for reader, (rrc, dig) in v.items():
                        if rrc == 0 and dig != good[reader][1]:
                            keep = d + "/leftover_k%d.sqfs" % k
                            shutil.copy(o2, keep)
                            rep.violation("crash-accepted-%s" % tool,
                                          "%s killed before output call %d of %d leaves a file that %s accepts but that differs from the complete image"
                                          % (tool, k, nout, reader), artefact=keep,
                                          data={"tool": tool, "args": args, "k": k, "reader": reader})
                            break
                if os.path.exists(o2):
                    os.unlink(o2)
    ev.set("crash_points_enumerated", total_points)
    ev.set("traces_validated_against_impl", traces + total_points)
    ev.set("exhaustive", True)
    ev.set("bounds", {"inputs": len(runs), "crash_points": "every prefix of the output-call sequence of every input",
                      "model_configs": len(jobs)})
    ev.assumptions += ["a crash is a kill between two output-file system calls (no torn writes, no page-cache reordering)",
                       "readers: rdsquashfs -d/-l, sqfs2tar, independent decoder"]
    shutil.rmtree(work, ignore_errors=True)
    return rep.finish()


def replay(path):
    d = json.load(open(path))
    print(json.dumps(d, indent=1)[:3000])
    return run("quick")
