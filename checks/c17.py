"""C17 - packing directives are honoured exactly in the on-disk layout.
Spec: spec/SortFile.tla (first matching line wins, stable order by priority; transcription of the C loops
= declarative meaning) and spec/BlockProc.tla (FlagsHonoured: each block flag has exactly its effect).
Binding R: every sort file of the bounded domain, with the order / flags TLC derives, is rendered as a
real sort file and packed by the real gensquashfs; the decoded layout (data start order, compressed
bits, fragment use, sparse words, sharing) is compared with the specification; the block-flag model is
replayed on the real block processor; -T and -e are checked on decoded images."""
import json, os, random, re, shutil, sys
from concurrent.futures import ThreadPoolExecutor
import vlib, build, bpbind, gen, sqfsimg
from vlib import VERIF, Evidence, Reporter, run_tlc, write_cfg, scratch, SEED, sh

PID = "C17"
ALLFLAGS = [[], ["DONT_COMPRESS"], ["DONT_FRAGMENT"], ["IGNORE_SPARSE"], ["DONT_DEDUP"], ["DONT_COMPRESS", "DONT_FRAGMENT"],
            ["IGNORE_SPARSE", "DONT_FRAGMENT"]]
SORTFLAG = {"dont_compress": "dont_compress", "dont_fragment": "dont_fragment", "nosparse": "nosparse",
            "dont_deduplicate": "dont_deduplicate"}


def file_layout(img, tree, name):
    n = tree[name.encode() if isinstance(name, str) else name]
    ino = img.by_num[n["inum"]]
    fr = None
    if ino["frag_idx"] != sqfsimg.NOFRAG and ino["frag_idx"] < len(img.frags):
        fr = img.frags[ino["frag_idx"]]
    return {"start": ino["start"], "blocks": [(w[0], w[1]) for w in ino["blocks"]], "frag": ino["frag_idx"] != sqfsimg.NOFRAG,
            "frag_compressed": bool(fr and fr["compressed"]), "fragref": (ino["frag_idx"], ino["frag_off"]),
            "sparse": ino["sparse"], "sha": n["sha"], "size": ino["size"]}


def sort_case(work, tools, rng, idx, rec, variant):
    """rec: emitted model record.  Returns (violation or None, sample)"""
    nfiles = len(rec["order"])
    sub = "s/" if variant % 2 else ""
    names = [sub + chr(ord("a") + i) for i in range(nfiles)]
    if variant % 3 == 2:
        names[0] = sub + "x y"         # needs quoting in the sort file
    s = gen.Scenario(work, "sort%d" % idx)
    if sub:
        s.add_dir("/s")
    r2 = random.Random(idx)
    for i, nm in enumerate(names):
        s.add_file("/" + nm, gen.content(r2, "text", 2 * 4096 + 50 + i) + bytes([65 + i]) * 20)
    # default order = order of data in an image packed without sort file
    out0 = s.dir + "/nosort.sqfs"
    rc, o, e = sh([tools + "/gensquashfs", "-q", "-f", "-c", "gzip", "-b", "4096", "-F", s.packfile(), out0], timeout=60)
    if rc:
        raise RuntimeError("gensquashfs failed: %s" % e[-300:])
    img0 = sqfsimg.load(out0)
    t0 = img0.tree()
    default = sorted(names, key=lambda n: file_layout(img0, t0, n)["start"])
    lines = []
    for ln in rec["lines"]:
        match = [default[f - 1] for f in ln["match"]]
        fl = [SORTFLAG[x] for x in ln["flags"]]
        if ln["exact"]:
            pat = match[0] if match else "no/such/file"
            if " " in pat or r2.random() < 0.4:
                pat = '"' + pat.replace("\\", "\\\\").replace('"', '\\"') + '"'
        else:
            chars = "".join(m[-1] for m in match if " " not in m) or "Q"
            if any(" " in m for m in match):
                # the name with a blank: match it through '?' patterns is ambiguous; render this line as bracket + 'x y' via '*'
                chars += "y"
            pat = sub + "[" + chars + "]" if not any(" " in m for m in match) else sub + "*[" + chars + "]"
            fl.append("glob" if r2.random() < 0.5 else "glob_no_path")
            if any(" " in m for m in match) or " " in pat:
                pat = '"' + pat + '"'
        lines.append("%d %s%s" % (ln["prio"], ("[" + ",".join(fl) + "] ") if fl else "", pat))
    sf = s.dir + "/sort.txt"
    open(sf, "w").write("# generated\n" + "\n".join(lines) + "\n")
    out = s.dir + "/sorted.sqfs"
    notail = ["-T"] if variant % 4 == 3 else []          # directives compose with switches: -T must not take anything away from a sort-file line
    rc, o, e = sh([tools + "/gensquashfs", "-q", "-f", "-c", "gzip", "-b", "4096", "-F", s.packfile(), "-S", sf] + notail + [out], timeout=60)
    sample = {"sort_file": lines, "default_order": default, "spec_order": [default[f - 1] for f in rec["order"]], "options": notail}
    if rc:
        return ("sort-rejected", "gensquashfs rejects a valid sort file: %s" % e.decode(errors="replace")[-200:], sf, sample), sample
    img = sqfsimg.load(out)
    t = img.tree()
    lay = {n: file_layout(img, t, n) for n in names}
    real_order = sorted(names, key=lambda n: lay[n]["start"])
    if real_order != sample["spec_order"]:
        return ("sort-order", "data layout order %s differs from the specified order %s" % (real_order, sample["spec_order"]), sf, sample), sample
    for fi, nm in enumerate(default):
        want = set(rec["flags"][fi])
        if "dont_compress" in want and (any(c for (sz, c) in lay[nm]["blocks"]) or lay[nm]["frag_compressed"]):
            return ("sort-flag-dropped", "file %s: dont_compress not honoured" % nm, sf, sample), sample
        if "dont_compress" not in want and not all(c for (sz, c) in lay[nm]["blocks"] if sz):
            return ("sort-flag-leak", "file %s stored uncompressed although no line asks for it" % nm, sf, sample), sample
    for nm in names:
        if lay[nm]["sha"] != vlib.sha(s.files[nm]):
            return ("sort-content", "file %s: content changed by the sort file" % nm, sf, sample), sample
    return None, sample


def flags_case(work, tools, rng, comp, bs):
    """each flag has exactly its effect on the listed file and none on the others"""
    s = gen.Scenario(work, "flags_%s_%d" % (comp, bs))
    r2 = random.Random(SEED + bs)
    text = gen.content(r2, "text", 2 * bs + 300)
    zeros = gen.content(r2, "text", bs) + b"\0" * (2 * bs) + b"\0" * 100
    dup = gen.content(r2, "text", bs + 77)
    files = {"plain": text, "nc": text[:bs + 120] + b"N", "nf": text[5:2 * bs + 200], "ns": zeros, "sp": zeros + b"1",
             "dd1": dup, "dd2": dup, "dd3": dup, "small": b"tiny tail"}
    for n, d in files.items():
        s.add_file("/" + n, d)
    sf = s.dir + "/sort.txt"
    open(sf, "w").write("0 [dont_compress] nc\n0 [dont_fragment] nf\n0 [nosparse] ns\n0 [dont_deduplicate] dd3\n")
    outs = {}
    for tag, extra in (("base", []), ("dir", ["-S", sf]), ("T", ["-T"]), ("e", ["-e"]), ("dirT", ["-S", sf, "-T"]), ("dire", ["-S", sf, "-e"])):
        out = s.dir + "/%s.sqfs" % tag
        rc, o, e = sh([tools + "/gensquashfs", "-q", "-f", "-c", comp, "-b", str(bs), "-F", s.packfile()] + extra + [out], timeout=120)
        if rc:
            raise RuntimeError("gensquashfs failed: %s" % e[-300:])
        img = sqfsimg.load(out)
        t = img.tree()
        outs[tag] = (img, t, {n: file_layout(img, t, n) for n in files})
    base, d, T, E = (outs[k][2] for k in ("base", "dir", "T", "e"))
    bad = []
    # contents and tree identical in all variants
    for tag in outs:
        for n, data in files.items():
            if outs[tag][2][n]["sha"] != vlib.sha(data):
                bad.append(("directive-content", "variant %s: %s reads back different" % (tag, n)))
    if any(c for (sz, c) in d["nc"]["blocks"]) or d["nc"]["frag_compressed"]:
        bad.append(("flag-dont_compress", "dont_compress file has compressed blocks"))
    if d["nf"]["frag"] or len(d["nf"]["blocks"]) != 3:
        bad.append(("flag-dont_fragment", "dont_fragment file uses a fragment / wrong block count"))
    if d["ns"]["sparse"] or any(sz == 0 for (sz, c) in d["ns"]["blocks"]):
        bad.append(("flag-nosparse", "nosparse file has sparse blocks"))
    if not any(sz == 0 for (sz, c) in d["sp"]["blocks"]):
        bad.append(("flag-nosparse-leak", "unlisted file lost its sparse blocks"))
    # dd3 must have storage of its own; the flag must not change whether the unlisted twins dd1 / dd2 share (judged against the run without sort file)
    if d["dd3"]["start"] == d["dd1"]["start"] or (base["dd1"]["start"] == base["dd2"]["start"] and d["dd1"]["start"] != d["dd2"]["start"]):
        bad.append(("flag-dont_deduplicate", "dont_deduplicate not honoured / leaked: starts %s %s %s"
                    % (d["dd1"]["start"], d["dd2"]["start"], d["dd3"]["start"])))
    for n in ("plain", "sp", "small", "dd1", "dd2"):
        for k in ("blocks", "frag", "sparse"):
            if base[n][k] != d[n][k]:
                bad.append(("flag-leak", "file %s not listed in the sort file but its %s changed" % (n, k)))
    # switches and sort-file directives compose: with -T / -e on top of the sort file every directive keeps its effect
    for tag in ("dirT", "dire"):
        v = outs[tag][2]
        if any(c for (sz, c) in v["nc"]["blocks"]) or v["nc"]["frag_compressed"]:
            bad.append(("flag-dont_compress", "sort file + %s: dont_compress file has compressed blocks" % tag[3:].replace("T", "-T").replace("e", "-e")))
        if v["ns"]["sparse"] or any(sz == 0 for (sz, c) in v["ns"]["blocks"]):
            bad.append(("flag-nosparse", "sort file + %s: nosparse file has sparse blocks" % tag[3:].replace("T", "-T").replace("e", "-e")))
        if v["dd3"]["start"] == v["dd1"]["start"]:
            bad.append(("flag-dont_deduplicate", "sort file + %s: dont_deduplicate file shares its blocks" % tag[3:].replace("T", "-T").replace("e", "-e")))
        if v["nf"]["frag"]:
            bad.append(("flag-dont_fragment", "sort file + %s: dont_fragment file uses a fragment" % tag[3:].replace("T", "-T").replace("e", "-e")))
    # -T: only files larger than one block lose their tail fragment
    for n, data in files.items():
        big = len(data) > bs
        if big and T[n]["frag"]:
            bad.append(("no-tail-packing", "-T: %s (larger than a block) still uses a fragment" % n))
        if not big and T[n]["frag"] != base[n]["frag"]:
            bad.append(("no-tail-packing", "-T changed %s which is not larger than a block" % n))
    # -e: export table present and correct, tree unchanged
    img = outs["e"][0]
    if img.exports is None:
        bad.append(("exportable", "-e: no export table"))
    else:
        for i, ref in enumerate(img.exports):
            ino = img.by_ref.get((ref >> 16, ref & 0xFFFF))
            if ino is None or ino["num"] != i + 1:
                bad.append(("exportable", "-e: export table entry %d does not point at inode %d" % (i + 1, i + 1)))
                break
        if len(img.exports) != img.super["inode_count"]:
            bad.append(("exportable", "-e: export table has %d entries for %d inodes" % (len(img.exports), img.super["inode_count"])))
    return bad, s.dir


def run(tier):
    ev = Evidence(PID, tier, "model_checking")
    rep = Reporter(PID, ev)
    bpbind.JUDGE = {"flags", "integrity_flagged", "size"}          # a check raises alarms for its own property only
    work = scratch("c17")
    tools = build.build("plain") + "/bin"
    rng = random.Random(SEED)
    # ---- SortFile model -----------------------------------------------------------------------------
    ML = 2 if tier == "quick" else 3
    base_c = {"NFiles": 3, "MaxLines": ML, "Dev": '"none"', "Emit": False}
    base_d = {"Prios": "{0-1, 0, 1}", "FlagSets": '{{}, {"dont_compress"}}'}
    cfg = work + "/sort.cfg"
    write_cfg(cfg, spec="Spec", constants=base_c, defs=base_d, invariants=["FirstMatchWins", "StableOrder"], deadlock=False)
    r = run_tlc("SortFile", cfg, workers=16, timeout=1800)
    ev.tlc(r, "SortFile 3 files, <=%d lines" % ML)
    if not r["ok"]:
        print("MODEL-FAILURE: SortFile violates %s" % r["violated"])
        ev.write()
        return 2
    devres = {}
    for dev in ["LastMatchWins", "UnstableSort"]:
        c = dict(base_c)
        c["Dev"] = '"%s"' % dev
        c["MaxLines"] = 2
        write_cfg(cfg, spec="Spec", constants=c, defs=base_d, invariants=["FirstMatchWins", "StableOrder"], deadlock=False)
        r = run_tlc("SortFile", cfg, workers=4, timeout=600)
        ev.tlc(r, "dev " + dev)
        devres[dev] = bool(r["violated"])
    # ---- BlockProc: FlagsHonoured -----------------------------------------------------------------
    for i, c in enumerate([dict(nf=2, mb=1, ids=["a", "b", "z"], backlogs=(3,), flagsets=ALLFLAGS, tails=(1, 3)),
                           dict(nf=3, mb=1, ids=["a", "z"], backlogs=(3, 4), flagsets=ALLFLAGS[:5], tails=(2,))][:1 if tier == "quick" else 2]):
        cfgb = work + "/bp%d.cfg" % i
        bpbind.cfg_for(cfgb, invariants=("NoError", "FlagsHonoured", "FlagDontCompressFrag", "DataIntegrity"), **c)
        r = run_tlc("BlockProc", cfgb, workers=16, timeout=3000, heap="20g")
        ev.tlc(r, "BlockProc flags %s" % json.dumps(c)[:80])
        if not r["ok"]:
            print("MODEL-FAILURE: BlockProc violates %s" % r["violated"])
            print(r["out"][-1200:])
            ev.write()
            return 2
    # dont_compress + tail identical to an earlier file's tail: must not be deduplicated into that (compressed) fragment block
    # (the pinned tree did: first recorded as a known finding, repaired later; the old behaviour is the deviation DontCompressTailDeduped)
    cfgb = work + "/bpknown.cfg"
    bpbind.cfg_for(cfgb, perfect=True, nf=2, mb=0, ids=["a", "b"], backlogs=(3,), flagsets=[[], ["DONT_COMPRESS"]], tails=(3,),
                   invariants=("FlagDontCompressFrag",), emit=True)
    r = run_tlc("BlockProc", cfgb, workers=4, timeout=600, heap="8g")
    ev.tlc(r, "BlockProc FlagDontCompressFrag")
    if not r["ok"]:
        print("MODEL-FAILURE: BlockProc violates %s" % r["violated"])
        ev.write()
        return 2
    binp0 = bpbind.build_harness(work, "plain")
    for e in bpbind.parse_emitted(r["out"]):
        p = work + "/dc.txt"
        bpbind.input_file(p, e["input"], 3, 1)
        rc, o, err = sh([binp0, p], timeout=60)
        try:
            real = json.loads(o.decode().strip().split("\n")[-1])
        except Exception:
            continue
        for fi, f in enumerate(e["input"]):
            if "DONT_COMPRESS" in f["flags"] and real["ino"][fi]["fidx"] >= 0 and real["ftbl"][real["ino"][fi]["fidx"]]["comp"]:
                rep.violation("flags-dont_compress-tail-dedup", "dont_compress file whose tail duplicates an earlier file's tail is "
                              "deduplicated into that (compressed) fragment block: input %s" % json.dumps(e["input"]), artefact=p, data={"input": e["input"], "real": real})
    bpbind.cfg_for(cfgb, dev="DontCompressTailDeduped", perfect=True, nf=2, mb=0, ids=["a", "b"], backlogs=(3,), flagsets=[[], ["DONT_COMPRESS"]], tails=(3,),
                   invariants=("FlagDontCompressFrag",))
    r = run_tlc("BlockProc", cfgb, workers=4, timeout=600, heap="8g")
    ev.tlc(r, "dev DontCompressTailDeduped(pre-fix tree)")
    if r["violated"] != "FlagDontCompressFrag":
        print("SELF-CHECK-FAILED: DontCompressTailDeduped without counterexample")
        ev.write()
        return 2
    for dev in ["TailPackNever", "IgnoreDontCompress", "IgnoreDontFragment", "IgnoreNoSparse"]:
        cfgb = work + "/bpdev.cfg"
        bpbind.cfg_for(cfgb, dev=dev, nf=1, mb=1, ids=["a", "b", "z"], backlogs=(3,), flagsets=ALLFLAGS, tails=(1, 3),
                       invariants=("NoError", "FlagsHonoured", "FlagDontCompressFrag", "DataIntegrity"))
        r = run_tlc("BlockProc", cfgb, workers=8, timeout=600, heap="8g")
        ev.tlc(r, "dev " + dev)
        devres[dev] = bool(r["violated"])
    ev.set("deviations", devres)
    if not all(devres.values()):
        print("SELF-CHECK-FAILED: deviation without counterexample: %s" % devres)
        ev.write()
        return 2
    # ---- R: sort files on the real tool ---------------------------------------------------------------
    c = dict(base_c)
    c["Emit"] = True
    c["MaxLines"] = 2
    write_cfg(cfg, spec="Spec", constants=c, defs=base_d, invariants=["EmitOK"], deadlock=False)
    r = run_tlc("SortFile", cfg, workers=4, timeout=900)
    recs = bpbind.parse_emitted(r["out"])
    ev.tlc(r, "SortFile emit")
    nsel = 250 if tier == "quick" else 3000
    if len(recs) > nsel:
        recs = rng.sample(recs, nsel)
    replays = 0

    def do(k):
        return sort_case(work, tools, rng, k, recs[k], k)

    with ThreadPoolExecutor(max_workers=16) as ex:
        for k, (bad, sample) in enumerate(ex.map(do, range(len(recs)))):
            replays += 1
            if k < 2:
                ev.sample({"kind": "sort-file-case", **sample}, limit=4)
            if bad:
                quoted = any(l.split()[-1].startswith('"') or '"' in l for l in sample["sort_file"])
                key = bad[0] + ("-quoted-name" if quoted and bad[0] in ("sort-order", "sort-flag-dropped") else "")
                rep.violation(key, bad[1], artefact=bad[2], data=sample)
    # ---- R: flag model on the real block processor --------------------------------------------------
    binp = bpbind.build_harness(work, "plain")
    cfgb = work + "/emit.cfg"
    bpbind.cfg_for(cfgb, emit=True, perfect=True, nf=2, mb=1, ids=["a", "b", "z"], backlogs=(3,), flagsets=ALLFLAGS, tails=(1, 3),
                   invariants=("NoError", "FlagsHonoured", "FlagDontCompressFrag"))
    r = run_tlc("BlockProc", cfgb, workers=16, timeout=3000, heap="20g")
    ev.tlc(r, "BlockProc emit (all flag sets)")
    em = bpbind.parse_emitted(r["out"])
    cap = 3000 if tier == "quick" else 60000
    if len(em) > cap:
        em = rng.sample(em, cap)
    n, bad = bpbind.replay(binp, work, em, workers=(2,), tag="c17")
    replays += n
    for (e, W, what, exp, got) in bad[:5]:
        p = work + "/viol.txt"
        bpbind.input_file(p, e["input"], e["mb"], W)
        rep.violation("flags-layout", "real block processor: %s for input %s" % (what, json.dumps(e["input"])), artefact=p,
                      data={"input": e["input"], "predicted": exp, "real": got})
    # ---- tool level: each flag, -T, -e ------------------------------------------------------------------
    for comp, bs in ([("gzip", 4096), ("zstd", 8192)] if tier == "quick" else [("gzip", 4096), ("xz", 4096), ("lz4", 16384), ("zstd", 131072)]):
        bad, d = flags_case(work, tools, rng, comp, bs)
        replays += 4
        for key, what in bad:
            rep.violation(key, "%s -b %d: %s" % (comp, bs, what), artefact=d + "/sort.txt", data={"comp": comp, "bs": bs})
    ev.set("real_results_that_differ_from_the_model_but_satisfy_the_properties(spec drift, no alarm)", len(bpbind.DRIFT))
    if bpbind.DRIFT:
        print("SPEC-DRIFT (no alarm): %d real block processor results satisfy the properties but differ from BlockProc's prediction, e.g. %s"
              % (len(bpbind.DRIFT), json.dumps(bpbind.DRIFT[0])[:300]))
    ev.set("traces_validated_against_impl", replays)
    ev.assumptions += ["pattern language restricted to exact names, bracket sets and a leading '*' (fnmatch itself is trusted)"]
    shutil.rmtree(work, ignore_errors=True)
    return rep.finish()


def replay(path):
    d = json.load(open(path))
    print(json.dumps(d, indent=1)[:3000])
    return run("quick")
