"""C06 - unpacking any image writes only inside the chosen unpack directory.
Spec: spec/Unpack.tla (hostile forests x create / fill walks over an abstract POSIX file system with symlink
resolution; Confined).  Binding R: hostile forests TLC enumerates (all deviation witnesses + a seeded sample
of the state space) are encoded as real images by the independent encoder and unpacked by the real
rdsquashfs inside a jail with sentinels; a recursive snapshot of everything outside the unpack root must
be unchanged, the tool must not crash."""
import hashlib, json, os, random, shutil, stat, subprocess, sys
from concurrent.futures import ThreadPoolExecutor
import vlib, build, bpbind, sqfsimg
from vlib import VERIF, Evidence, Reporter, run_tlc, write_cfg, scratch, SEED, sh

PID = "C06"
NAME = {"a": b"a", "b": b"b", "dd": b"..", "sl": b"x/y", "dot": b".", "A": b"A"}


def snapshot(root, exclude):
    out = {}
    for d, dn, fn in os.walk(root):
        dn[:] = sorted(x for x in dn if os.path.join(d, x) != exclude)
        for n in sorted(fn + dn):
            p = os.path.join(d, n)
            st = os.lstat(p)
            rec = [stat.S_IFMT(st.st_mode), st.st_mode & 0o7777, st.st_uid, st.st_gid, st.st_size if stat.S_ISREG(st.st_mode) else 0, int(st.st_mtime)]
            if stat.S_ISREG(st.st_mode):
                rec.append(vlib.fsha(p))
            if stat.S_ISLNK(st.st_mode):
                rec.append(os.readlink(p))
            try:
                rec.append(sorted(os.listxattr(p, follow_symlinks=False)))
            except OSError:
                pass
            out[os.path.relpath(p, root)] = rec
    st = os.lstat(root)
    out["."] = [st.st_mode, st.st_uid, st.st_gid, int(st.st_mtime)]
    return out


def to_node(n, outdir, i=None):
    i = i if i is not None else [0]
    tg = {"up": b"..", "upup": b"../..", "absout": outdir.encode(), "a": b"a", "outpipe": outdir.encode() + b"/p"}[n["tgt"]]
    i[0] += 1
    base = {"name": NAME[n["name"]], "mode": 0o777 if n["kind"] != "file" else 0o4755, "uid": 1234, "gid": 4321, "mtime": 86400 * (i[0] % 300),
            "xattrs": {b"user.c06": b"x"}}
    if n["kind"] == "dir":
        return dict(base, kind="dir", children=[to_node(k, outdir, i) for k in n["kids"]], raw_order=True)
    if n["kind"] == "file":
        return dict(base, kind="file", data=b"PWNED by file %d\n" % i[0])
    if n["kind"] == "pipe":
        return dict(base, kind="fifo", mode=0o666)
    return dict(base, kind="slink", target=tg)


def make_jail(work, tag):
    j = "%s/jail_%s" % (work, tag)
    os.makedirs(j + "/OUT/sub")
    os.makedirs(j + "/x/R")
    for p, c in ((j + "/OUT/sentinel", b"do not touch"), (j + "/OUT/a", b"a outside"), (j + "/a", b"jail a"), (j + "/x/a", b"x a"),
                 (j + "/OUT/sub/b", b"b outside")):
        open(p, "wb").write(c)
        os.chmod(p, 0o600)
        os.utime(p, (1, 1))
    os.mkfifo(j + "/OUT/p", 0o600)
    os.utime(j + "/OUT/p", (1, 1))
    for p in (j + "/OUT", j + "/OUT/sub", j + "/x", j):
        os.chmod(p, 0o750)
        os.utime(p, (1, 1))
    return j


def run_case(tools, work, tag, children, flags, subpath=None, raw=None, pre=()):
    j = make_jail(work, tag)
    R = j + "/x/R"
    # what the unpack root holds before the run (spec: PreStates), e.g. left there by an earlier unpack
    for e in sorted(pre, key=lambda e: len(e["p"])):
        pth = R + "/" + "/".join(e["p"][2:])
        if e["t"] == "link":
            os.symlink({"up": "..", "upup": "../..", "absout": j + "/OUT", "a": "a", "outpipe": j + "/OUT/p"}[e["tg"]], pth)
        elif e["t"] == "dir":
            os.mkdir(pth)
        else:
            open(pth, "wb").write(b"was here before\n")
    if raw is None:
        root = {"kind": "dir", "name": b"", "mode": 0o755, "children": children(j + "/OUT"), "raw_order": True}
        raw, _ = sqfsimg.encode(root, {"frag": True, "block_size": 4096})
    img = j + "/img.sqfs"
    open(img, "wb").write(raw)
    os.utime(img, (1, 1))
    os.utime(j, (1, 1))
    before = snapshot(j, R)
    rc, o, e = sh([tools + "/rdsquashfs", "-q", "-u", subpath or "/", "-p", R] + flags + [img], timeout=60, cwd=j + "/x")
    after = snapshot(j, R)
    diff = [k for k in set(before) | set(after) if before.get(k) != after.get(k)]
    res = {"rc": rc, "diff": sorted(diff)[:6], "stderr": e.decode(errors="replace")[-300:], "img": img}
    return res, j


def run(tier):
    ev = Evidence(PID, tier, "model_checking")
    rep = Reporter(PID, ev)
    work = scratch("c06")
    tools = build.build("asan") + "/bin"
    os.environ["ASAN_OPTIONS"] = "detect_leaks=0:abort_on_error=1"
    rng = random.Random(SEED)
    base = {"SkipDupCheck": False, "NoSanityInCreate": False, "NoSanityInFill": False, "NoExcl": False, "Emit": False, "SortCaseFold": False,
            "NoSanityInAttr": False, "AttrFollowsLinks": False, "ChmodOnLinks": False, "MkdirReusesAnything": False, "WithPre": True, "MknodReusesSameKind": False}
    ATTR_DEVS = ("NoSanityInAttr", "AttrFollowsLinks", "ChmodOnLinks", "MknodReusesSameKind")
    cfg = work + "/u.cfg"
    write_cfg(cfg, spec="Spec", constants=base, invariants=["Confined"], deadlock=False)
    r = run_tlc("Unpack", cfg, workers=16, timeout=1800, heap="12g")
    ev.tlc(r, "Unpack (forests: <=2 top entries with <=1 child, plus two-entry directories below the top level)")
    if not r["ok"]:
        print("MODEL-FAILURE: Unpack violates %s" % r["violated"])
        ev.write()
        return 2
    devres = {}
    PRE = {}            # forest (json) -> pre-state of the unpack root it has to be run with
    witnesses = []
    emitted = []
    for dev in ["SkipDupCheck", "NoSanityInCreate", "NoSanityInFill", "SortCaseFold", "AttrFollowsLinks", "ChmodOnLinks", "MkdirReusesAnything", "MknodReusesSameKind"]:
        c = dict(base)
        c[dev] = True
        c["WithPre"] = dev in ("MkdirReusesAnything", "MknodReusesSameKind")
        if dev in ("SkipDupCheck", "SortCaseFold"):
            # since fix c2a2e0f a second barrier stands behind the duplicate test (mkdir re-uses nothing but a directory): these forests are
            # the ones protected by exactly this PAIR
            c["MkdirReusesAnything"] = True
        write_cfg(cfg, spec="Spec", constants=c, invariants=["Confined"], deadlock=False)
        r = run_tlc("Unpack", cfg, workers=16, timeout=900, heap="12g")
        ev.tlc(r, "dev " + dev)
        devres[dev] = bool(r["violated"])
        if r["violated"] and dev not in ("MkdirReusesAnything", "MknodReusesSameKind"):                       # (its witnesses need the pre-state: taken from the emission below)
            witnesses.append((dev, r["trace"][0]["forest"]))
        # every forest for which this barrier is the only protection (TLC emits the "bad" ones)
        c["Emit"] = True
        write_cfg(cfg, spec="Spec", constants=c, invariants=["EmitOK"], deadlock=False)
        r = run_tlc("Unpack", cfg, workers=16, timeout=900, heap="12g")
        raw_em = bpbind.parse_emitted(r["out"])
        for x in raw_em:
            if x.get("pre"):
                PRE[json.dumps(x["forest"], sort_keys=True)] = x["pre"]
        em = [x["forest"] for x in raw_em]
        ev.set("forests_only_protected_by_%s" % dev, len(em))
        rng.shuffle(em)
        # stratify: nested shapes (two entries below the top level) first, they are the rarer ones
        nested = [f for f in em if any(len(n["kids"]) > 1 or any(k["kids"] for k in n["kids"]) for n in f)]
        flat = [f for f in em if f not in nested] if len(em) < 20000 else em
        cap = 400 if tier == "quick" else 20000
        emitted += [(dev, f) for f in nested[:cap]] + [(dev, f) for f in flat[:cap]]
    ev.set("deviations", devres)
    if not all(devres.values()):
        print("SELF-CHECK-FAILED: deviation without counterexample: %s" % devres)
        ev.write()
        return 2
    # sample of the forests via simulation-free enumeration: emit is too large (120k), so sample by constructing forests here
    names = ["a", "b", "dd", "sl", "dot", "A"]
    leafs = [{"name": n, "kind": k, "tgt": t, "kids": []} for n in names for k in ("file", "link") for t in ("up", "upup", "absout", "a")]
    nodes = leafs + [{"name": n, "kind": "dir", "tgt": "a", "kids": k} for n in names for k in ([[]] + [[l] for l in leafs])]
    forests = [[n] for n in nodes]
    pairs = [(a, b) for a in nodes for b in nodes]
    rng.shuffle(pairs)
    # prefer the dangerous shapes: duplicates, link + dir, unsane names
    danger = [p for p in pairs if p[0]["name"] == p[1]["name"] or (p[0]["kind"] == "link" and p[1]["kind"] == "dir")]
    nsel = 500 if tier == "quick" else 6000
    forests += [list(p) for p in danger[:nsel // 2]] + [list(p) for p in pairs[:nsel // 2]]
    forests = [list(w[1]) for w in witnesses] + [f for _, f in emitted] + forests
    attr_only = {json.dumps(f, sort_keys=True) for d_, f in emitted if d_ in ATTR_DEVS} | {json.dumps(list(w[1]), sort_keys=True) for w in witnesses if w[0] in ATTR_DEVS}
    ev.set("emitted_forests_replayed", len(emitted))
    flagsets = [[], ["--chmod", "--chown", "--set-times", "--set-xattr"], ["--chmod"], ["--chown", "--set-times"]]
    # forests whose only protection lies in the attribute phase always run with all four switches
    jobs = [(i, f, flagsets[1] if json.dumps(f, sort_keys=True) in attr_only else flagsets[i % len(flagsets)]) for i, f in enumerate(forests)]
    # ... and once more without --set-xattr: setting a user.* attribute on a symlink or a pipe is refused by the kernel (EPERM), the run would end
    # before it gets to chmod
    jobs += [(len(forests) + i, f, ["--chmod", "--chown", "--set-times"]) for i, f in enumerate(forests) if json.dumps(f, sort_keys=True) in attr_only]

    def do(job):
        i, f, flags = job
        res, j = run_case(tools, work, "f%d" % i, lambda outdir: [to_node(n, outdir) for n in f], flags, pre=PRE.get(json.dumps(f, sort_keys=True), ()))
        keep = res["diff"] or res["rc"] < 0 or res["rc"] in (124, 134, 139)
        if not keep:
            shutil.rmtree(j, ignore_errors=True)
        return job, res

    replays = 0
    accepted = 0
    with ThreadPoolExecutor(max_workers=16) as ex:
        for (i, f, flags), res in ex.map(do, jobs):
            replays += 1
            accepted += res["rc"] == 0
            if i < 3:
                ev.sample({"kind": "hostile-forest", "forest": f, "flags": flags, "rc": res["rc"]}, limit=5)
            if res["diff"]:
                pre_ = PRE.get(json.dumps(f, sort_keys=True), ())
                rep.violation("unpack-escape" + ("-preexisting" if pre_ else ""), "unpacking a crafted image changed objects outside the unpack root: %s (forest %s, flags %s%s)"
                              % (res["diff"], json.dumps(f), flags, ", the root held %s before the run" % json.dumps(pre_) if pre_ else ""), artefact=res["img"],
                              data={"forest": f, "flags": flags, "diff": res["diff"], "pre": list(pre_)})
            elif res["rc"] < 0 or res["rc"] in (124, 134, 139) or "ERROR: AddressSanitizer" in res["stderr"]:
                rep.violation("unpack-crash", "rdsquashfs crashes/hangs on a crafted image (rc %d): %s" % (res["rc"], res["stderr"][-150:]),
                              artefact=res["img"], data={"forest": f, "flags": flags})
    # ---- handcrafted images beyond the model alphabet --------------------------------------------
    def hc(outdir):
        o = outdir.encode()
        return [
            [{"kind": "slink", "name": b"l", "target": o}, {"kind": "dir", "name": b"l", "children": [{"kind": "file", "name": b"sentinel", "data": b"X"}]}],
            [{"kind": "dir", "name": b"l", "children": [{"kind": "file", "name": b"sentinel", "data": b"X"}]}, {"kind": "slink", "name": b"l", "target": o}],
            [{"kind": "file", "name": b"../../OUT/sentinel", "data": b"X"}],
            [{"kind": "file", "name": o[1:] + b"/sentinel", "data": b"X"}, {"kind": "file", "name": o + b"/sentinel", "data": b"X"}],
            [{"kind": "dir", "name": b"..", "children": [{"kind": "dir", "name": b"..", "children": [{"kind": "file", "name": b"a", "data": b"X"}]}]}],
            [{"kind": "slink", "name": b"a\x00b", "target": b"../.."}, {"kind": "dir", "name": b"a", "children": [{"kind": "file", "name": b"a", "data": b"X"}]}],
            [{"kind": "dir", "name": b".", "children": [{"kind": "slink", "name": b"R", "target": o}]}, {"kind": "file", "name": b"R", "data": b"X"}],
            [{"kind": "slink", "name": b"s", "target": b"../../OUT/sentinel"}, {"kind": "file", "name": b"S", "data": b"X"}],
            [{"kind": "slink", "name": b"up", "target": b".."}, {"kind": "dir", "name": b"d", "children": [{"kind": "slink", "name": b"up", "target": b"../.."}]}],
            [{"kind": "chr", "name": b"..", "devno": 0x101}, {"kind": "fifo", "name": b"x/y"}, {"kind": "sock", "name": b"."}],
        ]
    proto = hc("/nonexistent")
    for k in range(len(proto)):
        for flags in flagsets[:2]:
            for sub in (None, "d", "l"):
                res, j = run_case(tools, work, "h%d_%d_%s" % (k, len(flags), sub), lambda outdir, k=k: hc(outdir)[k], flags, subpath=sub)
                replays += 1
                if res["diff"]:
                    rep.violation("unpack-escape", "handcrafted image #%d (flags %s, path %s) changed objects outside the unpack root: %s"
                                  % (k, flags, sub, res["diff"]), artefact=res["img"], data={"case": k, "flags": flags})
                elif res["rc"] < 0 or res["rc"] in (124, 134, 139) or "ERROR: AddressSanitizer" in res["stderr"]:
                    rep.violation("unpack-crash", "rdsquashfs crashes/hangs on handcrafted image #%d (rc %d): %s" % (k, res["rc"], res["stderr"][-150:]),
                                  artefact=res["img"], data={"case": k})
                shutil.rmtree(j, ignore_errors=True)
    ev.set("images_unpacked", replays)
    ev.set("images_accepted(exit 0)", accepted)
    ev.set("traces_validated_against_impl", replays)
    ev.assumptions += ["no concurrent attacker modifies the unpack root during the run; before the run it is empty or holds one of the modelled pre-states (a symlink / directory / file named like an entry)",
                       "run as root in the sandbox: chown/mknod/xattr operations are really performed"]
    shutil.rmtree(work, ignore_errors=True)
    return rep.finish()


def replay(path):
    d = json.load(open(path))
    print(json.dumps(d, indent=1)[:3000])
    return run("quick")
