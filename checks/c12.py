"""C12 - results do not depend on how the OS splits reads and writes.
Spec: spec/Stream.tla (buffered input stream under short reads / EINTR / EOF: PrefixOK, SplitIndependent,
termination).  Binding R: every OS-answer script TLC generates is replayed against the real
sqfs_istream (file_istream + sqfs_istream_read) through scripted read() results and the delivered bytes
are compared with the model.  Tool level: all four tools under seeded short counts / EINTR on every
read, write, pread, pwrite and under pipe chunkings of stdin; outputs and exit status must equal the
undisturbed run."""
import json, os, random, shutil, subprocess, sys, zlib, threading
from concurrent.futures import ThreadPoolExecutor
import vlib, build, bpbind, gen
from vlib import VERIF, Evidence, Reporter, run_tlc, write_cfg, scratch, SEED, sh

PID = "C12"
# the model's buffer of 4 units stands for the file stream's buffer: one unit = BUFSZ / 4 of the tree under test
UNIT = max(build.src_define("lib/sqfs/src/io/istream.c", "BUFSZ", 131072) // 4, 1)


def feed(proc_args, data, chunk, env=None, rng=None):
    """run a tool with stdin delivered through a pipe in chunks"""
    e = dict(os.environ)
    if env:
        e.update(env)
    p = subprocess.Popen(proc_args, stdin=subprocess.PIPE, stdout=subprocess.PIPE, stderr=subprocess.PIPE, env=e)
    out = []
    t = threading.Thread(target=lambda: out.append(p.stdout.read()))
    t.start()
    pos = 0
    try:
        while pos < len(data):
            n = chunk if chunk > 0 else rng.choice([1, 7, 511, 512, 513, 4096, 70000])
            try:
                os.write(p.stdin.fileno(), data[pos:pos + n])
            except BrokenPipeError:
                break
            pos += n
        p.stdin.close()
    except Exception:
        pass
    try:
        rc = p.wait(timeout=120)
    except subprocess.TimeoutExpired:
        p.kill()
        rc = 124
    t.join(10)
    return rc, out[0] if out else b""


def run(tier):
    ev = Evidence(PID, tier, "model_checking")
    rep = Reporter(PID, ev)
    work = scratch("c12")
    tools = build.build("plain") + "/bin"
    so = vlib.preload_so()
    rng = random.Random(SEED)
    reqs = "{<<1,2,4>>, <<4,4>>, <<2,2,2>>, <<5>>, <<3,3,3>>, <<9>>, <<1,1,1,1,1,1>>}"
    base = {"BUFSZ": 4, "FileLen": 6 if tier == "quick" else 9, "MaxEintr": 1 if tier == "quick" else 2, "Dev": '"none"', "Emit": False, "ProbeFirst": 0}
    cfg = work + "/s.cfg"
    write_cfg(cfg, spec="FairSpec", constants=base, defs={"Requests": reqs}, invariants=["PrefixOK", "NoError", "SplitIndependent"],
              properties=["Terminates"], deadlock=False)
    r = run_tlc("Stream", cfg, workers=16, timeout=1800, coverage=True)
    ev.tlc(r, "Stream buf=4 file=%d" % base["FileLen"])
    if not r["ok"]:
        print("MODEL-FAILURE: Stream violates %s" % r["violated"])
        ev.write()
        return 2
    # the same with a single look at the stream first (tar_iterator_create sniffs format and compressor from one call)
    pc_ = dict(base, ProbeFirst=2, FileLen=6)
    write_cfg(cfg, spec="FairSpec", constants=pc_, defs={"Requests": "{<<1,2,4>>, <<4,4>>, <<9>>}"}, invariants=["PrefixOK", "NoError", "SplitIndependent", "ProbeComplete"],
              properties=["Terminates"], deadlock=False)
    r = run_tlc("Stream", cfg, workers=16, timeout=1800)
    ev.tlc(r, "Stream with a probe of 2 units first")
    if not r["ok"]:
        print("MODEL-FAILURE: Stream (probe) violates %s" % r["violated"])
        ev.write()
        return 2
    devres = {}
    for dev in ["ShortReadIsEOF", "EintrIsError", "RefillDropsTail", "PrecacheSingleRead"]:
        c = dict(base)
        c.update({"Dev": '"%s"' % dev, "BUFSZ": 3, "FileLen": 5, "ProbeFirst": 2 if dev == "PrecacheSingleRead" else 0})
        write_cfg(cfg, spec="FairSpec", constants=c, defs={"Requests": reqs}, invariants=["PrefixOK", "NoError", "SplitIndependent", "ProbeComplete"], deadlock=False)
        r = run_tlc("Stream", cfg, workers=4, timeout=300)
        ev.tlc(r, "dev " + dev)
        devres[dev] = bool(r["violated"])
    ev.set("deviations", devres)
    if not all(devres.values()):
        print("SELF-CHECK-FAILED: deviation without counterexample: %s" % devres)
        ev.write()
        return 2
    # ---- R: scripts replayed on the real stream -----------------------------------------------------
    c = dict(base)
    c["Emit"] = True
    c["FileLen"] = 6
    write_cfg(cfg, spec="Spec", constants=c, defs={"Requests": "{<<1,2,4>>, <<4,4>>, <<5>>, <<3,3,3>>, <<9>>}"}, invariants=["EmitOK"], deadlock=False)
    r = run_tlc("Stream", cfg, workers=4, timeout=900)
    ev.tlc(r, "Stream emit")
    recs = bpbind.parse_emitted(r["out"])
    c["ProbeFirst"] = 2
    write_cfg(cfg, spec="Spec", constants=c, defs={"Requests": "{<<1,2,4>>, <<5>>, <<9>>}"}, invariants=["EmitOK"], deadlock=False)
    r = run_tlc("Stream", cfg, workers=4, timeout=900)
    ev.tlc(r, "Stream emit (probe first)")
    precs = bpbind.parse_emitted(r["out"])
    rng.shuffle(precs)
    recs = recs + precs[:(300 if tier == "quick" else 3000)]
    uniq = {}
    for x in recs:
        uniq[json.dumps([x["script"], x["reqs"], x.get("probe", 0)])] = x
    recs = list(uniq.values())
    cap = 600 if tier == "quick" else 6000
    if len(recs) > cap:
        withp = [x for x in recs if x.get("probe")]
        recs = rng.sample([x for x in recs if not x.get("probe")], cap - min(len(withp), cap // 3)) + withp[:cap // 3]
    binp = work + "/replay_stream"
    if not build.compile_harness(VERIF + "/harness/replay_stream.c", binp, variant="plain"):
        raise RuntimeError("harness build failed")
    data = random.Random(7).randbytes(6 * UNIT)
    fpath = work + "/stream.bin"
    open(fpath, "wb").write(data)
    replays = 0

    def do(x):
        script = ",".join("E" if s == "E" else str(int(s) * UNIT) for s in x["script"] if s != 0)
        env = {"LD_PRELOAD": so, "VP_READ_SCRIPT": "%s|%s" % (fpath, script)}
        probe = ["p%d" % (x["probe"] * UNIT)] if x.get("probe") else []
        rc, o, e = sh([binp, fpath] + probe + [str(n * UNIT) for n in x["reqs"]], timeout=30, env=env)
        return x, rc, o

    with ThreadPoolExecutor(max_workers=16) as ex:
        for x, rc, o in ex.map(do, recs):
            replays += 1
            try:
                got = json.loads(o.decode())["results"]
            except Exception:
                rep.violation("stream-crash", "stream harness died on script %s" % x["script"], data=x)
                continue
            pos = 0
            ok = True
            if x.get("probe"):
                (pn, pcrc), got = got[0], got[1:]
                seen = -1000 - pn
                need = min(x["probe"], 4, 6) * UNIT
                if pn > -1000 or seen < need or pcrc != zlib.crc32(data[:need]):
                    rep.violation("stream-probe-short", "one get_buffered_data(want=%d units) under OS answers %s shows %d bytes (%s units); a complete read shows >= %d units"
                                  % (x["probe"], x["script"], seen, seen / UNIT, need // UNIT), data=x)
            for (n, crc), want in zip(got, x["results"]):
                if n != want * UNIT or (n > 0 and crc != zlib.crc32(data[pos:pos + n])):
                    ok = False
                pos += max(n, 0)
            if not ok or len(got) != len(x["results"]):
                rep.violation("stream-short-read", "real istream delivers %s for requests %s under OS answers %s; specification: %s units"
                              % ([g[0] for g in got], x["reqs"], x["script"], x["results"]), data=x)
            if replays <= 2:
                ev.sample({"kind": "scripted-read-replay", "os_answers(units of 32 KiB, E=EINTR)": x["script"], "requests": x["reqs"], "results": x["results"]}, limit=4)
    # ---- the in-memory implementation of the same interface (istream_memory_create): the same request patterns, buffer = the model's 4 units
    binm = work + "/replay_stream_asan"
    if not build.compile_harness(VERIF + "/harness/replay_stream.c", binm, variant="asan"):
        raise RuntimeError("harness build failed")
    memjobs = {}
    for x in recs:
        memjobs[json.dumps([x["reqs"], x.get("probe", 0)])] = x
    # files of every length up to the model's 6 units: the requests run into the end of the data at every position
    mfiles = {}
    for L in range(0, 7):
        mfiles[L] = work + "/mem%d.bin" % L
        open(mfiles[L], "wb").write(data[:L * UNIT])

    def dom(job):
        x, L = job
        probe = ["p%d" % (x["probe"] * UNIT)] if x.get("probe") else []
        rc, o, e = sh([binm, "mem:%d:%s" % (4 * UNIT, mfiles[L])] + probe + [str(n * UNIT) for n in x["reqs"]], timeout=30, env={"ASAN_OPTIONS": "detect_leaks=1"})
        return x, L, rc, o, e
    nmem = 0
    with ThreadPoolExecutor(max_workers=16) as ex:
        for x, L, rc, o, e in ex.map(dom, [(x, L) for x in memjobs.values() for L in range(0, 7)]):
            nmem += 1
            if rc != 0 or b"ERROR: AddressSanitizer" in e or b"LeakSanitizer" in e:
                rep.violation("memstream-memory", "memory stream, %d units of data, requests %s: %s" % (L, x["reqs"], e.decode(errors="replace")[-200:] or "exit %d" % rc), data={"reqs": x["reqs"], "units": L})
                continue
            got = json.loads(o.decode())["results"]
            if x.get("probe"):
                (pn, pcrc), got = got[0], got[1:]
                seen = -1000 - pn
                need = min(x["probe"], 4, L) * UNIT
                if (L > 0 and pn > -1000) or seen < need or (need and pcrc != zlib.crc32(data[:need])):
                    rep.violation("memstream-probe-short", "memory stream over %d units: one get_buffered_data(want=%d units) shows %d bytes, the data has >= %d"
                                  % (L, x["probe"], seen, need), data={"reqs": x["reqs"], "units": L})
            pos, okm = 0, True
            for (n, crc), want in zip(got, x["reqs"]):
                exp = min(want * UNIT, L * UNIT - pos)
                if n != exp or (n > 0 and crc != zlib.crc32(data[pos:pos + n])):
                    okm = False
                pos += max(n, 0)
            if not okm or len(got) != len(x["reqs"]):
                rep.violation("memstream-short-read", "memory stream over %d units delivers %s for requests %s (units of %d bytes)" % (L, [g[0] for g in got], x["reqs"], UNIT),
                              data={"reqs": x["reqs"], "units": L})
    ev.set("memory_stream_replays", nmem)
    replays += nmem
    # ---- tool level --------------------------------------------------------------------------------
    scen = gen.standard_scenarios(work, rng, bs=4096)
    tarb = gen.standard_tars(rng)[0][1]
    big = gen.tar_bytes([dict(name="big%d" % i, data=gen.content(rng, "mixed", 200000 + i * 977)) for i in range(3)])
    img = work + "/ref.sqfs"
    rc, o, e = sh([tools + "/gensquashfs", "-q", "-f", "-c", "gzip", "-b", "4096", "-F", scen[1].packfile(), img], timeout=60)
    if rc:
        raise RuntimeError("reference image failed")
    modes = [("one", 0), ("half", 0), ("rand", 0), ("rand", 1), ("one", 1)]
    if tier != "quick":
        modes += [("rand", 1)] * 6
    runs = 0
    cases = []
    for si in (1, 2, 4):
        s = scen[si]
        cases.append(("gensquashfs-%d" % si, ["gensquashfs", "-q", "-f", "-c", "gzip", "-b", "4096", "-j", "2", "-F", s.packfile(), "@OUT"], None, "file"))
    cases.append(("tar2sqfs", ["tar2sqfs", "-q", "-f", "-c", "gzip", "-b", "4096", "@OUT"], tarb, "file"))
    cases.append(("tar2sqfs-big", ["tar2sqfs", "-q", "-f", "-c", "lz4", "@OUT"], big, "file"))
    # compressed archives: the compressor is sniffed from the first bytes of the stream
    import gzip as _gz, bz2 as _bz, lzma as _xz
    for cname, blob in (("gz", _gz.compress(tarb, mtime=0)), ("bz2", _bz.compress(tarb)), ("xz", _xz.compress(tarb, format=_xz.FORMAT_XZ))):
        cases.append(("tar2sqfs-" + cname, ["tar2sqfs", "-q", "-f", "-c", "gzip", "-b", "4096", "@OUT"], blob, "file"))
    rcz, zblob, ez = sh(["zstd", "-q", "-c"], stdin=tarb, timeout=60) if vlib.have("zstd") else (1, b"", b"")
    if rcz == 0 and zblob:
        cases.append(("tar2sqfs-zst", ["tar2sqfs", "-q", "-f", "-c", "gzip", "-b", "4096", "@OUT"], zblob, "file"))
    cases.append(("sqfs2tar", ["sqfs2tar", img], None, "stdout"))
    cases.append(("rdsquashfs-cat", ["rdsquashfs", "-c", "big", img], None, "stdout"))
    cases.append(("rdsquashfs-describe", ["rdsquashfs", "-d", img], None, "stdout"))

    def runcase(job):
        name, args, stdin, kind, env, tag = job
        out = work + "/o_%s_%s.bin" % (name, tag)
        a = [tools + "/" + args[0]] + [x.replace("@OUT", out) for x in args[1:]]
        rc, o, e = sh(a, timeout=180, env=env, stdin=stdin)
        dig = vlib.sha(o) if kind == "stdout" else (vlib.fsha(out) if os.path.exists(out) else None)
        if os.path.exists(out):
            os.unlink(out)
        return name, tag, rc, dig

    jobs = []
    for (name, args, stdin, kind) in cases:
        jobs.append((name, args, stdin, kind, {}, "base"))
        for mi, (mode, eintr) in enumerate(modes):
            env = {"LD_PRELOAD": so, "VP_SHORT": str(SEED * 17 + mi), "VP_SHORT_MODE": mode, "VP_EINTR": str(eintr)}
            jobs.append((name, args, stdin, kind, env, "m%d_%s%d" % (mi, mode, eintr)))
    res = {}
    with ThreadPoolExecutor(max_workers=12) as ex:
        for name, tag, rc, dig in ex.map(runcase, jobs):
            runs += 1
            res.setdefault(name, {})[tag] = (rc, dig)
    for name, rs in res.items():
        b = rs["base"]
        if b[0] != 0:
            raise RuntimeError("undisturbed run of %s failed" % name)
        for tag, v in rs.items():
            if v != b:
                rep.violation("short-io-%s" % name.split("-")[0], "%s under short-count mode %s: exit %d / output %s, undisturbed run: exit 0 / %s"
                              % (name, tag, v[0], (v[1] or "none")[:12], b[1][:12]), data={"case": name, "mode": tag})
    # stdin chunkings
    for (name, args, stdin, kind) in [c for c in cases if c[2] is not None]:
        ref = None
        for chunk in [0, 1, 511, 512, 513, 100000, -1] if tier != "quick" or len(stdin) < 200000 else [0, 511, 513, -1]:
            out = work + "/chunk_%s.sqfs" % name
            a = [tools + "/" + args[0]] + [x.replace("@OUT", out) for x in args[1:]]
            if chunk == 0:
                rc, o, e = sh(a, timeout=120, stdin=stdin)
            else:
                rc, o = feed(a, stdin, chunk, rng=rng)
            runs += 1
            dig = vlib.fsha(out) if os.path.exists(out) else None
            if ref is None:
                ref = (rc, dig)
            elif (rc, dig) != ref:
                rep.violation("stdin-chunking", "%s: stdin in chunks of %s bytes gives exit %d / image %s, whole: exit %d / %s"
                              % (name, chunk if chunk > 0 else "random", rc, (dig or "none")[:12], ref[0], (ref[1] or "none")[:12]),
                              data={"case": name, "chunk": chunk})
    ev.set("stream_script_replays", replays)
    ev.set("tool_runs", runs)
    ev.set("traces_validated_against_impl", replays + runs)
    ev.assumptions += ["model buffer of 4 units stands for BUFSZ = 131072 bytes (unit = 32 KiB); byte-granular splits are covered by the tool-level shim",
                       "the shim shortens read/write/pread/pwrite of the process itself; stdio FILE* output (diagnostics) is not shortened"]
    shutil.rmtree(work, ignore_errors=True)
    return rep.finish()


def replay(path):
    d = json.load(open(path))
    print(json.dumps(d, indent=1)[:3000])
    return run("quick")
