"""C19 - copies of library objects are independent, equivalent and safely destroyable.
Spec: spec/ObjLife.tla (reference counts, hooks, owned buffers, owned child object, shared resources).
Binding R: every history of the TLC state graph (edge cover) is executed on the real objects of every
copyable kind under ASan+LSan; each query is compared with a fresh object that received exactly the
mutations the specification says are visible."""
import json, os, random, shutil, subprocess, sys
from concurrent.futures import ThreadPoolExecutor
import vlib, build, sqfsimg
from vlib import VERIF, Evidence, Reporter, run_tlc, write_cfg, scratch, SEED, sh

PID = "C19"
KINDS = {  # kind -> (NBufs, HasChild, NShared) of the model instance that describes it
    "idtable": (1, False, 0), "fragtable": (1, False, 0), "metareader": (0, False, 2),
    "dirreader": (1, False, 2), "dirreader_dot": (1, False, 2), "datareader": (2, True, 2),
    "xattrreader": (1, False, 2), "file": (1, False, 0), "xattrwriter": (2, False, 0)}
for c in ("gzip", "xz", "lzma", "lz4", "zstd"):
    KINDS["comp_%s_c" % c] = (1, False, 0)
    KINDS["comp_%s_u" % c] = (1, False, 0)
    KINDS["comp_%s_o" % c] = (1, False, 0)          # compressors created with non-default options (window / level / dictionary / lc lp pb / filters)
    KINDS["comp_%s_p" % c] = (1, False, 0)
DEVS = ["CopyWithoutObjectInit", "ChildCopyWithoutObjectInit", "ShallowBuffer", "SharedNotGrabbed",
        "RefcountCopied", "ChildNotCopied", "FailedCopyReleasesOriginal"]


def test_image(path):
    rnd = random.Random(3)
    big = bytes(rnd.randrange(256) for _ in range(9000))
    root = {"kind": "dir", "name": b"", "mode": 0o755, "children": [
        {"kind": "file", "name": b"a", "data": big, "xattrs": {b"user.one": b"1", b"security.x": b"\x00\x01"}},
        {"kind": "file", "name": b"b", "data": b"tail only" * 30, "uid": 7, "xattrs": {b"user.two": b"22"}},
        {"kind": "file", "name": b"c", "data": b"\0" * 4096 + b"zz" * 100, "gid": 9},
        {"kind": "dir", "name": b"d", "mode": 0o700, "xattrs": {b"trusted.t": b"ttt"},
         "children": [{"kind": "slink", "name": b"s", "target": b"../a"}, {"kind": "fifo", "name": b"p"}]},
        # an inode table of more than 64 KiB on disk: the directories below have inode references that need more than 32 bit
        {"kind": "dir", "name": b"z", "mode": 0o755, "children": [
            {"kind": "dir", "name": b"sub%02d" % i, "mode": 0o755,
             "children": [{"kind": "slink", "name": b"l%03d" % j, "target": b"target/%02d/%03d/padpadpad" % (i, j)} for j in range(150)]} for i in range(20)]}]}
    raw, _ = sqfsimg.encode(root, {"frag": True, "block_size": 4096})
    open(path, "wb").write(raw)


def history_from_path(nodes, edges, path):
    lines = []
    for k in path:
        a, b, label = edges[k]
        name = label.split("(")[0]
        args = [x.strip() for x in label[label.index("(") + 1:-1].split(",")] if "(" in label else []
        if name == "Mut":
            lines.append("mut %s %s" % (args[0], args[1]))
        elif name == "Query":
            lines.append("query %s" % args[0])
        elif name == "Grab":
            lines.append("grab %s" % args[0])
        elif name == "CopyFails":
            lines.append("copyfail %s @K" % args[0])            # @K: which allocation fails, chosen per replay
        elif name == "Copy":
            new = set(nodes[b]["alive"]) - set(nodes[a]["alive"])
            lines.append("copy %s %d" % (args[0], sorted(new)[0]))
        elif name == "Drop":
            o = int(args[0])
            lines.append("drop %d %d" % (o, 1 if nodes[b]["held"][o - 1] == 0 else 0))
    final = nodes[edges[path[-1]][1]] if path else None
    if final:
        for o, h in enumerate(final["held"], 1):
            for j in range(h):
                lines.append("drop %d %d" % (o, 1 if j == h - 1 else 0))
    return lines


def rbtree_stage(work, rep, ev, tier):
    """spec/RbTree.tla: the red-black tree behind the directory reader's inode cache and the xattr writer's set table.  Every insertion
    sequence of <= 5 (6) keys over 1..4 with a copy taken at any point: the real tree after the sequence must be the model's tree node by
    node (keys and colours), the copy the tree at the time of the copy although the original grew, every key found, both released in
    either order (ASan, LSan)."""
    import bpbind
    K, M = 4, (5 if tier == "quick" else 6)
    C = {"K": K, "MaxIns": M, "Emit": False, "BalanceOrder": '"lrf"', "RootStaysRed": False}
    INV = ["SearchOrder", "RedBlack", "AllFound", "NothingElseFound", "CopyIndependent"]
    cfg = work + "/rb.cfg"
    write_cfg(cfg, spec="Spec", constants=C, invariants=INV, deadlock=False)
    r = run_tlc("RbTree", cfg, workers=8, timeout=1500, heap="8g")
    ev.tlc(r, "RbTree K=%d MaxIns=%d" % (K, M))
    if not r["ok"]:
        print("MODEL-FAILURE: RbTree violates %s" % r["violated"])
        return None
    for dev in ({"BalanceOrder": '"frl"'}, {"RootStaysRed": True}):
        write_cfg(cfg, spec="Spec", constants=dict(C, **dev), invariants=INV, deadlock=False)
        r = run_tlc("RbTree", cfg, workers=4, timeout=600)
        ev.tlc(r, "dev RbTree %s" % dev)
        if r["violated"] != "RedBlack":
            print("SELF-CHECK-FAILED: RbTree deviation %s: %s" % (dev, r["violated"]))
            return None
    write_cfg(cfg, spec="Spec", constants=dict(C, Emit=True), invariants=["EmitOK"], deadlock=False)
    r = run_tlc("RbTree", cfg, workers=8, timeout=1500, heap="8g")
    cases = bpbind.parse_emitted(r["out"])
    if len(cases) < K ** M:
        print("SELF-CHECK-FAILED: RbTree emitted %d cases" % len(cases))
        return None
    binp = work + "/replay_rbtree"
    if not build.compile_harness(VERIF + "/harness/replay_rbtree.c", binp, variant="asan"):
        raise RuntimeError("harness build failed")

    def do(i):
        c = cases[i]
        cat = c["cat"] if c["copied"] else -1
        q = subprocess.run([binp, str(K), str(cat), "oc"[i % 2]] + [str(k) for k in c["ins"]], capture_output=True, text=True, timeout=60,
                           env=dict(os.environ, ASAN_OPTIONS="detect_leaks=1"))
        return i, q.returncode, q.stdout, q.stderr
    n, seen = 0, set()
    with ThreadPoolExecutor(16) as ex:
        for i, rc, out, err in ex.map(do, range(len(cases))):
            n += 1
            c = cases[i]
            what = None
            if "ERROR: AddressSanitizer" in err or "LeakSanitizer" in err:
                what = ("rbtree-memory", err[err.find("ERROR:"):][:160])
            elif rc != 0:
                what = ("rbtree-crash", "exit %d" % rc)
            else:
                real = json.loads(out.strip().split("\n")[-1])
                ins = c["ins"]
                wantfound = [k in ins for k in range(1, K + 1)]
                cfound = [k in ins[:c["cat"]] for k in range(1, K + 1)] if c["copied"] else [False] * K
                if real["found"] != wantfound or real["inorder"] != sorted(ins):
                    what = ("rbtree-lookup", "after the inserts %s: keys found %s, in-order %s" % (ins, real["found"], real["inorder"]))
                elif c["copied"] and (real["cfound"] != cfound or real["cpre"] != real["at_copy"]):
                    what = ("rbtree-copy", "copy taken after %d of the inserts %s: the copy is %s (finds %s) once the original has grown, at the time of the copy the tree was %s"
                            % (c["cat"], ins, real["cpre"], real["cfound"], real["at_copy"]))
                elif [list(x) for x in real["pre"]] != [[x[0], x[1]] for x in c["pre"]] or (c["copied"] and [list(x) for x in real["cpre"]] != [[x[0], x[1]] for x in c["cpre"]]):
                    DR.append({"ins": ins, "real": real["pre"], "model": c["pre"]})
            if what and what[0] not in seen:
                seen.add(what[0])
                rep.violation(what[0], what[1], data={"ins": c["ins"], "copy_at": c["cat"] if c["copied"] else None})
    if DR:
        print("SPEC-DRIFT (no alarm): %d trees differ in shape / colour from RbTree.tla although every key is found, e.g. %s" % (len(DR), json.dumps(DR[0])[:300]))
    ev.set("rbtree_sequences_replayed", n)
    ev.set("rbtree_shape_drift", len(DR))
    return n


DR = []


def run(tier):
    ev = Evidence(PID, tier, "model_checking")
    rep = Reporter(PID, ev)
    work = scratch("c19")
    binp = work + "/replay_objlife"
    if not build.compile_harness(VERIF + "/harness/replay_objlife.c", binp, variant="asan",
                                 extra=["-Wl,--wrap=malloc", "-Wl,--wrap=calloc", "-Wl,--wrap=realloc", "-Wl,--wrap=strdup"]):
        raise RuntimeError("harness build failed")
    image = work + "/img.sqfs"
    test_image(image)
    rng = random.Random(SEED)
    MO = 5 if tier == "quick" else 6

    def consts(nb, ch, ns, dev):
        return {"NBufs": nb, "HasChild": ch, "NShared": ns, "MaxObj": 3, "MaxMut": 2, "MaxOps": MO, "Dev": '"%s"' % dev}

    shapes = sorted(set(KINDS.values()))
    for (nb, ch, ns) in shapes:
        cfg = work + "/mc.cfg"
        write_cfg(cfg, spec="Spec", constants=consts(nb, ch, ns, "none"), invariants=["Safety"], deadlock=True)
        r = run_tlc("ObjLife", cfg, workers=16, timeout=1800, coverage=True)
        ev.tlc(r, "ObjLife bufs=%d child=%s shared=%d" % (nb, ch, ns))
        if not r["ok"]:
            print("MODEL-FAILURE: ObjLife violates %s" % r["violated"])
            print(r["out"][-1500:])
            ev.write()
            return 2
    devres, witnesses = {}, []
    for dev in DEVS:
        cfg = work + "/dev.cfg"
        write_cfg(cfg, spec="Spec", constants=consts(2, True, 2, dev), invariants=["Safety"], deadlock=True)
        r = run_tlc("ObjLife", cfg, workers=8, timeout=600)
        ev.tlc(r, "dev " + dev)
        devres[dev] = bool(r["violated"])
        if r["violated"]:
            # rebuild a history from the counterexample
            lines = []
            tr = r["trace"]
            for i in range(1, len(tr)):
                lab = tr[i]["_action"]
                name = lab.split("(")[0]
                args = [x.strip() for x in lab[lab.index("(") + 1:-1].split(",")] if "(" in lab else []
                if name == "Mut":
                    lines.append("mut %s %s" % (args[0], args[1]))
                elif name == "Query":
                    lines.append("query %s" % args[0])
                elif name == "Grab":
                    lines.append("grab %s" % args[0])
                elif name == "CopyFails":
                    lines.append("copyfail %s @K" % args[0])
                elif name == "Copy":
                    new = set(tr[i]["alive"]) - set(tr[i - 1]["alive"])
                    lines.append("copy %s %d" % (args[0], sorted(new)[0] if new else 3))
                elif name == "Drop":
                    o = int(args[0])
                    lines.append("drop %d %d" % (o, 1 if tr[i]["held"][o - 1] == 0 else 0))
            if tr[-1].get("err") == "none":
                for o, h in enumerate(tr[-1]["held"], 1):
                    for j in range(h):
                        lines.append("drop %d %d" % (o, 1 if j == h - 1 else 0))
            witnesses.append((dev, lines))
    ev.set("deviations", devres)
    if not all(devres.values()):
        print("SELF-CHECK-FAILED: deviation without counterexample: %s" % devres)
        ev.write()
        return 2

    # ---- histories: edge cover of the state graph of the richest shape -----------------------------
    cfg = work + "/g.cfg"
    write_cfg(cfg, spec="Spec", constants=consts(2, True, 2, "none"), invariants=["Safety"], deadlock=True)
    dump = work + "/graph"
    r = run_tlc("ObjLife", cfg, workers=16, timeout=1800, dump=dump)
    ev.tlc(r, "graph")
    nodes, edges, init = vlib.load_dot(dump + ".dot")
    os.unlink(dump + ".dot")
    edges = [e for e in edges if not e[2].startswith(("Finished", "HarnessRelease"))]
    paths, unc = vlib.path_cover(nodes, edges, init, rng=rng)
    hists = [history_from_path(nodes, edges, p) for p in paths]
    hists = [h for h in hists if any(l.startswith("copy") for l in h)]            # copy or copyfail
    seen = set()
    uniq = []
    for h in hists:
        k = "\n".join(h)
        if k not in seen:
            seen.add(k)
            uniq.append(h)
    hists = uniq
    per_kind = 120 if tier == "quick" else 1500
    ev.set("graph_edges", len(edges))
    ev.set("distinct_histories_with_copy", len(hists))
    jobs = []
    for kind in KINDS:
        sel = hists if len(hists) <= per_kind else rng.sample(hists, per_kind)
        for i, h in enumerate(sel):
            jobs.append((kind, "g%d" % i, h))
        for dev, lines in witnesses:
            if any("@K" in l for l in lines):
                for K in range(1, 9):                                             # every allocation of the copy hook in turn
                    jobs.append((kind, "w_%s_k%d" % (dev, K), [l.replace("@K", str(K)) for l in lines]))
            else:
                jobs.append((kind, "w_" + dev, lines))
    # histories from the graph: which allocation of a failing copy fails is chosen per history
    jobs = [(k, t, [l.replace("@K", str(1 + (j * 7 + n) % 6)) for n, l in enumerate(ls)]) for j, (k, t, ls) in enumerate(jobs)]

    def do(job):
        kind, tag, lines = job
        p = work + "/h_%s_%s.txt" % (kind, tag)
        open(p, "w").write("\n".join(lines) + "\n")
        rc, o, e = sh([binp, kind, image, p], timeout=120,
                      env={"ASAN_OPTIONS": "detect_leaks=1:abort_on_error=0:exitcode=23", "LSAN_OPTIONS": "exitcode=24"})
        recs = []
        for l in o.decode(errors="replace").split("\n"):
            if l.startswith("{"):
                try:
                    recs.append(json.loads(l))
                except Exception:
                    pass
        return kind, tag, lines, rc, recs, e.decode(errors="replace"), p

    replays = 0
    skipped = set()
    with ThreadPoolExecutor(max_workers=16) as ex:
        for kind, tag, lines, rc, recs, err, p in ex.map(do, jobs):
            if any("skip" in x for x in recs):
                skipped.add(kind)
                continue
            replays += 1
            bad = None
            if rc != 0 or not recs or not recs[-1].get("end"):
                what = "crash"
                if "double-free" in err:
                    what = "double-free"
                elif "heap-use-after-free" in err:
                    what = "use-after-free"
                elif "LeakSanitizer" in err:
                    what = "leak"
                elif "SEGV" in err:
                    what = "segv"
                bad = ("objlife-%s-%s" % (kind, what), "%s: %s while executing history %s" % (kind, what, lines))
            else:
                for x in recs:
                    if "ans" in x and x["ans"] != x["ref"]:
                        bad = ("objlife-%s-diverge" % kind, "%s: '%s' answers differently from a fresh object with the same visible mutations (history %s)" % (kind, x["op"], lines))
                        break
                    if x.get("copy_failed"):
                        bad = ("objlife-%s-copyfail" % kind, "%s: sqfs_copy returned NULL" % kind)
            if bad:
                rc2 = do((kind, tag + "_again", lines))
                if rc2[3] == rc:
                    rep.violation(bad[0], bad[1], artefact=p, data={"kind": kind, "history": lines, "stderr": err[-1500:]})
            if tag == "g0":
                ev.sample({"kind": kind, "history": lines}, limit=5)
            try:
                os.unlink(p)
            except OSError:
                pass
    rn = rbtree_stage(work, rep, ev, tier)
    if rn is None:
        ev.write()
        return 2
    replays += rn
    ev.set("kinds", sorted(set(KINDS) - skipped))
    ev.set("kinds_skipped(not built)", sorted(skipped))
    ev.set("traces_validated_against_impl", replays)
    ev.set("bounds", {"max_ops": MO, "max_objects": 3, "max_mutations_per_object": 2})
    ev.assumptions += ["ASan/LSan detect invalid frees, use after free and leaks on the executed histories",
                       "kinds without a copy hook are not exercised"]
    shutil.rmtree(work, ignore_errors=True)
    return rep.finish()


def replay(path):
    d = json.load(open(path))
    print(json.dumps(d, indent=1)[:3000])
    return run("quick")
