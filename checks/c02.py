"""C02 - determinism: image bytes independent of threads, backlog, schedule, environment.
Spec: spec/BlockProc.tla over the abstract pool (PoolAbs, established for threadpool.c by C09):
Deterministic (result independent of backlog / pool schedule oracle) + the data-path invariants.
Binding R: every input of a bounded domain with the layout TLC predicts is run on the real block
processor (real worker threads, 1..4 workers, every modelled backlog, threaded and serial pool builds)
and inodes / fragment table / disk bytes are compared with the prediction.  Binding T (tools):
gensquashfs / tar2sqfs under -j, -Q, environment and clock variations must give one sha256, equal to
the serial (NO_THREAD_IMPL) build."""
import json, os, random, shutil, sys
from concurrent.futures import ThreadPoolExecutor
import vlib, build, bpbind, gen
from vlib import VERIF, Evidence, Reporter, run_tlc, scratch, SEED, sh

PID = "C02"
DEVS = ["PoolUnordered", "FragSeqAtCompletion", "IoQueueUnsorted"]


def model_phase(ev, work, tier, devs, props=("Safety", "Deterministic")):
    """exhaustive TLC runs of the correct model + deviations; returns False on a model failure"""
    cfgs = [dict(nf=2, mb=1, backlogs=(3, 4, 6), flagsets=[[], ["IGNORE_SPARSE"]], tails=(1, 3)),
            dict(nf=3, mb=1, ids=["a", "b", "z"], backlogs=(3, 4, 5), flagsets=[[]], tails=(2,))]
    if tier != "quick":
        cfgs += [dict(nf=2, mb=2, backlogs=(3, 5), flagsets=[[], ["DONT_FRAGMENT"], ["DONT_DEDUP"], ["DONT_COMPRESS"]], tails=(2,)),
                 dict(nf=4, mb=0, ids=["a", "b", "z"], backlogs=(3, 4), flagsets=[[], ["IGNORE_SPARSE"]], tails=(1, 2)),
                 dict(nf=3, mb=1, ids=["a", "b", "z"], backlogs=(3, 4, 5, 6), flagsets=[[]], tails=(1, 3), perfect=True)]
    for i, c in enumerate(cfgs):
        cfg = work + "/mc%d.cfg" % i
        bpbind.cfg_for(cfg, invariants=props, **c)
        r = run_tlc("BlockProc", cfg, workers=16, timeout=3000, heap="20g")
        ev.tlc(r, "BlockProc %s" % json.dumps(c))
        if not r["ok"]:
            print("MODEL-FAILURE: BlockProc violates %s with %s" % (r["violated"], c))
            print(r["out"][-1500:])
            return False
    devres = {}
    devcfgs = [dict(nf=2, mb=1, backlogs=(3, 5), flagsets=[[], ["IGNORE_SPARSE"]], tails=(1, 3)),
               dict(nf=3, mb=1, ids=["a", "b"], backlogs=(3, 5), flagsets=[[]], tails=(2, 3)),
               dict(nf=4, mb=0, ids=["a", "b"], backlogs=(3, 4), flagsets=[[]], tails=(2,))]
    for dev in devs:
        found = False
        for c in devcfgs:
            cfg = work + "/dev.cfg"
            bpbind.cfg_for(cfg, dev=dev, invariants=props, **c)
            r = run_tlc("BlockProc", cfg, workers=16, timeout=1200, heap="12g")
            ev.tlc(r, "dev %s" % dev)
            if r["violated"]:
                found = True
                break
        devres[dev] = found
    ev.set("deviations", devres)
    if not all(devres.values()):
        print("SELF-CHECK-FAILED: deviation without counterexample: %s" % devres)
        return False
    return True


def replay_phase(ev, rep, work, tier, pid, key_prefix="blockproc"):
    """emit (input, predicted layout) pairs and run them on the real block processor"""
    total = 0
    plans = [("hash0", False, dict(nf=2, mb=1, backlogs=(3, 5), flagsets=[[], ["IGNORE_SPARSE"]], tails=(1, 3))),
             ("plain", True, dict(nf=2, mb=1, backlogs=(3, 4), flagsets=[[], ["DONT_DEDUP"]], tails=(2,))),
             ("serial", True, dict(nf=2, mb=1, ids=["a", "b", "z"], backlogs=(3,), flagsets=[[], ["DONT_FRAGMENT"]], tails=(1, 3))),
             ("hash0", False, dict(nf=3, mb=1, ids=["a", "c", "z"], backlogs=(3, 4), flagsets=[[]], tails=(2,))),
             ("plain", True, dict(nf=2, mb=3, ids=["a", "z"], backlogs=(3, 5), flagsets=[[]], tails=(2,)))]
    if tier != "quick":
        plans += [("hash0", False, dict(nf=4, mb=0, ids=["a", "c", "z"], backlogs=(3, 4), flagsets=[[], ["IGNORE_SPARSE"]], tails=(1, 2))),
                  ("plain", True, dict(nf=2, mb=2, backlogs=(3, 6), flagsets=[[], ["DONT_COMPRESS"]], tails=(1, 3))),
                  ("hash0", False, dict(nf=2, mb=2, ids=["a", "c", "z"], backlogs=(3, 4, 6), flagsets=[[], ["DONT_FRAGMENT"], ["DONT_DEDUP"]], tails=(2,)))]
    rng = random.Random(SEED)
    for pi, (variant, perfect, c) in enumerate(plans):
        cfg = work + "/emit%d.cfg" % pi
        bpbind.cfg_for(cfg, emit=True, perfect=perfect, invariants=("Safety", "Deterministic"), **c)
        r = run_tlc("BlockProc", cfg, workers=16, timeout=3000, heap="20g")
        ev.tlc(r, "emit %s %s" % (variant, json.dumps(c)))
        if not r["ok"]:
            print("MODEL-FAILURE: BlockProc violates %s" % r["violated"])
            return None
        em = bpbind.parse_emitted(r["out"])
        cap = 2500 if tier == "quick" else 40000
        if len(em) > cap:
            em = rng.sample(em, cap)
        binp = bpbind.build_harness(work, variant)
        workers = (1,) if variant == "serial" else ((1, 3) if tier == "quick" else (1, 2, 4))
        n, bad = bpbind.replay(binp, work, em, workers=workers, tag="p%d" % pi)
        total += n
        if em:
            ev.sample({"kind": "replayed-input", "build": variant, "input": em[0]["input"], "backlog": em[0]["mb"],
                       "predicted": em[0]["res"]}, limit=4)
        for (e, W, what, exp, got) in bad[:5]:
            # reproduce once
            n2, bad2 = bpbind.replay(binp, work, [e], workers=(workers if what.startswith("results differ") else (W,)), tag="again")
            if bad2:
                p = work + "/viol_%s_%d.txt" % (variant, W)
                bpbind.input_file(p, e["input"], e["mb"], W)
                rep.violation("%s-%s" % (key_prefix, "crash" if exp is None else "layout"),
                              "real block processor (%s build, %d workers, backlog %d): %s for input %s"
                              % (variant, W, e["mb"], what, json.dumps(e["input"])), artefact=p,
                              data={"input": e["input"], "predicted": exp, "real": got, "workers": W, "backlog": e["mb"]})
    # ---- the block processor on top of the CONTROLLED pool: seeded schedules with a preemption point at every unlock ----
    binp = bpbind.build_harness_sched(work)
    for pi, c in enumerate([dict(nf=4, mb=0, ids=["a", "c", "z"], backlogs=(3, 4), flagsets=[[]], tails=(2, 3)),
                            dict(nf=3, mb=1, ids=["a", "c"], backlogs=(3,), flagsets=[[]], tails=(2,))]):
        cfg = work + "/emits%d.cfg" % pi
        bpbind.cfg_for(cfg, emit=True, perfect=True, invariants=("Safety", "Deterministic"), **c)
        r = run_tlc("BlockProc", cfg, workers=16, timeout=3000, heap="20g")
        ev.tlc(r, "emit (controlled schedules) %s" % json.dumps(c))
        em = [e for e in bpbind.parse_emitted(r["out"]) if len(e["input"]) >= 3
              and len({json.dumps(s["tail"]) for s in e["input"]}) < len(e["input"])]       # repeated tails: in-flight / on-disk comparisons
        em = rng.sample(em, min(len(em), 40 if tier == "quick" else 400))
        seeds = list(range(1, 16 if tier == "quick" else 61))
        n, bad = bpbind.replay_sched(binp, work, em, seeds, workers=2, tag="cs%d" % pi)
        total += n
        for (e, sd, what, exp, got) in bad[:5]:
            n2, bad2 = bpbind.replay_sched(binp, work, [e], [seeds[0], sd] if what.startswith("result under schedule") else [sd], workers=2, tag="again")
            if bad2:
                p = work + "/viol_sched_%d.txt" % sd
                bpbind.input_file(p, e["input"], e["mb"], 2)
                rep.violation("%s-schedule" % key_prefix, "block processor on the controlled pool, schedule seed %d, backlog %d: %s for input %s"
                              % (sd, e["mb"], what, json.dumps(e["input"])), artefact=p,
                              data={"input": e["input"], "seed": sd, "predicted": exp, "real": got})
    ev.set("real_results_that_differ_from_the_model_but_satisfy_the_properties(spec drift, no alarm)", len(bpbind.DRIFT))
    if bpbind.DRIFT:
        print("SPEC-DRIFT (no alarm): %d real block processor results satisfy the properties but differ from BlockProc's prediction, e.g. %s"
              % (len(bpbind.DRIFT), json.dumps(bpbind.DRIFT[0])[:300]))
    return total


def tool_phase(ev, rep, work, tier):
    """gensquashfs / tar2sqfs: one sha256 whatever -j, -Q, environment, clock; equal to the serial build"""
    plain = build.build("plain") + "/bin"
    serial = build.build("serial") + "/bin"
    so = vlib.preload_so()
    rng = random.Random(SEED)
    scen = gen.standard_scenarios(work, rng, bs=4096)
    big = gen.Scenario(work, "s_big")
    r2 = random.Random(SEED + 5)
    for i in range(12):
        big.add_file("/f%02d" % i, gen.content(r2, r2.choice(["mixed", "text", "random"]), r2.choice([5000, 40000, 131072 + 77, 300000])))
    big.add_file("/dup", big.files["f00"])
    scen.append(big)
    tars = gen.standard_tars(rng)
    variants = [[], ["-j", "1"], ["-j", "2"], ["-j", "3"], ["-j", "8"], ["-j", "64"], ["-j", "2", "-Q", "1"],
                ["-j", "4", "-Q", "2"], ["-j", "3", "-Q", "64"], ["-j", "16", "-Q", "4096"]]
    envs = [{}, {"TZ": "Asia/Tokyo", "LC_ALL": "de_DE.UTF-8"}, {"VP_TIME_OFFSET": "123456789", "LD_PRELOAD": so},
            {"TZ": "America/New_York", "LANG": "C", "VP_TIME_OFFSET": "-99999", "LD_PRELOAD": so},
            # what freshly allocated and freed memory holds is environment too: bytes of a buffer that were never written must not reach the image
            {"MALLOC_PERTURB_": "85"}, {"MALLOC_PERTURB_": "170", "VP_BIG_ENVIRONMENT": "x" * 20000}]
    comps = ["gzip", "xz", "lz4", "zstd"] if tier != "quick" else ["gzip", "zstd"]
    runs = 0
    jobs = []
    for si, s in enumerate(scen):
        for comp in comps if si >= len(scen) - 2 else comps[:1 + si % 2]:
            base = ["-q", "-f", "-c", comp, "-b", "4096", "-F", s.packfile()]
            jobs.append(("gensquashfs", s.dir, base, None, "%s/%s" % (os.path.basename(s.dir), comp)))
    # compressor-specific options (-X): trial strategies / filters / levels are packing options too, and some of them make the
    # codec wrapper keep state between blocks (per worker!): gzip strategy trials, xz filter trials, lz4 hc, zstd level
    xopts = [("gzip", "default,huffman"), ("gzip", "level=9,filtered,rle,fixed"), ("gzip", "huffman,default,window=11"),
             ("xz", "dictsize=8192,x86,arm"), ("xz", "level=1,extreme"), ("lz4", "hc"), ("zstd", "level=12"), ("lzma", "lc=2,lp=1")]
    if tier == "quick":
        xopts = xopts[:3] + xopts[3:5][:1] + xopts[5:7]
    noise = gen.Scenario(work, "s_noise")
    r3 = random.Random(SEED + 9)
    for i in range(8):
        # data on which different strategies win for different blocks: noise, runs, text
        parts = [gen.content(r3, r3.choice(["random", "text", "mixed"]), 4096) for _ in range(6)] + [bytes([i]) * 4096]
        r3.shuffle(parts)
        noise.add_file("/n%02d" % i, b"".join(parts))
    # noise over a restricted alphabet: entropy coding alone (huffman) beats LZ77 + entropy coding on some blocks and loses on others
    for i in range(6):
        noise.add_file("/p%02d" % i, bytes(33 + r3.randrange(90) for _ in range(70000 + 1111 * i)) + gen.content(r3, "text", 30000))
    for comp, xo in xopts:
        for s in (noise, big):
            bsz = "32768" if s is noise else "4096"
            base = ["-q", "-f", "-c", comp, "-X", xo, "-b", bsz, "-F", s.packfile()]
            jobs.append(("gensquashfs", s.dir, base, None, "%s/%s-X%s" % (os.path.basename(s.dir), comp, xo.replace(",", "+").replace("=", ""))))
    # many inodes (tables that grow past their first allocation: export table, id table, inode list) with -e / -x style options
    many = gen.Scenario(work, "s_many")
    for i in range(700):
        if i % 3 == 0:
            many.add_slink("/l%04d" % i, "target/of/link/%d" % i, uid=i % 40, gid=(i * 7) % 50)
        elif i % 3 == 1:
            many.add_pipe("/p%04d" % i, uid=i % 40)
        else:
            many.add_file("/f%04d" % i, b"file %d\n" % i * (i % 5), uid=(i * 3) % 60)
    for comp in comps[:2]:
        for opt in (["-e"], []):
            jobs.append(("gensquashfs", many.dir, ["-q", "-f", "-c", comp, "-b", "4096"] + opt + ["-F", many.packfile()], None,
                         "s_many/%s%s" % (comp, "".join(opt))))
    # options that meet: export table + xattr tables (map file) + sort file (priorities, flags) + compressor options, one block size
    # that makes every file multi-block; the -j / -Q / environment variants below apply to the combination
    combo = gen.Scenario(work, "s_combo")
    r4 = random.Random(SEED + 13)
    for i in range(14):
        combo.add_file("/c%02d" % i, gen.content(r4, r4.choice(["text", "mixed", "random"]), r4.choice([300, 9000, 20000, 70000])))
        if i % 3 == 0:
            combo.set_xattr("c%02d" % i, "user.k", b"v%d" % (i % 2))
    combo.add_file("/cdup", combo.files["c03"])
    sortf = combo.dir + "/sort.txt"
    open(sortf, "w").write("-5 c07\n3 [dont_compress] c01\n3 [dont_fragment,nosparse] c0[45]\n-5 [dont_deduplicate] cdup\n")
    for comp, xo in (("gzip", "level=5,huffman,default"), ("zstd", "level=9")):
        jobs.append(("gensquashfs", combo.dir, ["-q", "-f", "-c", comp, "-X", xo, "-b", "8192", "-e", "-T", "-A", combo.xattrfile(), "-S", sortf, "-F", combo.packfile()], None,
                     "s_combo/%s-e-T-A-S-X" % comp))
    for name, data in tars:
        for comp in comps[:2]:
            d = work + "/" + name
            os.makedirs(d, exist_ok=True)
            jobs.append(("tar2sqfs", d, ["-q", "-f", "-c", comp, "-b", "4096"], data, "%s/%s" % (name, comp)))

    def one(args):
        tool, d, base, stdin, label, k, var, env, bindir, cwd, umask = args
        out = "%s/o_%s_%d.sqfs" % (d, label.replace("/", "_"), k)
        pre = (lambda: os.umask(umask)) if umask is not None else None
        e = dict(os.environ)
        e.update(env)
        import subprocess
        try:
            p = subprocess.run([bindir + "/" + tool] + base + var + [out], input=stdin, capture_output=True, timeout=120,
                               env=e, cwd=cwd, preexec_fn=pre)
            rc = p.returncode
        except subprocess.TimeoutExpired:
            rc = 124
        h = vlib.fsha(out) if rc == 0 and os.path.exists(out) else None
        if os.path.exists(out):
            os.unlink(out)
        return label, k, var, env, rc, h, bindir

    alljobs = []
    for (tool, d, base, stdin, label) in jobs:
        k = 0
        alljobs.append((tool, d, base, stdin, label, k, [], {}, serial, None, None))
        for vi, var in enumerate(variants):
            env = envs[vi % len(envs)]
            k += 1
            alljobs.append((tool, d, base, stdin, label, k, var, env, plain, "/" if vi % 3 == 0 else None, 0o077 if vi % 2 else 0o022))
        if tier != "quick":
            for rep_i in range(6):
                k += 1
                alljobs.append((tool, d, base, stdin, label, k, ["-j", str(2 + rep_i)], {}, plain, None, None))
    results = {}
    with ThreadPoolExecutor(max_workers=6) as ex:
        for label, k, var, env, rc, h, bindir in ex.map(one, alljobs):
            runs += 1
            results.setdefault(label, []).append((k, var, env, rc, h))
    for label, rs in results.items():
        ref = [x for x in rs if x[0] == 0][0]
        if ref[3] != 0 or ref[4] is None:
            raise RuntimeError("serial reference run failed for %s" % label)
        for (k, var, env, rc, h) in rs:
            if rc != 0 or h != ref[4]:
                rep.violation("tool-nondeterminism", "%s: options %s env %s give %s, the serial build gives %s"
                              % (label, var, {a: b for a, b in env.items() if a != "LD_PRELOAD"},
                                 "exit %d" % rc if rc else h[:16], ref[4][:16]),
                              data={"label": label, "options": var, "env": env})
    ev.sample({"kind": "tool-determinism", "inputs": sorted(results), "variants": variants,
               "envs": [{a: b for a, b in e.items() if a != "LD_PRELOAD"} for e in envs]}, limit=6)
    return runs


def run(tier):
    ev = Evidence(PID, tier, "model_checking")
    rep = Reporter(PID, ev)
    bpbind.JUDGE = {"determinism"}          # a check raises alarms for its own property only
    work = scratch("c02")
    if not model_phase(ev, work, tier, DEVS):
        ev.write()
        return 2
    n = replay_phase(ev, rep, work, tier, PID)
    if n is None:
        ev.write()
        return 2
    runs = tool_phase(ev, rep, work, tier)
    ev.set("block_processor_replays", n)
    ev.set("tool_runs", runs)
    ev.set("traces_validated_against_impl", n + runs)
    ev.assumptions += ["the pool hands results back in submission order (decided for threadpool.c by C09)",
                       "compression libraries are deterministic functions of their input",
                       "scripted compressor in the block processor harness: output size dictated by the content id"]
    ev.set("bounds", {"model": "<=3 files x <=1 block + tail (quick), <=4 files / <=2 blocks (thorough); backlog 3..6; block = 4 units"})
    shutil.rmtree(work, ignore_errors=True)
    return rep.finish()


def replay(path):
    d = json.load(open(path))
    print(json.dumps(d, indent=1)[:3000])
    return run("quick")
