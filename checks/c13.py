"""C13 - fail-stop: I/O or allocation failure is reported, never yields a bad image.
Spec: spec/FailStop.tla (a run = fallible steps + one injected fault + the handler the code applies;
outcome rule Allowed).  Binding: exhaustive single-fault enumeration on the real tools through the
LD_PRELOAD shim (k-th write-like / read-like / open / truncate call, k-th allocation made by project code;
ENOSPC, EIO, EINTR, EINTR-then-error, NULL); every run is recorded and TLC validates every record against
Allowed (spec/TraceFailStop.tla)."""
import json, os, random, shutil, subprocess, sys, hashlib
from concurrent.futures import ThreadPoolExecutor
import vlib, build, gen, sqfsimg
from vlib import VERIF, Evidence, Reporter, run_tlc, write_cfg, scratch, SEED, sh

PID = "C13"
CLASSNAME = {"w": "write", "r": "read", "o": "open", "t": "truncate", "a": "alloc"}


def snapshot(root):
    h = hashlib.sha256()
    for d, dn, fn in sorted(os.walk(root)):
        dn.sort()
        for n in sorted(fn + dn):
            p = os.path.join(d, n)
            st = os.lstat(p)
            h.update(("%s %o %d\n" % (os.path.relpath(p, root), st.st_mode, st.st_size if os.path.isfile(p) else 0)).encode())
            if os.path.isfile(p) and not os.path.islink(p):
                h.update(open(p, "rb").read())
            if os.path.islink(p):
                h.update(os.readlink(p).encode())
    return h.hexdigest()


class Case:
    def __init__(self, name, tool, args, workdir, packer, stdin=None, out=None, stdout_is_output=False, outdir=None):
        self.name, self.tool, self.args, self.dir, self.packer = name, tool, args, workdir, packer
        self.stdin, self.out, self.stdout_is_output, self.outdir = stdin, out, stdout_is_output, outdir

    def run(self, tools, env, tag):
        """returns dict(exit, signal, timeout, diag, outExists, digest)"""
        out = self.out and self.out.replace("@", tag)
        outdir = self.outdir and self.outdir.replace("@", tag)
        args = [a.replace("@", tag) for a in self.args]
        if out and os.path.exists(out):
            os.unlink(out)
        if outdir:
            shutil.rmtree(outdir, ignore_errors=True)
            os.makedirs(outdir)
        e = dict(os.environ)
        e.update(env)
        stdout_path = self.dir + "/stdout_%s_%s.bin" % (self.name, tag)          # cases share directories and run in parallel
        try:
            with open(stdout_path, "wb") as so:
                p = subprocess.run([tools + "/" + self.tool] + args, input=self.stdin, stdout=so, stderr=subprocess.PIPE,
                                   timeout=60, env=e, cwd=outdir or self.dir)
            rc, err = p.returncode, p.stderr
        except subprocess.TimeoutExpired:
            rc, err = 124, b""
        r = {"exit": rc if rc >= 0 else 128 - rc, "signal": rc < 0 or rc in (134, 139), "timeout": rc == 124,
             "diag": len(err) > 0, "stderr": err[-300:].decode(errors="replace")}
        if self.stdout_is_output:
            r["outExists"] = False
            r["digest"] = vlib.fsha(stdout_path)
        elif outdir:
            r["outExists"] = False
            r["digest"] = snapshot(outdir)
        else:
            r["outExists"] = os.path.exists(out)
            r["digest"] = vlib.fsha(out) if r["outExists"] else None
            r["outsize"] = os.path.getsize(out) if r["outExists"] else -1
        for f in (stdout_path, out):
            if f and os.path.exists(f):
                os.unlink(f)
        if outdir:
            shutil.rmtree(outdir, ignore_errors=True)
        return r


def alloc_site(tools, so, case, k):
    """function containing the k-th allocation made by project code (identifies the failing call site)"""
    env = dict(os.environ)
    env.update({"LD_PRELOAD": so, "VP_ALLOC_FAIL_AT": str(k), "VP_ALLOC_TRACE": "1"})
    args = [a.replace("@", "site") for a in case.args]
    outdir = case.outdir and case.outdir.replace("@", "site")
    if outdir:
        shutil.rmtree(outdir, ignore_errors=True)
        os.makedirs(outdir)
    try:
        p = subprocess.run([tools + "/" + case.tool] + args, input=case.stdin, capture_output=True, timeout=60, env=env,
                           cwd=outdir or case.dir)
        err = p.stderr.decode(errors="replace")
    except subprocess.TimeoutExpired:
        return "unknown"
    finally:
        if outdir:
            shutil.rmtree(outdir, ignore_errors=True)
        o = case.out and case.out.replace("@", "site")
        if o and os.path.exists(o):
            os.unlink(o)
    if "called from +" not in err:
        return "unknown"
    off = err.split("called from +")[1].split()[0]
    q = subprocess.run(["addr2line", "-f", "-e", tools + "/" + case.tool, off], capture_output=True, text=True)
    return (q.stdout.split("\n")[0] or "unknown").strip()


def model_phase(ev, work):
    steps_packer = '<<[class |-> "alloc", affectsOutput |-> FALSE], [class |-> "open_out", affectsOutput |-> FALSE], [class |-> "alloc", affectsOutput |-> TRUE], [class |-> "open", affectsOutput |-> TRUE], [class |-> "read", affectsOutput |-> TRUE], [class |-> "write", affectsOutput |-> TRUE], [class |-> "truncate", affectsOutput |-> TRUE], [class |-> "write", affectsOutput |-> TRUE]>>'
    good = ('[c \\in {"alloc", "open", "open_out", "read", "write", "truncate"} |-> [k \\in {"ERR", "EINTR", "EINTR_THEN_ERR", "NULL"} |-> '
            'IF k = "EINTR" /\\ c \\in {"read", "write"} THEN "retry" ELSE "propagate"]]')

    def dev(cls, kind, h):
        return ('[c \\in {"alloc", "open", "open_out", "read", "write", "truncate"} |-> [k \\in {"ERR", "EINTR", "EINTR_THEN_ERR", "NULL"} |-> '
                'IF c = "%s" /\\ k = "%s" THEN "%s" ELSE IF k = "EINTR" /\\ c \\in {"read", "write"} THEN "retry" ELSE "propagate"]]' % (cls, kind, h))

    cfg = work + "/fs.cfg"
    res = {}
    for name, handler in [("none", good), ("WriteErrorIgnored", dev("write", "ERR", "ignore")), ("CleanupKeepsFile", dev("alloc", "NULL", "leave")),
                          ("NullDereferenced", dev("alloc", "NULL", "crash")), ("EintrIsError", dev("read", "EINTR", "propagate")),
                          ("TruncateErrorIgnored", dev("truncate", "ERR", "ignore"))]:
        write_cfg(cfg, spec="Spec", constants={"Packer": True}, defs={"Steps": steps_packer, "Handler": handler},
                  invariants=["FailStopOK"], deadlock=False)
        r = run_tlc("FailStop", cfg, workers=2, timeout=300)
        ev.tlc(r, "FailStop handlers=%s" % name)
        res[name] = r["violated"]
    if res.pop("none"):
        print("MODEL-FAILURE: FailStop violates its own rule")
        return False
    ev.set("deviations", {k: bool(v) for k, v in res.items()})
    if not all(res.values()):
        print("SELF-CHECK-FAILED: deviation without counterexample: %s" % res)
        return False
    return True


def run(tier):
    ev = Evidence(PID, tier, "fault_enumeration")
    rep = Reporter(PID, ev)
    work = scratch("c13")
    if not model_phase(ev, work):
        ev.write()
        return 2
    tools = build.build("plain") + "/bin"
    so = vlib.preload_so()
    rng = random.Random(SEED)
    scen = gen.standard_scenarios(work, rng, bs=4096)
    s = scen[2]            # duplicates: exercises truncate + pread
    # all-zero tails: the sparse branch of the fragment path (its own inode bookkeeping and allocations)
    s.add_file("/ztail", b"\0" * 100)
    s.add_file("/zblock_ztail", b"\0" * (4096 + 50))
    s.add_file("/data_ztail", bytes(range(256)) * 16 + b"\0" * 70)
    # tails that duplicate a tail whose fragment block is already on disk: the candidate is read back from the output file
    for i in range(14):
        s.add_file("/t_%02d" % i, gen.content(rng, "random", 900 + i))
    s.add_file("/t_dup_mid", s.files["t_07"])            # candidate in a later fragment block (the block cache starts out as "block 0")
    s.add_file("/t_dup_first", s.files["t_00"])
    s.add_file("/t_dup_second", s.files["t_01"])
    s.add_file("/t_dup_mid2", s.files["t_11"])
    tarb = gen.standard_tars(rng)[0][1]
    img = work + "/ref.sqfs"
    rc, o, e = sh([tools + "/gensquashfs", "-q", "-f", "-c", "gzip", "-b", "4096", "-F", scen[1].packfile(), img], timeout=60)
    if rc:
        raise RuntimeError("cannot build reference image")
    cases = [Case("gensquashfs", "gensquashfs", ["-q", "-f", "-c", "gzip", "-b", "4096", "-j", "2", "-Q", "3", "-e", "-F", s.packfile(), s.dir + "/o_@.sqfs"], s.dir, True, out=s.dir + "/o_@.sqfs"),
             Case("tar2sqfs", "tar2sqfs", ["-q", "-f", "-c", "zstd", "-b", "4096", work + "/t_@.sqfs"], work, True, stdin=tarb, out=work + "/t_@.sqfs"),
             Case("sqfs2tar", "sqfs2tar", [img], work, False, stdout_is_output=True),
             Case("rdsquashfs-cat", "rdsquashfs", ["-c", "big", img], work, False, stdout_is_output=True),
             Case("rdsquashfs-unpack", "rdsquashfs", ["-q", "-u", "/", "-p", ".", img], work, False, outdir=work + "/un_@")]
    # --pack-dir (the directory scan with its allocations per sub directory, the change of directory before the files are read), the DEFAULT
    # compressor (chosen by probing) and an output file named RELATIVE to the directory the tool is started in
    pdir = work + "/pdir"
    os.makedirs(pdir + "/sub/deeper", exist_ok=True)
    for nm, n in (("a.bin", 9000), ("sub/b.bin", 5000), ("sub/deeper/c.txt", 300), ("sub/dup.bin", 9000)):
        with open(os.path.join(pdir, nm), "wb") as f:
            f.write(gen.content(random.Random(len(nm)), "text", n))
    os.symlink("a.bin", pdir + "/link")
    for dp, dn, fn in os.walk(pdir):
        for x in dn + fn:
            os.utime(os.path.join(dp, x), (1000, 1000), follow_symlinks=False)
    cases.append(Case("gensquashfs-packdir", "gensquashfs", ["-q", "-f", "-b", "4096", "-D", "pdir", "rel_@.sqfs"], work, True, out=work + "/rel_@.sqfs"))
    # exactly 512 entries + the root = inode 513 with -e: the export table array (initial capacity 512) grows when the root entry is
    # added, at the very end of the run - an allocation whose failure must not be taken for "nothing to do"
    s3 = gen.Scenario(work, "s_export513")
    for i in range(512):
        s3.add_pipe("/p%03d" % i)
    ce = Case("gensquashfs-export513", "gensquashfs", ["-q", "-f", "-c", "gzip", "-e", "-F", s3.packfile(), s3.dir + "/o_@.sqfs"], s3.dir, True, out=s3.dir + "/o_@.sqfs")
    ce.alloc_tail = 80                     # only allocation faults, only the last 80 positions
    cases.append(ce)
    if tier != "quick":
        s2 = scen[4]
        cases += [Case("gensquashfs-xz-many", "gensquashfs", ["-q", "-f", "-c", "xz", "-b", "4096", "-e", "-F", s2.packfile(), s2.dir + "/o_@.sqfs"], s2.dir, True, out=s2.dir + "/o_@.sqfs"),
                  Case("sqfs2tar-gzip", "sqfs2tar", ["-c", "gzip", img], work, False, stdout_is_output=True),
                  Case("rdsquashfs-describe", "rdsquashfs", ["-d", img], work, False, stdout_is_output=True)]
    # readers on an image WITH extended attributes (the xattr reader's tables and its two meta data readers are loaded, every one an allocation):
    # what is printed / archived with exit 0 has to be what the fault-free run gives, attributes included
    xa_img = work + "/refxa.sqfs"
    open(work + "/refxa_pack.txt", "w").write("file /big 0644 0 0 %s\ndir /d 0755 0 0\nfile /d/f 0644 0 0 %s\n" % (scen[1].dir + "/pack.txt", scen[1].dir + "/pack.txt"))
    open(work + "/refxa_xattr.txt", "w").write("# file: big\nuser.a=0x3132\nuser.long=\"%s\"\n\n# file: d/f\nuser.a=0x3132\n\n# file: d\nuser.d=\"dir\"\n" % ("v" * 300))
    rc, o, e = sh([tools + "/gensquashfs", "-q", "-f", "-F", work + "/refxa_pack.txt", "-A", work + "/refxa_xattr.txt", xa_img], timeout=60)
    if rc:
        raise RuntimeError("cannot build the xattr image: %s" % e[-200:])
    cx1 = Case("rdsquashfs-xattr", "rdsquashfs", ["-x", "big", xa_img], work, False, stdout_is_output=True)
    cx2 = Case("sqfs2tar-xattr", "sqfs2tar", [xa_img], work, False, stdout_is_output=True)
    cx1.alloc_only = cx2.alloc_only = True
    cases += [cx1, cx2]
    records = []
    plan = []
    for c in cases:
        base = c.run(tools, {"LD_PRELOAD": so}, "base")
        if base["exit"] != 0:
            raise RuntimeError("fault-free run of %s failed: %s" % (c.name, base["stderr"]))
        c.base = base
        counts = {}
        for cls in "wrot":
            cnt = c.dir + "/cnt_%s_%s.txt" % (c.name, cls)
            if os.path.exists(cnt):
                os.unlink(cnt)
            c.run(tools, {"LD_PRELOAD": so, "VP_FAIL_CLASS": cls, "VP_COUNT_LOG": cnt}, "cnt")
            vals = [l.split() for l in open(cnt)] if os.path.exists(cnt) else []
            counts[cls] = max([int(v[2]) for v in vals] + [0])
            counts["a"] = max([int(v[0]) for v in vals] + [counts.get("a", 0)])
        c.counts = counts
        cap = 400 if tier == "quick" else 5000
        for cls in ("" if getattr(c, "alloc_tail", 0) or getattr(c, "alloc_only", False) else "wrot"):
            n = counts[cls]
            ks = list(range(1, n + 1))
            if len(ks) > cap:
                ks = sorted(rng.sample(ks, cap))
            kinds = {"w": [("ERR", 28), ("ERR", 5), ("EINTR", 4), ("EINTR_THEN_ERR", 5)], "r": [("ERR", 5), ("EINTR", 4), ("EINTR_THEN_ERR", 5)],
                     "o": [("ERR", 13)], "t": [("ERR", 5)]}[cls]
            for k in ks:
                for kind, errno in (kinds if tier != "quick" else kinds[:1] + kinds[2:]):
                    plan.append((c, cls, kind, errno, k))
        ks = list(range(1, counts["a"] + 1))
        if getattr(c, "alloc_tail", 0):
            ks = ks[-c.alloc_tail:]
        if len(ks) > cap:
            ks = sorted(rng.sample(ks, cap))
        for k in ks:
            plan.append((c, "a", "NULL", 0, k))

    def do(job):
        c, cls, kind, errno, k = job
        env = {"LD_PRELOAD": so}
        if cls == "a":
            env["VP_ALLOC_FAIL_AT"] = str(k)
        else:
            env.update({"VP_FAIL_CLASS": cls, "VP_FAIL_AT": str(k), "VP_FAIL_ERRNO": str(errno)})
            if kind == "EINTR_THEN_ERR":
                env["VP_FAIL_EINTR_FIRST"] = "1"
        r = c.run(tools, env, "%s%d_%s%d" % (cls, k, kind, errno))
        r.update({"tool": c.name, "class": CLASSNAME[cls], "kind": kind, "k": k, "errno": errno, "packer": c.packer,
                  "outSame": r["digest"] == c.base["digest"]})
        return r

    with ThreadPoolExecutor(max_workers=16) as ex:
        records = list(ex.map(do, plan))
    # ---- a failure inside a worker (the codec reports an error, e.g. its own allocation failed) must reach the caller of the
    #      block processor: spec/BlockProc.tla ErrorReported, every emitted input with a failing block on the real code -----------
    import bpbind
    bcfg = work + "/bperr.cfg"
    bargs = dict(nf=2, mb=1, ids=["a", "x", "z"], backlogs=(3, 5), flagsets=[[], ["DONT_FRAGMENT"]], tails=(1, 3), failids=("x",))
    bpbind.cfg_for(bcfg, invariants=("ErrorReported",), **bargs)
    r = run_tlc("BlockProc", bcfg, workers=16, timeout=1200, heap="12g")
    ev.tlc(r, "BlockProc ErrorReported (compressor fails on content x)")
    if not r["ok"]:
        print("MODEL-FAILURE: BlockProc violates %s" % r["violated"])
        ev.write()
        return 2
    bpbind.cfg_for(bcfg, invariants=("ErrorReported",), finish_checks=False, **bargs)
    r = run_tlc("BlockProc", bcfg, workers=16, timeout=1200, heap="12g")
    ev.tlc(r, "dev finish() without a look at the pool status (pre-fix tree)")
    if r["violated"] != "ErrorReported":
        print("SELF-CHECK-FAILED: FinishChecksStatus=FALSE without counterexample")
        ev.write()
        return 2
    bpbind.cfg_for(bcfg, invariants=("ErrorReported",), emit=True, **bargs)
    r = run_tlc("BlockProc", bcfg, workers=8, timeout=1200, heap="12g")
    em = [e for e in bpbind.parse_emitted(r["out"]) if any("x" in f["blocks"] or any(t["c"] == "x" for t in f["tail"]) for f in e["input"])]
    rng.shuffle(em)
    em = em[:400 if tier == "quick" else 6000]
    hb = {v: bpbind.build_harness(work, v) for v in ("plain", "serial")}
    swallowed = 0

    def bperr(k):
        e = em[k]
        out = []
        for variant, W in (("serial", 1), ("plain", 1), ("plain", 3)):
            pth = "%s/bperr_%d_%s%d.txt" % (work, k, variant, W)
            bpbind.input_file(pth, e["input"], e["mb"], W, failids=("x",))
            rc, o, er = sh([hb[variant], pth], timeout=60)
            try:
                real = json.loads(o.decode().strip().split("\n")[-1])
            except Exception:
                real = {"err": None, "crash": rc}
            out.append((variant, W, real.get("err"), pth))
        return k, out

    with ThreadPoolExecutor(max_workers=12) as ex:
        for k, out in ex.map(bperr, range(len(em))):
            for variant, W, err, pth in out:
                # does the model expect the compressor to be called on an x block at all? (sparse / dont_compress / fragments are not compressed)
                if err == 0 and em[k]["res"].get("pfail", True):
                    swallowed += 1
                    rep.violation("blockproc-worker-error-swallowed", "block processor (%s build, %d workers): the compressor failed on a block, every call up to "
                                  "sqfs_block_processor_finish returned 0; input %s" % (variant, W, json.dumps(em[k]["input"])), artefact=pth, data={"input": em[k]["input"]})
                elif err is None:
                    rep.violation("blockproc-crash", "block processor harness died on input %s" % json.dumps(em[k]["input"]), artefact=pth)
    ev.set("worker_failure_inputs_replayed", len(em) * 3)
    # ---- standard output on a full device: every write fails with ENOSPC (also reaches the stdio paths of -l/-d/-s/-x,
    #      whose write() calls inside glibc the preload shim cannot intercept) ------------------------------------
    ximg = work + "/refx.sqfs"
    open(work + "/refx_pack.txt", "w").write("file /big 0644 0 0 %s\ndir /d 0755 0 0\nslink /d/l 0777 0 0 big\n" % (scen[1].dir + "/pack.txt"))
    open(work + "/refx_xattr.txt", "w").write("# file: big\nuser.a=0x3132\n")
    rc, o, e = sh([tools + "/gensquashfs", "-q", "-f", "-F", work + "/refx_pack.txt", "-A", work + "/refx_xattr.txt", ximg], timeout=60)
    if rc:
        raise RuntimeError("cannot build the xattr reference image: %s" % e[-200:])
    devfull = [("rdsquashfs-list", ["rdsquashfs", "-l", "/", ximg]), ("rdsquashfs-describe", ["rdsquashfs", "-d", ximg]),
               ("rdsquashfs-stat", ["rdsquashfs", "-s", "big", ximg]), ("rdsquashfs-xattr", ["rdsquashfs", "-x", "big", ximg]),
               ("rdsquashfs-cat", ["rdsquashfs", "-c", "big", ximg]), ("sqfs2tar", ["sqfs2tar", ximg]), ("sqfs2tar-gzip", ["sqfs2tar", "-c", "gzip", ximg])]

    def run_devfull(name, cmd):
        try:
            with open("/dev/full", "wb") as full:
                p = subprocess.run([tools + "/" + cmd[0]] + cmd[1:], stdout=full, stderr=subprocess.PIPE, stdin=subprocess.DEVNULL, timeout=30)
            rc, err, to = p.returncode, p.stderr, False
        except subprocess.TimeoutExpired:
            rc, err, to = 124, b"", True
        return {"tool": name + "@stdout=/dev/full", "class": "write", "kind": "ERR", "k": 0, "errno": 28, "packer": False, "exit": rc if rc >= 0 else 128 - rc,
                "signal": rc < 0, "timeout": to, "diag": bool(err.strip()), "outExists": False, "outSame": False, "devfull": [name, cmd]}
    records += [run_devfull(n, c) for n, c in devfull]
    # ---- TLC judges every record --------------------------------------------------------------------
    tr = work + "/runs.ndjson"
    with open(tr, "w") as f:
        for r in records:
            f.write(json.dumps({k: r[k] for k in ("exit", "signal", "timeout", "diag", "outExists", "outSame", "packer", "class", "kind")}) + "\n")
    cfg = work + "/t.cfg"
    write_cfg(cfg, init="TInit", nxt="TNext", constants={"Packer": True},
              defs={"Steps": '<<[class |-> "alloc", affectsOutput |-> FALSE]>>',
                    "Handler": '[c \\in {"alloc"} |-> [k \\in {"NULL"} |-> "propagate"]]'},
              invariants=["AllRunsFailStop"], deadlock=False)
    r = run_tlc("TraceFailStop", cfg, workers=1, timeout=1200, env={"TRACE": tr}, heap="8g")
    ev.tlc(r, "TraceFailStop (%d faulted runs)" % len(records))
    bad = []
    if r["violated"] == "AllRunsFailStop":
        bad = sorted(r["trace"][0]["bad"])
    elif not r["ok"]:
        raise RuntimeError("trace validation did not run: %s" % r["out"][-600:])
    classes = {}
    for i in bad:
        x = records[i - 1]
        if x["signal"]:
            oc = "crash"
        elif x["timeout"]:
            oc = "hang"
        elif x["exit"] == 0:
            oc = "exit0-different-output"
        elif x["packer"] and x["outExists"]:
            oc = "leftover-output" + ("-init" if x.get("outsize", 0) <= 96 else "")
        elif not x["diag"]:
            oc = "no-diagnostic"
        else:
            oc = "eintr-not-retried"
        key = "%s-%s-%s-%s" % (x["tool"], x["class"], x["kind"], oc)
        if x["class"] == "alloc":
            key += "@" + alloc_site(tools, so, [c for c in cases if c.name == x["tool"]][0], x["k"])
        classes.setdefault(key, []).append(x)
    for key, xs in sorted(classes.items()):
        x = xs[0]
        # reproduce once
        if "devfull" in x:
            again = run_devfull(*x["devfull"])
        else:
            c = [c for c in cases if c.name == x["tool"]][0]
            again = do((c, {v: k for k, v in CLASSNAME.items()}[x["class"]], x["kind"], x["errno"], x["k"]))
        if (again["exit"], again["outExists"], again["outSame"], again["signal"]) == (x["exit"], x["outExists"], x["outSame"], x["signal"]):
            rep.violation(key, "%s: %s fault (%s) at call %d of that class (0 = every call) -> exit %d, output %s, diagnostic %s (%d such positions: %s)"
                          % (x["tool"], x["class"], x["kind"], x["k"], x["exit"],
                             "left behind" if x["outExists"] else ("identical" if x["outSame"] else "different/absent"),
                             "yes" if x["diag"] else "none", len(xs), [y["k"] for y in xs][:12]),
                          data={"record": x, "positions": [y["k"] for y in xs]})
    # evidence
    dist = {}
    for x in records:
        oc = "ok-same" if x["exit"] == 0 and x["outSame"] else ("fail-clean" if x["exit"] != 0 and not (x["packer"] and x["outExists"]) else "other")
        dist["%s/%s/%s" % (x["tool"], x["class"], oc)] = dist.get("%s/%s/%s" % (x["tool"], x["class"], oc), 0) + 1
    ev.set("evaluations", len(records))
    ev.set("distinct_nontrivial", len({(x["tool"], x["class"], x["kind"], x["k"]) for x in records if x["exit"] != 0 or not x["outSame"]}))
    ev.set("rule", "one run per (tool, fault class, fault kind, position k): k ranges over every call of that class observed in a dry run "
                   "(all positions in quick unless > 400 per class, then a seeded sample); non-trivial = the fault changed the run's outcome")
    ev.set("outcome_distribution", dist)
    ev.set("call_counts", {c.name: c.counts for c in cases})
    for x in records[:3] + [records[i - 1] for i in bad[:2]]:
        ev.sample({k: x[k] for k in ("tool", "class", "kind", "k", "exit", "diag", "outExists", "outSame")}, limit=6)
    ev.set("traces_validated_against_impl", len(records))
    ev.assumptions += ["single faults only; faults inside the compression libraries' own allocations are not injected",
                       "stdio output paths (rdsquashfs -l/-d) are reached by faults on fd 1 only when glibc calls write through the PLT"]
    shutil.rmtree(work, ignore_errors=True)
    return rep.finish()


def replay(path):
    d = json.load(open(path))
    print(json.dumps(d, indent=1)[:3000])
    return run("quick")
