"""C16 - rdsquashfs --describe output is valid gensquashfs input rebuilding the tree.
Spec: spec/Describe.tla (printer o tokenizer o line grammar over character classes; RoundTrip).
Binding R: every name / target over the class alphabet up to a length is put into real images (independent
encoder), described by the real rdsquashfs (with and without --unpack-root), unpacked, re-packed by the
real gensquashfs --pack-file and the decoded trees are compared entry by entry."""
import itertools, json, os, random, shutil, subprocess, sys
from concurrent.futures import ThreadPoolExecutor
import vlib, build, bpbind, sqfsimg
from vlib import VERIF, Evidence, Reporter, run_tlc, write_cfg, scratch, SEED, sh

PID = "C16"
CLS = {"p": b"a", "s": b" ", "t": b"\t", "q": b'"', "b": b"\\", "h": b"#", "w": b"\r"}
REV = {v: k for k, v in CLS.items()}


def classes(s):
    return "".join(REV.get(bytes([c]), "p") for c in s)


def strings(maxlen, extra_plain=(b"z", b"\xc3\xa4")):
    out = []
    for n in range(1, maxlen + 1):
        for t in itertools.product("psqtbhw", repeat=n):
            out.append(b"".join(CLS[c] for c in t))
    return out


DEVS = [(1, 3), (8, 0), (136, 300), (188, 256), (4, 255), (259, 70000), (4095, 1048575), (0, 0), (199, 12)]


def build_image(names, targets, path):
    kids = []
    for i, nm in enumerate(names):
        k = i % 6
        base = {"name": b"%d_" % k + nm, "mode": 0o640 + (i % 8), "uid": i % 5, "gid": (i * 3) % 7}
        if k == 0:
            kids.append(dict(base, kind="dir", children=[]))
        elif k == 1:
            kids.append(dict(base, kind="file", data=(b"content %d " % i) * (1 + i % 50)))
        elif k == 2:
            kids.append(dict(base, kind="slink", target=targets[i % len(targets)], mode=0o777))
        elif k == 3:
            kids.append(dict(base, kind="fifo"))
        elif k == 4:
            kids.append(dict(base, kind="sock"))
        else:
            # device numbers: small ones and the classes of the 12 + 20 bit encoding (minor 255 / 256 / beyond 16 bit / the largest, major beyond 8 bit / the largest)
            maj, mnr = DEVS[(i // 6) % len(DEVS)]
            kids.append(dict(base, kind="chr" if i % 2 else "blk", devno=(maj << 8) | (mnr & 0xff) | ((mnr & ~0xff) << 12)))
    root = {"kind": "dir", "name": b"", "mode": 0o755, "children": kids}
    raw, _ = sqfsimg.encode(root, {"frag": True, "block_size": 4096})
    open(path, "wb").write(raw)
    return sqfsimg.SqfsImage(raw)


def tree_of(img):
    t = img.tree()
    out = {}
    for p, n in t.items():
        if p == b"":
            continue
        rec = (n["kind"], n["mode"], n["uid"], n["gid"], n.get("target"), n.get("devno"), n.get("sha"))
        out[p] = rec
    return out


def roundtrip(tools, work, tag, names, targets, unpack_root, rootname="un"):
    d = work + "/" + tag
    un = d + "/" + rootname          # the unpack root: its name goes through the same printer when --unpack-root is used
    os.makedirs(un, exist_ok=True)
    img = d + "/orig.sqfs"
    orig = tree_of(build_image(names, targets, img))
    args = [tools + "/rdsquashfs", "-d"] + (["-p", un] if unpack_root else []) + [img]
    rc, listing, e = sh(args, timeout=60)
    if rc != 0:
        return [("describe-fails", "rdsquashfs --describe fails: %s" % e.decode(errors="replace")[-200:], None)], 0
    rc, o, e = sh([tools + "/rdsquashfs", "-q", "-u", "/", "-p", un, img], timeout=120)
    if rc != 0:
        return [("unpack-fails", "rdsquashfs -u fails: %s" % e.decode(errors="replace")[-200:], None)], 0
    lf = d + "/list.txt"
    open(lf, "wb").write(listing)
    out = d + "/re.sqfs"
    cmd = [tools + "/gensquashfs", "-q", "-f", "-c", "gzip", "-b", "4096", "-F", lf] + ([] if unpack_root else ["-D", un]) + [out]
    rc, o, e = sh(cmd, timeout=120)
    bad = []
    n_ok = 0
    if rc == 0:
        re = tree_of(sqfsimg.load(out))
        for p, rec in orig.items():
            if re.get(p) != rec:
                bad.append(("describe-differs", "entry %r comes back as %s instead of %s" % (p, re.get(p), rec), p))
            else:
                n_ok += 1
        for p in re:
            if p not in orig:
                bad.append(("describe-extra", "rebuilt image has an extra entry %r" % p, p))
    else:
        # find the offending lines one by one
        lines = listing.split(b"\n")
        dirs = [l for l in lines if l.startswith(b"dir ")]
        for ln in lines:
            if not ln.strip():
                continue
            one = d + "/one.txt"
            open(one, "wb").write(ln + b"\n")
            rc1, o1, e1 = sh([tools + "/gensquashfs", "-q", "-f", "-F", one] + ([] if unpack_root else ["-D", un]) + [d + "/one.sqfs"], timeout=30)
            if rc1 != 0:
                bad.append(("describe-rejected", "gensquashfs rejects the line %r: %s" % (ln, e1.decode(errors="replace").strip()[-120:]), ln))
            else:
                n_ok += 1
    return bad, n_ok


def line_reader_stage(work, ev, rep, tier, rng):
    """spec/LineReader.tla: the delivered lines do not depend on where the stream's buffers end.  Every (text, cut, flags) TLC emits is
    placed so that the file stream's 128 KiB buffer ends exactly `cut` characters into the text, and read by the real istream_get_line."""
    cfg = work + "/lr.cfg"
    ML = 4 if tier == "quick" else 5
    write_cfg(cfg, spec="Spec", constants={"MaxLen": ML + 1, "Emit": False, "CrPerChunk": False}, invariants=["ChunkIndependent", "ImplIsSpec"], deadlock=False)
    r = run_tlc("LineReader", cfg, workers=16, timeout=1800)
    ev.tlc(r, "LineReader texts<=%d" % (ML + 1))
    if not r["ok"]:
        print("MODEL-FAILURE: LineReader violates %s" % r["violated"])
        return None
    write_cfg(cfg, spec="Spec", constants={"MaxLen": 3, "Emit": False, "CrPerChunk": True}, invariants=["ChunkIndependent", "ImplIsSpec"], deadlock=False)
    r = run_tlc("LineReader", cfg, workers=4, timeout=600)
    ev.tlc(r, "dev LineReader CrPerChunk")
    if not r["violated"]:
        print("SELF-CHECK-FAILED: CrPerChunk without counterexample")
        return None
    write_cfg(cfg, spec="Spec", constants={"MaxLen": ML, "Emit": True, "CrPerChunk": False}, invariants=["EmitOK"], deadlock=False)
    r = run_tlc("LineReader", cfg, workers=4, timeout=900)
    cases = bpbind.parse_emitted(r["out"])
    ev.set("line_reader_cases_emitted", len(cases))
    withcr = [c for c in cases if "r" in c["text"]]
    rest = [c for c in cases if "r" not in c["text"]]
    rng.shuffle(withcr)
    rng.shuffle(rest)
    cap = 500 if tier == "quick" else 6000
    cases = withcr[:cap] + rest[:cap // 4]
    binp = work + "/replay_getline"
    if not build.compile_harness(VERIF + "/harness/replay_getline.c", binp, variant="plain"):
        raise RuntimeError("harness build failed")
    CH = {"p": b"a", "s": b" ", "r": b"\r", "n": b"\n"}
    BUF = build.src_define("lib/sqfs/src/io/istream.c", "BUFSZ", 131072)      # the file stream's buffer in the tree under test

    def one(i):
        c = cases[i]
        txt = b"".join(CH[x] for x in c["text"])
        pad = b"x" * (BUF - c["cut"] - 1) + b"\n"          # one pad line; the buffer ends c["cut"] characters into the text
        p = "%s/lr%d.txt" % (work, i)
        open(p, "wb").write(pad + txt)
        fl = "".join(c["flags"]) or "-"
        rc, o, e = sh([binp, p, fl, "1"], timeout=30)
        os.unlink(p)
        try:
            got = [bytes.fromhex(h) for h in json.loads(o.decode())["lines"]]
        except Exception:
            return i, "harness died (rc %d)" % rc
        want = [b"".join(CH[x] for x in l) for l in c["lines"]]
        return i, (None if got == want else "delivers %r, the text means %r" % (got, want))

    n = 0
    with ThreadPoolExecutor(max_workers=16) as ex:
        for i, bad in ex.map(one, range(len(cases))):
            n += 1
            if bad:
                c = cases[i]
                rep.violation("line-reader-chunk-dependent", "istream_get_line on the text %r with the stream buffer ending after %d characters (flags %s): %s"
                              % (b"".join(CH[x] for x in c["text"]), c["cut"], c["flags"], bad), data={"case": c})
    return n


def walk_stage(tools, work, ev, rep, tier):
    """spec/DescribeWalk.tla: order and completeness of the listing over tree SHAPES (a directory as first / last / only entry of its parent,
    followed or not by entries on the levels above).  Every emitted tree is packed, described and the listing fed to gensquashfs again."""
    cfg = work + "/dw.cfg"
    write_cfg(cfg, spec="Spec", constants={"Emit": False, "Walk": '"recursive"'}, invariants=["Complete", "ParentsFirst"], deadlock=False)
    r = run_tlc("DescribeWalk", cfg, workers=4, timeout=600)
    ev.tlc(r, "DescribeWalk")
    if not r["ok"]:
        print("MODEL-FAILURE: DescribeWalk violates %s" % r["violated"])
        return None
    for dev in ("climb_one", "children_first"):
        write_cfg(cfg, spec="Spec", constants={"Emit": False, "Walk": '"%s"' % dev}, invariants=["Complete", "ParentsFirst"], deadlock=False)
        r = run_tlc("DescribeWalk", cfg, workers=4, timeout=600)
        ev.tlc(r, "dev DescribeWalk " + dev)
        if not r["violated"]:
            print("SELF-CHECK-FAILED: DescribeWalk deviation %s without counterexample" % dev)
            return None
    write_cfg(cfg, spec="Spec", constants={"Emit": True, "Walk": '"recursive"'}, invariants=["EmitOK"], deadlock=False)
    r = run_tlc("DescribeWalk", cfg, workers=2, timeout=600)
    cases = bpbind.parse_emitted(r["out"])
    if len(cases) < 40:
        print("SELF-CHECK-FAILED: DescribeWalk emitted %d trees" % len(cases))
        return None
    src = work + "/walk_src.bin"
    open(src, "wb").write(b"walk\n")

    def lines_of(nodes, prefix):
        out = []
        for n in nodes:
            p = prefix + "/" + n["name"]
            out.append(("dir %s 0755 0 0" % p) if n["isdir"] else ("file %s 0644 0 0 %s" % (p, src)))
            out += lines_of(n["kids"], p)
        return out

    def do(i):
        c = cases[i]
        d = "%s/walk%d" % (work, i)
        os.makedirs(d, exist_ok=True)
        open(d + "/p.txt", "w").write("\n".join(lines_of(c["tree"], "")) + "\n")
        rc, o, e = sh([tools + "/gensquashfs", "-q", "-f", "-F", d + "/p.txt", d + "/a.sqfs"], timeout=60)
        if rc:
            return i, "gensquashfs fails on the tree: %s" % e.decode(errors="replace")[-120:]
        rc, o, e = sh([tools + "/rdsquashfs", "-d", d + "/a.sqfs"], timeout=60)
        if rc:
            return i, "rdsquashfs -d fails: %s" % e.decode(errors="replace")[-120:]
        def name_of(l):
            rest = l.split(None, 1)[1]
            if rest.startswith('"'):                       # a quoted field: up to the closing quote, backslash escapes the next character
                out, k = "", 1
                while k < len(rest) and rest[k] != '"':
                    if rest[k] == "\\":
                        k += 1
                    out += rest[k]
                    k += 1
                return out
            return rest.split()[0]
        got = [name_of(l) for l in o.decode().split("\n") if l.strip()]
        want = ["/".join(p) for p in c["listing"]]
        if sorted(got) != sorted(want):
            return i, "listing has %d lines for %d entries: missing %s, extra %s" % (len(got), len(want), sorted(set(want) - set(got))[:4], sorted(set(got) - set(want))[:4])
        for k, p in enumerate(got):
            if "/" in p and p.rsplit("/", 1)[0] not in got[:k]:
                return i, "entry %s is listed before its directory" % p
        open(d + "/l.txt", "wb").write(o)
        os.makedirs(d + "/un", exist_ok=True)
        rc, o2, e = sh([tools + "/rdsquashfs", "-q", "-u", "/", "-p", d + "/un", d + "/a.sqfs"], timeout=60)       # the files the listing refers to
        if rc:
            return i, "rdsquashfs -u fails: %s" % e.decode(errors="replace")[-120:]
        rc, o2, e = sh([tools + "/gensquashfs", "-q", "-f", "-D", d + "/un", "-F", d + "/l.txt", d + "/b.sqfs"], timeout=60)
        if rc:
            return i, "gensquashfs rejects the listing: %s" % e.decode(errors="replace")[-120:]
        if sorted(sqfsimg.load(d + "/b.sqfs").tree(with_content=False)) != sorted(sqfsimg.load(d + "/a.sqfs").tree(with_content=False)):
            return i, "the rebuilt image has other paths than the original"
        shutil.rmtree(d, ignore_errors=True)
        return i, None
    n, done = 0, False
    with ThreadPoolExecutor(16) as ex:
        for i, bad in ex.map(do, range(len(cases))):
            n += 1
            if bad and not done:
                done = True
                rep.violation("describe-walk", "tree %s: %s" % (json.dumps(cases[i]["listing"]), bad), data={"tree": cases[i]["tree"]})
    ev.set("describe_walk_trees", n)
    return n


def run(tier):
    ev = Evidence(PID, tier, "model_checking")
    rep = Reporter(PID, ev)
    work = scratch("c16")
    tools = build.build("plain") + "/bin"
    cfg = work + "/d.cfg"
    MN, MX = (3, 2) if tier == "quick" else (4, 3)
    chars = '{"p","s","t","q","b","h","w"}'
    write_cfg(cfg, spec="Spec", constants={"MaxName": MN, "MaxExtra": MX, "QuoteOnTabAndBackslash": True, "QuoteExtra": True, "QuoteOnOtherSpace": True, "LocationQuoteByWhole": True},
              defs={"Chars": chars}, invariants=["RoundTrip"], deadlock=False)
    r = run_tlc("Describe", cfg, workers=16, timeout=1800)
    ev.tlc(r, "Describe names<=%d extras<=%d" % (MN, MX))
    if not r["ok"]:
        print("MODEL-FAILURE: Describe violates %s" % r["violated"])
        ev.write()
        return 2
    devres = {}
    for name, q1, q2, q3, q4 in [("EscapeQuoteOnly+QuoteOnlyOnSpace(pre-fix printer)", False, True, True, True), ("TargetVerbatim(pre-fix printer)", True, False, True, True),
                                 ("OtherWhiteSpaceUnquoted(pre-fix printer)", True, True, False, True), ("LocationQuotedByPathOnly", True, True, True, False)]:
        write_cfg(cfg, spec="Spec", constants={"MaxName": 2, "MaxExtra": 2, "QuoteOnTabAndBackslash": q1, "QuoteExtra": q2, "QuoteOnOtherSpace": q3, "LocationQuoteByWhole": q4},
                  defs={"Chars": chars}, invariants=["RoundTrip"], deadlock=False)
        r = run_tlc("Describe", cfg, workers=4, timeout=600)
        ev.tlc(r, "dev " + name)
        devres[name] = bool(r["violated"])
    ev.set("deviations", devres)
    if not all(devres.values()):
        print("SELF-CHECK-FAILED: deviation without counterexample: %s" % devres)
        ev.write()
        return 2
    # ---- R ---------------------------------------------------------------------------------------
    names = strings(2 if tier == "quick" else 3)
    targets = strings(2) + [b"a/b c", b"../x\ty", b"/abs/\"q\"", b"t\\n", b"plain", b"cr\r", b"\x0bvt\x0c", b"mid\rdle"]
    rng = random.Random(SEED)
    extra = []
    for _ in range(40 if tier == "quick" else 400):
        n = rng.randrange(3, 9)
        extra.append(bytes(rng.choice(b'a \t"\\#\xc3\xa9.-_') for _ in range(n)).replace(b"\n", b"x"))
    names += [x for x in extra if x not in (b".", b"..")]
    batches = [names[i:i + 120] for i in range(0, len(names), 120)]
    total_ok = 0
    replays = 0
    jobs = []
    # unpack roots of every character class (spec: kind "ufile", the location is <root>/<path> printed as one field)
    ROOTS = ["un", "my root", "tab\troot", 'quo"te', "back\\slash", " lead", "#hash", "cr\rx", "mix \"q\\ x"]
    for bi, b in enumerate(batches):
        for ur in (False, True):
            jobs.append((bi, b, ur, "un"))
    plainish = [n for n in names if all(c in b"abcdefghijklmnopqrstuvwxyz0123456789._-" for c in n)][:20] + names[:40]
    for ri, rn in enumerate(ROOTS[1:]):
        jobs.append((1000 + ri, plainish, True, rn))

    def do(j):
        bi, b, ur, rn = j
        return (bi, b, ur), roundtrip(tools, work, "b%d_%d" % (bi, ur), b, targets, ur, rootname=rn)

    seen = set()
    with ThreadPoolExecutor(max_workers=8) as ex:
        for (bi, b, ur), (bad, n_ok) in ex.map(do, jobs):
            replays += 1
            total_ok += n_ok
            for key, what, item in bad:
                cls = ""
                if isinstance(item, bytes):
                    field = item
                    cls = "-" + "".join(sorted(set(classes(field)) - {"p"}))
                k = key + cls
                if k in seen:
                    continue
                seen.add(k)
                rep.violation(k, ("with --unpack-root: " if ur else "") + what, data={"unpack_root": ur, "item": repr(item)})
    n_w = walk_stage(tools, work, ev, rep, tier)
    if n_w is None:
        ev.write()
        return 2
    replays += n_w
    n_lr = line_reader_stage(work, ev, rep, tier, rng)
    if n_lr is None:
        ev.write()
        return 2
    replays += n_lr
    ev.sample({"kind": "names(character classes p=plain s=space t=tab q=quote b=backslash h=hash)", "count": len(names),
               "examples": [repr(n) for n in names[:12]]}, limit=3)
    ev.set("entries_round_tripped", total_ok)
    ev.set("traces_validated_against_impl", replays)
    ev.set("exhaustive", True)
    ev.assumptions += ["names without NUL, '/', newline; six character classes stand for all bytes (the printer and the tokenizer branch only on these)"]
    shutil.rmtree(work, ignore_errors=True)
    return rep.finish()


def replay(path):
    d = json.load(open(path))
    print(json.dumps(d, indent=1)[:3000])
    return run("quick")
