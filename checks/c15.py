"""C15 - stream compression of tar input/output is transparent.
Spec: spec/XfrmOut.tla (ostream wrapper + codec contract: Terminates, AllWritten, TrailerOnce) and
spec/XfrmIn.tla (members, cut, corrupt unit: Transparent, TruncationReported).
Binding R: emitted append patterns x codec policies on the real ostream_xfrm with a scripted, contract-
conforming codec; the real codecs (gzip, xz, bzip2, zstd) through the same wrapper around the buffer
boundaries, verified with reference decompressors; reference-compressed inputs (members, splits,
truncation, corruption) through the real istream_xfrm; tool level tar2sqfs / sqfs2tar."""
import bz2, json, lzma, os, random, shutil, subprocess, sys, zlib
from concurrent.futures import ThreadPoolExecutor
import vlib, build, bpbind, gen
from vlib import VERIF, Evidence, Reporter, run_tlc, write_cfg, scratch, SEED, sh

PID = "C15"
BUFSZ = build.src_define("lib/xfrm/src/ostream.c", "BUFSZ", 262144)        # buffer of the stream wrappers in the tree under test
CODECS = ["gzip", "xz", "bzip2"] + (["zstd"] if vlib.have("zstd") else [])      # the zstd reference is the command line tool


def ref_compress(codec, data, level=None):
    if codec == "gzip":
        import gzip
        return gzip.compress(data, compresslevel=level or 6, mtime=0)
    if codec == "xz":
        return lzma.compress(data, format=lzma.FORMAT_XZ, preset=level if level is not None else 1)
    if codec == "bzip2":
        return bz2.compress(data, level or 9)
    if codec == "zstd":
        p = subprocess.run(["zstd", "-q", "-c", "-%d" % (level or 3)], input=data, capture_output=True, timeout=60)
        return p.stdout


def ref_decompress(codec, data):
    """returns bytes or raises"""
    if codec == "gzip":
        out = b""
        d = data
        while d:
            o = zlib.decompressobj(31)
            out += o.decompress(d)
            if not o.eof:
                raise ValueError("truncated gzip")
            d = o.unused_data
        return out
    if codec == "xz":
        return lzma.decompress(data, format=lzma.FORMAT_XZ)
    if codec == "bzip2":
        return bz2.decompress(data)
    if codec == "zstd":
        p = subprocess.run(["zstd", "-q", "-d", "-c"], input=data, capture_output=True, timeout=60)
        if p.returncode:
            raise ValueError("zstd: %s" % p.stderr[-100:])
        return p.stdout


def run(tier):
    ev = Evidence(PID, tier, "model_checking")
    rep = Reporter(PID, ev)
    work = scratch("c15")
    tools = build.build("plain") + "/bin"
    rng = random.Random(SEED)
    chunks = "{<<1>>, <<2>>, <<3>>, <<1,1>>, <<2,2>>, <<4>>, <<5>>, <<2,3>>, <<6>>, <<1,2,1>>, <<3,3>>}"
    cfg = work + "/x.cfg"
    for pol in ["eager", "withhold", "half"]:
        write_cfg(cfg, spec="OFair", constants={"InCap": 2, "OutCap": 2, "Policy": '"%s"' % pol, "LoopNeedsInput": False,
                                                "EndOnEmptyFlush": False, "Emit": False},
                  defs={"Chunks": chunks}, invariants=["AllWritten", "TrailerOnce", "Progress"], properties=["Terminates"], deadlock=False)
        r = run_tlc("XfrmOut", cfg, workers=4, timeout=600)
        ev.tlc(r, "XfrmOut policy=%s" % pol)
        if not r["ok"]:
            print("MODEL-FAILURE: XfrmOut violates %s" % r["violated"])
            ev.write()
            return 2
    devres = {}
    for name, pol, need, endempty in [("FlushNoProgress(pre-fix gzip/xz/bzip2)", "withhold", True, False),
                                      ("EndWhileOutputPending(pre-fix zstd)", "half", True, True)]:
        write_cfg(cfg, spec="OFair", constants={"InCap": 2, "OutCap": 2, "Policy": '"%s"' % pol, "LoopNeedsInput": need,
                                                "EndOnEmptyFlush": endempty, "Emit": False},
                  defs={"Chunks": chunks}, invariants=["AllWritten", "TrailerOnce", "Progress"], deadlock=False)
        r = run_tlc("XfrmOut", cfg, workers=4, timeout=600)
        ev.tlc(r, "dev " + name)
        devres[name] = bool(r["violated"])
    icfg = work + "/i.cfg"
    # members of 0 units are EMPTY members (a compressed empty input): leading, between two members, trailing; buffer of 2 units
    IC = {"EofMidMemberAccepted": False, "DataErrorIgnored": False, "RefillStopsAtMemberEnd": False, "Cap": 2}
    for members in ["<<2, 1>>", "<<1, 1, 2>>", "<<2, 0, 1>>", "<<0, 3>>", "<<1, 2, 0>>", "<<0, 0, 1>>"]:
        write_cfg(icfg, spec="IFair", constants=IC, defs={"Members": members},
                  invariants=["Transparent", "TruncationReported", "NoSpin"], properties=["IEnds"], deadlock=False)
        r = run_tlc("XfrmIn", icfg, workers=2, timeout=300)
        ev.tlc(r, "XfrmIn members=%s" % members)
        if not r["ok"]:
            print("MODEL-FAILURE: XfrmIn violates %s" % r["violated"])
            ev.write()
            return 2
    for name, acc, ign, stop, mem in [("EofMidMemberAccepted(pre-fix tree)", True, False, False, "<<2, 1>>"), ("DataErrorIgnored(pre-fix gzip)", False, True, False, "<<2, 1>>"),
                                      ("RefillStopsAtMemberEnd", False, False, True, "<<2, 0, 1>>")]:
        write_cfg(icfg, spec="IFair", constants=dict(IC, EofMidMemberAccepted=acc, DataErrorIgnored=ign, RefillStopsAtMemberEnd=stop), defs={"Members": mem},
                  invariants=["Transparent", "TruncationReported", "NoSpin"], deadlock=False)
        r = run_tlc("XfrmIn", icfg, workers=2, timeout=300)
        ev.tlc(r, "dev " + name)
        devres[name] = bool(r["violated"])
    ev.set("deviations", devres)
    if not all(devres.values()):
        print("SELF-CHECK-FAILED: deviation without counterexample: %s" % devres)
        ev.write()
        return 2
    binp = work + "/replay_xfrm"
    if not build.compile_harness(VERIF + "/harness/replay_xfrm.c", binp, variant="plain", extra=["-DUNIT=%d" % (BUFSZ // 2)]):
        raise RuntimeError("harness build failed")
    replays = 0
    # ---- R1: emitted append patterns on the real wrapper with the scripted codec ---------------------
    write_cfg(cfg, spec="OSpec", constants={"InCap": 2, "OutCap": 2, "Policy": '"eager"', "LoopNeedsInput": False, "EndOnEmptyFlush": False, "Emit": True},
              defs={"Chunks": chunks}, invariants=["OEmit"], deadlock=False)
    r = run_tlc("XfrmOut", cfg, workers=2, timeout=300)
    pats = {json.dumps(x["chunks"]) for x in bpbind.parse_emitted(r["out"])}
    ev.tlc(r, "XfrmOut emit")
    for pat in sorted(pats):
        ch = json.loads(pat)
        for pol in ["eager", "withhold", "half"]:
            rc, o, e = sh([binp, "script", pol] + [str(c) for c in ch], timeout=60)
            replays += 1
            try:
                res = json.loads(o.decode().strip().split("\n")[-1])
            except Exception:
                res = {"crash": rc}
            if res.get("hang") or res.get("crash") is not None or not res.get("ok") or res.get("trailers") != 1:
                rep.violation("xfrm-ostream-wrapper", "ostream_xfrm with a contract-conforming %s codec, appends %s: %s" % (pol, ch, res),
                              data={"chunks": ch, "policy": pol, "result": res})
    ev.sample({"kind": "append-patterns(units of half a buffer)", "patterns": [json.loads(p) for p in sorted(pats)][:8]}, limit=6)
    # ---- R2: real codecs around the buffer boundaries -------------------------------------------------
    sizes = [0, 1, BUFSZ - 1, BUFSZ, BUFSZ + 1, 2 * BUFSZ, 600000] + ([3 * BUFSZ + 17, 1500000] if tier != "quick" else [])
    jobs = []
    for codec in CODECS:
        for n in sizes:
            for kind in ["random", "text", "zero"]:
                for chunk in ([BUFSZ, 100000] if tier == "quick" else [BUFSZ, 100000, 4096, 1000003]):
                    jobs.append((codec, n, kind, chunk))

    def realjob(j):
        codec, n, kind, chunk = j
        out = work + "/c_%s_%d_%s_%d.bin" % (codec, n, kind, chunk)
        rc, o, e = sh([binp, "real", codec, str(n), kind, str(chunk), out], timeout=60)
        try:
            res = json.loads(o.decode().strip().split("\n")[-1])
        except Exception:
            res = {"crash": rc}
        ok = None
        if "compressed" in res:
            try:
                ok = ref_decompress(codec, open(out, "rb").read()) == open(out + ".in", "rb").read() if n > 0 else True
            except Exception as ex:
                ok = "reference decompressor rejects: %s" % str(ex)[:80]
        for f in (out, out + ".in"):
            if os.path.exists(f):
                os.unlink(f)
        return j, res, ok

    with ThreadPoolExecutor(max_workers=16) as ex:
        for j, res, ok in ex.map(realjob, jobs):
            replays += 1
            codec, n, kind, chunk = j
            if res.get("skip"):
                continue
            if res.get("hang"):
                rep.violation("xfrm-compress-hang-%s" % codec, "%s compressor stream never finishes: %d bytes of %s data appended in chunks of %d"
                              % (codec, n, kind, chunk), data={"job": j})
            elif ok is not True:
                rep.violation("xfrm-compress-output-%s" % codec, "%s compressor stream output for %d bytes of %s data (chunks of %d) is not what the reference decompressor expands to the input: %s"
                              % (codec, n, kind, chunk, ok if ok is not None else res), data={"job": j})
    # ---- R3: reference-compressed input through the real istream wrapper ----------------------------
    payload = gen.content(random.Random(3), "mixed", 300000 if tier == "quick" else 900000)
    ijobs = []
    for codec in CODECS:
        whole = ref_compress(codec, payload)
        cuts = [1000, len(payload) // 2, BUFSZ - 1, BUFSZ, BUFSZ + 1]
        for c in cuts:
            parts = ref_compress(codec, payload[:c]) + ref_compress(codec, payload[c:])
            ijobs.append((codec, "members@%d" % c, parts, payload, "ok"))
        three = ref_compress(codec, payload[:100]) + ref_compress(codec, payload[100:70000]) + ref_compress(codec, payload[70000:])
        ijobs.append((codec, "3members", three, payload, "ok"))
        empty = ref_compress(codec, b"")
        ijobs.append((codec, "empty-member-first", empty + whole, payload, "ok"))
        ijobs.append((codec, "empty-member-between", ref_compress(codec, payload[:70000]) + empty + ref_compress(codec, payload[70000:]), payload, "ok"))
        ijobs.append((codec, "empty-members-between", ref_compress(codec, payload[:BUFSZ]) + empty + empty + ref_compress(codec, payload[BUFSZ:]), payload, "ok"))
        ijobs.append((codec, "empty-member-last", whole + empty, payload, "ok"))
        ijobs.append((codec, "single", whole, payload, "ok"))
        for frac in ([0.5, 0.9] if tier == "quick" else [0.1, 0.3, 0.5, 0.7, 0.9, 0.99]):
            ijobs.append((codec, "truncated@%.2f" % frac, whole[:int(len(whole) * frac)], None, "error"))
        ijobs.append((codec, "truncated-5", whole[:-5], None, "error"))
        bad = bytearray(whole)
        for k in range(len(bad) // 2, len(bad) // 2 + 8):
            bad[k] ^= 0xA5
        ijobs.append((codec, "corrupt-middle", bytes(bad), None, "error"))
        ijobs.append((codec, "zero-padding", whole + b"\0" * 1024, payload, "ok-or-error"))

    def injob(j):
        codec, name, comp, expect, verdict = j
        p = work + "/in_%s_%s.bin" % (codec, name.replace("@", "_"))
        open(p, "wb").write(comp)
        rc, o, e = sh([binp, "unpack", codec, p, p + ".out"], timeout=60)
        try:
            res = json.loads(o.decode().strip().split("\n")[-1])
        except Exception:
            res = {"crash": rc}
        data = open(p + ".out", "rb").read() if os.path.exists(p + ".out") else b""
        for f in (p, p + ".out"):
            if os.path.exists(f):
                os.unlink(f)
        return j, res, data

    with ThreadPoolExecutor(max_workers=16) as ex:
        for j, res, data in ex.map(injob, ijobs):
            replays += 1
            codec, name, comp, expect, verdict = j
            if res.get("hang") or "crash" in res:
                rep.violation("xfrm-decompress-hang-%s" % codec, "%s decompressor stream on input '%s': %s" % (codec, name, res), data={"case": name})
            elif verdict == "ok" and (res.get("error") or data != expect):
                rep.violation("xfrm-decompress-%s" % codec, "%s input '%s' is not decoded to the original bytes (%s)" % (codec, name, res), data={"case": name})
            elif verdict == "error" and "error" not in res:
                kind = "truncated" if name.startswith("truncated") else "corrupt"
                rep.violation("xfrm-%s-accepted-%s" % (kind, codec), "%s input '%s' is accepted without error (%d bytes decoded)" % (codec, name, len(data)),
                              data={"case": name, "decoded": len(data)})
            elif verdict == "ok-or-error" and "error" not in res and data != expect:
                rep.violation("xfrm-decompress-%s" % codec, "%s input '%s' decoded to different bytes" % (codec, name), data={"case": name})
    # ---- tool level -------------------------------------------------------------------------------
    tarb = gen.tar_bytes([dict(name="d", type="dir"), dict(name="d/a", data=gen.content(rng, "mixed", 300000)),
                          dict(name="d/b", data=gen.content(rng, "random", BUFSZ - 512)), dict(name="c", data=b"x" * 100)])
    ref = work + "/plain.sqfs"
    rc, o, e = sh([tools + "/tar2sqfs", "-q", "-f", "-c", "gzip", ref], stdin=tarb, timeout=60)
    if rc:
        raise RuntimeError("tar2sqfs reference failed")
    refsha = vlib.fsha(ref)
    for codec in CODECS:
        variants = {"single": ref_compress(codec, tarb), "members": ref_compress(codec, tarb[:70000]) + ref_compress(codec, tarb[70000:]),
                    "level9": ref_compress(codec, tarb, 9),
                    "empty-member-first": ref_compress(codec, b"") + ref_compress(codec, tarb),
                    "empty-member-between": ref_compress(codec, tarb[:70000]) + ref_compress(codec, b"") + ref_compress(codec, tarb[70000:])}
        for name, comp in variants.items():
            out = work + "/t.sqfs"
            rc, o, e = sh([tools + "/tar2sqfs", "-q", "-f", "-c", "gzip", out], stdin=comp, timeout=60)
            replays += 1
            if rc != 0 or vlib.fsha(out) != refsha:
                rep.violation("tar2sqfs-compressed-%s" % codec, "tar2sqfs on the %s (%s) archive: exit %d, image %s the one from the plain archive"
                              % (codec, name, rc, "differs from" if rc == 0 else "n/a vs"), data={"variant": name})
        rc, plain, e = sh([tools + "/sqfs2tar", ref], timeout=60)
        rc2, comp, e2 = sh([tools + "/sqfs2tar", "-c", codec, ref], timeout=60)
        replays += 1
        try:
            okc = rc2 == 0 and ref_decompress(codec, comp) == plain
        except Exception as ex:
            okc = False
        if not okc:
            rep.violation("sqfs2tar-compressed-%s" % codec, "sqfs2tar -c %s: exit %d, output does not expand to the uncompressed archive" % (codec, rc2))
    ev.set("traces_validated_against_impl", replays)
    ev.assumptions += ["zlib, liblzma, libbz2, libzstd obey their documented contracts; reference decompressors: Python zlib/lzma/bz2, zstd CLI"]
    shutil.rmtree(work, ignore_errors=True)
    return rep.finish()


def replay(path):
    d = json.load(open(path))
    print(json.dumps(d, indent=1)[:3000])
    return run("quick")
