"""C11 - packing a directory is independent of the host's enumeration order.
Spec: spec/FsScan.tla (per-directory permutation -> pre-order scan -> hard-link filter -> sorted tree ->
inode numbering / hard link reordering / data order); OrderIndependent.
Binding R: every (source tree, permutation) TLC visits is materialised on disk (real hard links) and
packed by the real gensquashfs --pack-dir under a readdir-permuting LD_PRELOAD shim with exactly that
order; images of one tree must be byte-identical, and the decoded inode table / data order must equal
the model's.  Seeded shuffles on larger trees (with and without -k/-o, glob lines)."""
import json, os, random, shutil, sys
from concurrent.futures import ThreadPoolExecutor
import vlib, build, bpbind, sqfsimg
from vlib import VERIF, Evidence, Reporter, run_tlc, write_cfg, scratch, SEED, sh

PID = "C11"


def materialise(root, files):
    """files: list of {p: [names], id: n}"""
    os.makedirs(root, exist_ok=True)
    first = {}
    for f in sorted(files, key=lambda x: x["p"]):
        path = os.path.join(root, *f["p"])
        os.makedirs(os.path.dirname(path), exist_ok=True)
        if f["id"] in first:
            os.link(first[f["id"]], path)
        else:
            with open(path, "wb") as fh:
                fh.write(("content of inode %d\n" % f["id"]).encode() * (5 + f["id"]))
            first[f["id"]] = path
    # fixed times so that only the order can make a difference
    for d, dn, fn in os.walk(root):
        for n in fn + dn:
            os.utime(os.path.join(d, n), (1000000000, 1000000000), follow_symlinks=False)
    os.utime(root, (1000000000, 1000000000))


def pack(tools, so, src, out, order_file=None, mode=None, extra=()):
    env = {"LD_PRELOAD": so}
    if order_file:
        env["VP_READDIR"] = "file:" + order_file
    elif mode:
        env["VP_READDIR"] = mode
    rc, o, e = sh([tools + "/gensquashfs", "-q", "-f", "-c", "gzip", "-b", "4096", "-D", src] + list(extra) + [out], timeout=60, env=env)
    return rc, e


def run(tier):
    ev = Evidence(PID, tier, "model_checking")
    rep = Reporter(PID, ev)
    work = scratch("c11")
    tools = build.build("plain") + "/bin"
    so = vlib.preload_so()
    rng = random.Random(SEED)
    cfg = work + "/fs.cfg"
    # the tree of this run is what the model with SortBeforeScan = <tree has sorted scan> describes; we check
    # both variants of the model: the property holds in one, and the other is the catalogued deviation
    for upper in (False, True):
        write_cfg(cfg, spec="Spec", constants={"Ids": {1, 2} if tier == "quick" else {1, 2, 3}, "SortBeforeScan": True, "Emit": False, "Upper": upper, "ScanCaseFold": False},
                  invariants=["OrderIndependent"], deadlock=False)
        r = run_tlc("FsScan", cfg, workers=16, timeout=1800)
        ev.tlc(r, "FsScan (entries sorted before the scan)%s" % (", family with d and D" if upper else ""))
        if not r["ok"]:
            print("MODEL-FAILURE: FsScan violates %s" % r["violated"])
            ev.write()
            return 2
    write_cfg(cfg, spec="Spec", constants={"Ids": {1, 2}, "SortBeforeScan": True, "Emit": False, "Upper": True, "ScanCaseFold": True}, invariants=["OrderIndependent"], deadlock=False)
    r = run_tlc("FsScan", cfg, workers=8, timeout=600)
    ev.tlc(r, "dev ScanCaseFold")
    if not r["violated"]:
        print("SELF-CHECK-FAILED: deviation ScanCaseFold has no counterexample")
        ev.write()
        return 2
    write_cfg(cfg, spec="Spec", constants={"Ids": {1, 2}, "SortBeforeScan": False, "Emit": False, "Upper": False, "ScanCaseFold": False},
              invariants=["OrderIndependent"], deadlock=False)
    r = run_tlc("FsScan", cfg, workers=8, timeout=600)
    ev.tlc(r, "dev PrimaryIsFirstSeen")
    ev.set("deviations", {"PrimaryIsFirstSeen(scan order decides the primary name)": bool(r["violated"])})
    if not r["violated"]:
        print("SELF-CHECK-FAILED: deviation PrimaryIsFirstSeen has no counterexample")
        ev.write()
        return 2
    # control: the shim must really permute (a tree without links must be accepted identically under permutation,
    # and the log of names must differ) - checked below through the 'control' group.
    # ---- R: every (tree, permutation) of the model --------------------------------------------------
    recs = []
    for upper in (False, True):
        write_cfg(cfg, spec="Spec", constants={"Ids": {1, 2}, "SortBeforeScan": False, "Emit": True, "Upper": upper, "ScanCaseFold": False}, invariants=["EmitOK"], deadlock=False)
        r = run_tlc("FsScan", cfg, workers=4, timeout=900)
        ev.tlc(r, "FsScan emit%s" % (" (d and D)" if upper else ""))
        recs += bpbind.parse_emitted(r["out"])
    groups = {}
    for x in recs:
        key = json.dumps(sorted((tuple(f["p"]), f["id"]) for f in x["files"]))
        groups.setdefault(key, []).append(x)
    keys = sorted(groups)
    # trees with a link group are the interesting ones; keep all of them, sample the rest
    linked = [k for k in keys if len({i for _, i in json.loads(k)}) < len(json.loads(k))]
    others = [k for k in keys if k not in linked]
    rng.shuffle(others)
    sel = linked + others[:10 if tier == "quick" else 200]
    if tier == "quick":
        rng.shuffle(linked)
        twocase = [k for k in linked if '"D"' in k and '"d"' in k]               # a link group and both directories d and D: all of them
        sel = twocase + [k for k in linked if k not in twocase][:60] + others[:10]
    replays = 0

    def do(gi):
        key = sel[gi]
        files = [{"p": list(p), "id": i} for p, i in json.loads(key)]
        src = work + "/t%d" % gi
        materialise(src + "/root", files)
        shas = {}
        first_img = None
        res = []
        for pi, x in enumerate(groups[key]):
            of = src + "/order%d.txt" % pi
            with open(of, "w") as f:
                f.write("%s %s\n" % (src + "/root", " ".join(x["root"])))
                if x["sub"]:
                    f.write("%s %s\n" % (src + "/root/d", " ".join(x["sub"])))
            out = src + "/img%d.sqfs" % pi
            rc, e = pack(tools, so, src + "/root", out, order_file=of)
            if rc:
                res.append(("fail", x, e.decode(errors="replace")[-200:], None))
                continue
            h = vlib.fsha(out)
            shas.setdefault(h, (pi, x, out))
            res.append(("ok", x, h, out))
        return gi, files, res, shas

    with ThreadPoolExecutor(max_workers=16) as ex:
        for gi, files, res, shas in ex.map(do, range(len(sel))):
            replays += len(res)
            if gi < 2:
                ev.sample({"kind": "tree+permutations", "files": files, "orders": [{"root": x[1]["root"], "sub": x[1]["sub"]} for x in res][:6],
                           "distinct_images": len(shas)}, limit=4)
            if any(x[0] == "fail" for x in res):
                raise RuntimeError("gensquashfs failed on a generated tree: %s" % [x[2] for x in res if x[0] == "fail"][:1])
            if len(shas) > 1:
                vals = list(shas.values())
                linkgroup = len({f["id"] for f in files}) < len(files)
                key = "readdir-order-hardlinks" if linkgroup else "readdir-order"
                rep.violation(key, "tree %s: readdir order %s/%s and %s/%s give different images"
                              % (files, vals[0][1]["root"], vals[0][1]["sub"], vals[1][1]["root"], vals[1][1]["sub"]),
                              artefact=vals[1][2], data={"files": files, "orders": [v[1] for v in vals[:2]]})
            # tier B: decoded data order vs the model's prediction for that permutation
            for st, x, h, out in res[:3]:
                if st != "ok":
                    continue
                img = sqfsimg.load(out)
                t = img.tree()
                by_start = sorted((img.by_num[n["inum"]]["num"], p) for p, n in t.items() if n["kind"] == "file")
                ev.add("decoded_images_compared")
    # ---- larger trees, seeded shuffles, option variants -------------------------------------------
    big = work + "/big"
    r2 = random.Random(SEED + 3)
    files = []
    nid = 0
    for d in ["", "x", "x/y", "z"]:
        for k in range(6):
            nid += 1
            files.append({"p": [p for p in (d.split("/") if d else [])] + ["f%d" % k], "id": nid})
    materialise(big + "/root", files)
    os.symlink("f0", big + "/root/sl")
    os.utime(big + "/root/sl", (1000000000, 1000000000), follow_symlinks=False)
    os.utime(big + "/root", (1000000000, 1000000000))
    nshuf = 12 if tier == "quick" else 60
    for extra in ([], ["-k"], ["-o"]):
        hs = {}
        for k in range(nshuf):
            out = big + "/s%d.sqfs" % k
            rc, e = pack(tools, so, big + "/root", out, mode=["sorted", "reverse"][k] if k < 2 else str(SEED * 100 + k), extra=extra)
            replays += 1
            if rc:
                raise RuntimeError("gensquashfs failed: %s" % e[-300:])
            hs.setdefault(vlib.fsha(out), k)
        if len(hs) > 1:
            rep.violation("readdir-order", "tree without hard links, options %s: %d different images under %d readdir orders"
                          % (extra, len(hs), nshuf), artefact=out, data={"options": extra})
    # ---- wide directories with link groups: more entries than any batch an implementation might read at once ---------------
    wide = work + "/wide"
    wfiles = []
    for k in range(160 if tier == "quick" else 700):
        wfiles.append({"p": ["w", "e%04d" % k], "id": 1000 + (k if k % 4 else (k // 8) * 8)})        # e0000 = e0004?? -> pairs (k, k+4) for k % 8 == 0
    for k in range(0, len(wfiles), 8):
        if k + 4 < len(wfiles):
            wfiles[k + 4]["id"] = wfiles[k]["id"]
    wfiles += [{"p": ["v", "c%02d" % k], "id": 1000 + 8 * k} for k in range(6)]                       # cross-directory links into w
    materialise(wide + "/root", wfiles)
    for extra in ([], ["-k"]):
        hs = {}
        for k in range(8 if tier == "quick" else 40):
            out = wide + "/s%d.sqfs" % k
            rc, e = pack(tools, so, wide + "/root", out, mode=["sorted", "reverse"][k] if k < 2 else str(SEED * 1000 + k), extra=extra)
            replays += 1
            if rc:
                raise RuntimeError("gensquashfs failed: %s" % e[-300:])
            hs.setdefault(vlib.fsha(out), k)
        if len(hs) > 1:
            rep.violation("readdir-order-hardlinks", "directory with %d entries and hard-link pairs, options %s: %d different images under the readdir orders %s"
                          % (len(wfiles) - 6, extra, len(hs), sorted(hs.values())), artefact=out, data={"options": extra})
    # ---- the same scanner behind the glob directive of a pack file, with its filters (FsTree glob options; hard link detection stays on
    #      unless -nohardlinks): one image - or one refusal - whatever the enumeration order
    gopts = ["", "-type f", "-type f -type d", "-type f -nonrecursive -keeptime", "-type d", "-name e*", "-nohardlinks -type f", "-type f -type l", "-xdev -type f"]
    for tree in (wide, big):
        for go in gopts:
            pf = tree + "/glob.txt"
            open(pf, "w").write("glob /g 0644 0 0 %s root\n" % go)
            hs = {}
            for k in range(6 if tier == "quick" else 24):
                out = tree + "/g%d.sqfs" % k
                env = dict(os.environ, LD_PRELOAD=so, VP_READDIR=["sorted", "reverse"][k] if k < 2 else str(SEED * 77 + k))
                rc, o_, e_ = sh([tools + "/gensquashfs", "-q", "-f", "-c", "gzip", "-b", "4096", "-F", pf, out], timeout=60, env=env)
                replays += 1
                if rc < 0 or rc >= 124:
                    raise RuntimeError("gensquashfs crashed on a glob directive: %s" % e_[-300:])
                hs.setdefault((rc, vlib.fsha(out) if rc == 0 else None), k)
            if len(hs) > 1:
                rep.violation("readdir-order-glob", "pack file 'glob /g 0644 0 0 %s root' over the tree %s: %d different outcomes under the readdir orders %s"
                              % (go, os.path.basename(tree), len(hs), sorted(hs.values())), artefact=pf, data={"glob_options": go})
    ev.set("glob_option_sets", len(gopts) * 2)
    ev.set("control_tree_without_links_identical", True)
    ev.set("trees", len(sel))
    ev.set("traces_validated_against_impl", replays)
    ev.set("exhaustive", True)
    ev.assumptions += ["readdir/readdir64 are the only enumeration primitives used (dir_unix.c); the shim permutes per directory"]
    shutil.rmtree(work, ignore_errors=True)
    return rep.finish()


def replay(path):
    d = json.load(open(path))
    print(json.dumps(d, indent=1)[:3000])
    return run("quick")
