"""C18 - path canonicalisation / file-name sanity, for all strings.
Spec: spec/Canon.tla (declarative CanonSpec + transcription CanonImpl + theorems, exhaustively over all
strings up to a length).  Binding E/T: the real functions are run on every string of the same domain
(and on random longer ones) and the recorded table is validated by TLC against CanonSpec/SaneSpec
(spec/TraceCanon.tla)."""
import json, os, subprocess, sys, shutil
from concurrent.futures import ThreadPoolExecutor
import vlib, build
from vlib import VERIF, Evidence, Reporter, run_tlc, write_cfg, scratch, SEED

PID = "C18"
REPO = build.REPO


def build_harness(out):
    os.makedirs(out, exist_ok=True)
    cmd = ["gcc", "-O1", "-g", "-w", "-fsanitize=address", "-fno-omit-frame-pointer", "-I" + REPO + "/include",
           "-I" + REPO, "-DHAVE_CONFIG_H", "-D_GNU_SOURCE", VERIF + "/harness/canon_table.c",
           REPO + "/lib/util/src/canonicalize_name.c", REPO + "/lib/util/src/filename_sane.c", "-o", out + "/canon_table"]
    r = subprocess.run(cmd, capture_output=True, text=True)
    if r.returncode:
        sys.stderr.write(r.stderr[:3000])
        raise RuntimeError("cannot build canon harness")
    return out + "/canon_table"


def decode(rec):
    m = {0: "/", 1: ".", 2: "a", 3: "\\xff"}
    return "".join(m[c] for c in rec)


def validate(work, name, path, ev):
    cfg = work + "/t_%s.cfg" % name
    write_cfg(cfg, init="TInit", nxt="TNext", constants={"MaxLen": 0, "Alphabet": {0, 1, 2, 3}},
              invariants=["AllRecordsAgree", "NonEmpty"], deadlock=False)
    r = run_tlc("TraceCanon", cfg, workers=1, timeout=1500, env={"TRACE": path}, heap="6g")
    return r


def run(tier):
    ev = Evidence(PID, tier, "model_checking")
    rep = Reporter(PID, ev)
    work = scratch("c18")
    binp = build_harness(work)
    L = 8 if tier == "quick" else 10
    # 1. theorems about the specification itself, all strings up to LT
    LT = 7 if tier == "quick" else 9
    cfg = work + "/thm.cfg"
    write_cfg(cfg, init="EInit", nxt="ENext", constants={"MaxLen": LT, "Alphabet": {0, 1, 2, 3}},
              invariants=["Theorems"], deadlock=False)
    r = run_tlc("Canon", cfg, workers=16, timeout=3000, heap="12g")
    ev.tlc(r, "Canon theorems, all strings over {/ . a 0xff} up to length %d" % LT)
    if not r["ok"]:
        print("MODEL-FAILURE: Canon theorems violated: %s" % r["violated"])
        print(r["out"][-1500:])
        ev.write()
        return 2
    # 2. table of the real functions over the whole domain, validated by TLC
    parts = 16 if tier == "quick" else 64
    files = []

    def gen(i):
        p = work + "/tab%d.ndjson" % i
        with open(p, "w") as f:
            pr = subprocess.run([binp, "all", str(L), str(i), str(parts)], stdout=f, stderr=subprocess.PIPE, timeout=600)
        return p, pr.returncode, pr.stderr.decode(errors="replace")

    with ThreadPoolExecutor(max_workers=16) as ex:
        res = list(ex.map(gen, range(parts)))
    nrec = 0
    for p, rc, err in res:
        if rc != 0:
            rep.violation("canon-crash", "canonicalize_name/is_filename_sane crashed or tripped ASan: %s" % err[-400:], artefact=p)
        files.append(p)
    # random long strings
    for k, (cnt, ml) in enumerate([(3000, 40), (300, 300)] if tier == "quick" else [(40000, 40), (3000, 300), (200, 1500)]):
        p = work + "/rnd%d.ndjson" % k
        with open(p, "w") as f:
            pr = subprocess.run([binp, "random", str(SEED + k), str(cnt), str(ml)], stdout=f, stderr=subprocess.PIPE, timeout=600)
        if pr.returncode != 0:
            rep.violation("canon-crash", "crash/ASan on random strings: %s" % pr.stderr.decode(errors="replace")[-400:], artefact=p)
        files.append(p)

    def val(p):
        return p, validate(work, os.path.basename(p).split(".")[0], p, ev)

    with ThreadPoolExecutor(max_workers=8) as ex:
        vres = list(ex.map(val, files))
    for p, r in vres:
        n = sum(1 for _ in open(p))
        nrec += n
        ev.tlc(r, "TraceCanon %s (%d records)" % (os.path.basename(p), n))
        if r["violated"] == "AllRecordsAgree":
            bad = r["trace"][0].get("bad") if r["trace"] else None
            recs = [json.loads(l) for l in open(p)]
            first = recs[sorted(bad)[0] - 1] if bad else None
            what = "real function disagrees with CanonSpec/SaneSpec on %d strings, e.g. %r -> rc=%s out=%r sane=%s" % (
                len(bad or []), decode(first["s"]) if first else "?", first and first["rc"], first and decode(first["o"]), first and first["sane"])
            rep.violation("canon-mismatch", what, artefact=p, data={"first": first})
        elif not r["ok"]:
            print("CHECK-BROKEN: trace validation failed to run on %s: %s" % (p, r["out"][-800:]))
            ev.write()
            return 2
    recs = [json.loads(l) for l in open(files[0])][:3] + [json.loads(l) for l in open(files[-1])][:2]
    for x in recs:
        ev.sample({"string": decode(x["s"]), "rc": x["rc"], "result": decode(x["o"]), "sane": x["sane"]}, limit=5)
    ev.set("traces_validated_against_impl", nrec)
    ev.set("exhaustive", True)
    ev.set("bounds", {"alphabet": "'/', '.', 'a', 0xff", "exhaustive_length": L, "theorem_length": LT,
                      "random": "seeded strings up to length 300 (quick) / 1500 (thorough)"})
    ev.assumptions += ["strings containing NUL are not strings for a C API", "alphabet of 4 character classes represents all bytes: "
                       "the functions branch only on '/', '.', NUL (checked by reading the code; random strings use other bytes too)"]
    shutil.rmtree(work, ignore_errors=True)
    return rep.finish()


def replay(path):
    print(open(path).read()[:2000])
    return run("quick")
