"""C18 - path canonicalisation / file-name sanity, for all strings.
Spec: spec/Canon.tla (declarative CanonSpec + transcription CanonImpl + theorems, exhaustively over all
strings up to a length).  Binding E/T: the real functions are run on every string of the same domain
(and on random longer ones) and the recorded table is validated by TLC against CanonSpec/SaneSpec
(spec/TraceCanon.tla)."""
import json, os, subprocess, sys, shutil
from concurrent.futures import ThreadPoolExecutor
import vlib, build
from vlib import VERIF, Evidence, Reporter, run_tlc, write_cfg, scratch, SEED, sh

PID = "C18"
REPO = build.REPO


def build_harness(out):
    os.makedirs(out, exist_ok=True)
    cmd = ["gcc", "-O1", "-g", "-w", "-fsanitize=address", "-fno-omit-frame-pointer", "-I" + REPO + "/include",
           "-I" + REPO, "-DHAVE_CONFIG_H", "-D_GNU_SOURCE", VERIF + "/harness/canon_table.c",
           REPO + "/lib/util/src/canonicalize_name.c", REPO + "/lib/util/src/filename_sane.c", "-o", out + "/canon_table"]
    r = subprocess.run(cmd, capture_output=True, text=True)
    if r.returncode:
        sys.stderr.write(r.stderr[:3000])
        raise RuntimeError("cannot build canon harness")
    return out + "/canon_table"


def decode(rec):
    m = {0: "/", 1: ".", 2: "a", 3: "\\xff"}
    return "".join(m[c] for c in rec)


def validate(work, name, path, ev):
    cfg = work + "/t_%s.cfg" % name
    write_cfg(cfg, init="TInit", nxt="TNext", constants={"MaxLen": 0, "Alphabet": {0, 1, 2, 3}},
              invariants=["AllRecordsAgree", "NonEmpty"], deadlock=False)
    r = run_tlc("TraceCanon", cfg, workers=1, timeout=1500, env={"TRACE": path}, heap="6g")
    return r


ENC = {"/": 0, ".": 1, "a": 2}


def funnel_stage(work, binp, ev, rep, tier):
    """the callers: strings over {'/', '.', 'a'} handed to the tools in five input modes; what the tool made of each (the path it used, or a
    refusal) is written as one record per (mode, string) and validated by TLC against CanonSpec (spec/TraceFunnel.tla)."""
    import itertools
    tools = build.build("plain") + "/bin"
    strs = ["".join(t) for n in (1, 2, 3) for t in itertools.product("/.a", repeat=n)]
    strs += ["a/../a", "../a", "a/..", "./a/", "//a//a", "a/./a", "a/a/..", "/a/a/", "./.", "a/.", "..a", "a..", ".../a", "a//", "/./a"]
    if tier != "quick":
        strs += ["".join(t) for t in itertools.product("/.a", repeat=4)]
    strs = sorted(set(strs))
    # the real function tells the driver where to put the file the string is supposed to name (stage 2 has validated it against CanonSpec)
    pr = subprocess.run([binp, "list"] + strs, capture_output=True, text=True, timeout=60)
    canon = {}
    for l in pr.stdout.split("\n"):
        if l.startswith("{"):
            r = json.loads(l)
            canon["".join("/.a\xff"[c] for c in r["s"])] = None if r["rc"] else "".join("/.a\xff"[c] for c in r["o"])
    if len(canon) != len(strs):
        raise RuntimeError("canon_table list mode: %d answers for %d strings" % (len(canon), len(strs)))
    src = work + "/funnel_src.bin"
    open(src, "wb").write(b"funnel\n")
    sys.path.insert(0, VERIF + "/tools")
    import tarfmt, sqfsimg
    MODES = ("packfile", "sort-plain", "sort-quoted", "tar-name", "cmdline", "xattr-file", "sqfs2tar-d", "sqfs2tar-r", "tar2sqfs-r", "pack-link", "tar-hlink")
    # modes that name an existing non-root entry make no statement about the strings that canonicalise to the root (the entry cannot be the root,
    # and -r treats "." / "./" before the funnel and refuses the empty result by design)
    NEED_ENTRY = ("xattr-file", "sqfs2tar-d", "sqfs2tar-r", "tar2sqfs-r", "pack-link", "tar-hlink")
    jobs = [(m, s_) for s_ in strs for m in MODES if not (m in NEED_ENTRY and canon[s_] == "")]
    jobs += [("image-name", s_) for s_ in strs]

    def tar_names(data):
        out, off = [], 0
        while off + 512 <= len(data):
            h = data[off:off + 512]
            if h == b"\0" * 512:
                break
            name = h[0:100].split(b"\0")[0]
            pre = h[345:500].split(b"\0")[0]
            size = int(h[124:136].split(b"\0")[0].strip() or b"0", 8)
            out.append(((pre + b"/" + name) if pre else name).decode("latin1"))
            off += 512 + (size + 511) // 512 * 512
        return out

    def observe(j):
        mode, s_ = jobs[j]
        p = canon[s_]                                        # None = has a '..' component
        d = "%s/fn%d" % (work, j)
        os.makedirs(d, exist_ok=True)
        img = d + "/o.sqfs"
        WRONG = [3]
        try:
            if mode == "image-name":
                # a crafted image (independent encoder) whose root holds one file of that NAME, next to a harmless one; what sqfs2tar writes as member names
                root = {"kind": "dir", "name": b"", "mode": 0o755, "raw_order": True,
                        "children": [{"kind": "file", "name": s_.encode(), "mode": 0o644, "data": b"X"}, {"kind": "file", "name": b"zzz", "mode": 0o644, "data": b"Y"}]}
                raw, _ = sqfsimg.encode(root, {"frag": True, "block_size": 4096})
                open(img, "wb").write(raw)
                rc, o, e = sh([tools + "/sqfs2tar", img], timeout=30)
                names = tar_names(o) if rc == 0 else []
                hit = [n for n in names if n not in ("zzz",)]
                if rc == 0 and hit == [s_]:
                    return mode, s_, 0, [ENC[c] for c in s_]
                if hit:
                    return mode, s_, 0, [3]                  # something else than the name itself was written for it
                return mode, s_, 1, []
            if mode == "packfile":
                open(d + "/p.txt", "w").write("dir %s 0755 0 0\n" % s_)
                rc, o, e = sh([tools + "/gensquashfs", "-q", "-f", "-F", d + "/p.txt", img], timeout=30)
                if rc:
                    return mode, s_, 1, []
                dirs = [x.decode() for x in sqfsimg.load(img).tree(with_content=False) if x]
                deepest = max(dirs, key=len) if dirs else ""
                return mode, s_, 0, [ENC[c] for c in deepest]
            if mode in ("sort-plain", "sort-quoted", "cmdline"):
                target = p if p else "a"                      # a tree that holds a file exactly where the canonical form points (if there is one)
                open(d + "/p.txt", "w").write("file /%s 0644 0 0 %s\nfile /zzz 0644 0 0 %s\n" % (target, src, src))
                if mode == "cmdline":
                    rc, o, e = sh([tools + "/gensquashfs", "-q", "-f", "-F", d + "/p.txt", img], timeout=30)
                    if rc:
                        raise RuntimeError("funnel: cannot pack the lookup tree: %s" % e[-200:])
                    if p == "":                              # names the root: list it
                        rc, o, e = sh([tools + "/rdsquashfs", "-l", s_, img], timeout=30)
                        return mode, s_, 0, ([] if rc == 0 and b"zzz" in o else WRONG)
                    rc, o, e = sh([tools + "/rdsquashfs", "-c", s_, img], timeout=30)
                    if rc == 0 and o == b"funnel\n":
                        return mode, s_, 0, ([ENC[c] for c in p] if p else WRONG)          # found: the tool used the path the file sits at
                    return (mode, s_, 1, []) if p is None else (mode, s_, 0, WRONG)   # refused / not found although the canonical path exists
                sf = d + "/s.txt"
                open(sf, "w").write("-5 %s\n" % (('"%s"' % s_) if mode == "sort-quoted" else s_))
                rc, o, e = sh([tools + "/gensquashfs", "-q", "-f", "-b", "4096", "-F", d + "/p.txt", "-S", sf, img], timeout=30)
                if rc:
                    return mode, s_, 1, []
                matched = b"no match" not in e.lower() and b"not match" not in e.lower() and not e.strip()
                if p:
                    return mode, s_, 0, ([ENC[c] for c in p] if matched else WRONG)
                # a string whose canonical form is empty (names the root) or that must be refused: accepted without effect = empty path
                return mode, s_, 0, ([] if not matched else WRONG)
            if mode == "xattr-file":
                target = p if p else "a"
                open(d + "/p.txt", "w").write("file /%s 0644 0 0 %s\nfile /zzz 0644 0 0 %s\n" % (target, src, src))
                open(d + "/x.txt", "w").write("# file: %s\nuser.k=\"v\"\n" % s_)
                rc, o, e = sh([tools + "/gensquashfs", "-q", "-f", "-F", d + "/p.txt", "-A", d + "/x.txt", img], timeout=30)
                if rc:
                    return mode, s_, 1, []
                t = sqfsimg.load(img).tree(with_content=False)
                has = [k.decode() for k, n in t.items() if n["xattrs"]]
                return mode, s_, 0, ([ENC[c] for c in has[0]] if len(has) == 1 else WRONG if has else [])
            if mode == "sqfs2tar-d":
                target = p if p else "a"
                open(d + "/p.txt", "w").write("dir /%s 0755 0 0\nfile /%s/zzz 0644 0 0 %s\nfile /other 0644 0 0 %s\n" % (target, target, src, src))
                rc, o, e = sh([tools + "/gensquashfs", "-q", "-f", "-F", d + "/p.txt", img], timeout=30)
                if rc:
                    raise RuntimeError("funnel: cannot pack the lookup tree: %s" % e[-200:])
                rc, o, e = sh([tools + "/sqfs2tar", "-k", "-d", s_, img], timeout=30)
                if rc:
                    return (mode, s_, 1, []) if p is None else (mode, s_, 0, WRONG)
                names = [x.rstrip("/") for x in tar_names(o)]
                return mode, s_, 0, ([ENC[c] for c in p] if p and (p + "/zzz") in names and "other" not in names else WRONG)
            if mode == "sqfs2tar-r":
                open(d + "/p.txt", "w").write("file /zzz 0644 0 0 %s\n" % src)
                rc, o, e = sh([tools + "/gensquashfs", "-q", "-f", "-F", d + "/p.txt", img], timeout=30)
                if rc:
                    raise RuntimeError("funnel: cannot pack the lookup tree: %s" % e[-200:])
                rc, o, e = sh([tools + "/sqfs2tar", "-r", s_, img], timeout=30)
                if rc:
                    return mode, s_, 1, []
                names = [x for x in tar_names(o) if x.endswith("/zzz")]
                return mode, s_, 0, ([ENC[c] for c in names[0][:-4]] if len(names) == 1 and set(names[0][:-4]) <= set(ENC) else WRONG)
            if mode == "tar2sqfs-r":
                # the member below the named root is kept with the root stripped, everything else is dropped
                arch = b""
                if p:
                    parts = p.split("/")
                    for i in range(1, len(parts) + 1):
                        arch += tarfmt.header(("/".join(parts[:i]) + "/").encode(), b"5", mode=0o755)
                    arch += tarfmt.header((p + "/zzz").encode(), b"0", size=7) + tarfmt.pad(b"funnel\n")
                arch += tarfmt.header(b"outside", b"0", size=7) + tarfmt.pad(b"funnel\n") + tarfmt.terminator()
                rc, o, e = sh([tools + "/tar2sqfs", "-q", "-f", "-r", s_, img], stdin=arch, timeout=30)
                if rc:
                    return mode, s_, 1, []
                t = [x.decode() for x in sqfsimg.load(img).tree(with_content=False) if x]
                return mode, s_, 0, ([ENC[c] for c in p] if p and t == ["zzz"] else WRONG)
            if mode == "pack-link":
                target = p if p else "a"
                open(d + "/p.txt", "w").write("file /%s 0644 0 0 %s\nlink /zzlink 0644 0 0 %s\n" % (target, src, s_))
                rc, o, e = sh([tools + "/gensquashfs", "-q", "-f", "-F", d + "/p.txt", img], timeout=30)
                if rc:
                    return (mode, s_, 1, []) if p is None else (mode, s_, 0, WRONG)
                t = sqfsimg.load(img).tree(with_content=False)
                ok = p and b"zzlink" in t and t[b"zzlink"]["kind"] == "file" and t[b"zzlink"]["inum"] == t[p.encode()]["inum"]
                return mode, s_, 0, ([ENC[c] for c in p] if ok else WRONG)
            if mode == "tar-hlink":
                target = p if p else "a"
                arch = tarfmt.header(target.encode(), b"0", size=7) + tarfmt.pad(b"funnel\n") + tarfmt.header(b"zzlink", b"1", linkname=s_.encode()) + tarfmt.terminator()
                rc, o, e = sh([tools + "/tar2sqfs", "-q", "-f", img], stdin=arch, timeout=30)
                if rc:
                    return (mode, s_, 1, []) if p is None else (mode, s_, 0, WRONG)
                t = sqfsimg.load(img).tree(with_content=False)
                ok = p and b"zzlink" in t and t[b"zzlink"]["kind"] == "file" and t[b"zzlink"]["inum"] == t[p.encode()]["inum"]
                return mode, s_, 0, ([ENC[c] for c in p] if ok else WRONG)
            if mode == "tar-name":
                arch = tarfmt.header(s_.encode(), b"5", mode=0o755) + tarfmt.terminator()
                rc, o, e = sh([tools + "/tar2sqfs", "-q", "-f", "-s", img], stdin=arch, timeout=30)
                if rc:
                    return mode, s_, 1, []
                dirs = [x.decode() for x in sqfsimg.load(img).tree(with_content=False) if x]
                deepest = max(dirs, key=len) if dirs else ""
                return mode, s_, 0, [ENC[c] for c in deepest]
        finally:
            shutil.rmtree(d, ignore_errors=True)
    recs = []
    with ThreadPoolExecutor(16) as ex:
        for mode, s_, rc, o in ex.map(observe, range(len(jobs))):
            recs.append({"mode": mode, "s": [ENC[c] for c in s_], "rc": rc, "o": o})
    tp = work + "/funnel.ndjson"
    with open(tp, "w") as f:
        for r in recs:
            f.write(json.dumps(r) + "\n")
    cfg = work + "/funnel.cfg"
    write_cfg(cfg, init="TInit", nxt="TNext", constants={"MaxLen": 0, "Alphabet": {0, 1, 2, 3}}, invariants=["AllRecordsAgree", "NonEmpty"], deadlock=False)
    r = run_tlc("TraceFunnel", cfg, workers=1, timeout=1500, env={"TRACE": tp}, heap="6g")
    ev.tlc(r, "TraceFunnel (%d records)" % len(recs))
    ev.set("funnel_records", len(recs))
    ev.set("funnel_by_mode", {m: {"used_canonical": sum(1 for r_ in recs if r_["mode"] == m and r_["rc"] == 0), "refused": sum(1 for r_ in recs if r_["mode"] == m and r_["rc"])} for m in MODES})
    if r["violated"] == "AllRecordsAgree":
        bad = sorted(r["trace"][0].get("bad")) if r["trace"] else []
        first = recs[bad[0] - 1] if bad else None
        dec = lambda q: "".join("/.a\xff"[c] for c in q)
        byMode = {}
        ev.set("funnel_modes", list(MODES))
        for b in bad:
            byMode.setdefault(recs[b - 1]["mode"], []).append(dec(recs[b - 1]["s"]))
        rep.violation("funnel-" + (first["mode"] if first else "?"), "a tool input mode does not funnel its string through canonicalize_name: mode %s, string %r -> %s; %s"
                      % (first and first["mode"], first and dec(first["s"]), ("refused" if first and first["rc"] else "used as %r" % (first and (dec(first["o"]) if first["o"] != [3] else "<another path / no effect>"))),
                         {m: v[:5] for m, v in byMode.items()}), artefact=tp, data={"first": first})
    elif not r["ok"]:
        print("CHECK-BROKEN: funnel validation failed to run: %s" % r["out"][-800:])
        return None
    return len(recs)


def run(tier):
    ev = Evidence(PID, tier, "model_checking")
    rep = Reporter(PID, ev)
    work = scratch("c18")
    binp = build_harness(work)
    L = 8 if tier == "quick" else 10
    # 1. theorems about the specification itself, all strings up to LT
    LT = 7 if tier == "quick" else 9
    cfg = work + "/thm.cfg"
    write_cfg(cfg, init="EInit", nxt="ENext", constants={"MaxLen": LT, "Alphabet": {0, 1, 2, 3}},
              invariants=["Theorems"], deadlock=False)
    r = run_tlc("Canon", cfg, workers=16, timeout=3000, heap="12g")
    ev.tlc(r, "Canon theorems, all strings over {/ . a 0xff} up to length %d" % LT)
    if not r["ok"]:
        print("MODEL-FAILURE: Canon theorems violated: %s" % r["violated"])
        print(r["out"][-1500:])
        ev.write()
        return 2
    # 2. table of the real functions over the whole domain, validated by TLC
    parts = 16 if tier == "quick" else 64
    files = []

    def gen(i):
        p = work + "/tab%d.ndjson" % i
        with open(p, "w") as f:
            pr = subprocess.run([binp, "all", str(L), str(i), str(parts)], stdout=f, stderr=subprocess.PIPE, timeout=600)
        return p, pr.returncode, pr.stderr.decode(errors="replace")

    with ThreadPoolExecutor(max_workers=16) as ex:
        res = list(ex.map(gen, range(parts)))
    nrec = 0
    for p, rc, err in res:
        if rc != 0:
            rep.violation("canon-crash", "canonicalize_name/is_filename_sane crashed or tripped ASan: %s" % err[-400:], artefact=p)
        files.append(p)
    # random long strings
    for k, (cnt, ml) in enumerate([(3000, 40), (300, 300)] if tier == "quick" else [(40000, 40), (3000, 300), (200, 1500)]):
        p = work + "/rnd%d.ndjson" % k
        with open(p, "w") as f:
            pr = subprocess.run([binp, "random", str(SEED + k), str(cnt), str(ml)], stdout=f, stderr=subprocess.PIPE, timeout=600)
        if pr.returncode != 0:
            rep.violation("canon-crash", "crash/ASan on random strings: %s" % pr.stderr.decode(errors="replace")[-400:], artefact=p)
        files.append(p)

    def val(p):
        return p, validate(work, os.path.basename(p).split(".")[0], p, ev)

    with ThreadPoolExecutor(max_workers=8) as ex:
        vres = list(ex.map(val, files))
    for p, r in vres:
        n = sum(1 for _ in open(p))
        nrec += n
        ev.tlc(r, "TraceCanon %s (%d records)" % (os.path.basename(p), n))
        if r["violated"] == "AllRecordsAgree":
            bad = r["trace"][0].get("bad") if r["trace"] else None
            recs = [json.loads(l) for l in open(p)]
            first = recs[sorted(bad)[0] - 1] if bad else None
            what = "real function disagrees with CanonSpec/SaneSpec on %d strings, e.g. %r -> rc=%s out=%r sane=%s" % (
                len(bad or []), decode(first["s"]) if first else "?", first and first["rc"], first and decode(first["o"]), first and first["sane"])
            rep.violation("canon-mismatch", what, artefact=p, data={"first": first})
        elif not r["ok"]:
            print("CHECK-BROKEN: trace validation failed to run on %s: %s" % (p, r["out"][-800:]))
            ev.write()
            return 2
    fn = funnel_stage(work, binp, ev, rep, tier)
    if fn is None:
        ev.write()
        return 2
    nrec += fn
    recs = [json.loads(l) for l in open(files[0])][:3] + [json.loads(l) for l in open(files[-1])][:2]
    for x in recs:
        ev.sample({"string": decode(x["s"]), "rc": x["rc"], "result": decode(x["o"]), "sane": x["sane"]}, limit=5)
    ev.set("traces_validated_against_impl", nrec)
    ev.set("exhaustive", True)
    ev.set("bounds", {"alphabet": "'/', '.', 'a', 0xff", "exhaustive_length": L, "theorem_length": LT,
                      "random": "seeded strings up to length 300 (quick) / 1500 (thorough)"})
    ev.assumptions += ["strings containing NUL are not strings for a C API", "alphabet of 4 character classes represents all bytes: "
                       "the functions branch only on '/', '.', NUL (checked by reading the code; random strings use other bytes too)"]
    shutil.rmtree(work, ignore_errors=True)
    return rep.finish()


def replay(path):
    print(open(path).read()[:2000])
    return run("quick")
