"""binding of spec/CompOpts.tla: encoding of the option record, the TLC runs, the reader harness"""
import json, os, struct, subprocess
import build, bpbind
from vlib import VERIF, run_tlc, write_cfg

CONSTS = {"Emit": False, "MaxToks": 2, "PercentSuffix": '"rejected"', "CreateChecksDictShape": True, "ReadChecksFields": True}
INV = ["WrittenReadsBack", "OrderFree", "LaterWins", "DefaultsStoreNothing", "HostileJudged"]


def bits(fl):
    return sum(int(x) for x in fl)


def encode(r):
    """option record of the model -> bytes behind the super block (None = no record)"""
    k = r["kind"]
    if k == "none":
        return None
    if k == "gzip":
        body = struct.pack("<IHH", r["level"] & 0xffffffff, r["window"] & 0xffff, bits(r["flags"]) & 0xffff)
    elif k == "xz":
        body = struct.pack("<II", r["dict"], bits(r["flags"]))
    elif k == "zstd":
        body = struct.pack("<I", r["level"])
    elif k == "lz4":
        body = struct.pack("<II", r["version"], bits(r["flags"]))
    else:
        raise ValueError(k)
    return struct.pack("<H", 0x8000 | len(body)) + body


def model_check(work, ev, maxtoks):
    """TLC: invariants on the as-built constants, the two deviations, then the emission; returns (cases, hostile) or None"""
    cfg = work + "/co.cfg"
    C = dict(CONSTS, MaxToks=maxtoks)
    write_cfg(cfg, spec="Spec", constants=C, invariants=INV, deadlock=False)
    r = run_tlc("CompOpts", cfg, workers=8, timeout=1500, heap="8g")
    ev.tlc(r, "CompOpts MaxToks=%d" % maxtoks)
    if not r["ok"]:
        print("MODEL-FAILURE: CompOpts violates %s" % r["violated"])
        return None
    for dev, val, want in (("CreateChecksDictShape", False, "WrittenReadsBack"), ("ReadChecksFields", False, "HostileJudged")):
        write_cfg(cfg, spec="Spec", constants=dict(C, **{dev: val}), invariants=INV, deadlock=False)
        r = run_tlc("CompOpts", cfg, workers=4, timeout=600)
        ev.tlc(r, "dev CompOpts " + dev)
        if r["violated"] != want:
            print("SELF-CHECK-FAILED: CompOpts deviation %s: %s" % (dev, r["violated"]))
            return None
    write_cfg(cfg, spec="Spec", constants=dict(C, Emit=True), invariants=["EmitOK", "EmitHostile"], deadlock=False)
    r = run_tlc("CompOpts", cfg, workers=8, timeout=1500, heap="8g")
    cases = bpbind.parse_emitted(r["out"])
    hostile = []
    for l in r["out"].split("\n"):
        if '"HOSTILE"' in l:
            import re
            m = re.search(r'<<"HOSTILE", "(.*)">>', l)
            if m:
                hostile = json.loads(m.group(1).encode().decode("unicode_escape"))["recs"]
    return cases, hostile


def reader(work, tag="x"):
    binp = work + "/replay_compopt"
    if not os.path.exists(binp) and not build.compile_harness(VERIF + "/harness/replay_compopt.c", binp, variant="asan"):
        raise RuntimeError("harness build failed")

    def read(comp, bs, rec_bytes, idx):
        scratch = "%s/co_%s_%d.bin" % (work, tag, idx)
        try:
            q = subprocess.run(["timeout", "20", binp, comp, str(bs), rec_bytes.hex(), scratch], capture_output=True, text=True,
                               env=dict(os.environ, ASAN_OPTIONS="detect_leaks=1"))
        finally:
            pass
        if os.path.exists(scratch):
            os.unlink(scratch)
        if "ERROR: AddressSanitizer" in q.stderr or q.returncode != 0:
            return {"crash": (q.stderr or "")[-300:] or "exit %d" % q.returncode}
        return json.loads(q.stdout.strip().split("\n")[-1])
    return read
