#!/usr/bin/env python3
"""Independent low-level tar record writer (ustar / GNU / PAX records) used to concretise abstract header
sequences; shares no code with lib/tar."""
import struct


def octal(v, width):
    return (("%0*o" % (width - 1, v)).encode() + b"\0")[-width:]


def header(name, typeflag=b"0", size=0, mode=0o644, uid=0, gid=0, mtime=0, linkname=b"", magic=b"ustar\0" + b"00",
           devmajor=0, devminor=0, prefix=b"", raw_size=None, raw_uid=None):
    h = bytearray(512)
    h[0:len(name[:100])] = name[:100]
    h[100:108] = octal(mode, 8)
    h[108:116] = raw_uid if raw_uid is not None else octal(uid, 8)
    h[116:124] = octal(gid, 8)
    h[124:136] = raw_size if raw_size is not None else octal(size, 12)
    h[136:148] = octal(mtime, 12)
    h[148:156] = b" " * 8
    h[156:157] = typeflag
    h[157:157 + len(linkname[:100])] = linkname[:100]
    h[257:265] = magic
    h[329:337] = octal(devmajor, 8)
    h[337:345] = octal(devminor, 8)
    h[345:345 + len(prefix[:155])] = prefix[:155]
    chk = sum(h)
    h[148:156] = ("%06o" % chk).encode() + b"\0 "
    return bytes(h)


def pad(data):
    return data + b"\0" * ((512 - len(data) % 512) % 512)


def gnu_long(kind, value):
    """kind b'L' (name) or b'K' (link target)"""
    payload = value + b"\0"
    return header(b"././@LongLink", typeflag=kind, size=len(payload), magic=b"ustar  \0") + pad(payload)


def pax_record(key, value):
    body = b" " + key + b"=" + value + b"\n"
    n = len(body) + 1
    while len(str(n)) + len(body) != n:
        n = len(str(n)) + len(body)
    return str(n).encode() + body


def pax(fields, global_=False):
    payload = b"".join(pax_record(k, v) for k, v in fields)
    return header(b"pax_global" if global_ else b"PaxHeaders/x", typeflag=b"g" if global_ else b"x", size=len(payload)) + pad(payload)


def base256(v, width):
    if v < 0:
        v += 1 << (8 * width)
        b = v.to_bytes(width, "big")
        return bytes([b[0] | 0x80]) + b[1:] if not b[0] & 0x80 else b
    b = v.to_bytes(width - 1, "big")
    return b"\x80" + b


def terminator():
    return b"\0" * 1024
