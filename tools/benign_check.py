#!/usr/bin/env python3
"""False-alarm regression: applies each property-PRESERVING change under /verif/benign/*.diff to a throw-away worktree of
/repo's HEAD and runs the quick tier of every check (or of the listed ones) against it.  Every check has to exit 0 and
print no VIOLATION line: the changes alter the layout of the image, buffer sizes, system-call chunking, the wording of
messages or internal state of the pool / readers, but none of them breaks any of the 19 properties.
usage: benign_check.py [-j N] [--checks C01,C09] [patch names]      exit 1 if any check raised an alarm
The evidence of these runs goes to a scratch directory (VERIF_EVIDENCE_DIR), never to /verif/evidence."""
import json, os, subprocess, sys, time
from concurrent.futures import ThreadPoolExecutor

def sh(cmd, timeout=7200):
    p = subprocess.run(cmd, shell=True, capture_output=True, text=True, timeout=timeout)
    return p.returncode, p.stdout + p.stderr

args = sys.argv[1:]
jobs, checks = 2, ["C%02d" % i for i in range(1, 20)]
names = []
while args:
    a = args.pop(0)
    if a == "-j":
        jobs = int(args.pop(0))
    elif a == "--checks":
        checks = args.pop(0).split(",")
    else:
        names.append(a)
V = os.path.dirname(os.path.dirname(os.path.abspath(__file__)))      # the checkout this script lives in
B = V + "/benign"
# changes that keep every property but the listed ones (the alarm of those checks is the expected, correct outcome)
EXPECT = json.load(open(B + "/EXPECT.json")) if os.path.exists(B + "/EXPECT.json") else {}
names = names or sorted(f[:-5] for f in os.listdir(B) if f.endswith(".diff"))

def one(name):
    tree = "/tmp/repo_benign_%d_%s" % (os.getpid(), name)
    evd = tree + "_ev"
    res = {}
    sh("git -C /repo worktree add --detach %s HEAD" % tree)
    try:
        sh("cp /repo/config.h /repo/config.status %s/" % tree)
        rc, o = sh("git -C %s apply %s/%s.diff" % (tree, B, name))
        if rc != 0:
            return name, {"*": "patch does not apply: " + o[-200:]}
        for c in checks:
            t = time.time()
            rc, o = sh("cd %s && VERIF_REPO=%s VERIF_EVIDENCE_DIR=%s timeout 3000 ./check %s --tier quick" % (V, tree, evd, c))
            lines = [l for l in o.split("\n") if l.startswith("VIOLATION") or l.strip().startswith("what:") or "CHECK-BROKEN" in l or "SPEC-DRIFT" in l]
            res[c] = {"rc": rc, "wall_s": round(time.time() - t), "lines": [l[:300] for l in lines[:6]]}
            if c in EXPECT.get(name, []):
                res[c]["expected_alarm"] = True
                print(name, c, "alarm as expected" if rc == 1 else "EXPECTED ALARM MISSING rc=%d" % rc, flush=True)
                res[c]["rc"] = 0 if rc == 1 else 3
                continue
            print(name, c, "ok" if rc == 0 else "ALARM rc=%d" % rc, "(drift noted)" if any("SPEC-DRIFT" in l for l in lines) and rc == 0 else "", flush=True)
    finally:
        sh("git -C /repo worktree remove --force %s; rm -rf %s" % (tree, evd))
    return name, res

bad = 0
out = {}
with ThreadPoolExecutor(jobs) as ex:
    for name, res in ex.map(one, names):
        out[name] = res
        bad += sum(1 for c in res.values() if (c if isinstance(c, str) else c["rc"]) != 0)
# merge into the recorded results: a run over a few (change, check) pairs must not wipe the others
_rp = os.path.join(B, "result.json")
_all = json.load(open(_rp)) if os.path.exists(_rp) else {}
for _k, _v in out.items():
    _all.setdefault(_k, {}).update(_v)
json.dump(_all, open(_rp, "w"), indent=1)
print("benign changes: %d, checks per change: %d, alarms: %d" % (len(names), len(checks), bad))
sys.exit(1 if bad else 0)
