#!/usr/bin/env python3
"""Gap analysis: builds the tree with --coverage (separate cache: VERIF_CACHE), runs the quick tier of every check against it and
reports, per source file of lib/ and bin/, which share of the executable lines the checks reach, and the functions they never enter.
Alarms of these runs are ignored (the instrumented build is slow: time-outs may fire); evidence goes to a scratch directory.
usage: coverage.py [-j N] [checks...]   ->  coverage/summary.json, coverage/unreached.txt"""
import glob, gzip, json, os, subprocess, sys
from concurrent.futures import ThreadPoolExecutor
V = os.path.dirname(os.path.dirname(os.path.abspath(__file__)))
args = sys.argv[1:]
jobs = 3
if args[:1] == ["-j"]:
    jobs = int(args[1]); args = args[2:]
checks = args or ["C%02d" % i for i in range(1, 20)]
cache = "/tmp/verif_covcache"
env = dict(os.environ, VERIF_COVERAGE="1", VERIF_CACHE=cache, VERIF_EVIDENCE_DIR="/tmp/verif_cov_ev")
if "--report-only" not in sys.argv:
    def run(c):
        p = subprocess.run("cd %s && timeout 5400 ./check %s --tier quick" % (V, c), shell=True, capture_output=True, text=True, env=env)
        print(c, "rc", p.returncode, flush=True)
    with ThreadPoolExecutor(jobs) as ex:
        list(ex.map(run, [c for c in checks if c.startswith("C")]))
lines = {}      # file -> {line: count}
funcs = {}      # (file, function) -> count
for d in glob.glob(cache + "/build/*-cov/obj"):
    gcdas = glob.glob(d + "/*.gcda")
    if not gcdas:
        continue
    p = subprocess.run(["gcov", "--json-format", "--stdout"] + gcdas, capture_output=True, cwd=d)
    for doc in p.stdout.decode(errors="replace").split("\n"):
        if not doc.strip().startswith("{"):
            continue
        try:
            j = json.loads(doc)
        except ValueError:
            continue
        for f in j.get("files", []):
            name = f["file"]
            if "/repo" not in name and not name.startswith(("lib/", "bin/")):
                continue
            name = name.split("/repo/")[-1] if "/repo/" in name else name
            name = name[name.index("lib/"):] if "lib/" in name else (name[name.index("bin/"):] if "bin/" in name else name)
            L = lines.setdefault(name, {})
            for ln in f.get("lines", []):
                L[ln["line_number"]] = L.get(ln["line_number"], 0) + ln["count"]
            for fn in f.get("functions", []):
                funcs[(name, fn["name"])] = funcs.get((name, fn["name"]), 0) + fn["execution_count"]
os.makedirs(V + "/coverage", exist_ok=True)
summ = {}
for name, L in sorted(lines.items()):
    if name.endswith(".h") or "/test/" in name:
        continue
    tot, hit = len(L), sum(1 for c in L.values() if c)
    summ[name] = {"lines": tot, "hit": hit, "pct": round(100.0 * hit / tot, 1) if tot else 100.0}
json.dump(summ, open(V + "/coverage/summary.json", "w"), indent=1)
un = sorted((f, fn) for (f, fn), c in funcs.items() if c == 0 and not f.endswith(".h") and "/test/" not in f)
open(V + "/coverage/unreached.txt", "w").write("\n".join("%s\t%s" % x for x in un) + "\n")
T = sum(v["lines"] for v in summ.values()); H = sum(v["hit"] for v in summ.values())
print("files %d, executable lines %d, reached %d (%.1f %%), functions never entered %d" % (len(summ), T, H, 100.0 * H / max(T, 1), len(un)))
for name, v in sorted(summ.items(), key=lambda x: x[1]["pct"])[:25]:
    print("%5.1f %%  %4d/%4d  %s" % (v["pct"], v["hit"], v["lines"], name))
