import sys
pid=sys.argv[1]
focus=sys.argv[2] if len(sys.argv) > 2 else None
prop=open('/tmp/prop_%s.txt'%pid).read()
print(f"""You are helping test a verification framework by producing a *seeded defect* in a C project (squashfs-tools-ng, SquashFS packing/unpacking tools and library, autotools).

Work ONLY inside your own scratch git worktree at /tmp/wt_{pid} (a detached checkout of the repository). Do not read or write anything under /repo or /verif, and do not look for any verification machinery: your change must be designed independently, from the property text below and the source code alone.

Property that your change must break:
---
{prop}---

Task:
1. Build the worktree once (cd /tmp/wt_{pid} && ./autogen.sh >/dev/null 2>&1; ./configure >/dev/null 2>&1 && make -j8 >/dev/null 2>&1) and confirm `make -j8 check` passes (89 tests) before you change anything. Always wrap invocations of the built tools in `timeout 20 ...`.
2. Design ONE realistic source change (a plausible bug a maintainer could introduce: a wrong condition, a missing re-check, an off-by-one, a dropped flag, a reordered statement, two sites that each look fine alone ...) that makes the code violate the property above. It must:
   - still compile without new warnings being errors, and `make -j8 check` must still pass (all 89 tests) with the change applied;
   - need something specific to manifest (a particular interleaving, a fault or crash at a particular point, a multi-step sequence of operations, an unusual input or option combination, or two cooperating sites) - NOT something that ordinary use exposes at once;
   - be small (ideally < 25 changed lines), touching only files under lib/, bin/ or include/.{(chr(10) + '   - ' + focus) if focus else ''}
3. Write a demonstration (a small C program linked against the built library/objects, or a shell/python script driving the built tools) that FAILS (non-zero exit, with a message saying what went wrong) with your change applied and PASSES (exit 0) on the unchanged checkout. Verify both directions yourself (use `git stash` / `git stash pop` or `git diff > patch; git checkout .; ...; git apply patch`), rebuilding in between.
4. Leave your results in /tmp/wt_{pid}/_seed/ :
   - patch.diff  (output of `git diff` for the source change only, applicable with `git apply` at the repository root)
   - demo.sh or demo.c (+ a one-line comment at the top saying how to build/run it; it must locate the tools relative to a directory given as first argument or environment variable REPO, default /tmp/wt_{pid})
   - meta.json  with keys: property ("{pid.upper()}"), summary (what the change does), needs (what is needed for it to manifest), files (list), verified (what you ran and observed, including the make check result with the patch applied)
   Finally leave the worktree with the change REVERTED (git checkout of the sources), keeping only _seed/.
Report briefly what you did. If you cannot find a change that keeps the test-suite green, say so instead of weakening the requirements.""")
