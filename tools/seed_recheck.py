#!/usr/bin/env python3
"""Regression over the kept seeded changes: for each seeded/<name>/ (or the names given) apply patch.diff to /repo,
run the property's quick check, revert, and update the "checks" entry of eval.json.  Prints one line per seed:
  <name> <property> detected|MISSED|n/a(patch no longer applies)
Nothing is ever committed to /repo.  usage: seed_recheck.py [name ...]"""
import json, os, subprocess, sys, time

def sh(cmd, timeout=3600):
    p = subprocess.run(cmd, shell=True, capture_output=True, text=True, timeout=timeout)
    return p.returncode, p.stdout + p.stderr

V = os.path.dirname(os.path.dirname(os.path.abspath(__file__)))      # the checkout this script lives in (a snapshot can run on its own)
names = [a for a in sys.argv[1:] if not a.startswith("--")] or sorted(os.listdir(V + "/seeded"))
# default: in /repo itself (the documented way: git -C /repo apply, check, git -C /repo checkout -- .).
# --scratch: in a throw-away worktree of /repo's HEAD with VERIF_REPO pointing at it, so that /repo stays free for other runs
SCRATCH = "--scratch" in sys.argv
TREE = "/repo"
EVD = "/tmp/seed_evidence_%d" % os.getpid()      # the evidence of runs on a broken tree never lands in /verif/evidence
ENV = "VERIF_EVIDENCE_DIR=%s " % EVD
if SCRATCH:
    TREE = "/tmp/repo_seed_%d" % os.getpid()
    sh("git -C /repo worktree add --detach %s HEAD" % TREE)
    sh("cp /repo/config.h /repo/config.status %s/" % TREE)
    ENV += "VERIF_REPO=%s " % TREE
rc, o = sh("git -C %s status --short | grep -v '^??' | head -1" % TREE)
if o.strip():
    print("refusing: %s has uncommitted changes" % TREE); sys.exit(2)
missed = 0
for name in names:
    d = os.path.join(V, "seeded", name)
    if not os.path.exists(d + "/patch.diff"):
        continue
    ev = json.load(open(d + "/eval.json")) if os.path.exists(d + "/eval.json") else {"name": name}
    pid = ev.get("property") or json.load(open(d + "/meta.json"))["property"]
    rc, o = sh("git -C %s apply %s/patch.diff" % (TREE, d))
    if rc != 0:
        print(name, pid, "n/a(patch no longer applies)")
        ev["applies_to_repo_head"] = False
        json.dump(ev, open(d + "/eval.json", "w"), indent=1)
        continue
    try:
        t = time.time()
        rc2, o2 = sh("cd %s && %s./check %s --tier quick" % (V, ENV, pid))
        viol = [l for l in o2.split("\n") if l.startswith("VIOLATION") or l.strip().startswith("what:")]
    finally:
        sh("git -C %s checkout -- ." % TREE)
    ev.setdefault("checks", {})[pid] = {"rc": rc2, "wall_s": round(time.time() - t), "violations": [v[:400] for v in viol[:6]], "rechecked": time.strftime("%F %T")}
    ev["applies_to_repo_head"] = True
    json.dump(ev, open(d + "/eval.json", "w"), indent=1)
    det = rc2 == 1 and viol
    if ev.get("neutralised_by"):
        # a later fix: commit put a second barrier behind the code this seed breaks: the property holds on the seeded tree (its own demo passes),
        # so the check has to stay quiet - the seed now serves as a property-preserving change
        missed += bool(det or rc2 != 0)
        print(name, pid, "neutralised by %s: %s" % (ev["neutralised_by"], "quiet (ok)" if rc2 == 0 and not viol else "ALARM rc %d" % rc2), flush=True)
        continue
    missed += not det
    print(name, pid, "detected" if det else "MISSED (rc %d)" % rc2, flush=True)
sh("rm -rf %s" % EVD)
if SCRATCH:
    sh("git -C /repo worktree remove --force %s" % TREE)
sys.exit(1 if missed else 0)
