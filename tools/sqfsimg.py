#!/usr/bin/env python3
"""Independent SquashFS 4.0 image decoder (and a small encoder for adversarial images), written from
doc/format.adoc; shares no code with the repository.  The decoder turns an image into
  * an abstract meaning (tree: path -> node record, file contents) and
  * an event log (one event per on-disk record, in on-disk order per table) that the TLA+ trace
    specification spec/ImageInv.tla validates (the image is the writer's append-only log).
Only *parse* failures raise DecodeError; format rules are NOT enforced here (that is ImageInv's job)."""
import ctypes, hashlib, lzma, struct, zlib, json, sys, os

MAGIC = 0x73717368
COMP = {1: "gzip", 2: "lzma", 3: "lzo", 4: "xz", 5: "lz4", 6: "zstd"}
TYPES = {1: "dir", 2: "file", 3: "slink", 4: "blk", 5: "chr", 6: "fifo", 7: "sock"}
FLAG_NAMES = {0x0001: "UNCOMP_INODES", 0x0002: "UNCOMP_DATA", 0x0004: "CHECK", 0x0008: "UNCOMP_FRAGS",
              0x0010: "NO_FRAGS", 0x0020: "ALWAYS_FRAGS", 0x0040: "DUPLICATES", 0x0080: "EXPORTABLE",
              0x0100: "UNCOMP_XATTRS", 0x0200: "NO_XATTRS", 0x0400: "COMP_OPTS", 0x0800: "UNCOMP_IDS"}
NOFRAG = 0xFFFFFFFF
NOXATTR = 0xFFFFFFFF
INVALID64 = 0xFFFFFFFFFFFFFFFF


class DecodeError(Exception):
    pass


_lz4 = _zstd = None


def _libs():
    global _lz4, _zstd
    if _lz4 is None:
        try:
            _lz4 = ctypes.CDLL("liblz4.so.1")
        except OSError:
            _lz4 = False
        try:
            _zstd = ctypes.CDLL("libzstd.so.1")
            _zstd.ZSTD_decompress.restype = ctypes.c_size_t
            _zstd.ZSTD_isError.restype = ctypes.c_uint
        except OSError:
            _zstd = False


def decompress(comp, data, maxout):
    try:
        if comp == "gzip":
            out = zlib.decompress(data)
        elif comp == "xz":
            out = lzma.decompress(data, format=lzma.FORMAT_XZ)
        elif comp == "lzma":
            # squashfs lzma: 5 byte props + 8 byte LE uncompressed size (lzma-alone) - python handles FORMAT_ALONE
            out = lzma.decompress(data, format=lzma.FORMAT_ALONE)
        elif comp == "lz4":
            _libs()
            buf = ctypes.create_string_buffer(maxout)
            n = _lz4.LZ4_decompress_safe(data, buf, len(data), maxout)
            if n < 0:
                raise DecodeError("lz4 decompress failed")
            out = buf.raw[:n]
        elif comp == "zstd":
            _libs()
            buf = ctypes.create_string_buffer(maxout)
            n = _zstd.ZSTD_decompress(buf, ctypes.c_size_t(maxout), data, ctypes.c_size_t(len(data)))
            if _zstd.ZSTD_isError(ctypes.c_size_t(n)):
                raise DecodeError("zstd decompress failed")
            out = buf.raw[:n]
        else:
            raise DecodeError("unsupported compressor %s" % comp)
    except (zlib.error, lzma.LZMAError) as e:
        raise DecodeError("decompress: %s" % e)
    if len(out) > maxout:
        raise DecodeError("decompressed block larger than limit (%d > %d)" % (len(out), maxout))
    return out


class MetaStream:
    """metadata blocks starting at absolute offset `start`; random access by (block offset, byte offset)"""

    def __init__(self, img, start, table, limit=None):
        self.img, self.start, self.table, self.limit = img, start, table, limit
        self.cache = {}

    def block(self, rel):
        if rel in self.cache:
            return self.cache[rel]
        pos = self.start + rel
        d = self.img.data
        if pos + 2 > len(d) or (self.limit is not None and pos >= self.limit):
            raise DecodeError("%s: metadata block at %d out of range" % (self.table, pos))
        hdr = struct.unpack_from("<H", d, pos)[0]
        size = hdr & 0x7FFF
        unc = bool(hdr & 0x8000)
        if pos + 2 + size > len(d):
            raise DecodeError("%s: metadata block at %d truncated" % (self.table, pos))
        raw = d[pos + 2:pos + 2 + size]
        out = raw if unc else decompress(self.img.comp, raw, 8192)
        rec = (out, 2 + size, unc, size)
        self.cache[rel] = rec
        self.img.meta_seen.setdefault((self.table, pos), {"e": "MetaBlock", "table": self.table, "off": pos,
                                                          "stored": size, "compressed": not unc, "usize": len(out)})
        return rec

    def read(self, rel, off, n):
        """returns (bytes, new rel, new off); a position at the end of a full block is normalised to
        the start of the next one (that is how references are written)"""
        out = []
        blk = None
        while n > 0:
            blk, adv, _, _ = self.block(rel)
            if off >= len(blk):
                if off > len(blk) or len(blk) == 0:
                    raise DecodeError("%s: offset %d beyond block of %d" % (self.table, off, len(blk)))
                rel += adv
                off = 0
                continue
            take = blk[off:off + n]
            out.append(take)
            n -= len(take)
            off += len(take)
        if blk is not None and off == len(blk) and len(blk) == 8192:
            rel += self.block(rel)[1]
            off = 0
        return b"".join(out), rel, off


class Reader:
    def __init__(self, ms, rel, off):
        self.ms, self.rel, self.off = ms, rel, off

    def get(self, n):
        b, self.rel, self.off = self.ms.read(self.rel, self.off, n)
        if len(b) != n:
            raise DecodeError("short metadata read")
        return b

    def u16(self):
        return struct.unpack("<H", self.get(2))[0]

    def s16(self):
        return struct.unpack("<h", self.get(2))[0]

    def u32(self):
        return struct.unpack("<I", self.get(4))[0]

    def u64(self):
        return struct.unpack("<Q", self.get(8))[0]

    def pos(self):
        return (self.rel, self.off)


class SqfsImage:
    def __init__(self, data, lazy=False):
        self.data = data
        self.meta_seen = {}
        self.events = []
        self._parse_super()
        self._parse_tables()
        self._parse_inodes()
        self._parse_dirs()
        self._parse_xattrs()

    # ------------------------------------------------------------------------------------------
    def _parse_super(self):
        d = self.data
        if len(d) < 96:
            raise DecodeError("file shorter than a superblock")
        (magic, inode_count, mtime, block_size, frag_count, comp_id, block_log, flags, id_count, vmaj, vmin,
         root, bytes_used, id_tbl, xattr_tbl, inode_tbl, dir_tbl, frag_tbl, export_tbl) = struct.unpack_from(
            "<IIIIIHHHHHHQQQQQQQQ", d, 0)
        if magic != MAGIC:
            raise DecodeError("bad magic")
        self.super = dict(inode_count=inode_count, mtime=mtime, block_size=block_size, frag_count=frag_count,
                          comp_id=comp_id, block_log=block_log, flags=flags, id_count=id_count, vmaj=vmaj,
                          vmin=vmin, root=root, bytes_used=bytes_used, id_tbl=id_tbl, xattr_tbl=xattr_tbl,
                          inode_tbl=inode_tbl, dir_tbl=dir_tbl, frag_tbl=frag_tbl, export_tbl=export_tbl)
        self.comp = COMP.get(comp_id, "unknown%d" % comp_id)
        if vmaj != 4 or vmin != 0:
            raise DecodeError("version %d.%d" % (vmaj, vmin))
        if block_size == 0 or bytes_used > len(d):
            raise DecodeError("superblock: block size 0 or bytes_used beyond file")
        self.block_size = block_size
        self.flagset = sorted(n for b, n in FLAG_NAMES.items() if flags & b)
        self.comp_opts = None
        self.data_start = 96
        if flags & 0x0400:
            ms = MetaStream(self, 96, "compopt")
            blk, adv, unc, size = ms.block(0)
            self.comp_opts = blk
            self.data_start = 96 + adv

    def _locations(self, start, count_entries, per_block):
        nblk = (count_entries + per_block - 1) // per_block
        if start + 8 * nblk > len(self.data):
            raise DecodeError("table location list out of range")
        return list(struct.unpack_from("<%dQ" % nblk, self.data, start)) if nblk else []

    def _read_table(self, name, start, count, esize):
        per = 8192 // esize
        locs = self._locations(start, count, per)
        out = b""
        remaining = count * esize
        blocks = []
        for loc in locs:
            ms = MetaStream(self, loc, name)
            blk, adv, unc, size = ms.block(0)
            blocks.append({"loc": loc, "stored": size, "compressed": not unc, "usize": len(blk)})
            out += blk
            remaining -= len(blk)
        if len(out) < count * esize:
            raise DecodeError("%s table shorter than announced" % name)
        return out[:count * esize], locs, blocks

    def _parse_tables(self):
        s = self.super
        # id table
        raw, self.id_locs, self.id_blocks = self._read_table("id", s["id_tbl"], s["id_count"], 4)
        self.ids = list(struct.unpack("<%dI" % s["id_count"], raw)) if s["id_count"] else []
        # fragment table
        self.frags = []
        self.frag_locs, self.frag_blocks = [], []
        if s["frag_tbl"] != INVALID64 and s["frag_count"]:
            raw, self.frag_locs, self.frag_blocks = self._read_table("frag", s["frag_tbl"], s["frag_count"], 16)
            for i in range(s["frag_count"]):
                st, sz, pad = struct.unpack_from("<QII", raw, 16 * i)
                self.frags.append({"start": st, "size": sz & 0xFFFFFF, "compressed": not (sz & (1 << 24)), "raw": sz, "pad": pad})
        self.exports = None
        self.export_locs = []
        if s["export_tbl"] != INVALID64:
            raw, self.export_locs, self.export_blocks = self._read_table("export", s["export_tbl"], s["inode_count"], 8)
            self.exports = list(struct.unpack("<%dQ" % s["inode_count"], raw)) if s["inode_count"] else []

    # ------------------------------------------------------------------------------------------
    def _parse_inode_at(self, r):
        ref = r.pos()
        typ, mode, uid, gid, mtime, num = struct.unpack("<HHHHII", r.get(16))
        ino = {"ref": ref, "type_raw": typ, "mode": mode, "uid_idx": uid, "gid_idx": gid, "mtime": mtime,
               "num": num, "xattr": NOXATTR, "nlink": 1, "ext": typ > 7}
        base = typ - 7 if typ > 7 else typ
        ino["type"] = TYPES.get(base, "?%d" % typ)
        if typ == 1:
            ino["start_block"], ino["nlink"], ino["size"], ino["offset"], ino["parent"] = struct.unpack("<IIHHI", r.get(16))
            ino["index"] = []
        elif typ == 8:
            (ino["nlink"], ino["size"], ino["start_block"], ino["parent"], icount, ino["offset"],
             ino["xattr"]) = struct.unpack("<IIIIHHI", r.get(24))
            ino["index"] = []
            for _ in range(icount):
                idx, start, size = struct.unpack("<III", r.get(12))
                name = r.get(size + 1)
                ino["index"].append({"index": idx, "start": start, "name": name})
        elif typ == 2:
            ino["start"], ino["frag_idx"], ino["frag_off"], ino["size"] = struct.unpack("<IIII", r.get(16))
            ino["sparse"] = 0
        elif typ == 9:
            (ino["start"], ino["size"], ino["sparse"], ino["nlink"], ino["frag_idx"], ino["frag_off"],
             ino["xattr"]) = struct.unpack("<QQQIIII", r.get(40))
        elif typ in (3, 10):
            ino["nlink"], tsz = struct.unpack("<II", r.get(8))
            if tsz > 65536:
                raise DecodeError("symlink target of %d bytes" % tsz)
            ino["target"] = r.get(tsz)
            if typ == 10:
                ino["xattr"] = r.u32()
        elif typ in (4, 5, 11, 12):
            ino["nlink"], ino["devno"] = struct.unpack("<II", r.get(8))
            if typ > 7:
                ino["xattr"] = r.u32()
        elif typ in (6, 7, 13, 14):
            ino["nlink"] = r.u32()
            if typ > 7:
                ino["xattr"] = r.u32()
        else:
            raise DecodeError("unknown inode type %d" % typ)
        if base == 2:
            bs = self.block_size
            n = ino["size"] // bs
            if ino["size"] % bs and ino["frag_idx"] == NOFRAG:
                n += 1
            if n > (1 << 22):
                raise DecodeError("file inode with %d blocks" % n)
            words = struct.unpack("<%dI" % n, r.get(4 * n)) if n else ()
            ino["blocks"] = [(w & 0xFFFFFF, not (w & (1 << 24)), w) for w in words]
        return ino

    def _parse_inodes(self):
        s = self.super
        self.inode_ms = MetaStream(self, s["inode_tbl"], "inode", limit=s["dir_tbl"])
        self.inode_list = []
        self.by_ref = {}
        self.by_num = {}
        r = Reader(self.inode_ms, 0, 0)
        for _ in range(s["inode_count"]):
            ino = self._parse_inode_at(r)
            self.inode_list.append(ino)
            self.by_ref[ino["ref"]] = ino
            self.by_num.setdefault(ino["num"], ino)
        self.inode_end = r.pos()
        rootref = (s["root"] >> 16, s["root"] & 0xFFFF)
        if rootref not in self.by_ref:
            raise DecodeError("root inode reference does not point at an inode")
        self.root = self.by_ref[rootref]

    def _dir_end(self):
        s = self.super
        cands = [x for x in self.frag_locs + self.export_locs + self.id_locs if x >= s["dir_tbl"]]
        for k in ("frag_tbl", "export_tbl", "id_tbl", "xattr_tbl"):
            if s[k] != INVALID64 and s[k] >= s["dir_tbl"]:
                cands.append(s[k])
        return min(cands) if cands else s["bytes_used"]

    def _parse_dirs(self):
        s = self.super
        self.dir_ms = MetaStream(self, s["dir_tbl"], "dir", limit=self._dir_end())
        self.listings = {}
        for ino in self.inode_list:
            if ino["type"] != "dir":
                continue
            left = ino["size"] - 3
            ents, hdrs = [], []
            if left > 0:
                r = Reader(self.dir_ms, ino["start_block"], ino["offset"])
                consumed = 0
                while consumed < left:
                    at = r.pos()
                    count, start, inum = struct.unpack("<III", r.get(12))
                    consumed += 12
                    hdr = {"count": count + 1, "start_block": start, "inode_number": inum, "at": at,
                           "listing_off": consumed - 12, "entries": []}
                    hdrs.append(hdr)
                    if count + 1 > 4096:
                        raise DecodeError("directory header with %d entries" % (count + 1))
                    for _ in range(count + 1):
                        off, diff, typ, size = struct.unpack("<HhHH", r.get(8))
                        name = r.get(size + 1)
                        consumed += 8 + size + 1
                        e = {"name": name, "type_raw": typ, "delta": diff, "offset": off, "start_block": start,
                             "num": (inum + diff) & 0xFFFFFFFF, "ref": (start, off)}
                        ents.append(e)
                        hdr["entries"].append(e)
                        if consumed > left:
                            raise DecodeError("directory listing overruns its size")
            self.listings[ino["num"]] = {"entries": ents, "headers": hdrs, "inode": ino}

    def _parse_xattrs(self):
        s = self.super
        self.xattr_sets = []
        self.xattr_kv_start = None
        if s["xattr_tbl"] == INVALID64:
            return
        d = self.data
        if s["xattr_tbl"] + 16 > len(d):
            raise DecodeError("xattr id table header out of range")
        kv_start, count, _ = struct.unpack_from("<QII", d, s["xattr_tbl"])
        self.xattr_kv_start = kv_start
        self.xattr_count = count
        nblk = (count * 16 + 8191) // 8192
        locs = list(struct.unpack_from("<%dQ" % nblk, d, s["xattr_tbl"] + 16)) if nblk else []
        self.xattr_id_locs = locs
        raw = b""
        for loc in locs:
            ms = MetaStream(self, loc, "xattr_id")
            raw += ms.block(0)[0]
        if len(raw) < 16 * count:
            raise DecodeError("xattr id table short")
        kv = MetaStream(self, kv_start, "xattr_kv", limit=locs[0] if locs else s["xattr_tbl"])
        prefixes = {0: b"user.", 1: b"trusted.", 2: b"security."}
        for i in range(count):
            ref, n, size = struct.unpack_from("<QII", raw, 16 * i)
            r = Reader(kv, ref >> 16, ref & 0xFFFF)
            pairs = []
            for _ in range(n):
                typ, ksz = struct.unpack("<HH", r.get(4))
                key = r.get(ksz)
                vsz = r.u32()
                ool = bool(typ & 0x100)
                if ool:
                    if vsz != 8:
                        raise DecodeError("out-of-line xattr value reference of size %d" % vsz)
                    vref = r.u64()
                    r2 = Reader(kv, vref >> 16, vref & 0xFFFF)
                    vlen = r2.u32()
                    if vlen > (1 << 20):
                        raise DecodeError("xattr value too large")
                    val = r2.get(vlen)
                else:
                    if vsz > (1 << 20):
                        raise DecodeError("xattr value too large")
                    val = r.get(vsz)
                pfx = prefixes.get(typ & 0xFF)
                if pfx is None:
                    raise DecodeError("unknown xattr prefix %d" % (typ & 0xFF))
                pairs.append((pfx + key, val, ool))
            self.xattr_sets.append({"pairs": pairs, "count": n, "size": size, "ref": ref})

    # ------------------------------------------------------------------------------------------
    def read_block(self, off, size, compressed, usize_limit):
        if size == 0:
            return None
        if off + size > len(self.data):
            raise DecodeError("data block beyond end of file")
        raw = self.data[off:off + size]
        return decompress(self.comp, raw, usize_limit) if compressed else raw

    def frag_block(self, idx):
        if idx >= len(self.frags):
            raise DecodeError("fragment index %d out of range" % idx)
        f = self.frags[idx]
        blk = self.read_block(f["start"], f["size"], f["compressed"], self.block_size)
        return blk if blk is not None else b""

    def file_content(self, ino, limit=1 << 28):
        """bytes of a regular file (None if larger than limit)"""
        if ino["size"] > limit:
            return None
        bs = self.block_size
        out = []
        pos = ino["start"]
        left = ino["size"]
        for (size, comp, w) in ino["blocks"]:
            want = min(bs, left)
            if size == 0:
                out.append(b"\0" * want)
            else:
                b = self.read_block(pos, size, comp, bs)
                if len(b) != want:
                    raise DecodeError("data block expands to %d bytes, %d expected" % (len(b), want))
                out.append(b)
                pos += size
            left -= want
        if left > 0:
            if ino["frag_idx"] == NOFRAG:
                raise DecodeError("file has %d bytes not covered by blocks and no fragment" % left)
            fb = self.frag_block(ino["frag_idx"])
            tail = fb[ino["frag_off"]:ino["frag_off"] + left]
            if len(tail) != left:
                raise DecodeError("fragment shorter than tail")
            out.append(tail)
        return b"".join(out)

    def file_sha(self, ino):
        """sha256 of the content, streaming (handles huge sparse files)"""
        h = hashlib.sha256()
        bs = self.block_size
        pos = ino["start"]
        left = ino["size"]
        zero = b"\0" * bs
        for (size, comp, w) in ino["blocks"]:
            want = min(bs, left)
            if size == 0:
                h.update(zero[:want])
            else:
                b = self.read_block(pos, size, comp, bs)
                if len(b) != want:
                    raise DecodeError("data block expands to %d bytes, %d expected" % (len(b), want))
                h.update(b)
                pos += size
            left -= want
        if left > 0:
            if ino["frag_idx"] == NOFRAG:
                raise DecodeError("uncovered tail")
            fb = self.frag_block(ino["frag_idx"])
            tail = fb[ino["frag_off"]:ino["frag_off"] + left]
            if len(tail) != left:
                raise DecodeError("fragment shorter than tail")
            h.update(tail)
        return h.hexdigest()

    def xattrs_of(self, ino):
        if ino["xattr"] == NOXATTR:
            return {}
        if ino["xattr"] >= len(self.xattr_sets):
            raise DecodeError("xattr index out of range")
        return {k: v for (k, v, _) in self.xattr_sets[ino["xattr"]]["pairs"]}

    def tree(self, with_content=True, maxdepth=6000):
        """path(bytes, '/'-joined, root = b'') -> node record"""
        if sys.getrecursionlimit() < 3 * maxdepth:
            sys.setrecursionlimit(3 * maxdepth + 1000)
        out = {}

        def node(ino):
            n = {"kind": ino["type"], "mode": ino["mode"] & 0o7777, "uid": self._id(ino["uid_idx"]),
                 "gid": self._id(ino["gid_idx"]), "mtime": ino["mtime"], "inum": ino["num"],
                 "xattrs": self.xattrs_of(ino)}
            if ino["type"] == "slink":
                n["target"] = ino["target"]
            if ino["type"] in ("blk", "chr"):
                n["devno"] = ino["devno"]
            if ino["type"] == "file":
                n["size"] = ino["size"]
                if with_content:
                    n["sha"] = self.file_sha(ino)
            return n

        def walk(ino, path, depth, anc):
            out[path] = node(ino)
            if ino["type"] != "dir":
                return
            if depth > maxdepth:
                raise DecodeError("directory nesting too deep")
            for e in self.listings[ino["num"]]["entries"]:
                child = self.by_ref.get(e["ref"])
                if child is None:
                    raise DecodeError("directory entry %r points at no inode" % e["name"])
                if child["num"] in anc:
                    raise DecodeError("directory loop")
                p = (path + b"/" if path else b"") + e["name"]
                if p in out:
                    raise DecodeError("duplicate name %r" % p)
                walk(child, p, depth + 1, anc | {child["num"]} if child["type"] == "dir" else anc)

        walk(self.root, b"", 0, {self.root["num"]})
        return out

    def _id(self, idx):
        if idx >= len(self.ids):
            raise DecodeError("id index %d out of range" % idx)
        return self.ids[idx]

    # ------------------------------------------------------------------------------------------
    def event_log(self):
        """The image as an append-only log: a list of events (dicts with small integers only; 64-bit
        quantities are split into *_hi/*_lo 31-bit words)."""
        ev = []
        s = self.super

        def split(name, v, d):
            d[name + "_lo"] = v & 0x3FFFFFFF
            d[name + "_hi"] = v >> 30

        e = {"e": "Super", "block_size": s["block_size"], "block_log": s["block_log"], "inodes": s["inode_count"],
             "ids": s["id_count"], "frags": s["frag_count"], "comp": s["comp_id"],
             "flags": self.flagset, "file_len_mod4k": len(self.data) % 4096,
             "has_frag_tbl": s["frag_tbl"] != INVALID64, "has_export": s["export_tbl"] != INVALID64,
             "has_xattr": s["xattr_tbl"] != INVALID64,
             "comp_opts_len": -1 if self.comp_opts is None else len(self.comp_opts)}
        order = [("data", self.data_start), ("inode", s["inode_tbl"]), ("dir", s["dir_tbl"])]
        for k, name in (("frag_tbl", "frag"), ("export_tbl", "export"), ("id_tbl", "id"), ("xattr_tbl", "xattr")):
            if s[k] != INVALID64:
                order.append((name, s[k]))
        e["table_order"] = [n for n, _ in sorted(order, key=lambda x: (x[1], ["data", "inode", "dir", "frag", "export", "id", "xattr"].index(x[0])))]
        e["tables_in_file"] = all(v <= s["bytes_used"] for _, v in order)
        e["bytes_used_le_len"] = s["bytes_used"] <= len(self.data)
        e["pad_zero"] = not any(self.data[s["bytes_used"]:])
        e["root_is_dir"] = self.root["type"] == "dir"
        ev.append(e)
        # data area: per file inode in table order
        regions = []
        for ino in self.inode_list:
            if ino["type"] != "file":
                continue
            pos = ino["start"]
            bs = self.block_size
            left = ino["size"]
            for i, (size, comp, w) in enumerate(ino["blocks"]):
                want = min(bs, left)
                left -= want
                d = {"e": "DataBlock", "file": ino["num"], "idx": i, "stored": size, "compressed": comp and size > 0,
                     "usize": want, "sparse": size == 0, "in_data_area": True}
                if size:
                    d["in_data_area"] = self.data_start <= pos and pos + size <= s["inode_tbl"]
                    regions.append((pos, size, ("f", ino["num"], i)))
                    try:
                        b = self.read_block(pos, size, comp, bs)
                        d["expands_ok"] = len(b) == want
                    except DecodeError:
                        d["expands_ok"] = False
                    pos += size
                else:
                    d["expands_ok"] = True
                ev.append(d)
        for i, f in enumerate(self.frags):
            d = {"e": "FragBlock", "index": i, "stored": f["size"], "compressed": f["compressed"] and f["size"] > 0,
                 "in_data_area": self.data_start <= f["start"] and f["start"] + f["size"] <= s["inode_tbl"]}
            try:
                d["usize"] = len(self.frag_block(i))
            except DecodeError:
                d["usize"] = -1
            regions.append((f["start"], f["size"], ("g", i)))
            ev.append(d)
        # overlap check of data regions (identical regions = deduplication are fine)
        regs = sorted(set((a, b) for a, b, _ in regions if b))
        overlap = False
        for (a1, l1), (a2, l2) in zip(regs, regs[1:]):
            if a2 < a1 + l1:
                overlap = True
        ev.append({"e": "DataArea", "partial_overlap": overlap, "regions": len(regs)})
        for key in sorted(self.meta_seen, key=lambda k: k[1]):
            m = dict(self.meta_seen[key])
            m["off"] = 0
            ev.append(m)
        refs = {}
        for L_ in self.listings.values():
            for en in L_["entries"]:
                t_ = self.by_ref.get(en["ref"])
                if t_ is not None:
                    refs[t_["num"]] = refs.get(t_["num"], 0) + 1
        for pos, ino in enumerate(self.inode_list):
            d = {"e": "Inode", "pos": pos + 1, "num": ino["num"], "type": ino["type"], "ext": ino["ext"], "refs": refs.get(ino["num"], 0),
                 "nlink": min(ino["nlink"], 1 << 30), "uid_idx": ino["uid_idx"], "gid_idx": ino["gid_idx"],
                 "xattr": -1 if ino["xattr"] == NOXATTR else min(ino["xattr"], 1 << 30),
                 "ref_blk": ino["ref"][0], "ref_off": ino["ref"][1]}
            if ino["type"] == "dir":
                d["parent"] = min(ino["parent"], 1 << 30)
                d["size"] = ino["size"]
                d["nindex"] = len(ino["index"])
                d["is_root"] = ino is self.root
            if ino["type"] == "file":
                d["frag"] = -1 if ino["frag_idx"] == NOFRAG else min(ino["frag_idx"], 1 << 30)
                d["frag_off"] = min(ino["frag_off"], 1 << 30)
                split("size", ino["size"], d)
                split("start", ino["start"], d)
                d["nblocks"] = len(ino["blocks"])
                d["tail"] = ino["size"] % self.block_size if ino["frag_idx"] != NOFRAG else 0
                d["needs_ext"] = (ino["start"] > 0xFFFFFFFF or ino["size"] > 0xFFFFFFFF or ino["sparse"] > 0
                                  or ino["nlink"] > 1 or ino["xattr"] != NOXATTR)
                if ino["frag_idx"] != NOFRAG and ino["frag_idx"] < len(self.frags):
                    try:
                        fl = len(self.frag_block(ino["frag_idx"]))
                    except DecodeError:
                        fl = -1
                    d["frag_fits"] = ino["frag_off"] + d["tail"] <= fl
                else:
                    d["frag_fits"] = ino["frag_idx"] == NOFRAG
            ev.append(d)
        for ino in self.inode_list:
            if ino["type"] != "dir":
                continue
            L = self.listings[ino["num"]]
            prev = None
            ev.append({"e": "DirBegin", "dir": ino["num"], "nheaders": len(L["headers"]), "nentries": len(L["entries"]),
                       "nlink": min(ino["nlink"], 1 << 30)})
            for h in L["headers"]:
                ev.append({"e": "DirHeader", "dir": ino["num"], "count": h["count"], "start_block": h["start_block"],
                           "inode_number": h["inode_number"]})
                for en in h["entries"]:
                    tgt = self.by_ref.get(en["ref"])
                    d = {"e": "DirEnt", "dir": ino["num"], "name_hex": en["name"].hex(), "delta": en["delta"],
                         "type": TYPES.get(en["type_raw"], "?"), "gt_prev": prev is None or en["name"] > prev,
                         "name_len": len(en["name"]), "resolves": tgt is not None,
                         "num": en["num"] if en["num"] < (1 << 30) else -1}
                    if tgt is not None:
                        d["tgt_num"] = tgt["num"]
                        d["tgt_type"] = tgt["type"]
                        d["tgt_parent"] = tgt.get("parent", -1) if tgt["type"] == "dir" else -1
                    prev = en["name"]
                    ev.append(d)
            for ix in ino["index"]:
                # an index entry must point at a header: (start, index) = position of a header in the listing
                at_hdr = any(h["listing_off"] == ix["index"] for h in L["headers"])
                first = None
                blk_ok = False
                straddles = False
                for h in L["headers"]:
                    if h["listing_off"] == ix["index"]:
                        first = h["entries"][0]["name"] if h["entries"] else None
                        # readers seek to (start, (listing offset + index) % 8192): start must name the
                        # metadata block in which the header begins, also when it continues in the next one
                        blk_ok = ix["start"] == h["at"][0]
                        straddles = h["at"][1] > 8192 - 12
                ev.append({"e": "DirIndex", "dir": ino["num"], "points_at_header": at_hdr,
                           "name_matches": first == ix["name"], "block_matches": blk_ok, "header_straddles": straddles})
            ev.append({"e": "DirEnd", "dir": ino["num"]})
        # the index tables (lists of metadata block locations) and what follows them: a reader that validates the image computes each
        # list's length from the entry count and demands that it ends exactly where the next structure starts (Linux: id, inode lookup,
        # fragment and xattr id tables; "the computed size of the index table should exactly match the table start and end points")
        lay = {"e": "IndexLayout"}
        nxt = s["bytes_used"]
        if s["xattr_tbl"] != INVALID64 and self.xattr_kv_start is not None:
            lay["xattr_exact"] = s["xattr_tbl"] + 16 + 8 * len(self.xattr_id_locs) == nxt
            lay["xattr_ascending"] = all(a < b for a, b in zip(self.xattr_id_locs, self.xattr_id_locs[1:])) and \
                all(self.xattr_kv_start <= x < s["xattr_tbl"] for x in self.xattr_id_locs)
            nxt = self.xattr_kv_start
        else:
            lay["xattr_exact"] = lay["xattr_ascending"] = True
        lay["id_exact"] = s["id_tbl"] + 8 * len(self.id_locs) == nxt
        lay["id_ascending"] = all(a < b for a, b in zip(self.id_locs, self.id_locs[1:]))
        nxt = self.id_locs[0] if self.id_locs else s["id_tbl"]
        if self.exports is not None and self.export_locs:
            lay["export_exact"] = s["export_tbl"] + 8 * len(self.export_locs) == nxt
            lay["export_ascending"] = all(a < b for a, b in zip(self.export_locs, self.export_locs[1:]))
            nxt = self.export_locs[0]
        else:
            lay["export_exact"] = lay["export_ascending"] = True
        if self.frag_locs:
            lay["frag_exact"] = s["frag_tbl"] + 8 * len(self.frag_locs) == nxt
            lay["frag_ascending"] = all(a < b for a, b in zip(self.frag_locs, self.frag_locs[1:]))
        else:
            lay["frag_exact"] = lay["frag_ascending"] = True
        ev.append(lay)
        ev.append({"e": "IdTable", "count": len(self.ids), "nblocks": len(self.id_locs)})
        if self.exports is not None:
            good = 0
            for i, ref in enumerate(self.exports):
                ino = self.by_ref.get((ref >> 16, ref & 0xFFFF))
                if ino is not None and ino["num"] == i + 1:
                    good += 1
            ev.append({"e": "ExportTable", "count": len(self.exports), "correct": good})
        if self.xattr_kv_start is not None:
            ev.append({"e": "XattrTable", "count": len(self.xattr_sets)})
        ev.append({"e": "End"})
        return ev


def load(path):
    with open(path, "rb") as f:
        return SqfsImage(f.read())


if __name__ == "__main__":
    img = load(sys.argv[1])
    if len(sys.argv) > 2 and sys.argv[2] == "events":
        for e in img.event_log():
            print(json.dumps(e))
    else:
        t = img.tree()
        for p in sorted(t):
            n = dict(t[p])
            n["xattrs"] = {k.decode("latin1"): v.hex() for k, v in n["xattrs"].items()}
            if "target" in n:
                n["target"] = n["target"].decode("latin1")
            print(p.decode("latin1") or "/", json.dumps(n))


# ==================================================================================================
# Encoder for (possibly adversarial) images: everything is stored uncompressed (metadata blocks with
# the 0x8000 bit, data blocks with bit 24), so any field can be given an arbitrary value.
#
# node = {"kind": "dir"|"file"|"slink"|"blk"|"chr"|"fifo"|"sock", "name": bytes, "mode", "uid", "gid",
#         "mtime", "children": [...], "target": bytes, "devno": int, "data": bytes, "xattrs": {k: v},
#         "id": any (to be referenced by links)}
# a child may instead be a link  {"link": id, "name": bytes, "etype": optional raw type}  (hard link, or a
# loop when id names an ancestor).  Override keys (all optional):
#   file: o_words (list of raw size words), o_start, o_size, o_frag (idx, off), o_sparse, o_nlink, ext
#   dir:  o_nlink, o_parent, o_size, o_start_block, o_offset, ext, raw_order (keep children order unsorted)
#   any:  o_type (raw inode type), o_uid_idx, o_gid_idx, o_xattr_idx, o_inum
#   entry (child or link): o_etype, o_delta, o_offset, o_namesize
# opts: block_size, frag (pack tails into fragment blocks), export, comp_id, flags_xor, super_overrides {field: value},
#       pad (default 4096), mtime
KIND_T = {"dir": 1, "file": 2, "slink": 3, "blk": 4, "chr": 5, "fifo": 6, "sock": 7}
XPFX = [(b"user.", 0), (b"trusted.", 1), (b"security.", 2)]


class _Meta:
    def __init__(self):
        self.buf = bytearray()

    def pos(self):
        return ((len(self.buf) // 8192) * 8194, len(self.buf) % 8192)

    def add(self, b):
        self.buf += b

    def serialize(self):
        out = bytearray()
        for i in range(0, len(self.buf), 8192):
            c = self.buf[i:i + 8192]
            out += struct.pack("<H", 0x8000 | len(c)) + c
        return bytes(out)


def _table(entries_bytes, per_block_bytes=8192):
    """returns (metadata blocks bytes, list of relative block starts)"""
    out = bytearray()
    locs = []
    for i in range(0, len(entries_bytes), per_block_bytes):
        c = entries_bytes[i:i + per_block_bytes]
        locs.append(len(out))
        out += struct.pack("<H", 0x8000 | len(c)) + c
    return bytes(out), locs


def encode(root, opts=None):
    opts = dict(opts or {})
    bs = opts.get("block_size", 4096)
    ids = []

    def idx_of(v):
        if v not in ids:
            ids.append(v)
        return ids.index(v)

    # ---- data area ----
    data = bytearray()
    frags = []          # (start, size word)
    fragbuf = bytearray()
    file_layout = {}

    def flush_frag():
        nonlocal fragbuf
        if fragbuf:
            frags.append((96 + len(data), len(fragbuf) | (1 << 24)))
            data.extend(fragbuf)
            fragbuf = bytearray()

    def place_file(n):
        d = n.get("data", b"")
        start = 96 + len(data)
        words = []
        full = len(d) // bs
        for i in range(full):
            blk = d[i * bs:(i + 1) * bs]
            if not any(blk) and opts.get("sparse", True):
                words.append(0)
            else:
                words.append(bs | (1 << 24))
                data.extend(blk)
        tail = d[full * bs:]
        frag = (NOFRAG, 0)
        if tail:
            if opts.get("frag"):
                if len(fragbuf) + len(tail) > bs:
                    flush_frag()
                frag = (len(frags), len(fragbuf))
                fragbuf.extend(tail)
            else:
                words.append(len(tail) | (1 << 24))
                data.extend(tail)
        if not any(w for w in words):
            start = 0
        file_layout[id(n)] = (start, words, frag)

    def walk_files(n):
        if n.get("kind") == "file":
            place_file(n)
        for c in n.get("children", []):
            if "link" not in c:
                walk_files(c)

    walk_files(root)
    # fragment index fix-up: tails placed before their block was flushed keep the index they were given
    flush_frag()

    # ---- xattrs ----
    xsets = []
    xkv = _Meta()
    xids = bytearray()

    def xattr_index(n):
        xa = n.get("xattrs")
        if not xa:
            return NOXATTR
        key = tuple(sorted(xa.items()))
        for i, (k, _) in enumerate(xsets):
            if k == key:
                return i
        ref = xkv.pos()
        size = 0
        for k, v in key:
            for pfx, t in XPFX:
                if k.startswith(pfx):
                    kk = k[len(pfx):]
                    break
            else:
                raise ValueError("xattr key prefix")
            rec = struct.pack("<HH", t, len(kk)) + kk + struct.pack("<I", len(v)) + v
            xkv.add(rec)
            size += len(rec)
        xsets.append((key, None))
        xids.extend(struct.pack("<QII", (ref[0] << 16) | ref[1], len(key), size))
        return len(xsets) - 1

    # ---- inode / directory tables (iterate to a fixed point because of forward references) ----
    known = {}      # node id -> (ref, inum, kind)
    nlinks = {}

    def count_links(n):
        for c in n.get("children", []):
            if "link" in c:
                nlinks[c["link"]] = nlinks.get(c["link"], 1) + 1
            else:
                count_links(c)
    count_links(root)

    for attempt in range(4):
        itab, dtab = _Meta(), _Meta()
        counter = [0]
        newknown = {}
        exports = {}

        def emit(n, parent_inum):
            kind = n["kind"]
            kids = []
            if kind == "dir":
                for c in n.get("children", []):
                    if "link" in c:
                        ref, inum, k2 = known.get(c["link"], ((0, 0), 1, "file"))
                        kids.append((c, ref, inum, KIND_T.get(k2, 2)))
                # own number is assigned after the children (post-order)
                sub = []
                for c in n.get("children", []):
                    if "link" not in c:
                        sub.append(c)
                # children need the parent's number: it is counter after all descendants; compute by dry count
                def count(x):
                    return 1 + sum(count(y) for y in x.get("children", []) if "link" not in y)
                my_inum = n.get("o_inum", counter[0] + count(n))
                for c in sub:
                    ref, inum = emit(c, my_inum)
                    kids.append((c, ref, inum, KIND_T[c["kind"]]))
            counter[0] += 1
            inum = n.get("o_inum", counter[0])
            typ = KIND_T[kind]
            xi = n.get("o_xattr_idx", xattr_index(n))
            hdr = lambda t: struct.pack("<HHHHII", n.get("o_type", t), n.get("mode", 0o644) & 0xFFFF,
                                        n.get("o_uid_idx", idx_of(n.get("uid", 0))),
                                        n.get("o_gid_idx", idx_of(n.get("gid", 0))), n.get("mtime", 0) & 0xFFFFFFFF, inum)
            nl = nlinks.get(n.get("id"), 1)
            if kind == "dir":
                if not n.get("raw_order"):
                    kids.sort(key=lambda k: k[0]["name"])
                start = dtab.pos()
                listing = bytearray()
                i = 0
                while i < len(kids):
                    base_ref, base_inum = kids[i][1], kids[i][2]
                    grp = []
                    while (i < len(kids) and len(grp) < n.get("o_hdr_max", 256) and kids[i][1][0] == base_ref[0]
                           and -32768 <= kids[i][2] - base_inum <= 32767):
                        grp.append(kids[i])
                        i += 1
                    listing += struct.pack("<III", len(grp) - 1, base_ref[0], base_inum)
                    for (c, ref, inum2, t) in grp:
                        nm = c["name"]
                        listing += struct.pack("<HhHH", c.get("o_offset", ref[1]), c.get("o_delta", inum2 - base_inum),
                                               c.get("o_etype", c.get("etype", t)), c.get("o_namesize", len(nm) - 1) & 0xFFFF) + nm
                dtab.add(bytes(listing))
                size = n.get("o_size", len(listing) + 3)
                ext = n.get("ext") or size > 0xFFFF or xi != NOXATTR
                ref = itab.pos()
                nlv = n.get("o_nlink", len(kids) + 2)
                par = n.get("o_parent", parent_inum)
                sb, so = n.get("o_start_block", start[0]), n.get("o_offset", start[1])
                if ext:
                    itab.add(hdr(8) + struct.pack("<IIIIHHI", nlv, size, sb, par, 0, so, xi))
                else:
                    itab.add(hdr(1) + struct.pack("<IIHHI", sb, nlv, size & 0xFFFF, so, par))
            elif kind == "file":
                st, words, frag = file_layout[id(n)]
                words = n.get("o_words", words)
                st = n.get("o_start", st)
                frag = n.get("o_frag", frag)
                size = n.get("o_size", len(n.get("data", b"")))
                nlv = n.get("o_nlink", nl)
                sparse = n.get("o_sparse", sum(bs for w in words if w == 0))
                ext = n.get("ext") or st > 0xFFFFFFFF or size > 0xFFFFFFFF or nlv > 1 or xi != NOXATTR or sparse > 0
                ref = itab.pos()
                if ext:
                    itab.add(hdr(9) + struct.pack("<QQQIIII", st, size, sparse, nlv, frag[0], frag[1], xi))
                else:
                    itab.add(hdr(2) + struct.pack("<IIII", st, frag[0], frag[1], size & 0xFFFFFFFF))
                itab.add(b"".join(struct.pack("<I", w) for w in words))
            elif kind == "slink":
                tg = n.get("target", b"")
                ref = itab.pos()
                ext = n.get("ext") or xi != NOXATTR
                itab.add(hdr(10 if ext else 3) + struct.pack("<II", n.get("o_nlink", nl), n.get("o_target_size", len(tg))) + tg)
                if ext:
                    itab.add(struct.pack("<I", xi))
            elif kind in ("blk", "chr"):
                ref = itab.pos()
                ext = n.get("ext") or xi != NOXATTR
                itab.add(hdr(typ + 7 if ext else typ) + struct.pack("<II", n.get("o_nlink", nl), n.get("devno", 0)))
                if ext:
                    itab.add(struct.pack("<I", xi))
            else:
                ref = itab.pos()
                ext = n.get("ext") or xi != NOXATTR
                itab.add(hdr(typ + 7 if ext else typ) + struct.pack("<I", n.get("o_nlink", nl)))
                if ext:
                    itab.add(struct.pack("<I", xi))
            if "id" in n:
                newknown[n["id"]] = (ref, inum, kind)
            exports[inum] = (ref[0] << 16) | ref[1]
            return ref, inum

        rootref, rootnum = emit(root, opts.get("root_parent", 0))
        if newknown == known:
            break
        known = newknown
    else:
        raise ValueError("encoder did not converge")
    ninodes = counter[0]
    # ---- assemble ----
    out = bytearray(b"\0" * 96)
    out += data
    inode_tbl = len(out)
    out += itab.serialize()
    dir_tbl = len(out)
    out += dtab.serialize()
    frag_tbl = INVALID64
    if frags:
        raw = b"".join(struct.pack("<QII", s, w, 0) for s, w in frags)
        blocks, locs = _table(raw)
        base = len(out)
        out += blocks
        frag_tbl = len(out)
        out += b"".join(struct.pack("<Q", base + l) for l in locs)
    export_tbl = INVALID64
    if opts.get("export"):
        raw = b"".join(struct.pack("<Q", exports.get(i, 0)) for i in range(1, ninodes + 1))
        blocks, locs = _table(raw)
        base = len(out)
        out += blocks
        export_tbl = len(out)
        out += b"".join(struct.pack("<Q", base + l) for l in locs)
    idlist = opts.get("ids_override", ids) or [0]
    raw = b"".join(struct.pack("<I", i & 0xFFFFFFFF) for i in idlist)
    blocks, locs = _table(raw)
    base = len(out)
    out += blocks
    id_tbl = len(out)
    out += b"".join(struct.pack("<Q", base + l) for l in locs)
    xattr_tbl = INVALID64
    if xsets:
        kvstart = len(out)
        out += xkv.serialize()
        blocks, locs = _table(bytes(xids))
        base = len(out)
        out += blocks
        xattr_tbl = len(out)
        out += struct.pack("<QII", kvstart, len(xsets), 0)
        out += b"".join(struct.pack("<Q", base + l) for l in locs)
    bytes_used = len(out)
    flags = 0x0001 | 0x0002 | 0x0008 | 0x0800 | 0x0100 | 0x0040
    if not frags:
        flags |= 0x0010
    if not xsets:
        flags |= 0x0200
    if opts.get("export"):
        flags |= 0x0080
    flags ^= opts.get("flags_xor", 0)
    sup = dict(magic=MAGIC, inode_count=ninodes, mtime=opts.get("mtime", 0), block_size=bs, frag_count=len(frags),
               comp_id=opts.get("comp_id", 1), block_log=bs.bit_length() - 1, flags=flags, id_count=len(idlist),
               vmaj=4, vmin=0, root=(rootref[0] << 16) | rootref[1], bytes_used=bytes_used, id_tbl=id_tbl,
               xattr_tbl=xattr_tbl, inode_tbl=inode_tbl, dir_tbl=dir_tbl, frag_tbl=frag_tbl, export_tbl=export_tbl)
    sup.update(opts.get("super_overrides", {}))
    struct.pack_into("<IIIIIHHHHHHQQQQQQQQ", out, 0, sup["magic"], sup["inode_count"], sup["mtime"], sup["block_size"],
                     sup["frag_count"], sup["comp_id"], sup["block_log"], sup["flags"], sup["id_count"], sup["vmaj"],
                     sup["vmin"], sup["root"], sup["bytes_used"], sup["id_tbl"], sup["xattr_tbl"], sup["inode_tbl"],
                     sup["dir_tbl"], sup["frag_tbl"], sup["export_tbl"])
    pad = opts.get("pad", 4096)
    if pad and len(out) % pad:
        out += b"\0" * (pad - len(out) % pad)
    return bytes(out), {"known": known, "exports": exports, "super": sup}
