#!/usr/bin/env python3
"""Builder: compiles squashfs-tools-ng straight from /repo's *current working tree* into a
hash-keyed cache under /verif/.cache (never into /repo).  The source lists and per-target
preprocessor flags are read from the Makemodule.am files (a tiny automake evaluator), so files
added by a change to the repository are picked up.

Variants:
  plain   -O1 -g                       tools + liball.a
  asan    -O1 -g -fsanitize=address    same, instrumented
  serial  -DNO_THREAD_IMPL, threadpool.c left out (the serial reference pool)
  hashN   xxh32 truncated to N bits (N in 1..8) by wrapping lib/util/src/xxhash.c
Use as a library: build(variant) -> directory containing bin/<tool>, liball.a, obj/…
"""
import hashlib, os, re, shlex, shutil, subprocess, sys, json, time
from concurrent.futures import ThreadPoolExecutor

REPO = os.environ.get("VERIF_REPO", "/repo")
CACHE = os.environ.get("VERIF_CACHE", os.path.join(os.path.dirname(os.path.dirname(os.path.abspath(__file__))), ".cache"))
TOOLS = ["gensquashfs", "rdsquashfs", "tar2sqfs", "sqfs2tar", "sqfsdiff"]
LIBS = ["libsquashfs_la", "libutil_a", "libxfrm_a", "libfstree_a", "libcommon_a", "libtar_a", "libcompat_a"]
SYSLIBS = ["-lz", "-llzma", "-llz4", "-lzstd", "-lbz2", "-lselinux", "-lpthread"]
DEFAULT_COND = {"WINDOWS": False, "HAVE_PTHREAD": True, "WITH_GZIP": True, "WITH_XZ": True,
                "WITH_LZ4": True, "WITH_ZSTD": True, "WITH_BZIP2": True, "WITH_LZO": False,
                "WITH_SELINUX": True, "CUSTOM_ALLOC": True, "HAVE_ZSTD_STREAM": True,
                "WITH_READLINE": True, "CORPORA_TESTS": False, "BUILD_TOOLS": True}


def conditions():
    cond = dict(DEFAULT_COND)
    p = os.path.join(REPO, "config.status")
    if os.path.exists(p):
        for m in re.finditer(r'S\["(\w+)_TRUE"\]="(.*)"', open(p, errors="replace").read()):
            cond[m.group(1)] = (m.group(2) == "")
    return cond


def parse_am():
    """Evaluate Makefile.am + included Makemodule.am: returns dict var -> list of words."""
    cond = conditions()
    var = {}

    def feed(path):
        text = open(path).read().replace("\\\n", " ")
        stack = []
        for line in text.split("\n"):
            s = line.strip()
            if not s or s.startswith("#"):
                continue
            w = s.split()
            if w[0] == "if":
                name = w[1]
                neg = name.startswith("!")
                v = cond.get(name.lstrip("!"), False)
                stack.append(v != neg)
                continue
            if w[0] == "else":
                stack[-1] = not stack[-1]
                continue
            if w[0] == "endif":
                stack.pop()
                continue
            if not all(stack):
                continue
            if w[0] == "include":
                feed(os.path.join(REPO, w[1]))
                continue
            m = re.match(r"^([A-Za-z0-9_]+)\s*(\+?=)\s*(.*)$", s)
            if m:
                k, op, val = m.groups()
                if op == "=":
                    var[k] = val.split()
                else:
                    var.setdefault(k, []).extend(val.split())

    feed(os.path.join(REPO, "Makefile.am"))
    return var


def expand(var, words, depth=0):
    out = []
    for w in words:
        m = re.fullmatch(r"\$\((\w+)\)", w)
        if m and depth < 8:
            out.extend(expand(var, var.get(m.group(1), []), depth + 1))
        else:
            w = w.replace("$(top_srcdir)", REPO)
            if "$(" not in w:
                out.append(w)
    return out


def target_info(var, tgt):
    srcs = [s for s in expand(var, var.get(tgt + "_SOURCES", [])) if s.endswith(".c")]
    cpp = expand(var, var.get(tgt + "_CPPFLAGS", var.get("AM_CPPFLAGS", [])))
    cfl = [f for f in expand(var, var.get(tgt + "_CFLAGS", [])) if f.startswith("-D")]
    defs = [f for f in cpp + cfl if f.startswith("-D") or f.startswith("-I")]
    return srcs, defs


def tree_hash():
    h = hashlib.sha256()
    for top in ("lib", "bin", "include"):
        for d, dn, fn in sorted(os.walk(os.path.join(REPO, top))):
            dn.sort()
            for f in sorted(fn):
                if f.endswith((".c", ".h", ".am")):
                    p = os.path.join(d, f)
                    h.update(p.encode())
                    h.update(open(p, "rb").read())
    for f in ("config.h", "Makefile.am"):
        p = os.path.join(REPO, f)
        if os.path.exists(p):
            h.update(open(p, "rb").read())
    return h.hexdigest()[:16]


def variant_flags(variant):
    cc = "gcc"
    cflags = ["-O1", "-g", "-pthread", "-w"]
    ld = []
    extra_defs = []
    drop = set()
    if variant.startswith("asan"):
        cflags += ["-fsanitize=address", "-fno-omit-frame-pointer"]
        ld += ["-fsanitize=address"]
    if "serial" in variant:
        extra_defs += ["-DNO_THREAD_IMPL"]
        drop.add("lib/util/src/threadpool.c")
    if os.environ.get("VERIF_COVERAGE"):
        # gap analysis (tools/coverage.py): which lines of the tree do the checks execute at all
        cflags = [f for f in cflags if f != "-O1"] + ["-O0", "--coverage"]
        ld += ["--coverage"]
    return cc, cflags, ld, extra_defs, drop


HASH_WRAP = r"""
#include <stdint.h>
#include <stddef.h>
uint32_t xxh32_real(const void *input, const size_t len);
uint32_t xxh32(const void *input, const size_t len);
uint32_t xxh32(const void *input, const size_t len)
{ return xxh32_real(input, len) & ((1u << VERIF_HASH_BITS) - 1u); }
"""


def build(variant="plain", quiet=True, extra_key=""):
    key = tree_hash()
    if os.environ.get("VERIF_COVERAGE"):
        extra_key += "-cov"
    out = os.path.join(CACHE, "build", "%s-%s%s" % (variant, key, extra_key))
    stamp = os.path.join(out, "OK")
    if os.path.exists(stamp):
        return out
    os.makedirs(CACHE + "/build", exist_ok=True)
    # evict stale builds of this variant (not the fresh ones: another check may still be running on the previous tree)
    import time as _t
    for d in os.listdir(CACHE + "/build"):
        dp = os.path.join(CACHE, "build", d)
        if d.startswith(variant + "-") and d != os.path.basename(out):
            try:
                if _t.time() - os.path.getmtime(dp) > 2 * 3600:
                    shutil.rmtree(dp, ignore_errors=True)
            except OSError:
                pass
    shutil.rmtree(out, ignore_errors=True)
    os.makedirs(out + "/obj")
    os.makedirs(out + "/bin")
    var = parse_am()
    cc, cflags, ld, extra_defs, drop = variant_flags(variant)
    hashbits = None
    m = re.search(r"hash(\d+)", variant)
    if m:
        hashbits = int(m.group(1))
    base = ["-DHAVE_CONFIG_H", "-I" + REPO, "-I" + REPO + "/include", "-D_GNU_SOURCE"]
    jobs = {}  # src -> (obj, defs)
    libobjs = []
    for lib in LIBS:
        srcs, defs = target_info(var, lib)
        for s in srcs:
            if s in drop or s in jobs:
                continue
            o = os.path.join(out, "obj", s.replace("/", "_")[:-2] + ".o")
            d = list(defs)
            if hashbits is not None and s.endswith("lib/util/src/xxhash.c"):
                d.append("-Dxxh32=xxh32_real")
            jobs[s] = (o, d)
            libobjs.append(o)
    if "serial" in variant and "lib/util/src/threadpool_serial.c" not in jobs:
        s = "lib/util/src/threadpool_serial.c"
        o = os.path.join(out, "obj", s.replace("/", "_")[:-2] + ".o")
        jobs[s] = (o, [])
        libobjs.append(o)
    toolobjs = {}
    for t in TOOLS:
        srcs, defs = target_info(var, t)
        toolobjs[t] = []
        for s in srcs:
            o = os.path.join(out, "obj", "T_%s_" % t + s.replace("/", "_")[:-2] + ".o")
            jobs["%s::%s" % (t, s)] = (o, defs)
            toolobjs[t].append(o)

    def comp(item):
        s, (o, d) = item
        src = s.split("::")[-1]
        cmd = [cc] + cflags + base + d + extra_defs + ["-c", os.path.join(REPO, src), "-o", o]
        r = subprocess.run(cmd, capture_output=True, text=True)
        return (s, r.returncode, r.stderr)

    with ThreadPoolExecutor(max_workers=16) as ex:
        res = list(ex.map(comp, jobs.items()))
    bad = [r for r in res if r[1] != 0]
    if bad:
        sys.stderr.write("BUILD FAILED (%s):\n%s\n" % (variant, bad[0][2][:4000]))
        raise SystemExit(2)
    if hashbits is not None:
        wsrc = os.path.join(out, "obj", "hashwrap.c")
        open(wsrc, "w").write(HASH_WRAP)
        o = wsrc[:-2] + ".o"
        subprocess.check_call([cc] + cflags + ["-DVERIF_HASH_BITS=%d" % hashbits, "-c", wsrc, "-o", o])
        libobjs.append(o)
    liball = os.path.join(out, "liball.a")
    subprocess.check_call(["ar", "rcs", liball] + libobjs)
    for t in TOOLS:
        extra = ["-lreadline"] if t == "sqfsbrowse" else []
        cmd = [cc] + cflags + ld + toolobjs[t] + [liball] + SYSLIBS + extra + ["-o", os.path.join(out, "bin", t)]
        r = subprocess.run(cmd, capture_output=True, text=True)
        if r.returncode != 0:
            sys.stderr.write("LINK FAILED %s:\n%s\n" % (t, r.stderr[:4000]))
            raise SystemExit(2)
    json.dump({"variant": variant, "key": key, "time": time.time(),
               "base": base, "cflags": cflags, "ld": ld, "extra_defs": extra_defs},
              open(os.path.join(out, "build.json"), "w"))
    open(stamp, "w").write("ok\n")
    return out


def harness_cc(variant="plain"):
    """flags for compiling a harness against the tree: (cc, cflags list, ldflags list)"""
    cc, cflags, ld, extra_defs, drop = variant_flags(variant)
    base = ["-DHAVE_CONFIG_H", "-I" + REPO, "-I" + REPO + "/include", "-D_GNU_SOURCE",
            "-DWITH_GZIP", "-DWITH_XZ", "-DWITH_LZ4", "-DWITH_ZSTD", "-DWITH_BZIP2"]
    return cc, cflags + base + extra_defs, ld


def src_define(relpath, name, default):
    """value of `#define <name> (<number>)` in a source file of the tree under test (buffer sizes the harnesses scale to)"""
    try:
        m = re.search(r"#define\s+%s\s+\(?(\d+)\)?" % name, open(os.path.join(REPO, relpath)).read())
        return int(m.group(1)) if m else default
    except OSError:
        return default


def compile_harness(src, outbin, variant="plain", extra=(), link_lib=True, extra_src=()):
    """compile /verif/harness/<src> against variant's liball.a"""
    d = build(variant)
    cc, cflags, ld = harness_cc(variant)
    cmd = [cc] + cflags + list(extra) + [src] + list(extra_src)
    if link_lib:
        cmd += [os.path.join(d, "liball.a")]
    cmd += ld + SYSLIBS + ["-o", outbin]
    r = subprocess.run(cmd, capture_output=True, text=True)
    if r.returncode != 0:
        sys.stderr.write("HARNESS BUILD FAILED %s:\n%s\n" % (src, r.stderr[:6000]))
        return False
    return True


if __name__ == "__main__":
    vs = sys.argv[1:] or ["plain"]
    for v in vs:
        t = time.time()
        print(v, build(v), "%.1fs" % (time.time() - t))
