#!/usr/bin/env python3
"""Regenerates MANIFEST.json from the table below (single source of truth for the interface)."""
import json, os
V = os.path.dirname(os.path.dirname(os.path.abspath(__file__)))
CHECKS = {
 "C09": dict(cat="model_checking", tech="TLA+ spec ThreadPool.tla (refines PoolAbs.tla) exhaustively model-checked by TLC incl. liveness; TLC state-graph paths and deviation counterexamples replayed step-by-step on the real threadpool.c under a controlled scheduler with state comparison",
   text="TLC explores every interleaving (mutex/condvar granularity, spurious wake-ups, failing item, allocation failure) of the implementation-shaped pool model for 1-3 workers x 2-4 items and checks FIFO, exactly-once, context exclusivity, sticky failure status, call termination (liveness under weak fairness) and refinement of the abstract pool; 13 named deviations must each yield a counterexample. The model is bound to the code by replaying an edge cover of the TLC state graph and all counterexample schedules on the unmodified threadpool.c under a scheduler that runs exactly one thread per model step, comparing the projected pool state and all API results after every step, plus seeded random schedules (up to 4 workers x 9 items) with deadlock detection.",
   note="Trusts: the controlled scheduler's POSIX semantics for mutex/condvar/join; that threadpool.c blocks only in intercepted calls; TLC. Real-pthread data races below lock granularity are out of scope.", ref="4 C09"),
 "C18": dict(cat="model_checking", tech="TLA+ module Canon.tla: declarative CanonSpec/SaneSpec, transcription CanonImpl, theorems checked by TLC over all strings up to a length; table of the real functions over the same domain validated by TLC (TraceCanon.tla)",
   text="TLC checks on every string over {'/', '.', ordinary, high byte} up to length 7 (quick) / 9 (thorough) that the transcription of the C loops equals the declarative meaning and that the result is clean, never longer, idempotent and names the same entry, failing exactly on a '..' component. The real canonicalize_name and is_filename_sane (compiled from the working tree with ASan, exact-size heap buffers) are then run on every string up to length 8 / 10 plus seeded random long strings, and TLC validates every recorded (input, return code, output, sane) record against the specification. Exhaustive within the bound on both sides.",
   note="Trusts TLC and the JSON recorder; the 4-class alphabet stands for all non-NUL bytes (the code branches only on '/', '.', NUL); random strings use other bytes.", ref="4 C18"),
 "C10": dict(cat="model_checking", tech="TLA+ models MetaReader.tla / DataReader.tla (cache state machines vs. pure reference function) exhaustively checked by TLC over all short histories; every TLC history replayed on the real readers over a concrete image shaped like the abstract one, results compared with the model's prediction and with freshly created readers; seeded random histories over all reader APIs on valid and damaged images",
   text="TLC enumerates all histories of up to 3 (quick) / 4 (thorough) metadata queries (seek+read over a 4-block table with a full, an undecompressable, a header-corrupt and a short block) and all data-block/fragment cache histories, checking that every answer equals the pure reference function and that the cache tag is coherent; deviations (tag set after load = the pinned tree, location-only cache key = the pinned tree, offset unchecked, next pointer stale, cache kept on error) must each give a counterexample. An edge cover of the state graph is executed on the real libsquashfs readers over concrete images (gensquashfs output with a corrupted block / header; an adversarial twin image from the independent encoder); status and payload (crc) of each call are compared with the model's prediction and with the same call on fresh readers. Random 120-call histories over meta, dir, path, data (positional, block, fragment, stream), xattr and id APIs on valid and bit-flipped images are compared differentially.",
   note="Trusts the independent decoder/encoder for the concrete images and the fresh-reader oracle; histories mixing different images on one reader are not modelled; dir reader created with flags 0.", ref="4 C10"),
 "C19": dict(cat="model_checking", tech="TLA+ model ObjLife.tla (refcounts, destroy/copy hooks, owned buffers, owned child object, shared resources) exhaustively checked by TLC; every distinct history of its state graph replayed on real libsquashfs objects of all 19 copyable kinds under ASan+LSan with a fresh-object oracle",
   text="TLC explores all programs of up to 5 (quick) / 6 (thorough) create/mutate/query/copy/grab/drop steps over up to 3 objects for each object shape (buffers owned, child object, shared file+compressor) and checks: no call through a NULL hook, no use after free, no double free, the copy's visible state evolves independently, nothing leaks once the client holds no reference; six deviations (copy without object init = the pinned id/fragment table, child without init, shallow buffer, shared not grabbed, refcount copied, child not copied) must each give a counterexample. The edge cover of the state graph yields ~12k distinct histories containing a copy; a sample per kind (all in thorough) plus all deviation witnesses are executed on the real objects (5 compressors x 2 directions, id/fragment table, meta/dir/data/xattr readers, read-only file, xattr writer) under ASan+LSan, and every query is compared with a fresh object that received exactly the mutations the model says are visible.",
   note="Trusts ASan/LSan for memory errors and leaks, and the fresh-object oracle. Allocation-failure paths inside copy hooks are not exercised here (see C13).", ref="4 C19"),
 "C14": dict(cat="model_checking", tech="TLA+ model Writer.tla of the output protocol (every state is a crash point; invariants CrashSafe / NothingAfterCommit) checked by TLC for every table configuration; the recorded output-call sequence of real gensquashfs/tar2sqfs runs validated by TLC against the same Step operator (TraceWriter.tla); exhaustive kill-before-every-output-call enumeration with all readers",
   text="TLC checks for all 48 configurations of the writer protocol (fragments, export table, xattrs, 0-3 data writes, dedup truncate) that after every prefix of the output calls a reader either rejects the file or sees the complete image, and that nothing but padding follows the committing superblock; four deviations (plausible provisional superblock, final superblock before tables, incrementally updated superblock, tables after commit) must each give a counterexample. Real runs (8 inputs quick / 22 thorough: all compressors, both packers, -j, -e, duplicates, sparse, xattrs) are recorded under an LD_PRELOAD shim; each output call is classified by offset against the independently decoded final image and the event sequence is validated by TLC with the same invariants evaluated at every crash point. Then every crash point k of every run is enumerated exhaustively: the tool is killed before its k-th output call and rdsquashfs -d/-l, sqfs2tar and the independent decoder are run on the leftover; an accepted leftover must give exactly the outputs of the complete image.",
   note="A crash is a kill between two output-file system calls (no torn writes, no page cache reordering); the shim counts pwrite/write/ftruncate on the output file (matched through /proc/self/fd).", ref="4 C14"),
}
NOT_YET = {}
def main():
    props = [json.loads(l) for l in open(os.path.join(V, "properties.jsonl"))]
    checks, na = [], []
    for p in props:
        i = p["id"]
        if i in CHECKS:
            c = CHECKS[i]
            checks.append({"property_id": i, "quick_cmd": "./check %s --tier quick" % i,
                           "thorough_cmd": "./check %s --tier thorough" % i,
                           "evidence_file": "/verif/evidence/%s.json" % i,
                           "replay_cmd_template": "./check %s --replay {path}" % i,
                           "engine": "tlc+replay",
                           "level_claimed": {"category": c["cat"], "text": c["text"], "design_ref": "DESIGN.md section " + c["ref"]},
                           "level_note": c["note"], "technique": c["tech"]})
        else:
            na.append({"property_id": i, "reason": NOT_YET.get(i, "check not built yet in this session (planned, see DESIGN.md section 4); not claimed until it runs")})
    m = {"version": 1,
         "setup_cmd": "python3 tools/build.py plain asan && python3 tools/selftest.py",
         "hooks": {"guard": "AGENTD_SQUASHFS_TOOLS_NG_VERIF",
                   "enable": "no source hooks are needed: checks compile /repo's working tree themselves (tools/build.py) and observe it through -include shims, function-pointer seams, LD_PRELOAD and strace",
                   "baseline_off_cmd": "cd /repo && make -j8 check",
                   "source_commits": [], "add_only": True},
         "engines": [{"name": "tlc+replay", "path": "/verif/check", "serves_properties": sorted(CHECKS),
                      "kind_free_text": "explicit TLA+ specifications under /verif/spec checked by TLC; behaviours replayed into / traces validated against the real code"}],
         "checks": checks, "not_applicable": na,
         "notes": "fix: commits in /repo and known findings are listed in /verif/known_findings.json"}
    json.dump(m, open(os.path.join(V, "MANIFEST.json"), "w"), indent=1)
if __name__ == "__main__":
    main()
