#!/usr/bin/env python3
"""Input generators shared by the process-level checks: file contents, pack files (gensquashfs -F),
directory trees, tar archives (Python tarfile, PAX) - all seeded."""
import io, os, random, tarfile, time


def content(rng, kind, size):
    if kind == "zero":
        return b"\0" * size
    if kind == "random":
        return bytes(rng.getrandbits(8) for _ in range(size)) if size < 70000 else random.Random(rng.random()).randbytes(size)
    if kind == "text":
        words = [b"alpha", b"beta", b"gamma", b"delta", b"squash", b"fs", b"\n", b" "]
        out = bytearray()
        while len(out) < size:
            out += rng.choice(words)
        return bytes(out[:size])
    if kind == "mixed":
        out = bytearray()
        while len(out) < size:
            k = rng.choice(["zero", "random", "text"])
            out += content(rng, k, min(size - len(out), rng.choice([100, 4096, 5000, 131072])))
        return bytes(out[:size])
    raise ValueError(kind)


def sizes_around(bs):
    return [0, 1, bs - 1, bs, bs + 1, 2 * bs - 1, 2 * bs, 2 * bs + 1, 3 * bs + 100]


class Scenario:
    """a set of source files + a pack file describing a tree"""

    def __init__(self, work, name):
        self.dir = os.path.join(work, name)
        os.makedirs(self.dir, exist_ok=True)
        self.lines = []
        self.files = {}     # image path -> bytes
        self.nodes = {}     # image path -> dict(kind, mode, uid, gid, target, devno)
        self.n = 0

    def add_dir(self, path, mode=0o755, uid=0, gid=0):
        self.lines.append("dir %s 0%o %d %d" % (q(path), mode, uid, gid))
        self.nodes[path.strip("/")] = dict(kind="dir", mode=mode, uid=uid, gid=gid)

    def add_file(self, path, data, mode=0o644, uid=0, gid=0):
        self.n += 1
        src = os.path.join(self.dir, "src%04d.bin" % self.n)
        with open(src, "wb") as f:
            f.write(data)
        self.lines.append("file %s 0%o %d %d %s" % (q(path), mode, uid, gid, src))
        self.files[path.strip("/")] = data
        self.nodes[path.strip("/")] = dict(kind="file", mode=mode, uid=uid, gid=gid)

    def add_slink(self, path, target, uid=0, gid=0):
        self.lines.append("slink %s 0777 %d %d %s" % (q(path), uid, gid, q(target)))
        self.nodes[path.strip("/")] = dict(kind="slink", mode=0o777, uid=uid, gid=gid, target=target)

    def add_nod(self, path, typ, major, minor, mode=0o600, uid=0, gid=0):
        self.lines.append("nod %s 0%o %d %d %s %d %d" % (q(path), mode, uid, gid, typ, major, minor))
        self.nodes[path.strip("/")] = dict(kind="chr" if typ == "c" else "blk", mode=mode, uid=uid, gid=gid,
                                           devno=(major << 8) | (minor & 0xFF) | ((minor & ~0xFF) << 12))

    def add_pipe(self, path, mode=0o644, uid=0, gid=0):
        self.lines.append("pipe %s 0%o %d %d" % (q(path), mode, uid, gid))
        self.nodes[path.strip("/")] = dict(kind="fifo", mode=mode, uid=uid, gid=gid)

    def add_sock(self, path, mode=0o644, uid=0, gid=0):
        self.lines.append("sock %s 0%o %d %d" % (q(path), mode, uid, gid))
        self.nodes[path.strip("/")] = dict(kind="sock", mode=mode, uid=uid, gid=gid)

    def add_link(self, path, target):
        """hard link directive"""
        self.lines.append("link %s 0 0 0 %s" % (q(path), q(target)))
        self.links = getattr(self, "links", {})
        self.links[path.strip("/")] = target.strip("/")

    def set_xattr(self, path, key, value):
        self.xattrs = getattr(self, "xattrs", {})
        self.xattrs.setdefault(path.strip("/"), {})[key] = value

    def xattrfile(self):
        xa = getattr(self, "xattrs", {})
        if not xa:
            return None
        p = os.path.join(self.dir, "xattr.txt")
        txt = ""
        for path, kv in xa.items():
            txt += "# file: %s\n" % path
            for k, v in kv.items():
                txt += "%s=0x%s\n" % (k, v.hex())
            txt += "\n"
        _write_atomic(p, txt)
        return p

    def expected(self):
        """path(bytes) -> record comparable with fidelity.decoded_tree()"""
        import hashlib
        out = {}
        xa = getattr(self, "xattrs", {})
        for p, n in self.nodes.items():
            rec = {"kind": n["kind"], "mode": n["mode"] & 0o7777, "uid": n["uid"], "gid": n["gid"],
                   "xattrs": {k.encode(): v for k, v in xa.get(p, {}).items()}}
            if n["kind"] == "slink":
                rec["target"] = n["target"].encode()
            if n["kind"] in ("chr", "blk"):
                rec["devno"] = n["devno"]
            if n["kind"] == "file":
                rec["sha"] = hashlib.sha256(self.files[p]).hexdigest()
                rec["size"] = len(self.files[p])
            out[p.encode()] = rec
        for p, t in getattr(self, "links", {}).items():
            out[p.encode()] = dict(out[t.encode()], linkof=t.encode())
        return out

    def packfile(self):
        p = os.path.join(self.dir, "pack.txt")
        _write_atomic(p, "\n".join(self.lines) + "\n")
        return p


def _write_atomic(p, txt):
    """callers pack one scenario from several threads: never expose a half-written file"""
    import threading
    tmp = "%s.%d.%d" % (p, os.getpid(), threading.get_ident())
    with open(tmp, "w") as f:
        f.write(txt)
    os.replace(tmp, p)


def q(path):
    if any(c in path for c in ' \t"\\'):
        return '"' + path.replace("\\", "\\\\").replace('"', '\\"') + '"'
    return path


def standard_scenarios(work, rng, bs=4096, count=6):
    """a fixed family of small inputs that exercise: tails only, multi-block files, duplicates (dedup +
    truncate), sparse blocks, many small files (several fragment blocks), all inode types"""
    out = []
    s = Scenario(work, "s_tails")
    s.add_dir("/d")
    for i in range(5):
        s.add_file("/d/t%d" % i, content(rng, "text", 50 + 37 * i), uid=i % 3)
    out.append(s)
    s = Scenario(work, "s_blocks")
    s.add_file("/big", content(rng, "mixed", 3 * bs + 100))
    s.add_file("/exact", content(rng, "random", 2 * bs))
    s.add_slink("/l", "big")
    out.append(s)
    s = Scenario(work, "s_dups")
    d = content(rng, "random", 2 * bs + 17)
    s.add_file("/a", d)
    s.add_file("/b", content(rng, "text", bs + 5))
    s.add_file("/c", d)
    s.add_file("/e", d[:bs] + content(rng, "random", bs))
    out.append(s)
    s = Scenario(work, "s_sparse")
    s.add_file("/a_first", content(rng, "random", 2 * bs))
    s.add_file("/lead_hole", b"\0" * bs + content(rng, "random", 2 * bs) + b"tail")
    s.add_file("/lead_hole2", b"\0" * (2 * bs) + content(rng, "text", bs))
    s.add_file("/mid_hole", content(rng, "text", bs) + b"\0" * bs + content(rng, "random", bs + 9))
    s.add_file("/sp", b"\0" * bs + content(rng, "text", bs) + b"\0" * (2 * bs) + b"end")
    s.add_file("/z", b"\0" * (3 * bs))
    s.add_file("/empty", b"")
    out.append(s)
    s = Scenario(work, "s_many")
    s.add_dir("/m", mode=0o700, uid=1000, gid=100)
    for i in range(40):
        s.add_file("/m/f%02d" % i, content(rng, "random", 300 + (i * 53) % 700), uid=1000 + i % 4, gid=i % 2)
    out.append(s)
    s = Scenario(work, "s_types")
    s.add_dir("/dev")
    s.add_nod("/dev/c", "c", 5, 1)
    s.add_nod("/dev/b", "b", 8, 300)
    s.add_pipe("/dev/p")
    s.add_sock("/dev/s")
    s.add_slink("/dev/l", "../x y")
    s.add_file("/x y", content(rng, "text", 10))
    out.append(s)
    return out[:count]


def tar_bytes(entries, fmt=tarfile.PAX_FORMAT):
    """entries: list of dict(name, type: file|dir|slink|hlink|chr|blk|fifo, data, mode, uid, gid, mtime, target,
    devmajor, devminor, xattrs {str: bytes-as-latin1 str})"""
    bio = io.BytesIO()
    with tarfile.open(fileobj=bio, mode="w", format=fmt) as tf:
        for e in entries:
            ti = tarfile.TarInfo(e["name"])
            t = e.get("type", "file")
            ti.mode = e.get("mode", 0o644)
            ti.uid, ti.gid = e.get("uid", 0), e.get("gid", 0)
            ti.mtime = e.get("mtime", 1000000000)
            ti.uname = ti.gname = ""
            data = None
            if t == "file":
                data = e.get("data", b"")
                ti.size = len(data)
            elif t == "dir":
                ti.type = tarfile.DIRTYPE
            elif t == "slink":
                ti.type = tarfile.SYMTYPE
                ti.linkname = e["target"]
            elif t == "hlink":
                ti.type = tarfile.LNKTYPE
                ti.linkname = e["target"]
            elif t in ("chr", "blk"):
                ti.type = tarfile.CHRTYPE if t == "chr" else tarfile.BLKTYPE
                ti.devmajor, ti.devminor = e.get("devmajor", 1), e.get("devminor", 2)
            elif t == "fifo":
                ti.type = tarfile.FIFOTYPE
            if e.get("xattrs") and fmt == tarfile.PAX_FORMAT:
                ti.pax_headers = {"SCHILY.xattr." + k: v for k, v in e["xattrs"].items()}
            tf.addfile(ti, io.BytesIO(data) if data is not None else None)
    return bio.getvalue()


def standard_tars(rng, bs=4096):
    out = []
    out.append(("t_basic", tar_bytes([
        dict(name="d", type="dir", mode=0o750, uid=5, gid=6),
        dict(name="d/f1", data=content(rng, "text", 3 * bs + 11), xattrs={"user.a": "1", "user.b": "two"}),
        dict(name="d/f2", data=content(rng, "random", 700)),
        dict(name="d/l", type="slink", target="f1"),
        dict(name="d/h", type="hlink", target="d/f1"),
        dict(name="c", type="chr", devmajor=4, devminor=64),
        dict(name="p", type="fifo"),
    ])))
    out.append(("t_dups", tar_bytes([
        dict(name="a", data=content(random.Random(1), "random", 2 * bs + 5)),
        dict(name="b", data=content(random.Random(1), "random", 2 * bs + 5), xattrs={"user.x": "y"}),
        dict(name="z", data=b"\0" * (2 * bs)),
    ])))
    return out
