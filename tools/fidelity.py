#!/usr/bin/env python3
"""Comparison of an expected tree (from a generator) with the meaning of an image (independent decoder)."""
import sqfsimg


def decoded_tree(img):
    t = img.tree()
    out = {}
    for p, n in t.items():
        if p == b"":
            continue
        rec = {"kind": n["kind"], "mode": n["mode"], "uid": n["uid"], "gid": n["gid"], "xattrs": n["xattrs"], "inum": n["inum"], "mtime": n["mtime"]}
        for k in ("target", "devno", "sha", "size"):
            if k in n:
                rec[k] = n[k]
        out[p] = rec
    return out


def compare(expected, decoded, check_mtime=None, ignore=()):
    """returns list of human-readable differences (empty = faithful)"""
    diffs = []
    for p, e in expected.items():
        d = decoded.get(p)
        if d is None:
            diffs.append("missing entry %r" % p)
            continue
        for k, v in e.items():
            if k in ("linkof",) or k in ignore:
                continue
            if d.get(k) != v:
                diffs.append("%r: %s is %r, expected %r" % (p, k, d.get(k), v))
        if check_mtime is not None and d["mtime"] != check_mtime:
            diffs.append("%r: mtime is %r, expected %r" % (p, d["mtime"], check_mtime))
        if "linkof" in e:
            t = decoded.get(e["linkof"])
            if t is None or t["inum"] != d["inum"]:
                diffs.append("%r is not a hard link of %r" % (p, e["linkof"]))
    for p in decoded:
        if p not in expected:
            diffs.append("unexpected entry %r" % p)
    # entries that are NOT declared links must not share inodes
    seen = {}
    for p, d in decoded.items():
        if d["kind"] != "dir":
            seen.setdefault(d["inum"], []).append(p)
    for inum, ps in seen.items():
        if len(ps) > 1:
            declared = all(("linkof" in expected.get(q, {})) or any(expected.get(x, {}).get("linkof") == q for x in ps) for q in ps)
            if not declared:
                diffs.append("entries %r share one inode although they are not hard links" % ps)
    return diffs
