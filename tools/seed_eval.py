#!/usr/bin/env python3
"""Confirms a seeded change produced by an independent sub-agent and records it under /verif/seeded/<name>/.
usage: seed_eval.py <name> <worktree> <property-id> [check ids to run, default = property]
Steps: (worktree) apply patch -> build -> make check -> demo must FAIL -> revert -> build -> demo must PASS;
(/repo) apply patch -> ./check <id> -> revert.  Nothing is ever committed to /repo."""
import json, os, shutil, subprocess, sys, time

def sh(cmd, cwd=None, timeout=1800):
    p = subprocess.run(cmd, shell=True, cwd=cwd, capture_output=True, text=True, timeout=timeout)
    return p.returncode, p.stdout + p.stderr

def main():
    scratch = "--scratch" in sys.argv
    args = [a for a in sys.argv[1:] if a != "--scratch"]
    name, wt, pid = args[0:3]
    checks = args[3:] or [pid]
    seed = os.path.join(wt, "_seed")
    out = os.path.join("/verif/seeded", name)
    os.makedirs(out, exist_ok=True)
    for f in os.listdir(seed):
        if os.path.isfile(os.path.join(seed, f)) and os.path.getsize(os.path.join(seed, f)) < 2_000_000:
            shutil.copy(os.path.join(seed, f), out)
    demo = [f for f in os.listdir(seed) if f.startswith("demo")]
    democmd = None
    for f in demo:
        if f.endswith(".sh"):
            democmd = "bash _seed/%s %s" % (f, wt)
        elif f.endswith(".py"):
            democmd = "python3 _seed/%s %s" % (f, wt)
    rec = {"name": name, "property": pid, "when": time.strftime("%F %T")}
    rc, o = sh("git checkout -q -- . && git apply _seed/patch.diff && make -j16 2>&1 | tail -3", cwd=wt)
    rec["applies_and_builds"] = rc == 0
    rc, o = sh("make -j16 check 2>&1 | grep -E '^# (PASS|FAIL|ERROR)'", cwd=wt)
    rec["make_check_with_patch"] = " ".join(o.split())
    if democmd:
        rc, o = sh("REPO=%s timeout 600 %s" % (wt, democmd), cwd=wt)
        rec["demo_with_patch_rc"] = rc
        rec["demo_with_patch_tail"] = o[-400:]
    sh("git checkout -q -- . && make -j16 2>&1 | tail -1", cwd=wt)
    if democmd:
        rc, o = sh("REPO=%s timeout 600 %s" % (wt, democmd), cwd=wt)
        rec["demo_without_patch_rc"] = rc
    if scratch:
        # the check part in a throw-away worktree (VERIF_REPO), /repo stays untouched
        json.dump(rec, open(os.path.join(out, "eval.json"), "w"), indent=1)
        rc, o = sh("python3 /verif/tools/seed_recheck.py --scratch %s" % name, timeout=7200)
        print(o.strip())
        print(json.dumps(json.load(open(os.path.join(out, "eval.json"))), indent=1)[:2500])
        return
    # now the checks, on /repo itself
    rc, o = sh("git -C /repo status --short | grep -v '^??' | head -1")
    if o.strip():
        print("refusing: /repo has uncommitted changes"); sys.exit(2)
    rc, o = sh("git -C /repo apply %s/patch.diff" % out)
    rec["applies_to_repo_head"] = rc == 0
    rec["checks"] = {}
    if rc == 0:
        try:
            for c in checks:
                t = time.time()
                rc2, o2 = sh("cd /verif && VERIF_EVIDENCE_DIR=/tmp/seed_evidence_eval ./check %s --tier quick" % c, timeout=3600)
                viol = [l for l in o2.split("\n") if l.startswith("VIOLATION") or l.strip().startswith("what:")]
                rec["checks"][c] = {"rc": rc2, "wall_s": round(time.time() - t), "violations": viol[:6]}
        finally:
            sh("git -C /repo checkout -- .")
    json.dump(rec, open(os.path.join(out, "eval.json"), "w"), indent=1)
    print(json.dumps(rec, indent=1)[:2500])

main()
