#!/usr/bin/env python3
"""Binding of spec/BlockProc.tla to the real block processor: TLC configurations, emission of
(input, predicted result) pairs, concretisation for harness/replay_blockproc.c, comparison."""
import json, os, re, subprocess, zlib
from concurrent.futures import ThreadPoolExecutor
import vlib, build
from vlib import VERIF, run_tlc, write_cfg, sh

U = 1024
FLAGBITS = {"DONT_COMPRESS": 0x1, "DONT_FRAGMENT": 0x4, "DONT_DEDUP": 0x8, "IGNORE_SPARSE": 0x10}
DEFAULT_IDS = ["z", "a", "b", "c"]
CSMAP = {"z": 4, "a": 1, "b": 4, "c": 1}          # units after compression (>= units: does not shrink)


def tla_set(xs):
    return "{" + ", ".join(xs) + "}"


def tla_inputs(inputs):
    """list of inputs (each a list of {flags, blocks, tail}) as a TLA+ set of sequences of records"""
    def rec(f):
        return '[flags |-> %s, blocks |-> <<%s>>, tail |-> <<%s>>]' % (
            tla_set('"%s"' % x for x in f["flags"]), ", ".join('"%s"' % b for b in f["blocks"]),
            ", ".join('[c |-> "%s", n |-> %d]' % (t["c"], t["n"]) for t in f["tail"]))
    return tla_set("<<" + ", ".join(rec(f) for f in inp) + ">>" for inp in inputs)


def cfg_for(path, dev="none", sparsefrag=False, nf=2, mb=1, ids=None, backlogs=(3, 4), flagsets=None, tails=(1, 3),
            perfect=False, emit=False, invariants=("Safety", "Deterministic"), chain=None, failids=(), finish_checks=True, explicit=None):
    ids = ids or DEFAULT_IDS
    flagsets = flagsets if flagsets is not None else [[], ["IGNORE_SPARSE"]]
    idset = tla_set('"%s"' % i for i in ids)
    fs = tla_set(tla_set('"%s"' % f for f in s) for s in flagsets)
    cs = "[x \\in %s |-> CASE %s [] OTHER -> 4]" % (idset, " [] ".join('x = "%s" -> %d' % (k, v) for k, v in CSMAP.items()))
    write_cfg(path, spec="Spec",
              constants={"B": 4, "MaxFiles": nf, "MaxBlocks": mb, "SparseCheckOnFragBlock": sparsefrag, "Dev": '"%s"' % dev,
                         "Backlogs": set(backlogs), "Zero": '"z"', "TailSizes": set(tails), "PerfectHash": perfect, "Emit": emit,
                         "FinishChecksStatus": finish_checks},
              defs={"ContentIds": idset, "H": "[x \\in %s |-> 0]" % idset, "CS": cs, "FlagSets": fs,
                    "ExplicitInputs": tla_inputs(explicit or []),
                    "FailIds": tla_set('"%s"' % c for c in failids),
                    "ChainSeq": "<<%s>>" % ", ".join('"%s"' % c for c in (chain or []))},
              invariants=list(invariants), deadlock=False)


def parse_emitted(out):
    res = []
    for m in re.finditer(r'<<"RESULT", "((?:[^"\\]|\\.)*)">>', out):
        txt = m.group(1).encode().decode("unicode_escape")
        res.append(txt)
    # TLC prints in the order its workers get there: sort, so that seeded samples of the records are reproducible
    return [json.loads(t) for t in sorted(set(res))]


def atom_bytes(c, n):
    if c == "z":
        return b"\0" * (n * U)
    return bytes([0x80 | n]) + c.encode() * (n * U - 1)


def data_bytes(atoms):
    return b"".join(atom_bytes(a["c"], a["n"]) for a in atoms)


def compress_bytes(atoms, units):
    # mirror of the scripted compressor: zero atoms are one entry per unit
    hdr = bytearray(b"CMPR\0\0")
    n = 0
    for a in atoms:
        if a["c"] == "z":
            for _ in range(a["n"]):
                hdr += bytes([1, ord("z")])
                n += 1
        else:
            hdr += bytes([a["n"], ord(a["c"])])
            n += 1
    hdr[4] = n
    return bytes(hdr) + b"\0" * (units * U - len(hdr))


def expected_real(res):
    """model Result -> what the harness must print"""
    disk = bytearray()
    for b in res["disk"]:
        disk += compress_bytes(b["data"], b["size"]) if b["comp"] else data_bytes(b["data"])
    ino = []
    for i in res["ino"]:
        ino.append({"size": i["size"] * U, "start": i["start"] * U, "fidx": i["fidx"], "foff": (i["foff"] * U if i["fidx"] >= 0 else 0),
                    "sparse": i["sparse"] * U, "ext": i["ext"], "blocks": [[w[0] * U, w[1]] for w in i["blocks"]]})
    ftbl = [{"loc": e["loc"] * U, "size": e["size"] * U, "comp": e["comp"]} for e in res["ftbl"]]
    return {"ino": ino, "ftbl": ftbl, "dsize": len(disk), "dcrc": zlib.crc32(bytes(disk))}


# ---------------------------------------------------------------------------------------------------------------------
# property-level judgement of a REAL result (no model involved): what C02 / C08 / C17 / C03 say about the block processor
BSZ = 4 * U


def _expand(raw):
    """inverse of the scripted compressor"""
    if len(raw) < 6 or raw[:4] != b"CMPR":
        return None
    out = b""
    for i in range(raw[4]):
        n, ch = raw[6 + 2 * i], raw[7 + 2 * i]
        out += b"\0" * (n * U) if ch == ord("z") else bytes([0x80 | n]) + bytes([ch]) * (n * U - 1)
    return out


def read_back(real, fi):
    """bytes of file fi as a reader would get them from the inode, the fragment table and the disk; None + reason if impossible"""
    disk = bytes.fromhex(real.get("disk", ""))
    ino = real["ino"][fi]
    size, pos, out = ino["size"], ino["start"], b""
    for (bsz, comp) in ino["blocks"]:
        want = min(BSZ, size - len(out))
        if bsz == 0:
            blk = b"\0" * want
        else:
            raw = disk[pos:pos + bsz]
            pos += bsz
            if len(raw) != bsz:
                return None, "block beyond the end of the data area"
            blk = _expand(raw) if comp else raw
            if blk is None or len(blk) != want:
                return None, "block does not expand to %d bytes" % want
        out += blk
    if ino["fidx"] >= 0:
        if ino["fidx"] >= len(real["ftbl"]):
            return None, "fragment index out of range"
        f = real["ftbl"][ino["fidx"]]
        raw = disk[f["loc"]:f["loc"] + f["size"]]
        blk = _expand(raw) if f["comp"] else raw
        want = size - len(out)
        if blk is None or ino["foff"] + want > len(blk):
            return None, "fragment block does not hold the tail"
        out += blk[ino["foff"]:ino["foff"] + want]
    if len(out) != size:
        return None, "inode describes %d of %d bytes" % (len(out), size)
    return out, None


# which property-level judgements the calling check makes (a check raises alarms for ITS property only):
#   integrity  every file reads back byte-exact (C08; C17 for files that carry a directive)     flags    directives honoured (C17)
#   sharing    identical directive-free files share storage (C08)                              size     no stored block above the block size
JUDGE = {"integrity", "flags", "sharing", "size", "determinism"}       # determinism: one input, one result whatever the workers / schedule (C02)


def judge_real(inp, real):
    """list of property-level problems of a real result for the input `inp` (list of file specs), restricted to JUDGE"""
    probs = _judge_all(inp, real)
    return [p for k, p in probs if k in JUDGE or (k == "integrity_flagged" and ("integrity" in JUDGE or "integrity_flagged" in JUDGE))]


def _judge_all(inp, real):
    probs = []
    if not real.get("disk") and real.get("dsize"):
        return probs                                   # disk too large to be dumped: nothing to judge here
    datas = []
    for fi, spec in enumerate(inp):
        atoms = [{"c": c, "n": 4} for c in spec["blocks"]] + list(spec["tail"])
        want = data_bytes(atoms)
        datas.append(want)
        got, why = read_back(real, fi)
        if got is None:
            probs.append(("integrity_flagged" if spec["flags"] else "integrity", "file %d cannot be read back: %s" % (fi + 1, why)))
        elif got != want:
            probs.append(("integrity_flagged" if spec["flags"] else "integrity", "file %d reads back different bytes" % (fi + 1)))
        ino = real["ino"][fi]
        fl = set(spec["flags"])
        for (bsz, comp) in ino["blocks"]:
            if bsz > BSZ:
                probs.append(("size", "file %d: stored block larger than the block size" % (fi + 1)))
        if "DONT_FRAGMENT" in fl and ino["fidx"] >= 0:
            probs.append(("flags", "file %d [dont_fragment] has its tail in a fragment block" % (fi + 1)))
        if "DONT_COMPRESS" in fl and any(c for (b, c) in ino["blocks"]):
            probs.append(("flags", "file %d [dont_compress] has a compressed block" % (fi + 1)))
        if "DONT_COMPRESS" in fl and ino["fidx"] >= 0 and ino["fidx"] < len(real["ftbl"]) and real["ftbl"][ino["fidx"]]["comp"]:
            probs.append(("flags", "file %d [dont_compress] has its tail in a compressed fragment block" % (fi + 1)))
        if "IGNORE_SPARSE" in fl and (ino["sparse"] != 0 or any(b == 0 for (b, c) in ino["blocks"])):
            probs.append(("flags", "file %d [nosparse] has a sparse block" % (fi + 1)))
    # dont_deduplicate: own storage; identical flag-free files: shared storage (per block run / per tail chunk)
    for g, spec in enumerate(inp):
        ig = real["ino"][g]
        for h in range(g):
            ih = real["ino"][h]
            same_blocks = spec["blocks"] and inp[h]["blocks"] == spec["blocks"] and any(b for (b, c) in ig["blocks"])
            if "DONT_DEDUP" in spec["flags"] and same_blocks and ig["start"] == ih["start"] and ig["blocks"] == ih["blocks"]:
                probs.append(("flags", "file %d [dont_deduplicate] shares its blocks with file %d" % (g + 1, h + 1)))
            if "DONT_DEDUP" in spec["flags"] and ig["fidx"] >= 0 and (ig["fidx"], ig["foff"]) == (ih["fidx"], ih["foff"]):
                probs.append(("flags", "file %d [dont_deduplicate] shares its tail with file %d" % (g + 1, h + 1)))
        if not spec["flags"] and datas[g] and any(not inp[h]["flags"] and datas[h] == datas[g] for h in range(g)):
            if any(b for (b, c) in ig["blocks"]) and not any(inp[h]["blocks"] == spec["blocks"] and real["ino"][h]["start"] == ig["start"]
                                                              and real["ino"][h]["blocks"] == ig["blocks"] for h in range(g)):
                probs.append(("sharing", "file %d repeats an earlier file but its blocks are stored again" % (g + 1)))
            if ig["fidx"] >= 0 and not any(inp[h]["tail"] == spec["tail"] and (real["ino"][h]["fidx"], real["ino"][h]["foff"]) == (ig["fidx"], ig["foff"])
                                           for h in range(g)):
                probs.append(("sharing", "file %d repeats an earlier file but its tail is stored again" % (g + 1)))
    return probs


DRIFT = []          # (input, what): real results that satisfy the properties but differ from the model's prediction (reported, never an alarm)


def input_file(path, inp, Q, W, failids=()):
    with open(path, "w") as f:
        f.write("Q %d W %d CS %s\n" % (Q, W, " ".join(["%s=%d" % kv for kv in CSMAP.items() if kv[0] != "z"] + ["%s=-1" % c for c in failids])))
        for spec in inp:
            fl = sum(FLAGBITS[x] for x in spec["flags"])
            atoms = [(c, 4) for c in spec["blocks"]] + [(t["c"], t["n"]) for t in spec["tail"]]
            f.write("FILE %d %s\n" % (fl, " ".join("%s %d" % a for a in atoms)))


HASHTEST = """#include <stdio.h>
#include <stdint.h>
#include <stddef.h>
uint32_t xxh32(const void *, size_t);
int main(void) { printf("%u %u\\n", xxh32("abc", 3), xxh32("abd", 3)); return 0; }
"""


def check_hash_variant(out, variant):
    """anti-vacuity: a hash<k> build must really truncate the checksum"""
    m = re.search(r"hash(\d+)", variant)
    if not m:
        return
    d = build.build(variant)
    src = out + "/hashtest.c"
    open(src, "w").write(HASHTEST)
    subprocess.check_call(["gcc", src, d + "/liball.a", "-o", out + "/hashtest"])
    a, b = (int(x) for x in subprocess.check_output([out + "/hashtest"]).split())
    if a >= (1 << int(m.group(1))) or b >= (1 << int(m.group(1))):
        raise RuntimeError("build variant %s does not truncate xxh32 (%d, %d)" % (variant, a, b))


def build_harness(out, variant):
    check_hash_variant(out, variant)
    binp = out + "/replay_blockproc_" + variant
    if not build.compile_harness(VERIF + "/harness/replay_blockproc.c", binp, variant=variant):
        raise RuntimeError("cannot build block processor harness")
    return binp


def normalize_real(r):
    # the model keeps ext sticky and does not model 'ext' for files that were never made extended
    return {"ino": r["ino"], "ftbl": r["ftbl"], "dsize": r["dsize"], "dcrc": r["dcrc"]}


def signature(r):
    return json.dumps(normalize_real(r), sort_keys=True)


def replay(binp, work, emitted, workers=(1, 3), tag="bp", limit=None, sigs=None):
    """returns list of mismatches: (input, what, predicted, real)"""
    jobs = []
    for k, e in enumerate(emitted if limit is None else emitted[:limit]):
        for W in workers:
            jobs.append((k, e, W))

    def do(job):
        k, e, W = job
        p = "%s/%s_%d_%d.txt" % (work, tag, k, W)
        input_file(p, e["input"], e["mb"], W)
        rc, o, err = sh([binp, p], timeout=60)
        try:
            real = json.loads(o.decode().strip().split("\n")[-1])
        except Exception:
            real = {"crash": rc, "stderr": err.decode(errors="replace")[-500:]}
        try:
            os.unlink(p)
        except OSError:
            pass
        return e, W, real

    bad = []
    n = 0
    sigs = {} if sigs is None else sigs
    with ThreadPoolExecutor(max_workers=16) as ex:
        for e, W, real in ex.map(do, jobs):
            n += 1
            if "crash" in real or real.get("err", 0) != 0 or "fatal" in real:
                bad.append((e, W, "harness reports error/crash", None, real))
                continue
            key = json.dumps([e["input"], e["mb"]], sort_keys=True)
            sigs.setdefault(key, {})[(tag, W)] = signature(real)
            probs = judge_real(e["input"], real)
            exp = expected_real(e["res"])
            got = normalize_real(real)
            if probs:
                bad.append((e, W, "; ".join(probs[:3]), exp, got))
            elif exp != got:
                DRIFT.append((e["input"], "layout differs from the specification in %s" % [k for k in exp if exp[k] != got.get(k)]))
    # determinism (C02): one input, one result - whatever the number of workers (and, through `sigs`, the build)
    for e in (emitted if limit is None else emitted[:limit]):
        key = json.dumps([e["input"], e["mb"]], sort_keys=True)
        vals = sigs.get(key, {})
        mine = {k: v for k, v in vals.items() if k[0] == tag}
        if len(set(mine.values())) > 1 and "determinism" in JUDGE:
            ws = sorted(k[1] for k in mine)
            bad.append((e, ws[-1], "results differ between worker counts %s" % ws, None, None))
    return n, bad


def build_harness_sched(out):
    """block processor + threadpool.c under the controlled scheduler (every unlock is a preemption point)"""
    d = build.build("plain")
    cc, cflags, ld = build.harness_cc("plain")
    H = VERIF + "/harness"
    subprocess.check_call(["gcc", "-O1", "-g", "-w", "-c", H + "/sched.c", "-o", out + "/sched_bp.o"])
    binp = out + "/replay_blockproc_sched"
    cmd = [cc] + cflags + ["-DSCHED", "-include", H + "/sched.h", '-DREPO_THREADPOOL_C="%s/lib/util/src/threadpool.c"' % build.REPO,
                           H + "/replay_blockproc.c", out + "/sched_bp.o", d + "/liball.a"] + build.SYSLIBS + ["-o", binp]
    r = subprocess.run(cmd, capture_output=True, text=True)
    if r.returncode:
        raise RuntimeError("cannot build scheduled block processor harness: %s" % r.stderr[-1500:])
    return binp


def replay_sched(binp, work, emitted, seeds, workers=2, tag="bs"):
    """run each emitted input under `seeds` different controlled schedules; returns (runs, mismatches)"""
    jobs = [(k, e, sd) for k, e in enumerate(emitted) for sd in seeds]

    def do(job):
        k, e, sd = job
        p = "%s/%s_%d_%d.txt" % (work, tag, k, sd)
        input_file(p, e["input"], e["mb"], workers)
        rc, o, err = sh([binp, p, str(sd)], timeout=120)
        try:
            real = json.loads(o.decode().strip().split("\n")[-1])
        except Exception:
            real = {"crash": rc, "stderr": err.decode(errors="replace")[-300:]}
        try:
            os.unlink(p)
        except OSError:
            pass
        return e, sd, real

    bad = []
    n = 0
    seen = {}
    with ThreadPoolExecutor(max_workers=16) as ex:
        for e, sd, real in ex.map(do, jobs):
            n += 1
            if any(k in real for k in ("crash", "deadlock", "hang", "livelock", "fatal")) or real.get("err", 0) != 0:
                bad.append((e, sd, "scheduled run ends in %s" % [k for k in real if k in ("crash", "deadlock", "hang", "livelock", "fatal", "err")], None, real))
                continue
            probs = judge_real(e["input"], real)
            exp = expected_real(e["res"])
            got = normalize_real(real)
            key = json.dumps([e["input"], e["mb"]], sort_keys=True)
            first = seen.setdefault(key, (sd, signature(real)))
            if probs:
                bad.append((e, sd, "; ".join(probs[:3]), exp, got))
            elif first[1] != signature(real):
                bad.append((e, sd, "result under schedule %d differs from the result under schedule %d" % (sd, first[0]), exp, got))
            elif exp != got:
                DRIFT.append((e["input"], "layout differs from the specification in %s" % [k for k in exp if exp[k] != got.get(k)]))
    return n, bad
