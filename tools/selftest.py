#!/usr/bin/env python3
"""setup-time sanity: TLC runs, specs parse."""
import glob, os, subprocess, sys
V = os.path.dirname(os.path.dirname(os.path.abspath(__file__)))
bad = 0
for f in sorted(glob.glob(V + "/spec/*.tla")):
    r = subprocess.run(["timeout", "120", "tla-sany", f], capture_output=True, text=True, cwd=V + "/spec")
    if r.returncode != 0 or "Semantic errors" in r.stdout or "***Parse Error***" in r.stdout:
        print("SANY FAILED", f); bad += 1
print("selftest: %d spec files, %d failed" % (len(glob.glob(V + "/spec/*.tla")), bad))
sys.exit(1 if bad else 0)
