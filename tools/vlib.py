#!/usr/bin/env python3
"""Shared machinery: TLC runner (exhaustive / simulate / trace validation / graph dump), TLA+ value
parser, evidence writer, known-findings bookkeeping, VIOLATION reporting."""
import json, random, os, re, shutil, subprocess, sys, tempfile, time, hashlib, random

VERIF = os.path.dirname(os.path.dirname(os.path.abspath(__file__)))
# evidence directory; runs against a seeded (deliberately broken) tree redirect it so that the committed evidence stays that of /repo
EVDIR = os.environ.get("VERIF_EVIDENCE_DIR") or os.path.join(VERIF, "evidence")
# reference implementations (zstd, xz, bzip2, bsdtar, GNU tar) may live outside a minimal PATH
for _d in ("/root/miniconda/bin", "/opt/conda/bin", "/usr/local/bin", "/usr/bin", "/bin"):
    if os.path.isdir(_d) and _d not in os.environ.get("PATH", "").split(":"):
        os.environ["PATH"] = os.environ.get("PATH", "") + ":" + _d


def have(tool):
    import shutil as _sh
    return _sh.which(tool) is not None
SPEC = os.path.join(VERIF, "spec")
JAR = "/opt/veriftools/tla/tla2tools.jar:/opt/veriftools/tla/CommunityModules-deps.jar"
SEED = int(os.environ.get("VERIF_SEED", "1"))


def scratch(prefix="vf"):
    base = os.environ.get("TMPDIR", "/tmp")
    return tempfile.mkdtemp(prefix=prefix + "-", dir=base)


class TLCError(Exception):
    pass


def _cfg_value(v):
    if isinstance(v, bool):
        return "TRUE" if v else "FALSE"
    if isinstance(v, int):
        return str(v)
    if isinstance(v, str):
        return v  # raw TLA text (caller quotes strings)
    if isinstance(v, (set, frozenset)):
        return "{" + ", ".join(_cfg_value(x) for x in sorted(v, key=str)) + "}"
    if isinstance(v, (list, tuple)):
        return "<<" + ", ".join(_cfg_value(x) for x in v) + ">>"
    raise ValueError(v)


def write_cfg(path, spec=None, init=None, nxt=None, constants=None, invariants=(), properties=(),
              constraints=(), action_constraints=(), postcondition=None, deadlock=True, view=None,
              symmetry=None, defs=None):
    """defs: {CONSTANT: TLA+ expression text}: values the cfg syntax cannot express (tuples, records,
    functions); a wrapper module MC_<cfg> defining them is written next to the cfg and run_tlc picks it up."""
    L = []
    if spec:
        L.append("SPECIFICATION " + spec)
    else:
        L.append("INIT " + init)
        L.append("NEXT " + nxt)
    if constants or defs:
        L.append("CONSTANTS")
        for k, v in (constants or {}).items():
            L.append("  %s = %s" % (k, _cfg_value(v)))
        for k in (defs or {}):
            L.append("  %s <- def_%s" % (k, k))
    if defs:
        open(path + ".defs", "w").write(json.dumps(defs))
    elif os.path.exists(path + ".defs"):
        os.unlink(path + ".defs")
    for i in invariants:
        L.append("INVARIANT " + i)
    for p in properties:
        L.append("PROPERTY " + p)
    for c in constraints:
        L.append("CONSTRAINT " + c)
    for c in action_constraints:
        L.append("ACTION_CONSTRAINT " + c)
    if postcondition:
        L.append("POSTCONDITION " + postcondition)
    if view:
        L.append("VIEW " + view)
    if symmetry:
        L.append("SYMMETRY " + symmetry)
    L.append("CHECK_DEADLOCK " + ("TRUE" if deadlock else "FALSE"))
    open(path, "w").write("\n".join(L) + "\n")


def run_tlc(module, cfg_path, workers=8, timeout=600, simulate=None, depth=None, dump=None,
            coverage=False, env=None, heap="6g", extra=(), dfs=False, keep=False, seed=None):
    """Runs TLC on SPEC/<module>.tla with the given cfg file.  Returns a dict:
       ok (no violation), violated (name or None), kind, states, distinct, depth, coverage{action:(taken,gen)},
       trace (list of dict var->text) when violated, out (raw)."""
    meta = scratch("tlc")
    jopts = ["-Xmx" + heap, "-XX:+UseParallelGC", "-Xss128m"]
    if dfs:
        jopts.append("-Dtlc2.tool.queue.IStateQueue=StateDeque")
    cmd = ["timeout", str(timeout), "java"] + jopts + ["-cp", JAR, "tlc2.TLC", "-workers", str(workers),
                                                          "-metadir", meta, "-config", cfg_path, "-noGenerateSpecTE"]
    if simulate:
        cmd += ["-simulate", "num=%d" % simulate]
        if depth:
            cmd += ["-depth", str(depth)]
        cmd += ["-seed", str(seed if seed is not None else SEED)]
    if dump:
        cmd += ["-dump", "dot,actionlabels", dump]
    if coverage:
        cmd += ["-coverage", "1"]
    cmd += list(extra)
    cwd = SPEC
    if os.path.exists(cfg_path + ".defs"):
        defs = json.load(open(cfg_path + ".defs"))
        mc = "MC_" + re.sub(r"\W", "_", os.path.basename(cfg_path))
        with open(os.path.join(meta, mc + ".tla"), "w") as f:
            f.write("---- MODULE %s ----\nEXTENDS %s\n" % (mc, module))
            for k, v in defs.items():
                f.write("def_%s == %s\n" % (k, v))
            f.write("====\n")
        jidx = cmd.index("-cp")
        cmd.insert(jidx, "-DTLA-Library=" + SPEC)
        cmd.append(os.path.join(meta, mc + ".tla"))
        cwd = meta
    else:
        cmd.append(os.path.join(SPEC, module + ".tla"))
    e = dict(os.environ)
    if env:
        e.update(env)
    t0 = time.time()
    p = subprocess.run(cmd, capture_output=True, text=True, env=e, cwd=cwd)
    out = p.stdout + p.stderr
    if not keep:
        shutil.rmtree(meta, ignore_errors=True)
    res = {"rc": p.returncode, "out": out, "wall": time.time() - t0, "violated": None, "kind": None,
           "states": 0, "distinct": 0, "depth": 0, "coverage": {}, "trace": []}
    m = re.findall(r"(\d+) states generated, (\d+) distinct states found", out)
    if m:
        res["states"], res["distinct"] = int(m[-1][0]), int(m[-1][1])
    m = re.search(r"depth of the complete state graph search is (\d+)", out)
    if m:
        res["depth"] = int(m.group(1))
    if p.returncode == 124:
        res["kind"] = "timeout"
        res["ok"] = False
        return res
    m = re.search(r"Invariant (\S+) is violated", out)
    if m:
        res["violated"], res["kind"] = m.group(1), "invariant"
    elif "Temporal properties were violated" in out:
        res["violated"], res["kind"] = "temporal", "liveness"
    elif re.search(r"Action property (\S+) is violated", out):
        res["violated"], res["kind"] = re.search(r"Action property (\S+) is violated", out).group(1), "action"
    elif "Deadlock reached" in out:
        res["violated"], res["kind"] = "deadlock", "deadlock"
    elif "The postcondition" in out or "Evaluating postcondition" in out and "false" in out.lower():
        res["violated"], res["kind"] = "postcondition", "postcondition"
    elif "Error:" in out and "Model checking completed" not in out and "finished" not in out.lower():
        res["kind"] = "error"
    if coverage:
        for mm in re.finditer(r"<(\w+) line \d+, col \d+ to line \d+, col \d+ of module \w+>: (\d+):(\d+)", out):
            a, tk, gen = mm.group(1), int(mm.group(2)), int(mm.group(3))
            o = res["coverage"].get(a, (0, 0))
            res["coverage"][a] = (o[0] + tk, o[1] + gen)
    if res["violated"]:
        res["trace"] = parse_trace(out)
    res["ok"] = (res["violated"] is None and res["kind"] is None and p.returncode == 0)
    if res["kind"] == "error" or (p.returncode not in (0, 12, 13, 10, 11) and not res["violated"]):
        # 12 = safety violation, 13 = liveness violation, 11 = deadlock
        if not res["violated"]:
            raise TLCError("TLC failed rc=%d on %s:\n%s" % (p.returncode, module, out[-3000:]))
    return res


def parse_trace(out):
    """TLC textual counterexample -> list of {'_action': name, var: parsed value}"""
    states = []
    cur = None
    buf = []

    def flush():
        nonlocal buf, cur
        if cur is not None and buf:
            txt = "\n".join(buf)
            if not txt.lstrip().startswith("/\\"):
                txt = "/\\ " + txt.lstrip()
            for m in re.finditer(r"/\\ (\w+) = ((?:.|\n)*?)(?=\n/\\ \w+ = |\Z)", txt):
                try:
                    cur[m.group(1)] = parse_tla(m.group(2).strip())
                except Exception:
                    cur[m.group(1)] = m.group(2).strip()
        buf = []

    for line in out.split("\n"):
        m = re.match(r"State (\d+): <(Initial predicate)>", line) or re.match(r"State (\d+): <([^>]*?)(?: line \d+, col.*)?>", line)
        if m:
            flush()
            cur = {"_action": m.group(2)}
            states.append(cur)
            continue
        if "violated by the initial state" in line:
            flush()
            cur = {"_action": "Initial predicate"}
            states.append(cur)
            continue
        if re.match(r"State \d+: Stuttering", line) or line.startswith("Back to state"):
            flush()
            cur = None
            continue
        if cur is not None:
            if line.strip() == "" or re.match(r"^\d+ states generated", line) or line.startswith("Finished"):
                flush()
                if not line.strip() == "":
                    cur = None
                continue
            buf.append(line)
    flush()
    return states


# ----------------------------------------------------------------------------------------------
# TLA+ value parser (what TLC prints): ints, strings, TRUE/FALSE, <<..>>, {..}, [a |-> v, ..],
# (k :> v @@ k :> v), model values (identifiers)
class _P:
    def __init__(self, s):
        self.s = s
        self.i = 0

    def ws(self):
        while self.i < len(self.s) and self.s[self.i] in " \t\n\r":
            self.i += 1

    def peek(self, n=1):
        self.ws()
        return self.s[self.i:self.i + n]

    def eat(self, t):
        self.ws()
        if not self.s.startswith(t, self.i):
            raise ValueError("expected %r at %d: %r" % (t, self.i, self.s[self.i:self.i + 30]))
        self.i += len(t)

    def value(self):
        self.ws()
        c = self.s[self.i]
        if self.s.startswith("<<", self.i):
            self.i += 2
            out = []
            if self.peek(2) == ">>":
                self.i += 2
                return out
            while True:
                out.append(self.value())
                if self.peek(2) == ">>":
                    self.i += 2
                    return out
                self.eat(",")
        if c == "{":
            self.i += 1
            out = []
            if self.peek() == "}":
                self.i += 1
                return TSet(out)
            while True:
                out.append(self.value())
                if self.peek() == "}":
                    self.i += 1
                    return TSet(out)
                self.eat(",")
        if c == "[":
            self.i += 1
            d = {}
            if self.peek() == "]":
                self.i += 1
                return d
            while True:
                self.ws()
                m = re.match(r"\w+", self.s[self.i:])
                k = m.group(0)
                self.i += len(k)
                self.eat("|->")
                d[k] = self.value()
                if self.peek() == "]":
                    self.i += 1
                    return d
                self.eat(",")
        if c == "(":
            self.i += 1
            d = {}
            while True:
                k = self.value()
                self.eat(":>")
                v = self.value()
                d[k if not isinstance(k, list) else tuple(k)] = v
                if self.peek() == ")":
                    self.i += 1
                    return d
                self.eat("@@")
        if c == '"':
            j = self.i + 1
            out = []
            while self.s[j] != '"':
                if self.s[j] == "\\":
                    j += 1
                out.append(self.s[j])
                j += 1
            self.i = j + 1
            return "".join(out)
        m = re.match(r"-?\d+", self.s[self.i:])
        if m:
            self.i += len(m.group(0))
            v = int(m.group(0))
            if self.s.startswith("..", self.i):
                m2 = re.match(r"-?\d+", self.s[self.i + 2:])
                self.i += 2 + len(m2.group(0))
                return TSet(range(v, int(m2.group(0)) + 1))
            return v
        m = re.match(r"\w+", self.s[self.i:])
        if m:
            self.i += len(m.group(0))
            w = m.group(0)
            if w == "TRUE":
                return True
            if w == "FALSE":
                return False
            return w
        raise ValueError("cannot parse at %d: %r" % (self.i, self.s[self.i:self.i + 30]))


class TSet(list):
    """a TLA+ set parsed into a list (kept distinct from sequences)"""
    pass


def parse_tla(s):
    p = _P(s)
    v = p.value()
    p.ws()
    if p.i != len(s):
        raise ValueError("trailing text: %r" % s[p.i:p.i + 40])
    return v


def parse_state_label(label):
    """label text of a dot node:  /\\ v = ..\n/\\ w = .. -> dict"""
    txt = label.replace("\\n", "\n").replace('\\"', '"').replace("\\\\", "\\")
    d = {}
    for m in re.finditer(r"/\\ (\w+) = ((?:.|\n)*?)(?=\n/\\ \w+ = |\Z)", txt):
        d[m.group(1)] = parse_tla(m.group(2).strip())
    return d


def load_dot(path):
    """returns (nodes {id: state dict}, edges [(a, b, label)], initial ids)"""
    nodes, edges, init, raw = {}, [], [], {}
    for line in open(path):
        m = re.match(r'^(-?\d+) -> (-?\d+) \[label="(.*?)"', line)
        if m:
            edges.append((m.group(1), m.group(2), m.group(3)))
            continue
        m = re.match(r'^(-?\d+) \[label="((?:[^"\\]|\\.)*)"(.*)\]', line)
        if m:
            nodes[m.group(1)] = parse_state_label(m.group(2))
            raw[m.group(1)] = m.group(2)
            if "filled" in m.group(3):
                init.append(m.group(1))
    # TLC numbers states by fingerprint and writes them in the order its workers find them: rename the states by the rank of
    # their (unique) label text so that everything derived from the graph is reproducible from run to run
    rank = {old: "s%07d" % k for k, old in enumerate(sorted(raw, key=lambda x: raw[x]))}
    nodes = {rank[k]: v for k, v in nodes.items()}
    edges = sorted({(rank[a], rank[b], l) for (a, b, l) in edges if a in rank and b in rank})
    init = sorted(rank[i] for i in init)
    return nodes, edges, init


def all_paths(nodes, edges, init, maxlen, cap=None, rng=None, skip=lambda label: False):
    """Every path (list of edge indices) of 1..maxlen edges from an initial state.  Different histories that lead to the same model
    state are different paths here (an edge cover would merge them - and a defective implementation may tell them apart).  With `cap`
    and more paths than that, a seeded uniform sample of the full-length paths plus all shorter ones."""
    from collections import defaultdict
    out = defaultdict(list)
    for k, (a, b, l) in enumerate(edges):
        if not skip(l):
            out[a].append(k)
    res = []

    def rec(n, p):
        if p:
            res.append(list(p))
        if len(p) >= maxlen:
            return
        for k in out[n]:
            b = edges[k][1]
            if b == n and edges[k][2].startswith("Finished"):
                continue
            p.append(k)
            rec(b, p)
            p.pop()

    for i in sorted(init):
        rec(i, [])
    if cap is not None and len(res) > cap:
        full = [p for p in res if len(p) == maxlen]
        short = [p for p in res if len(p) < maxlen]
        (rng or random.Random(1)).shuffle(full)
        res = short[:cap // 4] + full[:cap - min(len(short), cap // 4)]
    return res


def path_cover(nodes, edges, init, max_paths=None, rng=None):
    """Greedy edge cover: a list of paths (lists of edge indices from an initial state) such that
    every edge reachable is traversed at least once."""
    from collections import defaultdict, deque
    out = defaultdict(list)
    for k, (a, b, l) in enumerate(edges):
        if a != b or True:
            out[a].append(k)
    # BFS tree from init for shortest prefix
    pred = {}
    dq = deque(init)
    seen = set(init)
    while dq:
        a = dq.popleft()
        for k in out[a]:
            b = edges[k][1]
            if b not in seen:
                seen.add(b)
                pred[b] = k
                dq.append(b)

    def prefix(n):
        p = []
        while n in pred:
            k = pred[n]
            p.append(k)
            n = edges[k][0]
        return p[::-1]

    uncovered = set(k for k in range(len(edges)) if edges[k][0] in seen)
    paths = []
    order = sorted(uncovered)
    if rng:
        rng.shuffle(order)
    for k in order:
        if k not in uncovered:
            continue
        p = prefix(edges[k][0]) + [k]
        uncovered.discard(k)
        for q in p:
            uncovered.discard(q)
        # extend greedily along uncovered edges
        cur = edges[k][1]
        steps = 0
        while steps < 200:
            nxt = [q for q in out[cur] if q in uncovered]
            if not nxt:
                break
            q = nxt[0]
            p.append(q)
            uncovered.discard(q)
            cur = edges[q][1]
            steps += 1
        paths.append(p)
        if max_paths and len(paths) >= max_paths:
            break
    return paths, len(uncovered)


# ----------------------------------------------------------------------------------------------
class Evidence:
    def __init__(self, pid, tier, level):
        self.pid, self.tier, self.level = pid, tier, level
        self.t0 = time.time()
        self.cov = {"samples": []}
        self.assumptions = []
        self.violations = 0
        self.known = 0

    def add(self, key, n=1):
        self.cov[key] = self.cov.get(key, 0) + n

    def set(self, key, v):
        self.cov[key] = v

    def sample(self, s, limit=6):
        if len(self.cov["samples"]) < limit:
            self.cov["samples"].append(s)

    def tlc(self, res, name):
        """account a TLC run"""
        self.add("states", res["distinct"])
        self.add("transitions", res["states"])
        runs = self.cov.setdefault("tlc_runs", [])
        runs.append({"config": name, "distinct": res["distinct"], "generated": res["states"],
                     "violated": res["violated"], "wall_s": round(res["wall"], 1)})
        if res.get("coverage"):
            ac = self.cov.setdefault("action_coverage", {})
            for a, (tk, gen) in res["coverage"].items():
                o = ac.get(a, [0, 0])
                ac[a] = [o[0] + tk, o[1] + gen]

    def write(self):
        d = {"property_id": self.pid, "tier": self.tier, "seed": SEED, "level": self.level,
             "coverage": self.cov, "assumptions": self.assumptions,
             "wall_s": round(time.time() - self.t0, 2), "violations": self.violations}
        if self.known:
            d["coverage"]["known_findings_seen"] = self.known
        os.makedirs(EVDIR, exist_ok=True)
        p = os.path.join(EVDIR, self.pid + ".json")
        json.dump(d, open(p + ".tmp", "w"), indent=1, default=str)
        os.replace(p + ".tmp", p)


class Findings:
    """known_findings.json: list of {property, key, what, status: known|fixed, commit?}.  Never
    written at run time."""

    def __init__(self):
        p = os.path.join(VERIF, "known_findings.json")
        self.items = json.load(open(p)) if os.path.exists(p) else []

    def is_known(self, pid, key):
        for it in self.items:
            if it["property"] == pid and it.get("status") == "known" and it["key"] == key:
                return it
        return None


class Reporter:
    """Collects property-level observations.  key = stable identifier of the failing witness
    (call site / input class), used to match the known-findings file."""

    def __init__(self, pid, ev):
        self.pid, self.ev = pid, ev
        self.f = Findings()
        self.seen_known = {}
        self.viol = []

    def violation(self, key, what, artefact=None, data=None):
        it = self.f.is_known(self.pid, key)
        if it:
            if key not in self.seen_known:
                self.seen_known[key] = it
                print("KNOWN-FINDING: property=%s %s [%s]" % (self.pid, it["what"], key))
                self.ev.known += 1
            return False
        d = os.path.join(EVDIR, "replay", self.pid)
        os.makedirs(d, exist_ok=True)
        name = re.sub(r"[^A-Za-z0-9_.-]", "_", key)[:80]
        path = os.path.join(d, name + ".json")
        rec = {"property": self.pid, "key": key, "what": what, "data": data}
        if artefact and os.path.exists(artefact):
            dst = os.path.join(d, name + "." + os.path.basename(artefact))
            try:
                shutil.copy(artefact, dst)
                rec["artefact"] = dst
            except Exception:
                pass
        json.dump(rec, open(path, "w"), indent=1, default=str)
        if key not in [v[0] for v in self.viol]:
            self.viol.append((key, what, path))
            print("VIOLATION property=%s replay=%s" % (self.pid, path))
            print("  what: %s [%s]" % (what, key))
            self.ev.violations += 1
        return True

    def finish(self):
        self.ev.write()
        sys.stdout.flush()
        return 1 if self.viol else 0


def sh(cmd, timeout=20, env=None, stdin=None, cwd=None):
    """run a command (list) under a timeout: returns (rc, stdout bytes, stderr bytes); rc 124 = timeout"""
    e = dict(os.environ)
    if env:
        e.update(env)
    try:
        p = subprocess.run(cmd, capture_output=True, timeout=timeout, env=e, input=stdin, cwd=cwd)
        return p.returncode, p.stdout, p.stderr
    except subprocess.TimeoutExpired as ex:
        return 124, ex.stdout or b"", ex.stderr or b""


def sha(b):
    return hashlib.sha256(b).hexdigest()


def fsha(path):
    h = hashlib.sha256()
    with open(path, "rb") as f:
        for chunk in iter(lambda: f.read(1 << 20), b""):
            h.update(chunk)
    return h.hexdigest()


def preload_so():
    """builds harness/preload.c into the cache (once per source change)"""
    cache = os.environ.get("VERIF_CACHE", os.path.join(VERIF, ".cache"))
    out = os.path.join(cache, "h")
    os.makedirs(out, exist_ok=True)
    so = out + "/preload.so"
    src = VERIF + "/harness/preload.c"
    if not os.path.exists(so) or os.path.getmtime(so) < os.path.getmtime(src):
        tmp = so + ".%d" % os.getpid()
        subprocess.check_call(["gcc", "-O1", "-g", "-w", "-shared", "-fPIC", src, "-o", tmp, "-ldl"])
        os.replace(tmp, so)
    return so
