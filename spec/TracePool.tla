----------------------------- MODULE TracePool -----------------------------
(* Trace validation for C09 (binding T): executions of the REAL thread pool (lib/util/src/threadpool.c) on free-  *)
(* running pthreads, recorded by harness/trace_pool.c, are checked against the abstract pool PoolAbs.  Every      *)
(* event is one instant (its sequence number comes from one atomic fetch-and-add): the client's calls are logged   *)
(* at call and at return (submit / dequeue are not atomic: their linearisation point lies in between and is the    *)
(* return event here, which is sound because the client is single-threaded), the callbacks at entry and exit on    *)
(* whichever worker runs them.  Mapping: SubRet(ok) = ASubmit, CbEnd = AProcess, DeqRet(t) = AReturn.              *)
(* A line that PoolAbs (plus the bookkeeping below) cannot explain is recorded in `bad` instead of blocking, so    *)
(* that a rejection names the line.  Executions are concatenated, separated by Reset.                              *)
EXTENDS PoolAbs, Sequences, Json, IOUtils, TLC
Lines == ndJsonDeserialize(IOEnv.TRACE)
VARIABLES l,        \* next line
          called,   \* number of submit calls entered
          started,  \* tickets whose callback was entered
          bad       \* 0, or the first line that has no explanation
tVars == <<aSub, aProc, aRet, aFail, l, called, started, bad>>

TInit == AInit /\ l = 1 /\ called = 0 /\ started = {} /\ bad = 0
Keep == UNCHANGED <<aSub, aProc, aRet, aFail>>
Explain(e) ==
  CASE e.e = "Reset"   -> /\ aSub' = 0 /\ aProc' = {} /\ aRet' = 0 /\ aFail' = FALSE /\ called' = 0 /\ started' = {}
    [] e.e = "SubCall" -> /\ e.t = called + 1 /\ called' = e.t /\ Keep /\ UNCHANGED started
    [] e.e = "SubRet"  -> /\ e.t = called /\ UNCHANGED <<called, started>>
                          /\ IF e.rc = 0 THEN /\ aSub \in {e.t - 1, e.t}                                             \* ASubmit, unless a worker showed it earlier
                                               /\ aSub' = e.t /\ UNCHANGED <<aProc, aRet, aFail>>
                             ELSE aFail /\ aSub = e.t - 1 /\ Keep                                                   \* refused only after a failure, nothing queued
    [] e.e = "CbStart" -> /\ e.t \in 1..called /\ e.t \notin started /\ started' = started \cup {e.t} /\ UNCHANGED called
                          /\ IF e.t = aSub + 1 THEN aSub' = e.t /\ UNCHANGED <<aProc, aRet, aFail>>                  \* the item is visible before submit() returned: ASubmit is here
                             ELSE e.t <= aSub /\ Keep
    [] e.e = "CbEnd"   -> /\ e.t \in started /\ e.t \notin aProc
                          /\ aProc' = aProc \cup {e.t} /\ aFail' = (aFail \/ e.rc # 0) /\ UNCHANGED <<aSub, aRet, called, started>>
    [] e.e = "DeqCall" -> Keep /\ UNCHANGED <<called, started>>
    [] e.e = "DeqRet"  -> /\ UNCHANGED <<called, started>>
                          /\ IF e.t > 0 THEN /\ e.t = aRet + 1 /\ e.t <= aSub /\ e.t \in aProc                      \* AReturn: in order, processed
                                             /\ aRet' = e.t /\ UNCHANGED <<aSub, aProc, aFail>>
                             ELSE (aFail \/ aRet = aSub) /\ Keep                                                    \* NULL: failed, or nothing outstanding
    [] OTHER -> FALSE
TNext == /\ l <= Len(Lines) /\ bad = 0
         /\ IF ENABLED Explain(Lines[l]) THEN Explain(Lines[l]) /\ bad' = 0 ELSE bad' = l /\ Keep /\ UNCHANGED <<called, started>>
         /\ l' = l + 1
TraceOK == bad = 0
(* every event is a step of the abstract pool (or leaves its state alone); Reset starts the next execution *)
ResetStep == aSub' = 0 /\ aProc' = {} /\ aRet' = 0 /\ aFail' = FALSE
SubmitDespiteFailure == aFail /\ aSub' = aSub + 1 /\ UNCHANGED <<aProc, aRet, aFail>>     \* a failure may be reported between the client's check and the enqueue
RefinesPoolAbs == [][ANext \/ ResetStep \/ SubmitDespiteFailure]_aVars
TSpec == TInit /\ [][TNext]_tVars
(* the abstract invariant, evaluated after every event of every real execution *)
TraceFifoOnce == aRet <= aSub /\ \A t \in 1..aRet : t \in aProc
=============================================================================
