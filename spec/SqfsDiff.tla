------------------------------ MODULE SqfsDiff ------------------------------
(* sqfsdiff (bin/sqfsdiff/src: node_compare.c, compare_dir.c, compare_files.c): the comparison of two images as a      *)
(* function of the two trees and the comparison flags.  A tree is a set of entries keyed by path; the two walks are    *)
(* merged by name (compare_dir_entries), an entry that exists on one side only is reported with all its descendants    *)
(* ('<' / '>'), a pair with different types is reported once and NOT descended into, every other pair is compared      *)
(* field by field under the flags --no-owner / --no-permissions / --no-contents.  The exit status is 0 iff no report   *)
(* line was counted.                                                                                                    *)
(* This module is outside the 19 listed properties: it covers the fifth command line tool.  The declarative meaning    *)
(* ("status 0 iff the trees are equal under the flags") and the transcription of the C walk are both given, and        *)
(* TLC compares them; the one place where the pinned tree differs from the declarative meaning is a named deviation.   *)
EXTENDS Naturals, Sequences, FiniteSets, TLC, Json
CONSTANTS Emit,
          SlinkTargetCounted      \* FALSE = as built: node_compare prints "has a different link target" but leaves status 0

Names == {"a", "b"}
Kinds == {"dir", "file", "slink", "dev"}
(* an entry: val = content id (file; its size is val for 1/2 and 1 for 3, so 1 and 3 have equal sizes), target (slink), device number (dev) *)
Top == [name : Names, kind : Kinds, perm : {1, 2}, own : {0, 1}, val : {1, 2, 3}]
Child == [kind : {"file", "slink"}, perm : {1}, own : {0}, val : {1, 2}]      \* optional child "c" of a top level directory
NoChild == [kind |-> "none", perm |-> 0, own |-> 0, val |-> 0]
Size(v) == IF v = 3 THEN 1 ELSE v

(* a tree: function from a subset of Names to [e : Top-without-name, c : Child or NoChild]; root attributes [perm, own] *)
Ent == [kind : Kinds, perm : {1, 2}, own : {0, 1}, val : {1, 2, 3}, c : Child \cup {NoChild}]
WfEnt(e) == /\ (e.c # NoChild => e.kind = "dir")
            /\ (e.kind = "dir" => e.val = 1)                                  \* directories carry no value
            /\ (e.kind \in {"slink", "dev"} => e.val \in {1, 2})
            /\ (e.kind = "slink" => e.perm = 1)                                  \* the packers store every symbolic link with mode 0777
BEnt == [kind |-> "file", perm |-> 1, own |-> 0, val |-> 1, c |-> NoChild]       \* the second name, when present, is this fixed file
Trees == [root : [perm : {1, 2}, own : {0}],
          ents : UNION {{f \in [S -> {e \in Ent : WfEnt(e)}] : "b" \in S => f["b"] = BEnt} : S \in SUBSET Names}]

Flags == [noOwner : BOOLEAN, noPerm : BOOLEAN, noContents : BOOLEAN]

(* ---- declarative meaning ---- *)
SameAttr(x, y, fl) == (fl.noPerm \/ x.perm = y.perm) /\ (fl.noOwner \/ x.own = y.own)
SameLeaf(x, y, fl) ==
  /\ x.kind = y.kind /\ SameAttr(x, y, fl)
  /\ CASE x.kind = "file" -> Size(x.val) = Size(y.val) /\ (fl.noContents \/ x.val = y.val)
       [] x.kind = "slink" -> x.val = y.val
       [] x.kind = "dev" -> x.val = y.val
       [] OTHER -> TRUE
SameEnt(x, y, fl) == /\ SameLeaf(x, y, fl)
                     /\ (x.kind = "dir" => ((x.c = NoChild) = (y.c = NoChild)) /\ (x.c # NoChild => SameLeaf(x.c, y.c, fl)))
Equal(A, B, fl) == /\ SameAttr(A.root, B.root, fl)
                   /\ DOMAIN A.ents = DOMAIN B.ents
                   /\ \A n \in DOMAIN A.ents : SameEnt(A.ents[n], B.ents[n], fl)

(* ---- transcription of the walk: set of report lines [path, what, counted] ---- *)
Line(p, w, c) == [path |-> p, what |-> w, counted |-> c]
AttrLines(p, x, y, fl) ==
  (IF ~fl.noPerm /\ x.perm # y.perm THEN {Line(p, "perm", TRUE)} ELSE {}) \cup
  (IF ~fl.noOwner /\ x.own # y.own THEN {Line(p, "owner", TRUE)} ELSE {})
LeafLines(p, x, y, fl) ==
  IF x.kind # y.kind THEN {Line(p, "type", TRUE)}
  ELSE AttrLines(p, x, y, fl) \cup
       CASE x.kind = "file" -> IF Size(x.val) # Size(y.val) \/ (~fl.noContents /\ x.val # y.val) THEN {Line(p, "content", TRUE)} ELSE {}
         [] x.kind = "slink" -> IF x.val # y.val THEN {Line(p, "target", SlinkTargetCounted)} ELSE {}
         [] x.kind = "dev" -> IF x.val # y.val THEN {Line(p, "dev", TRUE)} ELSE {}
         [] OTHER -> {}
Omitted(p, x, side) == {Line(p, side, TRUE)} \cup (IF x.kind = "dir" /\ x.c # NoChild THEN {Line(p \o "/c", side, TRUE)} ELSE {})
EntLines(n, x, y, fl) ==
  LeafLines("/" \o n, x, y, fl) \cup
  IF x.kind = "dir" /\ y.kind = "dir"
  THEN CASE x.c # NoChild /\ y.c # NoChild -> LeafLines("/" \o n \o "/c", x.c, y.c, fl)
         [] x.c # NoChild /\ y.c = NoChild -> {Line("/" \o n \o "/c", "<", TRUE)}
         [] x.c = NoChild /\ y.c # NoChild -> {Line("/" \o n \o "/c", ">", TRUE)}
         [] OTHER -> {}
  ELSE {}
Diff(A, B, fl) ==
  AttrLines("/", A.root, B.root, fl) \cup
  UNION {Omitted("/" \o n, A.ents[n], "<") : n \in DOMAIN A.ents \ DOMAIN B.ents} \cup
  UNION {Omitted("/" \o n, B.ents[n], ">") : n \in DOMAIN B.ents \ DOMAIN A.ents} \cup
  UNION {EntLines(n, A.ents[n], B.ents[n], fl) : n \in DOMAIN A.ents \cap DOMAIN B.ents}
Status(A, B, fl) == IF \E l \in Diff(A, B, fl) : l.counted THEN 1 ELSE 0

(* ---- checked ---- *)
VARIABLES ta, tb, fl
vars == <<ta, tb, fl>>
Init == ta \in Trees /\ tb \in Trees /\ fl \in Flags
Next == UNCHANGED vars
Spec == Init /\ [][Next]_vars
Sound == (Status(ta, tb, fl) = 0) <=> Equal(ta, tb, fl)                  \* the walk decides equality under the flags
Reflexive == Diff(ta, ta, fl) = {}
Mirror == {[path |-> l.path, what |-> (CASE l.what = "<" -> ">" [] l.what = ">" -> "<" [] OTHER -> l.what)] : l \in Diff(ta, tb, fl)}
            = {[path |-> l.path, what |-> l.what] : l \in Diff(tb, ta, fl)}        \* swapping the images swaps '<' and '>' and nothing else
FlagsOnlyHide == Diff(ta, tb, fl) \subseteq Diff(ta, tb, [noOwner |-> FALSE, noPerm |-> FALSE, noContents |-> FALSE])
EmitOK == Emit => PrintT(<<"RESULT", ToJson([a |-> ta, b |-> tb, fl |-> fl, status |-> Status(ta, tb, fl),
                                               lines |-> {[path |-> l.path, what |-> l.what] : l \in Diff(ta, tb, fl)}])>>)
=============================================================================
