----------------------------- MODULE PaxFields -----------------------------
(* The record kinds of ONE local PAX extended header ('x') as read by lib/tar/src/pax_header.c (table pax_fields):            *)
(*   uid, gid, mtime, path         override the header field                                                                  *)
(*   size                          overrides the header's size field: that many payload bytes follow and make up the file     *)
(*   SCHILY.xattr.<key>=<raw>      extended attribute, value as it stands                                                     *)
(*   LIBARCHIVE.xattr.<key>=<b64>  extended attribute, key url-encoded (%XX), value base64 (with or without '=' padding)      *)
(*   comment, vendor keys          ignored                                                                                    *)
(* A record that occurs twice: the later one wins (numeric / path fields).  The meaning of a header is a record of the        *)
(* entry's fields; an entry that follows must be untouched by it (nothing leaks).                                             *)
EXTENDS Naturals, Sequences, FiniteSets, TLC, Json
CONSTANTS MaxRecs, Emit,
          SizeIgnored,          \* deviation: the pax size record is ignored (the header's size field decides)
          LibarchiveRaw         \* deviation: LIBARCHIVE.xattr values are taken as they stand (no base64, key not url-decoded)

Kinds == {"uid1", "uid2", "gid", "mtime", "size", "path", "sx", "lx", "lxsp", "lxpad", "comment", "vendor"}
Recs == UNION {[1..n -> Kinds] : n \in 0..MaxRecs}

Last(seq, S) == IF \E i \in 1..Len(seq) : seq[i] \in S
                THEN seq[CHOOSE i \in 1..Len(seq) : seq[i] \in S /\ \A j \in (i + 1)..Len(seq) : seq[j] \notin S] ELSE "none"
Has(seq, k) == \E i \in 1..Len(seq) : seq[i] = k

(* header fields of the entry itself: uid "h", gid "h", mtime "h", name "h", size field "short" (fewer bytes than really follow) when a *)
(* size record is present - the archive is laid out according to the pax size                                                         *)
Meaning(seq) ==
  [uid   |-> CASE Last(seq, {"uid1", "uid2"}) = "uid1" -> "u1" [] Last(seq, {"uid1", "uid2"}) = "uid2" -> "u2" [] OTHER -> "h",
   gid   |-> IF Has(seq, "gid") THEN "g1" ELSE "h",
   mtime |-> IF Has(seq, "mtime") THEN "m1" ELSE "h",
   name  |-> IF Has(seq, "path") THEN "p1" ELSE "h",
   data  |-> IF Has(seq, "size") /\ ~SizeIgnored THEN "full" ELSE IF Has(seq, "size") THEN "short" ELSE "full",
   xattrs |-> {k \in {"sx", "lx", "lxsp", "lxpad"} : Has(seq, k)},
   lxform |-> IF LibarchiveRaw THEN "raw" ELSE "decoded"]

VARIABLE recs
Init == recs \in Recs
Next == UNCHANGED recs
Spec == Init /\ [][Next]_recs
(* the file always has all the bytes that were archived for it, and an attribute arrives decoded *)
Faithful == Meaning(recs).data = "full" /\ Meaning(recs).lxform = "decoded"
IgnoredKeysIgnored == Meaning(recs) = Meaning(SelectSeq(recs, LAMBDA k : k \notin {"comment", "vendor"}))
EmitOK == Emit => PrintT(<<"RESULT", ToJson([recs |-> recs, m |-> Meaning(recs)])>>)
=============================================================================
