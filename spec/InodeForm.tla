----------------------------- MODULE InodeForm -----------------------------
(* The two on-disk forms of a file inode (basic: 32 bit size and block start, no link count, no sparse count, no xattr   *)
(* index; extended: all of them) and the helper functions that switch between them (lib/sqfs/src/inode.c:                *)
(* sqfs_inode_set_file_size, _set_file_block_start, _set_frag_location, _set_xattr_index, _make_extended, _make_basic),   *)
(* plus the direct field updates of the block processor (sparse += n after make_extended) and of the tree serialiser      *)
(* (link count).  C01 / C03: whatever the order of calls, the inode that reaches the image holds every value that was     *)
(* set last - the basic form is only ever chosen when it can hold them all.                                                *)
(* Values are classes: 0, "lo" (fits 32 bit, below 2^32 - 1), "max" (= 2^32 - 1), "hi" (> 2^32 - 1), "huge" (a size of so   *)
(* many blocks that the block size list is longer than any stack: the serialiser has to cope with a list of any length).    *)
EXTENDS Naturals, Sequences, FiniteSets, TLC, Json
CONSTANTS MaxOps, Emit,
          BasicChecksSparse, BasicChecksNlink, BasicChecksStart, BasicChecksSize,     \* the refusals of make_basic (TRUE as built)
          ExtKeepsFrag,                                                                \* make_extended carries the fragment location over (TRUE as built)
          ListOnStack,                                                                 \* deviation (pinned tree before fix 9497206): the block size list is copied to the stack in one piece
          Kind,                      \* "file" (everything above) | "dir" | "slink" | "dev" | "ipc": the other kinds only have a link count and an xattr index
          IpcExtInitsDevField        \* TRUE as built: make_extended() on a fifo / socket initialises dev_ext.xattr_idx, the index of these kinds lives in
                                     \* ipc_ext (4 bytes earlier) and stays 0 - harmless for the only caller, set_xattr_index(), which overwrites it

Val == {"zero", "lo", "max", "hi", "huge"}
Fits32(v) == v \notin {"hi", "huge"}
Ops == IF Kind = "file"
       THEN {<<"size", v>> : v \in Val} \cup {<<"start", v>> : v \in Val} \cup {<<"frag", f>> : f \in {"none", "some"}}
            \cup {<<"xattr", x>> : x \in {"none", "some"}} \cup {<<"sparse">>, <<"nlink", 1>>, <<"nlink", 2>>, <<"ext">>, <<"basic">>}
       ELSE {<<"xattr", x>> : x \in {"none", "some"}} \cup {<<"nlink", 1>>, <<"nlink", 2>>, <<"ext">>, <<"basic">>}

VARIABLES prog, pc,
          ext,                       \* form
          size, start, frag,         \* both forms (32 bit fields in the basic form)
          sparse, nlink, xattr,      \* extended form only
          want,                      \* per attribute the value set last by a call that reported success
          trunc                      \* TRUE once a value was stored in a field that cannot hold it
vars == <<prog, pc, ext, size, start, frag, sparse, nlink, xattr, want, trunc>>

Init == /\ \E n \in 1..MaxOps : prog \in [1..n -> Ops]
        /\ pc = 1 /\ ext = FALSE /\ size = "zero" /\ start = "zero" /\ frag = "none"
        /\ sparse = FALSE /\ nlink = 1 /\ xattr = (IF Kind = "ipc" /\ IpcExtInitsDevField THEN "zero" ELSE "none")     \* ipc: the bytes of a fresh (zeroed) inode where ipc_ext keeps its index
        /\ want = [size |-> "zero", start |-> "zero", frag |-> "none", sparse |-> FALSE, nlink |-> 1, xattr |-> "none"]
        /\ trunc = FALSE

(* make_basic: succeeds silently without changing anything when the extended fields are in use *)
CanBasic == /\ xattr = "none"
            /\ (~BasicChecksStart \/ Fits32(start)) /\ (~BasicChecksSize \/ Fits32(size))
            /\ (~BasicChecksSparse \/ ~sparse) /\ (~BasicChecksNlink \/ nlink <= 1)
Demote == IF ext /\ CanBasic
          THEN /\ ext' = FALSE /\ sparse' = FALSE /\ nlink' = 1 /\ xattr' = "none"
               /\ trunc' = (trunc \/ ~Fits32(start) \/ ~Fits32(size))                 \* 64 -> 32 bit copy
          ELSE UNCHANGED <<ext, sparse, nlink, xattr, trunc>>
Promote == IF ext THEN UNCHANGED <<ext, sparse, nlink, xattr, frag>>
           ELSE /\ ext' = TRUE /\ sparse' = FALSE /\ nlink' = 1 /\ xattr' = "none"
                /\ frag' = IF ExtKeepsFrag THEN frag ELSE "none"

Do == /\ pc <= Len(prog)
      /\ LET op == prog[pc] IN
         CASE Kind # "file" ->                            \* directory / symlink / device / fifo, socket: link count in both forms, xattr index in the extended one
                /\ UNCHANGED <<size, start, frag, sparse, trunc>>
                /\ (CASE op[1] = "xattr" -> /\ want' = [want EXCEPT !.xattr = op[2]]
                                            /\ IF op[2] = "some" THEN ext' = TRUE /\ xattr' = "some"
                                               ELSE xattr' = (IF ext THEN "none" ELSE xattr) /\ ext' = ext
                                            /\ nlink' = nlink
                     [] op[1] = "nlink" -> nlink' = op[2] /\ want' = [want EXCEPT !.nlink = op[2]] /\ UNCHANGED <<ext, xattr>>
                     [] op[1] = "ext" -> /\ ext' = TRUE /\ nlink' = nlink
                                         /\ xattr' = IF ext THEN xattr ELSE IF Kind = "ipc" /\ IpcExtInitsDevField THEN xattr ELSE "none"      \* as built: whatever the 4 bytes held
                                         /\ want' = want
                     [] OTHER -> /\ IF ext /\ xattr = "none" THEN ext' = FALSE ELSE ext' = ext          \* make_basic: only without an xattr index
                                 /\ UNCHANGED <<xattr, nlink, want>>)
           [] op[1] = "size" ->                            \* sqfs_inode_set_file_size
                /\ size' = op[2] /\ want' = [want EXCEPT !.size = op[2]]
                /\ UNCHANGED <<start, frag>>
                /\ IF ext /\ op[2] \in {"zero", "lo"} /\ xattr = "none" /\ (~BasicChecksStart \/ Fits32(start))
                      /\ (~BasicChecksSparse \/ ~sparse) /\ (~BasicChecksNlink \/ nlink <= 1)
                   THEN /\ ext' = FALSE /\ sparse' = FALSE /\ nlink' = 1 /\ xattr' = "none"
                        /\ trunc' = (trunc \/ ~Fits32(start))
                   ELSE IF ~ext /\ op[2] \in {"hi", "huge"}
                   THEN /\ ext' = TRUE /\ sparse' = FALSE /\ nlink' = 1 /\ xattr' = "none" /\ trunc' = trunc
                   ELSE UNCHANGED <<ext, sparse, nlink, xattr, trunc>>
           [] op[1] = "start" ->                           \* sqfs_inode_set_file_block_start
                /\ start' = op[2] /\ want' = [want EXCEPT !.start = op[2]]
                /\ UNCHANGED <<size, frag>>
                /\ IF ext /\ op[2] \in {"zero", "lo"} /\ xattr = "none" /\ (~BasicChecksSize \/ Fits32(size))
                      /\ (~BasicChecksSparse \/ ~sparse) /\ (~BasicChecksNlink \/ nlink <= 1)
                   THEN /\ ext' = FALSE /\ sparse' = FALSE /\ nlink' = 1 /\ xattr' = "none"
                        /\ trunc' = (trunc \/ ~Fits32(size))
                   ELSE IF ~ext /\ op[2] \in {"hi", "huge"}
                   THEN /\ ext' = TRUE /\ sparse' = FALSE /\ nlink' = 1 /\ xattr' = "none" /\ trunc' = trunc
                   ELSE UNCHANGED <<ext, sparse, nlink, xattr, trunc>>
           [] op[1] = "frag" ->
                /\ frag' = op[2] /\ want' = [want EXCEPT !.frag = op[2]]
                /\ UNCHANGED <<ext, size, start, sparse, nlink, xattr, trunc>>
           [] op[1] = "xattr" ->                           \* sqfs_inode_set_xattr_index: a real index promotes first
                /\ want' = [want EXCEPT !.xattr = op[2]]
                /\ IF op[2] = "some"
                   THEN /\ ext' = TRUE /\ xattr' = "some"
                        /\ sparse' = (IF ext THEN sparse ELSE FALSE) /\ nlink' = (IF ext THEN nlink ELSE 1)
                        /\ frag' = IF ext \/ ExtKeepsFrag THEN frag ELSE "none"
                   ELSE /\ xattr' = "none" /\ UNCHANGED <<ext, sparse, nlink, frag>>       \* "none" on a basic inode: nothing to store
                /\ UNCHANGED <<size, start, trunc>>
           [] op[1] = "sparse" ->                          \* block processor: make_extended, then file_ext.sparse += size
                /\ ext' = TRUE /\ sparse' = TRUE /\ want' = [want EXCEPT !.sparse = TRUE]
                /\ nlink' = (IF ext THEN nlink ELSE 1) /\ xattr' = (IF ext THEN xattr ELSE "none")
                /\ frag' = IF ext \/ ExtKeepsFrag THEN frag ELSE "none"
                /\ UNCHANGED <<size, start, trunc>>
           [] op[1] = "nlink" ->                           \* tree serialiser: promotes when the count is > 1, then stores it
                /\ want' = [want EXCEPT !.nlink = op[2]]
                /\ IF ~ext /\ op[2] > 1
                   THEN /\ ext' = TRUE /\ nlink' = op[2] /\ sparse' = FALSE /\ xattr' = "none"
                        /\ frag' = IF ExtKeepsFrag THEN frag ELSE "none"
                   ELSE IF ext THEN nlink' = op[2] /\ UNCHANGED <<ext, sparse, xattr, frag>>
                   ELSE UNCHANGED <<ext, nlink, sparse, xattr, frag>>                      \* a basic inode has exactly one link
                /\ UNCHANGED <<size, start, trunc>>
           [] op[1] = "ext" -> Promote /\ UNCHANGED <<size, start, want, trunc>>
           [] OTHER -> Demote /\ UNCHANGED <<size, start, frag, want>>
      /\ pc' = pc + 1 /\ UNCHANGED prog
Next == Do \/ (pc > Len(prog) /\ UNCHANGED vars)
Spec == Init /\ [][Next]_vars

(* what a reader of the serialised inode gets *)
Got == [size |-> size, start |-> start, frag |-> frag, sparse |-> (ext /\ sparse), nlink |-> (IF ext \/ Kind # "file" THEN nlink ELSE 1),
        xattr |-> (IF ext THEN xattr ELSE "none")]
Faithful == Got = want
(* the call sequences the tools make never call make_extended() directly on these kinds: set_xattr_index() does, and stores the index *)
NoBareExt == \A i \in 1..(pc - 1) : prog[i][1] # "ext"
FaithfulViaSetters == NoBareExt => Got = want
BasicHoldsAll == ~ext => (Fits32(size) /\ Fits32(start))
NoTruncation == ~trunc
(* writing the inode: the block size list has one entry per block of the file, however many that are *)
Written == IF ListOnStack /\ size = "huge" THEN "crash" ELSE "ok"
SerialisesAnyLength == pc > Len(prog) => Written = "ok"
EmitOK == (Emit /\ pc > Len(prog)) => PrintT(<<"RESULT", ToJson([kind |-> Kind, prog |-> prog, ext |-> ext, got |-> Got])>>)
=============================================================================
