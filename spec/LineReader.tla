----------------------------- MODULE LineReader -----------------------------
(* istream_get_line (lib/util/src/get_line.c) over a stream that hands out its data in buffers: the pack file, sort file and    *)
(* xattr file readers of gensquashfs (properties C16 / C07 / C12).  A text is a sequence over the character classes             *)
(*   "p" plain, "s" blank, "r" carriage return, "n" line feed;                                                                    *)
(* Cuts is the set of positions after which a buffer ends (for a file stream: every 128 KiB).  Impl is the loop of the C code:    *)
(* take what the current buffer holds up to a line feed, append it to the line under construction, and when the line feed was     *)
(* seen strip ONE carriage return, apply the trim flags and deliver.  Spec is the meaning of the text, buffers do not occur in    *)
(* it.  Property: the delivered lines do not depend on where the buffers end.                                                      *)
EXTENDS Naturals, Sequences, FiniteSets, TLC, Json
CONSTANTS MaxLen, Emit,
          CrPerChunk        \* deviation: the carriage return is stripped from the end of every piece appended, not only before the line feed
Chars == {"p", "s", "r", "n"}
FlagSets == {{}, {"L"}, {"R"}, {"L", "R"}, {"L", "R", "S"}}            \* LTRIM, RTRIM, SKIP_EMPTY as the callers combine them
IsSpace(c) == c \in {"s", "r", "n"}

RECURSIVE LTrim(_)
LTrim(x) == IF x # <<>> /\ IsSpace(Head(x)) THEN LTrim(Tail(x)) ELSE x
RECURSIVE RTrim(_)
RTrim(x) == IF x # <<>> /\ IsSpace(x[Len(x)]) THEN RTrim(SubSeq(x, 1, Len(x) - 1)) ELSE x
Trim(x, fl) == LET a == IF "L" \in fl THEN LTrim(x) ELSE x IN IF "R" \in fl THEN RTrim(a) ELSE a
StripCr(x) == IF x # <<>> /\ x[Len(x)] = "r" THEN SubSeq(x, 1, Len(x) - 1) ELSE x

(* ---- meaning ---- *)
RECURSIVE Split(_, _, _)
Split(t, cur, acc) ==            \* lines terminated by a line feed, then the unterminated rest
  IF t = <<>> THEN <<acc, cur>>
  ELSE IF Head(t) = "n" THEN Split(Tail(t), <<>>, Append(acc, cur)) ELSE Split(Tail(t), Append(cur, Head(t)), acc)
Deliver(lines, fl) == SelectSeq(lines, LAMBDA l : l # <<>> \/ "S" \notin fl)
SpecLines(t, fl) ==
  LET sp == Split(t, <<>>, <<>>)
      full == [i \in 1..Len(sp[1]) |-> Trim(StripCr(sp[1][i]), fl)]
      rest == IF sp[2] = <<>> THEN <<>> ELSE <<Trim(sp[2], fl)>>          \* the last line without a line feed keeps its carriage return
  IN Deliver(full \o rest, fl)

(* ---- the loop ---- *)
BufEnd(pos, cuts, n) == IF \E c \in cuts : c > pos THEN (CHOOSE c \in cuts : c > pos /\ \A d \in cuts : d > pos => c <= d) ELSE n
RECURSIVE Loop(_, _, _, _, _, _)
Loop(t, pos, cuts, line, out, fl) ==       \* pos = characters consumed so far
  IF pos = Len(t)
  THEN (IF line = <<>> THEN out
        ELSE LET l == Trim(line, fl) IN IF l # <<>> \/ "S" \notin fl THEN Append(out, l) ELSE out)
  ELSE LET e == BufEnd(pos, cuts, Len(t))
           lf == {i \in (pos + 1)..e : t[i] = "n"}
           stop == IF lf = {} THEN e ELSE CHOOSE i \in lf : \A j \in lf : i <= j
           piece == SubSeq(t, pos + 1, IF lf = {} THEN stop ELSE stop - 1)
           l0 == line \o piece
           l1 == IF CrPerChunk THEN StripCr(l0) ELSE l0
       IN IF lf = {} THEN Loop(t, stop, cuts, l1, out, fl)
          ELSE LET l2 == Trim(StripCr(l0), fl) IN
               Loop(t, stop, cuts, <<>>, IF l2 # <<>> \/ "S" \notin fl THEN Append(out, l2) ELSE out, fl)
ImplLines(t, cuts, fl) == Loop(t, 0, cuts, <<>>, <<>>, fl)
(* note: a line that was started (non-empty so far) and ends at the end of the stream is delivered after trimming; a line of  *)
(* which nothing has been seen yet is not - the C code tests line_len == 0 at end of file                                       *)

VARIABLES text, cuts, flags
Init == /\ \E k \in 0..MaxLen : text \in [1..k -> Chars]
        /\ cuts \in SUBSET (1..MaxLen) /\ \A c \in cuts : c < Len(text)
        /\ flags \in FlagSets
Next == UNCHANGED <<text, cuts, flags>>
Spec == Init /\ [][Next]_<<text, cuts, flags>>
ChunkIndependent == ImplLines(text, cuts, flags) = ImplLines(text, {}, flags)
ImplIsSpec == ImplLines(text, cuts, flags) = SpecLines(text, flags)
EmitOK == (Emit /\ Cardinality(cuts) = 1) => PrintT(<<"RESULT", ToJson([text |-> text, cut |-> CHOOSE c \in cuts : TRUE, flags |-> flags, lines |-> SpecLines(text, flags)])>>)
=============================================================================
