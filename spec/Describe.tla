------------------------------ MODULE Describe ------------------------------
(* rdsquashfs --describe (bin/rdsquashfs/src/describe.c) as a printer, and gensquashfs --pack-file      *)
(* (lib/util/src/get_line.c, split_line.c, bin/gensquashfs/src/fstree_from_file.c handle_line) as the     *)
(* parser of the same line format.  Property C16: Parse(Print(entry)) = entry for every entry whose       *)
(* strings contain no NUL, '/', newline.                                                                   *)
(* Characters are classes:  "p" plain, "s" space, "t" tab, "q" double quote, "b" backslash, "h" '#',      *)
(* "w" other white space (\r, \v, \f: no token separator, but get_line trims it at both ends of a line).   *)
(* An entry is [kind, name, extra]: extra = symlink target, or file location when --unpack-root is used.   *)
EXTENDS Naturals, Sequences, FiniteSets, TLC
CONSTANTS MaxName, MaxExtra, Chars,
          QuoteOnTabAndBackslash,   \* printer: also quote fields with tab / backslash and escape backslashes
          QuoteExtra,               \* printer: targets and locations go through the same quoting as names
          QuoteOnOtherSpace,        \* printer: also quote fields that contain other white space (the last field of a line would lose it)
          LocationQuoteByWhole      \* TRUE as built: with --unpack-root the location <root>/<path> is quoted as ONE string; FALSE: the decision is taken
                                    \* from the path alone and the root is printed in front of it as it is
Strs(n) == UNION {[1..k -> Chars] : k \in 1..n}
Has(x, c) == \E i \in 1..Len(x) : x[i] = c
IsSep(c) == c \in {"s", "t"}

(* ---------------- printer ---------------- *)
RECURSIVE Escape(_, _)
Escape(x, set) == IF x = <<>> THEN <<>>
                  ELSE IF Head(x) \in set THEN <<"b", Head(x)>> \o Escape(Tail(x), set) ELSE <<Head(x)>> \o Escape(Tail(x), set)
PrintField(x) ==
  IF QuoteOnTabAndBackslash
  THEN (IF Has(x, "s") \/ Has(x, "t") \/ Has(x, "q") \/ Has(x, "b") \/ (QuoteOnOtherSpace /\ Has(x, "w")) THEN <<"q">> \o Escape(x, {"q", "b"}) \o <<"q">> ELSE x)
  ELSE (IF Has(x, "s") \/ Has(x, "q") THEN <<"q">> \o Escape(x, {"q"}) \o <<"q">> ELSE x)
PrintExtra(x) == IF QuoteExtra THEN PrintField(x) ELSE x
NeedsQuote(x) == PrintField(x) # x
PrintLocation(root, name) ==                     \* kind "ufile": file line with the location column <root>/<name> ('/' is a plain character)
  IF LocationQuoteByWhole THEN PrintExtra(root \o <<"p">> \o name)
  ELSE IF NeedsQuote(name) THEN <<"q">> \o Escape(root \o <<"p">> \o name, IF QuoteOnTabAndBackslash THEN {"q", "b"} ELSE {"q"}) \o <<"q">>
  ELSE root \o <<"p">> \o name
Perm == <<"p">>                                  \* stands for " 0644 0 0": three plain tokens
LineOf(e) ==
  <<"p">> \o <<"s">> \o PrintField(e.name) \o <<"s">> \o Perm \o <<"s">> \o Perm \o <<"s">> \o Perm
          \o (IF e.extra = <<>> THEN <<>> ELSE IF e.kind = "ufile" THEN <<"s">> \o PrintLocation(e.extra, e.name) ELSE <<"s">> \o PrintExtra(e.extra))

(* ---------------- parser: split_line ---------------- *)
Err == <<"err">>
RECURSIVE Quoted(_, _)
Quoted(x, acc) ==                                \* after the opening quote; returns <<"ok", token, rest>> or Err
  IF x = <<>> THEN Err
  ELSE IF Head(x) = "q" THEN <<"ok", acc, Tail(x)>>
  ELSE IF Head(x) = "b" THEN (IF Len(x) < 2 \/ x[2] \notin {"q", "b"} THEN Err ELSE Quoted(Tail(Tail(x)), Append(acc, x[2])))
  ELSE Quoted(Tail(x), Append(acc, Head(x)))
RECURSIVE Plain(_, _)
Plain(x, acc) == IF x = <<>> \/ IsSep(Head(x)) THEN <<"ok", acc, x>> ELSE Plain(Tail(x), Append(acc, Head(x)))
RECURSIVE SkipSep(_)
SkipSep(x) == IF x # <<>> /\ IsSep(Head(x)) THEN SkipSep(Tail(x)) ELSE x
RECURSIVE Tokens(_, _)
Tokens(x, acc) ==
  LET y == SkipSep(x) IN
  IF y = <<>> THEN <<"ok", acc>>
  ELSE LET r == IF Head(y) = "q" THEN Quoted(Tail(y), <<>>) ELSE Plain(y, <<>>) IN
       IF r = Err THEN Err ELSE Tokens(r[3], Append(acc, r[2]))

(* get_line: white space of any kind is trimmed at both ends of the line before it is split *)
RECURSIVE RTrim(_)
RTrim(x) == IF x # <<>> /\ x[Len(x)] \in {"s", "t", "w"} THEN RTrim(SubSeq(x, 1, Len(x) - 1)) ELSE x

(* ---------------- parser: handle_line (arity and meaning of the tokens) ---------------- *)
Parse(line, kind) ==
  LET t == Tokens(RTrim(line), <<>>) IN
  IF t = Err THEN Err
  ELSE LET a == t[2] IN
       IF Len(a) < 5 THEN Err
       ELSE IF a[3] # <<"p">> \/ a[4] # <<"p">> \/ a[5] # <<"p">> THEN Err          \* mode / uid / gid must be numbers
       ELSE IF kind = "slink" THEN (IF Len(a) = 6 THEN [kind |-> kind, name |-> a[2], extra |-> a[6]] ELSE Err)
       ELSE IF kind = "ufile" THEN (IF Len(a) = 6 THEN [kind |-> kind, name |-> a[2], extra |-> a[6]] ELSE Err)
       ELSE IF kind = "file" THEN (IF Len(a) = 5 THEN [kind |-> kind, name |-> a[2], extra |-> <<>>]
                                   ELSE IF Len(a) = 6 THEN [kind |-> kind, name |-> a[2], extra |-> a[6]] ELSE Err)
       ELSE (IF Len(a) = 5 THEN [kind |-> kind, name |-> a[2], extra |-> <<>>] ELSE Err)

VARIABLE entry
Entries == [kind : {"dir"}, name : Strs(MaxName), extra : {<<>>}]
           \cup [kind : {"slink"}, name : Strs(MaxName), extra : Strs(MaxExtra)]
           \cup [kind : {"file"}, name : Strs(MaxName), extra : {<<>>} \cup Strs(MaxExtra)]
           \cup [kind : {"ufile"}, name : Strs(MaxName), extra : Strs(MaxExtra)]          \* extra = the unpack root
Init == entry \in Entries
Next == UNCHANGED entry
Spec == Init /\ [][Next]_entry
Expect(e) == IF e.kind = "ufile" THEN [e EXCEPT !.extra = e.extra \o <<"p">> \o e.name] ELSE e
RoundTrip == Parse(LineOf(entry), entry.kind) = Expect(entry)
(* the part of the property that concerns names only / extras only, to report failing classes separately *)
NameRoundTrip  == LET e == [entry EXCEPT !.extra = <<>>, !.kind = "dir"] IN Parse(LineOf(e), "dir") = e
=============================================================================
