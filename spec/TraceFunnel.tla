----------------------------- MODULE TraceFunnel -----------------------------
(* C18, last sentence: "All tools funnel archive member names, link targets, command line paths and unpack paths through these   *)
(* two functions."  Trace check: every record {mode, s, rc, o} is what a TOOL made of the string s in one of its input modes      *)
(* (pack-file path, sort-file name plain / quoted, tar member name, command line path of rdsquashfs): rc = 0 and the path o the    *)
(* tool used, or rc # 0 = refused.  It has to agree with CanonSpec: refused exactly for the strings with a '..' component,         *)
(* otherwise the canonical path.                                                                                                   *)
EXTENDS Canon, Json, IOUtils
Table == ndJsonDeserialize(IOEnv.TRACE)
VARIABLE bad
(* mode "image-name": s is the NAME of an entry of a crafted image; the tool (sqfs2tar) may use it as an archive member name only if the file-name *)
(* sanity test accepts it (rc = 0: a member of exactly that name was written; rc # 0: no such member)                                             *)
RecordOK(r) ==
  IF r.mode = "image-name" THEN (r.rc = 0) = (SaneSpec(r.s) /\ r.o = r.s)
  ELSE /\ (r.rc = 0  => CanonSpec(r.s) = r.o)
       /\ (r.rc # 0  => CanonSpec(r.s) = Fail)
TInit == str = <<>> /\ bad = {i \in 1..Len(Table) : ~RecordOK(Table[i])}
TNext == UNCHANGED <<str, bad>>
AllRecordsAgree == bad = {}
NonEmpty == Len(Table) > 0
=============================================================================
