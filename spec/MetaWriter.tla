----------------------------- MODULE MetaWriter -----------------------------
(* The metadata writer of libsquashfs (lib/sqfs/src/meta_writer.c): append / flush / get_position / write_to_file / reset over    *)
(* blocks of Cap cells (cell = 1 KiB, Cap = 8: the 8 KiB metadata block).  A position <<block, offset>> handed out by             *)
(* get_position() is what inode references and directory indexes are made of (C01, C03): the bytes appended next must be          *)
(* readable exactly there.  Blocks are numbered in the order they are flushed; the byte offset of block k in the file is the      *)
(* sum of the stored sizes before it (the harness measures it on the real output).  KEEP_IN_MEMORY: flushed blocks are queued     *)
(* and reach the file only with write_to_file, in order (the directory table, written behind the inode table).                    *)
EXTENDS Naturals, Sequences, FiniteSets, TLC, Json
CONSTANTS Cap, MaxOps, Emit, Keep,
          LazyFlushWhenFull,      \* deviation: append() leaves a block that became exactly full in the buffer (position offset = Cap)
          EmptyFlushEmitsBlock    \* deviation: flush() with an empty buffer still emits a block

Sizes == {1, 3, Cap, Cap + 1, 2 * Cap + 1}
VARIABLES buf,        \* cells of the current block: <<append id, cell index>>
          queue,      \* flushed blocks not yet in the file (KEEP_IN_MEMORY)
          file,       \* blocks in the file, in order
          nflushed,   \* blocks flushed so far = number of the block being filled
          appends,    \* per append: [pos, n]  (position handed out just before, number of cells)
          log
vars == <<buf, queue, file, nflushed, appends, log>>
Init == buf = <<>> /\ queue = <<>> /\ file = <<>> /\ nflushed = 0 /\ appends = <<>> /\ log = <<>>

Emit1(b, q, f) == IF Keep THEN <<Append(q, b), f>> ELSE <<q, Append(f, b)>>
(* flush(): nothing to do on an empty buffer *)
FlushSt(b, q, f, nf) == IF b = <<>> /\ ~EmptyFlushEmitsBlock THEN <<b, q, f, nf>>
                        ELSE LET e == Emit1(b, q, f) IN <<<<>>, e[1], e[2], nf + 1>>
RECURSIVE AppendCells(_, _, _, _, _)
AppendCells(st, id, i, n, dummy) ==          \* st = <<buf, queue, file, nflushed>>; the loop of sqfs_meta_writer_append, one cell per round
  IF i > n THEN (IF Len(st[1]) = Cap /\ ~LazyFlushWhenFull THEN FlushSt(st[1], st[2], st[3], st[4]) ELSE st)
  ELSE LET s1 == IF Len(st[1]) = Cap THEN FlushSt(st[1], st[2], st[3], st[4]) ELSE st IN
       AppendCells(<<Append(s1[1], <<id, i>>), s1[2], s1[3], s1[4]>>, id, i + 1, n, dummy)
DoAppend(n) == /\ Len(log) < MaxOps
               /\ LET id == Len(appends) + 1
                      st == AppendCells(<<buf, queue, file, nflushed>>, id, 1, n, 0)
                  IN /\ buf' = st[1] /\ queue' = st[2] /\ file' = st[3] /\ nflushed' = st[4]
                     /\ appends' = Append(appends, [pos |-> <<nflushed, Len(buf)>>, n |-> n])      \* get_position() right before the append
               /\ log' = Append(log, <<"A", n>>)
DoFlush == /\ Len(log) < MaxOps
           /\ LET st == FlushSt(buf, queue, file, nflushed) IN buf' = st[1] /\ queue' = st[2] /\ file' = st[3] /\ nflushed' = st[4]
           /\ log' = Append(log, <<"F", 0>>) /\ UNCHANGED appends
DoWrite == /\ Len(log) < MaxOps /\ Keep
           /\ file' = file \o queue /\ queue' = <<>>
           /\ log' = Append(log, <<"W", 0>>) /\ UNCHANGED <<buf, nflushed, appends>>
Next == (\E n \in Sizes : DoAppend(n)) \/ DoFlush \/ DoWrite
Spec == Init /\ [][Next]_vars

(* ---- what a reader finds: all blocks in flush order (file, then queue, then the buffer once it is flushed) ---- *)
AllBlocks == file \o queue \o (IF buf = <<>> THEN <<>> ELSE <<buf>>)
RECURSIVE ReadAt(_, _, _, _)
ReadAt(blocks, b, o, n) ==       \* n cells from block b (0-based) offset o, crossing block ends like the meta reader does
  IF n = 0 THEN <<>>
  ELSE IF b + 1 > Len(blocks) THEN <<<<0, 0>>>>                                  \* nothing there
  ELSE IF o >= Len(blocks[b + 1]) THEN ReadAt(blocks, b + 1, 0, n)
  ELSE <<blocks[b + 1][o + 1]>> \o ReadAt(blocks, b, o + 1, n - 1)
PositionsResolve == \A a \in 1..Len(appends) :
                      /\ appends[a].pos[2] < Cap                                  \* an offset inside a block: a reference stores it in 13 bits
                      /\ ReadAt(AllBlocks, appends[a].pos[1], appends[a].pos[2], appends[a].n) = [i \in 1..appends[a].n |-> <<a, i>>]
BlocksFit == \A i \in 1..Len(AllBlocks) : Len(AllBlocks[i]) >= 1 /\ Len(AllBlocks[i]) <= Cap
(* only the last flushed block may be short of Cap unless a flush was asked for *)
OrderKept == LET cells == [i \in 1..Len(AllBlocks) |-> AllBlocks[i]] IN
             \A i \in 1..Len(cells) : \A j \in 1..(Len(cells[i]) - 1) :
               cells[i][j][1] < cells[i][j + 1][1] \/ (cells[i][j][1] = cells[i][j + 1][1] /\ cells[i][j][2] + 1 = cells[i][j + 1][2])
KeepQueues == Keep => \A i \in 1..Len(log) : TRUE
EmitOK == (Emit /\ Len(log) = MaxOps) => PrintT(<<"RESULT", ToJson([log |-> log, blocks |-> [i \in 1..Len(AllBlocks) |-> Len(AllBlocks[i])],
                                                                   infile |-> Len(file), appends |-> appends])>>)
=============================================================================
