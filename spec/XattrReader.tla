---------------------------- MODULE XattrReader ----------------------------
(* The xattr reader of libsquashfs (lib/sqfs/src/xattr/xattr_reader.c) as a cursor over the key/value area (C10: what a   *)
(* query returns depends on the image and the query, not on earlier queries).  Entries are stored per set; a value is      *)
(* either in line or a reference to the in-line copy inside an EARLIER place ("out of line").  Reading such a value jumps   *)
(* to the referenced place and has to come back to the entry behind the reference before the next key is read.             *)
(* Calls: seek_kv(set) / read_key / read_value - and read_all(set) = seek + count x (key, value).  A walk may be abandoned  *)
(* at any point (after a key, after a value); the next seek starts from scratch.  A descriptor lookup get_desc(other set)  *)
(* may come between any two calls of a walk: it reads the id table through a reader of its own and leaves the key/value    *)
(* cursor alone.  EVERY key and value a walk returns is what a fresh reader returns for that set - not only the last read. *)
EXTENDS Naturals, Sequences, FiniteSets, TLC, Json
CONSTANTS Emit, MaxWalks,
          DescSharesCursor,   \* deviation: get_desc() goes through the key/value meta reader, so a lookup in the middle of a walk moves the cursor
          ReturnMode      \* "eager" (as built: read_value seeks back at once) | deviation "lazy": the way back is remembered and taken by the
                          \* next read_key - and survives a seek_kv

(* the image: three sets; [k, v, ref]: ref = <<0, 0>> in line, else <<set, pos>> of the in-line copy *)
E(k, v) == [k |-> k, v |-> v, ref |-> <<0, 0>>]
O(k, v, s, p) == [k |-> k, v |-> v, ref |-> <<s, p>>]
Image == << <<E("a", "L"), E("b", "s")>>,                 \* set 1: the in-line copy of L
            <<E("b", "t"), O("c", "L", 1, 1)>>,           \* set 2 ENDS with a reference
            <<O("a", "L", 1, 1), E("d", "u")>> >>         \* set 3 starts with one
Sets == 1..Len(Image)
Flat(s, p) == <<s, p>>
Next1(pos) == <<pos[1], pos[2] + 1>>                      \* the entry behind pos (may be one past the end of the set: the next set's first entry on disk)
Junk == [k |-> "junk", v |-> "junk", ref |-> <<0, 0>>]
At(pos) == IF pos[1] = 0 THEN Junk                                          \* somewhere in the id table
           ELSE IF pos[2] <= Len(Image[pos[1]]) THEN Image[pos[1]][pos[2]]
           ELSE IF pos[1] < Len(Image) THEN Image[pos[1] + 1][1]          \* the key/value area is contiguous
           ELSE [k |-> "end", v |-> "end", ref |-> <<0, 0>>]

(* a walk: seek set s, n complete pairs, then possibly one more key without its value *)
Walks == [s : Sets, n : 0..2, k : BOOLEAN, d : 0..3]          \* d: a get_desc call behind the seek (1), the first key (2), the first value (3); 0 = none
VARIABLES prog, final, pc, cur, pending, step, out, lastkey
vars == <<prog, final, pc, cur, pending, step, out, lastkey>>
(* step: position inside the current walk: <<"seek">>, <<"key", i>>, <<"val", i>> ... flattened into a list of calls *)
KVCalls(w) == [i \in 1..(2 * (IF w.n > Len(Image[w.s]) THEN Len(Image[w.s]) ELSE w.n)) |-> IF i % 2 = 1 THEN <<"key", 0>> ELSE <<"val", 0>>] \o
              (IF w.k /\ w.n < Len(Image[w.s]) THEN <<<<"key", 0>>>> ELSE <<>>)
WithDesc(w) == LET kv == KVCalls(w) IN
               IF w.d = 0 \/ w.d - 1 > Len(kv) THEN kv
               ELSE SubSeq(kv, 1, w.d - 1) \o <<<<"desc", (w.s % Len(Image)) + 1>>>> \o SubSeq(kv, w.d, Len(kv))
Calls(w) == <<<<"seek", w.s>>>> \o WithDesc(w)
AllCalls(s) == <<<<"seek", s>>>> \o [i \in 1..(2 * Len(Image[s])) |-> IF i % 2 = 1 THEN <<"key", 0>> ELSE <<"val", 0>>]
RECURSIVE Concat(_)
Concat(ss) == IF ss = <<>> THEN <<>> ELSE Head(ss) \o Concat(Tail(ss))
Script == Concat([i \in 1..Len(prog) |-> Calls(prog[i])]) \o AllCalls(final)
FinalStart == Len(Script) - 2 * Len(Image[final])          \* index of the seek that starts the final read_all

Init == /\ \E n \in 0..MaxWalks : prog \in [1..n -> Walks]
        /\ final \in Sets
        /\ pc = 1 /\ cur = <<1, 1>> /\ pending = <<0, 0>> /\ step = 0 /\ out = <<>> /\ lastkey = <<0, 0>>

Do == /\ pc <= Len(Script)
      /\ LET c == Script[pc] IN
         CASE c[1] = "desc" -> /\ cur' = IF DescSharesCursor THEN <<0, c[2]>> ELSE cur
                               /\ UNCHANGED <<pending, out, lastkey>>
           [] c[1] = "seek" -> /\ cur' = <<c[2], 1>>
                               /\ pending' = pending                          \* as built there is nothing pending; the deviation forgets to clear it here
                               /\ out' = out /\ lastkey' = lastkey
           [] c[1] = "key" ->  LET from == IF pending # <<0, 0>> THEN pending ELSE cur IN
                               /\ out' = Append(out, At(from).k)
                               /\ lastkey' = from /\ cur' = from /\ pending' = <<0, 0>>
           [] OTHER ->         LET e == At(lastkey)
                                   v == IF cur[1] = 0 THEN "junk" ELSE IF e.ref = <<0, 0>> THEN e.v ELSE At(e.ref).v
                               IN /\ out' = Append(out, v)
                                  /\ IF e.ref # <<0, 0>> /\ ReturnMode = "lazy"
                                     THEN cur' = Next1(e.ref) /\ pending' = Next1(lastkey)       \* stays behind the referenced value until the next key
                                     ELSE cur' = Next1(lastkey) /\ pending' = <<0, 0>>
                                  /\ lastkey' = lastkey
      /\ pc' = pc + 1 /\ step' = step + 1
      /\ UNCHANGED <<prog, final>>
Next == Do \/ (pc > Len(Script) /\ UNCHANGED vars)
Spec == Init /\ [][Next]_vars

Want(s) == Concat([p \in 1..Len(Image[s]) |-> <<Image[s][p].k, Image[s][p].v>>])
WalkWant(w) == SubSeq(Want(w.s), 1, Len(KVCalls(w)))
HistoryFree == pc > Len(Script) => out = Concat([i \in 1..Len(prog) |-> WalkWant(prog[i])]) \o Want(final)
NothingPendingAtSeek == (pc <= Len(Script) /\ Script[pc][1] = "seek") => pending = <<0, 0>>
EmitOK == (Emit /\ pc > Len(Script)) => PrintT(<<"RESULT", ToJson([prog |-> prog, final |-> final])>>)
=============================================================================
