------------------------------- MODULE Writer -------------------------------
(* Output protocol of the packers (lib/common/src/writer/{init,finish}.c, sqfs_super_write,     *)
(* sqfs_super_read): the sequence of output-file system calls and what a reader makes of the     *)
(* file after each of them.  Every reachable state is a crash point ("killed between two         *)
(* consecutive output calls"), so property C14 is the state invariant CrashSafe.                 *)
(*                                                                                               *)
(* An output call is an event                                                                    *)
(*   [k |-> "super",    idc |-> id_count field (0/1), refs |-> regions its table pointers name]   *)
(*   [k |-> "write",    region |-> r, end |-> bytes of r covered after this write]               *)
(*   [k |-> "truncate", region |-> r, end |-> bytes of r that remain]      (dedup, sparse tail)  *)
(*   [k |-> "pad"]                                                                               *)
(* The same Step operator drives the exhaustive model (events from the constant Prog) and the    *)
(* trace check of real runs (events recorded under the tool, see TraceWriter.tla).               *)
EXTENDS Naturals, Sequences, FiniteSets, TLC

CONSTANTS Prog,          \* sequence of events (the writer's program for one configuration)
          Size,          \* region name -> size in bytes of the finished image
          Order          \* sequence of region names in file order

Regions   == {Order[i] : i \in 1..Len(Order)}
FinalRefs == Regions
Pos(r)    == CHOOSE i \in 1..Len(Order) : Order[i] = r

VARIABLES pc,            \* next event
          covered,       \* region -> bytes written (high-water mark, reduced by truncate)
          sup,           \* on-disk superblock: [present, idc, refs]
          finalSeen,     \* the final superblock has been written
          badAfterFinal  \* something other than padding followed the final superblock
vars == <<pc, covered, sup, finalSeen, badAfterFinal>>

Init == /\ pc = 1
        /\ covered = [r \in Regions |-> 0]
        /\ sup = [present |-> FALSE, idc |-> 0, refs |-> {}]
        /\ finalSeen = FALSE /\ badAfterFinal = FALSE

Max(a, b) == IF a > b THEN a ELSE b
Min(a, b) == IF a < b THEN a ELSE b

Step(e) ==
  /\ CASE e.k = "super" ->
            /\ sup' = [present |-> TRUE, idc |-> e.idc, refs |-> e.refs]
            /\ finalSeen' = (finalSeen \/ e.idc # 0)
            /\ badAfterFinal' = (badAfterFinal \/ finalSeen)
            /\ UNCHANGED covered
       [] e.k = "write" ->
            /\ covered' = [covered EXCEPT ![e.region] = Max(@, e.end)]
            /\ badAfterFinal' = (badAfterFinal \/ finalSeen)
            /\ UNCHANGED <<sup, finalSeen>>
       [] e.k = "truncate" ->
            /\ covered' = [r \in Regions |-> IF r = e.region THEN Min(covered[r], e.end)
                                             ELSE IF Pos(r) > Pos(e.region) THEN 0 ELSE covered[r]]
            /\ badAfterFinal' = (badAfterFinal \/ finalSeen)
            /\ UNCHANGED <<sup, finalSeen>>
       [] e.k = "pad" -> UNCHANGED <<covered, sup, finalSeen, badAfterFinal>>

Next == pc <= Len(Prog) /\ Step(Prog[pc]) /\ pc' = pc + 1
Spec == Init /\ [][Next]_vars

Complete(r) == covered[r] >= Size[r]
(* what sqfs_super_read + the table loaders accept: a superblock whose id count is not zero and  *)
(* whose tables are all there                                                                     *)
Accepts   == sup.present /\ sup.idc # 0 /\ \A r \in sup.refs : Complete(r)
(* an accepted file must mean the complete image                                                  *)
CrashSafe == Accepts => (sup.refs = FinalRefs /\ \A r \in Regions : Complete(r))
(* a superblock that readers accept may only be followed by padding                               *)
NothingAfterCommit == ~badAfterFinal
(* liveness-free completeness: when the program is over the image is accepted                     *)
DoneAccepted == pc > Len(Prog) => Accepts
=============================================================================
