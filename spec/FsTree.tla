------------------------------- MODULE FsTree -------------------------------
(* Building the tree from a gensquashfs pack file: bin/gensquashfs/src/fstree_from_file.c (handle_line,    *)
(* hooks), lib/fstree/src/fstree.c (fstree_add_generic, fstree_get_node_by_path with implicit directories),  *)
(* lib/fstree/src/hardlink.c (resolve_link).  A program is a sequence of directives over a small path        *)
(* alphabet; its meaning is either "refused" (non-zero exit, no image) or a tree: path -> node, where a      *)
(* `link` path shares the inode of its (transitively resolved) target.  This is the Normalize(input) side    *)
(* of property C01; the real gensquashfs is run on every program TLC emits and the decoded image must equal  *)
(* the meaning.                                                                                              *)
EXTENDS Integers, Sequences, FiniteSets, TLC, Json
CONSTANTS MaxLen, Emit,
          LinkFlagsDropped,      \* TRUE = pinned tree: the link directive loses its hard-link flag (stored as symlink)
          CycleCheckStartOnly,   \* TRUE = pinned tree: resolve_link only notices cycles through the starting link
          GlobLinkPrefixDropped, \* TRUE = pinned tree: hard links found by `glob <prefix>` name their target without the prefix
          OptSet                 \* the command line options explored: set of [defUid: owner of implicitly created directories and of the
                                 \* root (--defaults uid=), forceUid: -1 or the owner forced on ALL inodes (--set-uid)]
Paths == {<<"a">>, <<"b">>, <<"a", "a">>, <<"a", "b">>, <<"b", "a">>, <<>>}
Kinds == {"dir", "file", "slink", "link", "pipe"}
(* `glob <path> ... [-nohardlinks|-nonrecursive] <location>` (bin/gensquashfs/src/glob.c, lib/common/src/           *)
(* dir_tree_iterator.c, lib/sqfs/src/io/dir_hl.c): scans a source directory on disk and adds what it finds below       *)
(* <path>.  Two fixed source trees: S1 = {a, b = hard link of a}; S2 = {a/, a/a, a/b = hard link of a/a, b}.            *)
GlobSrcs == {"S1", "S2"}
GlobOpts == {"none", "nohl", "nonrec", "typef", "typed", "typefd", "namea"}
(* filters (-type, -name): an entry that does not pass is not reported; a directory that does not pass is still descended, and what is   *)
(* found below it is added only if a node for its parent exists already ("the scanning will not add new directory nodes", gensquashfs.1) *)
(* The second name of a hard-linked inode is reported by the scanner with the type of a symbolic link: -type f drops it.                  *)
Directive == [kind : Kinds \ {"link"}, path : Paths, uid : {0, 1}, tgt : {<<>>}, src : {"-"}, opt : {"-"}]
             \cup [kind : {"link"}, path : Paths \ {<<>>}, uid : {0}, tgt : Paths \ {<<>>}, src : {"-"}, opt : {"-"}]
             \cup [kind : {"glob"}, path : Paths, uid : {1}, tgt : {<<>>}, src : GlobSrcs, opt : GlobOpts]
SrcEntries(src) ==                      \* in scan order (sorted, parents first); hl = second name of an inode already seen
  IF src = "S1" THEN << [rel |-> <<"a">>, kind |-> "file", tgt |-> <<>>], [rel |-> <<"b">>, kind |-> "hl", tgt |-> <<"a">>] >>
  ELSE << [rel |-> <<"a">>, kind |-> "dir", tgt |-> <<>>], [rel |-> <<"a", "a">>, kind |-> "file", tgt |-> <<>>],
          [rel |-> <<"a", "b">>, kind |-> "hl", tgt |-> <<"a", "a">>], [rel |-> <<"b">>, kind |-> "file", tgt |-> <<>>] >>
GlobEntries(src, opt) ==
  LET all == SrcEntries(src)
      kept == CASE opt = "nonrec" -> SelectSeq(all, LAMBDA e : Len(e.rel) = 1)
                [] opt = "typef" -> SelectSeq(all, LAMBDA e : e.kind = "file")
                [] opt = "typed" -> SelectSeq(all, LAMBDA e : e.kind = "dir")
                [] opt = "typefd" -> SelectSeq(all, LAMBDA e : e.kind \in {"file", "dir"})
                [] opt = "namea" -> SelectSeq(all, LAMBDA e : e.rel[Len(e.rel)] = "a")
                [] OTHER -> all
  IN [i \in 1..Len(kept) |-> IF opt = "nohl" /\ kept[i].kind = "hl" THEN [kept[i] EXCEPT !.kind = "file", !.tgt = <<>>] ELSE kept[i]]
Parent(p) == SubSeq(p, 1, Len(p) - 1)
Prefixes(p) == {SubSeq(p, 1, k) : k \in 1..(Len(p) - 1)}

(* nodes: function path -> [kind, uid, implicit, tgt] ; the root always exists (implicitly) *)
N0 == (<<>> :> [kind |-> "dir", uid |-> 0, implicit |-> TRUE, tgt |-> <<>>])
Has(nodes, p) == p \in DOMAIN nodes
Add1(nodes, d) ==                      \* returns [ok, nodes]
  IF d.path = <<>> /\ d.kind # "dir" THEN [ok |-> FALSE, nodes |-> nodes]                \* only dir may name /
  ELSE IF \E q \in Prefixes(d.path) : Has(nodes, q) /\ nodes[q].kind # "dir"
       THEN [ok |-> FALSE, nodes |-> nodes]                                                 \* ENOTDIR
  ELSE LET missing == {q \in Prefixes(d.path) : ~Has(nodes, q)}
           n1 == [q \in DOMAIN nodes \cup missing |->
                    IF q \in missing THEN [kind |-> "dir", uid |-> 0, implicit |-> TRUE, tgt |-> <<>>] ELSE nodes[q]]
           new == [kind |-> d.kind, uid |-> d.uid, implicit |-> FALSE, tgt |-> d.tgt]
       IN IF Has(n1, d.path)
          THEN (IF n1[d.path].kind = "dir" /\ d.kind = "dir" /\ n1[d.path].implicit
                THEN [ok |-> TRUE, nodes |-> [n1 EXCEPT ![d.path] = new]]
                ELSE [ok |-> FALSE, nodes |-> nodes])                                       \* EEXIST
          ELSE [ok |-> TRUE, nodes |-> [q \in DOMAIN n1 \cup {d.path} |-> IF q = d.path THEN new ELSE n1[q]]]

(* glob: the prefix directory is looked up with implicit creation (itself included); then every scanned entry whose  *)
(* parent exists as a directory is added like a directive of its own (EEXIST etc. abort the run), others are skipped  *)
RECURSIVE GlobFold(_, _, _, _)
GlobFold(nodes, d, ents, i) ==
  IF i > Len(ents) THEN [ok |-> TRUE, nodes |-> nodes]
  ELSE LET e == ents[i]  full == d.path \o e.rel  par == Parent(full) IN
       IF ~Has(nodes, par) \/ nodes[par].kind # "dir" THEN GlobFold(nodes, d, ents, i + 1)
       ELSE LET r == Add1(nodes, [kind |-> (IF e.kind = "hl" THEN "link" ELSE e.kind), path |-> full, uid |-> d.uid,
                                   tgt |-> (IF e.kind # "hl" THEN <<>> ELSE IF GlobLinkPrefixDropped THEN e.tgt ELSE d.path \o e.tgt)])
            IN IF ~r.ok THEN r ELSE GlobFold(r.nodes, d, ents, i + 1)
GlobAdd(nodes, d) ==
  IF \E q \in Prefixes(d.path) \cup {d.path} : Has(nodes, q) /\ nodes[q].kind # "dir" THEN [ok |-> FALSE, nodes |-> nodes]
  ELSE LET missing == {q \in (Prefixes(d.path) \cup {d.path}) \ {<<>>} : ~Has(nodes, q)}
           n1 == [q \in DOMAIN nodes \cup missing |->
                    IF q \in missing THEN [kind |-> "dir", uid |-> 0, implicit |-> TRUE, tgt |-> <<>>] ELSE nodes[q]]
       IN GlobFold(n1, d, GlobEntries(d.src, d.opt), 1)
Add(nodes, d) == IF d.kind = "glob" THEN GlobAdd(nodes, d) ELSE Add1(nodes, d)

RECURSIVE Build(_, _)
Build(prog, nodes) == IF prog = <<>> THEN [ok |-> TRUE, nodes |-> nodes]
                      ELSE LET r == Add(nodes, Head(prog)) IN IF ~r.ok THEN r ELSE Build(Tail(prog), r.nodes)

(* resolve_link: follow link -> link -> ... ; returns <<"ok", path>> | <<"err">> | <<"hang">> *)
RECURSIVE Resolve(_, _, _, _)
Resolve(nodes, start, cur, steps) ==
  IF steps > 40 THEN <<"hang">>                                                       \* far beyond the number of nodes any program here creates
  ELSE IF ~Has(nodes, cur) THEN <<"err">>                                                   \* ENOENT
  ELSE IF nodes[cur].kind # "link" THEN (IF nodes[cur].kind = "dir" THEN <<"err">> ELSE <<"ok", cur>>)
  ELSE LET nxt == nodes[cur].tgt IN
       IF nxt = start THEN <<"err">>                                                        \* cycle through the start
       ELSE IF ~CycleCheckStartOnly /\ steps > Cardinality(DOMAIN nodes) THEN <<"err">>     \* any cycle
       ELSE Resolve(nodes, start, nxt, steps + 1)
Links(nodes) == {p \in DOMAIN nodes : nodes[p].kind = "link"}
Meaning(prog) ==
  LET b == Build(prog, N0) IN
  IF ~b.ok THEN [outcome |-> "refused"]
  ELSE IF LinkFlagsDropped
  THEN [outcome |-> "ok", tree |-> {[p |-> p, kind |-> IF b.nodes[p].kind = "link" THEN "slink" ELSE b.nodes[p].kind, uid |-> b.nodes[p].uid] : p \in DOMAIN b.nodes},
        same |-> {}]
  ELSE LET res == [p \in Links(b.nodes) |-> Resolve(b.nodes, p, b.nodes[p].tgt, 0)] IN
       IF \E p \in Links(b.nodes) : res[p][1] = "hang" THEN [outcome |-> "hang"]
       ELSE IF \E p \in Links(b.nodes) : res[p][1] = "err" THEN [outcome |-> "refused"]
       ELSE [outcome |-> "ok",
             tree |-> {[p |-> p, kind |-> IF b.nodes[p].kind = "link" THEN b.nodes[res[p][2]].kind ELSE b.nodes[p].kind,
                        uid |-> IF b.nodes[p].kind = "link" THEN b.nodes[res[p][2]].uid ELSE b.nodes[p].uid,
                        implicit |-> b.nodes[p].implicit] : p \in DOMAIN b.nodes},
             same |-> {<<p, res[p][2]>> : p \in Links(b.nodes)}]
(* the options act on the finished tree: implicit directories (the root included) are owned by the default owner, and --set-uid  *)
(* overrides every owner, whatever the pack file says                                                                            *)
WithOpts(m, o) ==
  IF m.outcome # "ok" \/ LinkFlagsDropped THEN m
  ELSE [m EXCEPT !.tree = {[p |-> n.p, kind |-> n.kind,
                            uid |-> IF o.forceUid >= 0 THEN o.forceUid ELSE IF n.implicit THEN o.defUid ELSE n.uid] : n \in m.tree}]

VARIABLES prog, cmdopt
Init == /\ \E k \in 1..MaxLen : prog \in [1..k -> Directive]      \* enumerated lazily (a UNION would be built as one set)
        /\ cmdopt \in OptSet
Next == UNCHANGED <<prog, cmdopt>>
Spec == Init /\ [][Next]_<<prog, cmdopt>>
(* --set-uid wins over everything; without it explicit owners are kept and only implicit directories take the default *)
OwnersFollowOptions ==
  LET m == WithOpts(Meaning(prog), cmdopt) IN
  m.outcome = "ok" => \A n \in m.tree : (cmdopt.forceUid >= 0 => n.uid = cmdopt.forceUid) /\ (n.p = <<>> /\ cmdopt.forceUid < 0 /\ ~(\E i \in 1..Len(prog) : prog[i].kind = "dir" /\ prog[i].path = <<>>) => n.uid = cmdopt.defUid)
NeverHangs == Meaning(prog).outcome # "hang"
(* sanity of the meaning itself: a successful program yields a tree closed under parents, links never name directories *)
TreeClosed == Meaning(prog).outcome = "ok" =>
                \A n \in Meaning(prog).tree : n.p # <<>> => \E m \in Meaning(prog).tree : m.p = Parent(n.p) /\ m.kind = "dir"
(* every link directive of a successful program shares the inode of a non-link entry *)
HardLinksShare == Meaning(prog).outcome = "ok" =>
                    \A p \in Links(Build(prog, N0).nodes) : \E x \in Meaning(prog).same : x[1] = p
(* names that share an inode in the scanned directory share one in the image (and nothing else is pulled in) *)
GlobLinksFaithful ==
  Meaning(prog).outcome = "ok" =>
    \A i \in 1..Len(prog) : prog[i].kind = "glob" =>
      LET ents == GlobEntries(prog[i].src, prog[i].opt) IN
      \A k \in 1..Len(ents) : ents[k].kind = "hl" =>
        LET p == prog[i].path \o ents[k].rel IN
        (\E x \in Meaning(prog).same : x[1] = p) => <<p, prog[i].path \o ents[k].tgt>> \in Meaning(prog).same
EmitOK == Emit => PrintT(<<"RESULT", ToJson([prog |-> prog, opt |-> cmdopt, m |-> WithOpts(Meaning(prog), cmdopt)])>>)
=============================================================================
