------------------------------- MODULE Canon -------------------------------
(* Path canonicalisation (lib/util/src/canonicalize_name.c) and the file-name sanity test       *)
(* (lib/util/src/filename_sane.c, POSIX branch).                                                *)
(*                                                                                              *)
(* Strings are sequences over a small alphabet of character classes:                            *)
(*    0 = '/'   1 = '.'   2 = an ordinary character ('a')   3 = a high byte (0xff)              *)
(* CanonSpec is the declarative meaning (property C18); CanonImpl transcribes the C loops with  *)
(* explicit src/dst indices; TLC checks that they agree on every string up to MaxLen and that    *)
(* the result is clean, never longer, idempotent and names the same entry.                      *)
(* The module is also the oracle of the trace check: Table (ndjson recorded from the real       *)
(* functions) is validated record by record in BadRecords.                                      *)
EXTENDS Naturals, Sequences, FiniteSets, TLC

Slash == 0
Dot   == 1
Fail  == <<99>>                       \* not a string over the alphabet

(* ---------- declarative meaning ---------- *)
RECURSIVE SplitAcc(_, _, _)
SplitAcc(s, cur, acc) ==
  IF s = <<>> THEN Append(acc, cur)
  ELSE IF Head(s) = Slash THEN SplitAcc(Tail(s), <<>>, Append(acc, cur))
  ELSE SplitAcc(Tail(s), Append(cur, Head(s)), acc)
Split(s) == SplitAcc(s, <<>>, <<>>)                     \* components, empty ones included

RECURSIVE Filter(_)
Filter(cs) == IF cs = <<>> THEN <<>>
              ELSE IF Head(cs) = <<>> \/ Head(cs) = <<Dot>> THEN Filter(Tail(cs))
              ELSE <<Head(cs)>> \o Filter(Tail(cs))
RECURSIVE Join(_)
Join(cs) == IF cs = <<>> THEN <<>>
            ELSE IF Len(cs) = 1 THEN cs[1]
            ELSE cs[1] \o <<Slash>> \o Join(Tail(cs))
HasDotDot(cs) == \E i \in 1..Len(cs) : cs[i] = <<Dot, Dot>>

CanonSpec(s) == LET cs == Split(s) IN IF HasDotDot(cs) THEN Fail ELSE Join(Filter(cs))
SaneSpec(s)  == s # <<Dot>> /\ s # <<Dot, Dot>> /\ \A i \in 1..Len(s) : s[i] # Slash

(* ---------- transcription of the C code ---------- *)
(* normalize_slashes: src index i (1-based) over s, output accumulated                          *)
RECURSIVE SkipSlashes(_, _)
SkipSlashes(s, i) == IF i <= Len(s) /\ s[i] = Slash THEN SkipSlashes(s, i + 1) ELSE i
RECURSIVE NormLoop(_, _, _)
NormLoop(s, i, out) ==
  IF i > Len(s) THEN out
  ELSE IF s[i] = Slash
       THEN LET j == SkipSlashes(s, i) IN
            IF j > Len(s) THEN out ELSE NormLoop(s, j, Append(out, Slash))
       ELSE NormLoop(s, i + 1, Append(out, s[i]))
Normalize(s) == NormLoop(s, SkipSlashes(s, 1), <<>>)

At(s, i) == IF i <= Len(s) THEN s[i] ELSE 100          \* 100 = the terminating NUL
RECURSIVE CopyComp(_, _, _)
CopyComp(s, i, out) == IF i <= Len(s) /\ s[i] # Slash THEN CopyComp(s, i + 1, Append(out, s[i])) ELSE <<i, out>>
RECURSIVE CompLoop(_, _, _)
CompLoop(s, i, out) ==
  IF i > Len(s) THEN out
  ELSE IF s[i] = Dot /\ At(s, i + 1) = 100 THEN out
  ELSE IF s[i] = Dot /\ At(s, i + 1) = Slash THEN CompLoop(s, i + 2, out)
  ELSE IF s[i] = Dot /\ At(s, i + 1) = Dot /\ At(s, i + 2) \in {Slash, 100} THEN Fail
  ELSE LET r == CopyComp(s, i, out) IN
       IF r[1] <= Len(s) THEN CompLoop(s, r[1] + 1, Append(r[2], Slash)) ELSE CompLoop(s, r[1], r[2])
CanonImpl(s) == LET n == Normalize(s) r == CompLoop(n, 1, <<>>) IN IF r = Fail THEN Fail ELSE Normalize(r)

(* ---------- theorems checked by TLC over all strings up to MaxLen ---------- *)
CONSTANTS MaxLen, Alphabet
VARIABLE str
Strings(n) == UNION {[1..k -> Alphabet] : k \in 0..n}
EInit == str \in Strings(MaxLen)
ENext == UNCHANGED str
Clean(r) == /\ (r = <<>> \/ (r[1] # Slash /\ r[Len(r)] # Slash))
            /\ \A i \in 1..(Len(r) - 1) : ~(r[i] = Slash /\ r[i + 1] = Slash)
            /\ \A i \in 1..Len(Split(r)) : Split(r)[i] # <<Dot>> /\ Split(r)[i] # <<Dot, Dot>>
ImplIsSpec  == CanonImpl(str) = CanonSpec(str)
FailsIffDD  == (CanonSpec(str) = Fail) <=> HasDotDot(Split(str))
ResultClean == CanonSpec(str) # Fail => Clean(CanonSpec(str))
NeverLonger == CanonSpec(str) # Fail => Len(CanonSpec(str)) <= Len(str)
Idempotent  == CanonSpec(str) # Fail => CanonSpec(CanonSpec(str)) = CanonSpec(str)
SameEntry   == CanonSpec(str) # Fail => Filter(Split(CanonSpec(str))) = Filter(Split(str))
SaneMeaning == SaneSpec(str) <=> (Len(Split(str)) = 1 /\ str # <<Dot>> /\ str # <<Dot, Dot>>)
Theorems == ImplIsSpec /\ FailsIffDD /\ ResultClean /\ NeverLonger /\ Idempotent /\ SameEntry /\ SaneMeaning
=============================================================================
