----------------------------- MODULE DataReader -----------------------------
(* lib/sqfs/src/data_reader.c: the one-entry data block cache (current_block / data_block) and   *)
(* the one-entry fragment block cache (current_frag_index / frag_block) used by                  *)
(* sqfs_data_reader_read and the stream API, against the pure reference "decode what the inode   *)
(* names".  A block query names a location AND a size word (on-disk size + compressed flag);     *)
(* on an undamaged image a location determines its word, on a damaged one two inodes may name    *)
(* the same location with different words.  Decode failures leave the cache empty.               *)
EXTENDS Naturals, Sequences, TLC
CONSTANTS Locs, Words, Frags,
          Bad,                 \* set of <<loc, word>> whose decoding fails
          BadFrag,             \* set of fragment indices whose block fails to load
          KeyIncludesWord,     \* TRUE = tree after the fix: commit (cache keyed by location and word)
          Dev, MaxHist
NoLoc == 0
VARIABLES curLoc, curWord, hasData,      \* data block cache
          curFrag, hasFrag,              \* fragment block cache
          call, last, hist
vars == <<curLoc, curWord, hasData, curFrag, hasFrag, call, last, hist>>

Decode(l, w) == IF <<l, w>> \in Bad THEN <<"err">> ELSE <<"ok", l, w>>      \* provenance = what was decoded
FragOf(i)    == IF i \notin Frags \/ i \in BadFrag THEN <<"err">> ELSE <<"ok", "frag", i>>

Init == curLoc = NoLoc /\ curWord = 0 /\ hasData = FALSE /\ curFrag = 0 /\ hasFrag = FALSE
        /\ call = <<"none", 0, 0>> /\ last = <<"err">> /\ hist = 0

ReadBlock(l, w) ==
  /\ hist < MaxHist /\ hist' = hist + 1 /\ call' = <<"block", l, w>>
  /\ IF hasData /\ curLoc = l /\ (~KeyIncludesWord \/ curWord = w)
     THEN /\ last' = <<"ok", curLoc, curWord>> /\ UNCHANGED <<curLoc, curWord, hasData>>
     ELSE /\ curLoc' = l /\ curWord' = w /\ last' = Decode(l, w)
          /\ hasData' = (IF Dev = "KeepOnError" THEN TRUE ELSE Decode(l, w)[1] = "ok")
  /\ UNCHANGED <<curFrag, hasFrag>>

ReadFrag(i) ==
  /\ hist < MaxHist /\ hist' = hist + 1 /\ call' = <<"frag", i, 0>>
  /\ IF hasFrag /\ curFrag = i
     THEN last' = <<"ok", "frag", curFrag>> /\ UNCHANGED <<curFrag, hasFrag>>
     ELSE IF i \notin Frags /\ Dev # "FragIndexUnchecked"
     THEN last' = <<"err">> /\ UNCHANGED <<curFrag, hasFrag>>                 \* table lookup fails first
     ELSE /\ curFrag' = i /\ last' = FragOf(i)
          /\ hasFrag' = (IF Dev = "KeepOnError" THEN TRUE ELSE FragOf(i)[1] = "ok")
  /\ UNCHANGED <<curLoc, curWord, hasData>>

Next == (\E l \in Locs, w \in Words : ReadBlock(l, w)) \/ (\E i \in Frags \cup {99} : ReadFrag(i))
Spec == Init /\ [][Next]_vars
HistoryFree ==
  \/ call[1] = "none"
  \/ call[1] = "block" /\ last = Decode(call[2], call[3])
  \/ call[1] = "frag"  /\ last = FragOf(call[2])
=============================================================================
