------------------------------ MODULE XfrmOut ------------------------------
(* Stream (de)compression wrappers: lib/xfrm/src/ostream.c (xfrm_append, flush_inbuf, xfrm_flush),     *)
(* lib/xfrm/src/istream.c (precache) around an abstract codec obeying the process_data contract of       *)
(* include/xfrm/stream.h, as implemented by gzip.c / xz.c / bzip2.c / zstd.c (property C15).             *)
(*                                                                                                       *)
(* Output side.  The codec consumes input into `held` and releases output according to Policy:            *)
(*   "eager"     everything it holds, as far as the output buffer allows                                  *)
(*   "withhold"  nothing until FLUSH_FULL (block codecs such as bzip2)                                     *)
(*   "half"      half of what it holds                                                                     *)
(* LoopNeedsInput = TRUE is the shape `while (in_size > 0 && out_size > 0)` of the codecs in the pinned   *)
(* tree: with no input left the codec is not called at all, so held output / the trailer never appears.   *)
(* EndOnEmptyFlush = TRUE is zstd.c: a flushing call with no input reports END by itself.                  *)
(* Properties: Terminates (every wrapper loop ends), AllWritten (sink = header-less payload of the same   *)
(* length as the input), TrailerOnce.                                                                      *)
(*                                                                                                       *)
(* Input side.  The compressed file is a sequence of members, each `len` payload units followed by a      *)
(* trailer unit; it may be cut after any unit (Cut) and one unit may be corrupt (Bad).  Properties:        *)
(* decoded = concatenation of the complete members' payloads, and a cut inside a member or a corrupt unit  *)
(* is reported (TruncationReported; EofMidMemberAccepted = TRUE is the pinned tree).                       *)
EXTENDS Naturals, Sequences, TLC, Json
Min(a, b) == IF a < b THEN a ELSE b
RECURSIVE Sum(_)
Sum(s) == IF s = <<>> THEN 0 ELSE Head(s) + Sum(Tail(s))
CONSTANTS InCap, OutCap, Policy, LoopNeedsInput, EndOnEmptyFlush, Chunks, Emit
(* ------------------------------- output side ------------------------------- *)
VARIABLES todo, left,            \* chunks still to append; rest of the current chunk
          inbuf, held, sink, trailers,
          pc, finish, offIn, iters, chunks0
ovars == <<todo, left, inbuf, held, sink, trailers, pc, finish, offIn, iters, chunks0>>

OInit == /\ todo \in Chunks /\ chunks0 = todo /\ left = 0 /\ inbuf = 0 /\ held = 0 /\ sink = 0 /\ trailers = 0
         /\ pc = "idle" /\ finish = FALSE /\ offIn = 0 /\ iters = 0

(* the codec: returns [c, o, held, end, trailer] *)
Codec(inAvail, full) ==
  IF inAvail = 0 /\ LoopNeedsInput
  THEN [c |-> 0, o |-> 0, h |-> held, end |-> (full /\ EndOnEmptyFlush), t |-> 0]
  ELSE LET h1 == held + inAvail
           want == CASE Policy = "eager" -> h1
                     [] Policy = "withhold" -> IF full THEN h1 ELSE 0
                     [] Policy = "half" -> IF full THEN h1 ELSE (h1 + 1) \div 2
           o == Min(OutCap, want)
           done == full /\ h1 - o = 0
       IN [c |-> inAvail, o |-> o, h |-> h1 - o, end |-> done, t |-> IF done THEN 1 ELSE 0]

NextChunk == /\ pc = "idle" /\ left = 0 /\ todo # <<>>
             /\ left' = Head(todo) /\ todo' = Tail(todo)
             /\ UNCHANGED <<inbuf, held, sink, trailers, pc, finish, offIn, iters, chunks0>>
AppendStep ==                                  \* one iteration of the while loop in xfrm_append
  /\ pc = "idle" /\ left > 0
  /\ IF inbuf >= InCap
     THEN /\ pc' = "flush" /\ finish' = FALSE /\ offIn' = 0 /\ UNCHANGED <<left, inbuf>>
     ELSE LET d == Min(InCap - inbuf, left) IN
          /\ inbuf' = inbuf + d /\ left' = left - d /\ UNCHANGED <<pc, finish, offIn>>
  /\ UNCHANGED <<todo, held, sink, trailers, iters, chunks0>>
StartFinish ==                                 \* xfrm_flush
  /\ pc = "idle" /\ left = 0 /\ todo = <<>>
  /\ IF inbuf > 0 THEN pc' = "flush" /\ finish' = TRUE /\ offIn' = 0
     ELSE pc' = "done" /\ UNCHANGED <<finish, offIn>>
  /\ UNCHANGED <<todo, left, inbuf, held, sink, trailers, iters, chunks0>>
FlushIter ==                                   \* one iteration of the loop in flush_inbuf
  /\ pc = "flush"
  /\ IF ~(finish \/ offIn < inbuf)
     THEN /\ inbuf' = (IF offIn < inbuf THEN inbuf - offIn ELSE 0)
          /\ pc' = (IF finish THEN "done" ELSE "idle")
          /\ UNCHANGED <<held, sink, trailers, offIn, iters>>
     ELSE LET r == Codec(inbuf - offIn, finish) IN
          /\ offIn' = offIn + r.c /\ held' = r.h /\ sink' = sink + r.o /\ trailers' = trailers + r.t
          /\ iters' = iters + 1
          /\ IF r.end
             THEN /\ inbuf' = (IF offIn + r.c < inbuf THEN inbuf - (offIn + r.c) ELSE 0)
                  /\ pc' = (IF finish THEN "done" ELSE "idle")
             ELSE UNCHANGED <<inbuf, pc>>
  /\ UNCHANGED <<todo, left, finish, chunks0>>
ODone == pc = "done"
ONext == NextChunk \/ AppendStep \/ StartFinish \/ FlushIter \/ (ODone /\ UNCHANGED ovars)
OSpec == OInit /\ [][ONext]_ovars
OFair == OSpec /\ WF_ovars(NextChunk) /\ WF_ovars(AppendStep) /\ WF_ovars(StartFinish) /\ WF_ovars(FlushIter)
Terminates  == <>ODone
AllWritten  == ODone => (sink = Sum(chunks0) /\ held = 0)
TrailerOnce == (ODone /\ Sum(chunks0) > 0) => trailers = 1
Progress    == iters <= 4 * (Sum(chunks0) + 4)          \* no unbounded spinning (safety form of termination)
OEmit == (Emit /\ ODone) => PrintT(<<"RESULT", ToJson([chunks |-> chunks0, sink |-> sink, trailers |-> trailers])>>)

=============================================================================
