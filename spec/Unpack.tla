------------------------------- MODULE Unpack -------------------------------
(* rdsquashfs --unpack-path (bin/rdsquashfs/src/rdsquashfs.c tree_sort + duplicate rejection,            *)
(* restore_fstree.c create_node_dfs / set_attribs, fill_files.c) against an abstract POSIX file system     *)
(* with symlink-following path resolution.  Property C06: whatever the image contains, nothing is created, *)
(* modified, re-owned or re-moded outside the unpack root R.                                               *)
(*                                                                                                         *)
(* File system = set of [p: absolute path, t: "dir"|"file"|"link", tg: link target id].  R = /J/R; /OUT    *)
(* and /J are outside.  Hostile tree: up to two top-level entries, a directory entry may have one child;   *)
(* names: "a", "b", "A", "dd" (".."), "sl" (contains '/'), "dot" ("."); kinds dir/file/link; link targets: *)
(* "up" (..), "upup" (../..), "absout" (/OUT), "a".  Plus (Node2/Node3) directories with two entries below  *)
(* the top level over a reduced alphabet.                                                                  *)
EXTENDS Naturals, Sequences, FiniteSets, TLC, Json
CONSTANTS SkipDupCheck, NoSanityInCreate, NoSanityInFill, NoExcl, Emit,
          MknodReusesSameKind, \* deviation: mknod()'s EEXIST is accepted when stat() - which follows a symlink - finds an object of the same kind
          WithPre,             \* the unpack root may hold something before the run (PreStates); FALSE = always empty
          MkdirReusesAnything, \* deviation (the pinned tree before fix c2a2e0f): mkdir's EEXIST is accepted whatever exists there - also a symlink left by an earlier unpack
          NoSanityInAttr,   \* deviation: set_attribs does not skip entries with an insane name
          AttrFollowsLinks, \* deviation: chown / utimens / setxattr without AT_SYMLINK_NOFOLLOW (the l-variants): a link entry re-owns what it points at
          ChmodOnLinks,     \* deviation: chmod (which always follows) is also issued for symlink entries
          SortCaseFold      \* deviation: tree_sort orders siblings ignoring letter case while the duplicate test (adjacent entries, strcmp) does not

Names == {"a", "b", "dd", "sl", "dot"}
Kinds == {"dir", "file", "link"}
Tgts  == {"up", "upup", "absout", "a"}
Sane(n)   == n \in {"a", "b", "A"}            \* is_filename_sane: not ".", "..", no '/'
Comp(n)   == CASE n = "dd" -> <<"..">> [] n = "dot" -> <<".">> [] n = "sl" -> <<"x", "y">> [] OTHER -> <<n>>
TgtPath(t) == CASE t = "up" -> <<"..">> [] t = "upup" -> <<"..", "..">> [] t = "absout" -> <<"/", "OUT">> [] t = "outpipe" -> <<"/", "OUT", "p">> [] OTHER -> <<"a">>
Root == <<"J", "R">>
Parent(p) == IF p = <<>> THEN <<>> ELSE SubSeq(p, 1, Len(p) - 1)
Lookup(f, p) == {e \in f : e.p = p}

RECURSIVE Res(_, _, _, _, _)
Res(f, cur, rest, followLast, depth) ==       \* <<"ok"|"err", absolute path>>
  IF depth > 6 THEN <<"err", <<>>>>
  ELSE IF rest = <<>> THEN <<"ok", cur>>
  ELSE LET c == Head(rest)  r == Tail(rest)  last == r = <<>> IN
       IF c = "/" THEN Res(f, <<>>, r, followLast, depth)
       ELSE IF c = "." THEN Res(f, cur, r, followLast, depth)
       ELSE IF c = ".." THEN Res(f, Parent(cur), r, followLast, depth)
       ELSE LET p == Append(cur, c)  hit == Lookup(f, p) IN
            IF hit = {} THEN (IF last THEN <<"ok", p>> ELSE <<"err", <<>>>>)
            ELSE LET e == CHOOSE x \in hit : TRUE IN
                 IF e.t = "link" THEN (IF last /\ ~followLast THEN <<"ok", p>>
                                       ELSE Res(f, cur, TgtPath(e.tg) \o r, followLast, depth + 1))
                 ELSE IF e.t = "dir" THEN Res(f, p, r, followLast, depth)
                 ELSE (IF last THEN <<"ok", p>> ELSE <<"err", <<>>>>)
Inside(p) == Len(p) >= 2 /\ SubSeq(p, 1, 2) = Root

(* create_node: mkdir tolerates EEXIST; files (O_EXCL) and symlinks are exclusive *)
Create(f, rel, n) ==
  LET r == Res(f, Root, rel, FALSE, 0) IN
  IF r[1] = "err" THEN [fs |-> f, bad |-> FALSE, fail |-> TRUE]
  ELSE LET p == r[2]  ex == Lookup(f, p) # {} IN
       IF n.kind = "dir"
       THEN (IF ex THEN [fs |-> f, bad |-> FALSE, fail |-> ~(MkdirReusesAnything \/ (CHOOSE x \in Lookup(f, p) : TRUE).t = "dir")]   \* lstat: a directory may be re-used
             ELSE [fs |-> f \cup {[p |-> p, t |-> "dir", tg |-> "a"]}, bad |-> ~Inside(p), fail |-> FALSE])
       ELSE IF n.kind = "pipe"                                                         \* mknod: exclusive
       THEN (IF ~ex THEN [fs |-> f \cup {[p |-> p, t |-> "pipe", tg |-> "a"]}, bad |-> ~Inside(p), fail |-> FALSE]
             ELSE LET q == Res(f, Root, rel, TRUE, 0)                                   \* stat() follows
                      same == q[1] = "ok" /\ \E x \in Lookup(f, q[2]) : x.t = "pipe"
                  IN [fs |-> f, bad |-> FALSE, fail |-> ~(MknodReusesSameKind /\ same)])
       ELSE IF ex /\ ~(NoExcl /\ n.kind = "file")
       THEN [fs |-> f, bad |-> FALSE, fail |-> TRUE]
       ELSE IF ex                                   \* NoExcl: open(O_CREAT) follows an existing symlink
       THEN LET q == Res(f, Root, rel, TRUE, 0) IN
            [fs |-> f, bad |-> (q[1] = "ok" /\ ~Inside(q[2])), fail |-> FALSE]
       ELSE [fs |-> f \cup {[p |-> p, t |-> (IF n.kind = "link" THEN "link" ELSE "file"), tg |-> n.tgt]}, bad |-> ~Inside(p), fail |-> FALSE]

RECURSIVE Walk(_, _, _)
Walk(st, rel, nodes) ==                         \* create_node_dfs over siblings
  IF nodes = <<>> \/ st.fail THEN st
  ELSE LET n == Head(nodes) IN
       IF ~NoSanityInCreate /\ ~Sane(n.name) THEN Walk(st, rel, Tail(nodes))      \* "skipping"
       ELSE LET c  == Create(st.fs, rel \o Comp(n.name), n)
                s1 == [fs |-> c.fs, bad |-> st.bad \/ c.bad, fail |-> c.fail]
                s2 == IF n.kind = "dir" /\ ~s1.fail THEN Walk(s1, rel \o Comp(n.name), n.kids) ELSE s1
            IN Walk(s2, rel, Tail(nodes))

(* fill_files: open(path, O_WRONLY|O_TRUNC) follows the last component *)
RECURSIVE Fill(_, _, _)
Fill(st, rel, nodes) ==
  IF nodes = <<>> \/ st.fail THEN st
  ELSE LET n == Head(nodes) IN
       IF ~NoSanityInFill /\ ~Sane(n.name) THEN Fill(st, rel, Tail(nodes))
       ELSE LET s1 == IF n.kind = "file"
                      THEN LET r == Res(st.fs, Root, rel \o Comp(n.name), TRUE, 0) IN
                           IF r[1] = "err" THEN [st EXCEPT !.fail = TRUE]
                           ELSE [st EXCEPT !.bad = @ \/ ~Inside(r[2])]
                      ELSE IF n.kind = "dir" THEN Fill(st, rel \o Comp(n.name), n.kids) ELSE st
            IN Fill(s1, rel, Tail(nodes))

(* set_attribs (--chown --set-xattr --set-times --chmod): children first, then the entry itself; chown / xattr / times do not follow the last *)
(* component, chmod does but is not issued for symlink entries.  Touching = re-owning / re-moding the object the path resolves to.            *)
RECURSIVE Attr(_, _, _)
Attr(st, rel, nodes) ==
  IF nodes = <<>> \/ st.fail THEN st
  ELSE LET n == Head(nodes) IN
       IF ~NoSanityInAttr /\ ~Sane(n.name) THEN Attr(st, rel, Tail(nodes))
       ELSE LET s0 == IF n.kind = "dir" THEN Attr(st, rel \o Comp(n.name), n.kids) ELSE st
                own == Res(s0.fs, Root, rel \o Comp(n.name), AttrFollowsLinks, 0)              \* fchownat / utimensat / lsetxattr
                md  == Res(s0.fs, Root, rel \o Comp(n.name), TRUE, 0)                          \* fchmodat(.., 0)
                s1 == IF s0.fail THEN s0
                      ELSE IF own[1] = "err" \/ Lookup(s0.fs, own[2]) = {} THEN [s0 EXCEPT !.fail = TRUE]      \* ENOENT: the run fails
                      ELSE [s0 EXCEPT !.bad = @ \/ ~Inside(own[2])]
                s2 == IF s1.fail \/ (n.kind = "link" /\ ~ChmodOnLinks) THEN s1
                      ELSE IF md[1] = "err" \/ Lookup(s1.fs, md[2]) = {} THEN [s1 EXCEPT !.fail = TRUE]
                      ELSE [s1 EXCEPT !.bad = @ \/ ~Inside(md[2])]
            IN Attr(s2, rel, Tail(nodes))

(* tree_sort: stable merge sort of the siblings by name (strcmp), then one pass that compares NEIGHBOURS (strcmp) *)
Rank(n) == CASE n = "dot" -> 1 [] n = "dd" -> 2 [] n = "A" -> (IF SortCaseFold THEN 4 ELSE 3) [] n = "a" -> 4 [] n = "b" -> 5 [] OTHER -> 6
RECURSIVE InsertSorted(_, _)
InsertSorted(s, x) == IF s = <<>> THEN <<x>>
                      ELSE IF Rank(x.name) < Rank(Head(s).name) THEN <<x>> \o s              \* stable: behind everything that is not greater
                      ELSE <<Head(s)>> \o InsertSorted(Tail(s), x)
RECURSIVE SortSibs(_)
SortSibs(nodes) == IF nodes = <<>> THEN <<>> ELSE InsertSorted(SortSibs(SubSeq(nodes, 1, Len(nodes) - 1)), nodes[Len(nodes)])
HasDup(nodes) == LET s == SortSibs(nodes) IN \E i \in 1..(Len(s) - 1) : s[i].name = s[i + 1].name
RECURSIVE SortTree(_)
SortTree(nodes) == LET s == SortSibs(nodes) IN [i \in 1..Len(s) |-> IF s[i].kind = "dir" THEN [s[i] EXCEPT !.kids = SortTree(s[i].kids)] ELSE s[i]]
RECURSIVE AnyDup(_)
AnyDup(nodes) == HasDup(nodes) \/ \E i \in 1..Len(nodes) : nodes[i].kind = "dir" /\ AnyDup(nodes[i].kids)

Leaf == [name : Names, kind : {"file", "link"}, tgt : Tgts, kids : {<<>>}]
Node == Leaf \cup {[name |-> nm, kind |-> "dir", tgt |-> "a", kids |-> k] : nm \in Names, k \in {<<>>} \cup {<<l>> : l \in Leaf}}
(* deeper shapes over a reduced alphabet (sane names, escaping targets): a directory with two entries - so a  *)
(* duplicate can sit below the top level -, reached directly, next to a sibling, or through an only-child     *)
(* directory.  tree_sort() must reject a duplicate at every level, not only among the entries it starts from. *)
LeafD  == [name : {"a", "b"}, kind : {"file", "link"}, tgt : {"upup", "absout"}, kids : {<<>>}]
Node1D == LeafD \cup {[name |-> nm, kind |-> "dir", tgt |-> "a", kids |-> k] : nm \in {"a", "b"}, k \in {<<>>} \cup {<<l>> : l \in LeafD}}
Node2  == {[name |-> nm, kind |-> "dir", tgt |-> "a", kids |-> <<x, y>>] : nm \in {"a", "b"}, x \in Node1D, y \in Node1D}
Node3  == {[name |-> "a", kind |-> "dir", tgt |-> "a", kids |-> <<n>>] : n \in Node2}
(* the forest families are enumerated one by one (a union would make TLC normalise 85k nested records) *)
(* three siblings over names that differ in letter case only: a stable sort that folds case leaves a case variant BETWEEN two equal names *)
LeafC  == [name : {"a", "A"}, kind : {"file"}, tgt : {"upup"}, kids : {<<>>}] \cup [name : {"a", "A"}, kind : {"link"}, tgt : {"upup", "absout"}, kids : {<<>>}]
Node1C == LeafC \cup {[name |-> nm, kind |-> "dir", tgt |-> "a", kids |-> k] : nm \in {"a", "A"}, k \in {<<>>} \cup {<<l>> : l \in LeafC}}
InForests(f) == \/ \E n \in Node : f = <<n>>
                \/ \E x \in Node1C, y \in Node1C, z \in Node1C : f = <<x, y, z>>
                \/ \E n \in Node, m \in Node : f = <<n, m>>
                \/ \E n \in Node2 : f = <<n>>
                \/ \E n \in Node3 : f = <<n>>
                \/ \E n \in Node2, m \in LeafD : f = <<n, m>> \/ f = <<m, n>>

(* what the unpack root holds before the run - e.g. what an earlier unpack of another crafted image left there *)
RA == Root \o <<"a">>
PreStates == {{}} \cup {{[p |-> RA, t |-> "link", tg |-> t]} : t \in {"up", "upup", "absout", "outpipe"}}
                  \cup {{[p |-> RA, t |-> "dir", tg |-> "a"]}, {[p |-> RA, t |-> "file", tg |-> "a"]},
                        {[p |-> RA, t |-> "dir", tg |-> "a"], [p |-> RA \o <<"b">>, t |-> "link", tg |-> "upup"]},
                        {[p |-> RA, t |-> "dir", tg |-> "a"], [p |-> RA \o <<"b">>, t |-> "link", tg |-> "outpipe"]}}
NodeAB == {n \in Node : n.name \in {"a", "b"}}
LeafP == [name : {"a", "b"}, kind : {"pipe"}, tgt : {"a"}, kids : {<<>>}]                 \* a named pipe (mknod)
NodeP == LeafP \cup {[name |-> nm, kind |-> "dir", tgt |-> "a", kids |-> <<l>>] : nm \in {"a", "b"}, l \in LeafP}
InForestsPre(f) == (\E n \in NodeAB : f = <<n>>) \/ (\E n \in Node2 : f = <<n>>) \/ (\E n \in NodeP : f = <<n>>)
VARIABLES forest, result, pre
Init == /\ pre \in (IF WithPre THEN PreStates ELSE {{}})
        /\ IF pre = {} THEN InForests(forest) ELSE InForestsPre(forest)
        /\ result = [fs |-> {[p |-> <<"J">>, t |-> "dir", tg |-> "a"], [p |-> Root, t |-> "dir", tg |-> "a"],
                            [p |-> <<"OUT">>, t |-> "dir", tg |-> "a"], [p |-> <<"OUT", "p">>, t |-> "pipe", tg |-> "a"]} \cup pre,
                      bad |-> FALSE, fail |-> FALSE, ran |-> FALSE]
Run == /\ ~result.ran
       /\ IF ~SkipDupCheck /\ AnyDup(forest)
          THEN result' = [result EXCEPT !.fail = TRUE, !.ran = TRUE]                      \* tree_sort rejects duplicates
          ELSE LET sorted == SortTree(forest)
                   w == Walk([fs |-> result.fs, bad |-> FALSE, fail |-> FALSE], <<>>, sorted)
                   g0 == Fill(w, <<>>, sorted)
                   g == Attr(g0, <<>>, sorted)
               IN result' = [fs |-> g.fs, bad |-> g.bad, fail |-> g.fail, ran |-> TRUE]
       /\ UNCHANGED <<forest, pre>>
Next == Run \/ (result.ran /\ UNCHANGED <<forest, result, pre>>)
Spec == Init /\ [][Next]_<<forest, result, pre>>
Confined == ~result.bad /\ \A e \in result.fs : Inside(e.p) \/ e.p \in {<<"J">>, <<"OUT">>, <<"OUT", "p">>}
(* with a deviation constant on, the forests that end "bad" are exactly those for which that barrier is the only *)
(* protection: they are emitted and unpacked by the real tool                                                    *)
EmitOK == (Emit /\ result.ran /\ result.bad) => PrintT(<<"RESULT", ToJson([forest |-> forest, fail |-> result.fail, pre |-> pre])>>)
=============================================================================
