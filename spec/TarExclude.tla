----------------------------- MODULE TarExclude -----------------------------
(* tar2sqfs --exclude-dir GLOB ... (lib/tar/src/iterator.c it_next: fnmatch(glob, canonical member name, 0) == 0 -> the member is   *)
(* skipped, header and data), alone and together with --root-becomes r (C04: the options have exactly their documented effect).   *)
(* fnmatch runs WITHOUT FNM_PATHNAME: '*' also matches '/'.  Only the matching member is skipped - members below a skipped         *)
(* directory that do not match themselves are kept, their parent then exists implicitly with default attributes.                   *)
(* Paths: sequences over the one-letter components r, x, y; globs are named, their meaning is spelled out in Match.                *)
EXTENDS Naturals, Sequences, FiniteSets, TLC, Json
CONSTANTS Emit, MaxEntries,
          StarStopsAtSlash,     \* deviation: FNM_PATHNAME - '*' does not cross a '/'
          ExcludeTakesSubtree   \* deviation: everything below a matching member is dropped too

IsPrefix(p, q) == Len(p) <= Len(q) /\ SubSeq(q, 1, Len(p)) = p
Drop(p, n) == SubSeq(p, n + 1, Len(p))
Paths == {<<"r">>, <<"r", "x">>, <<"r", "y">>, <<"x">>, <<"y">>, <<"y", "x">>, <<"r", "x", "y">>}
Globs == {"r", "r/*", "r*", "*x", "y/x", "*/x", "?"}
Match(g, p) ==
  CASE g = "r" -> p = <<"r">>
    [] g = "r/*" -> Len(p) >= 2 /\ p[1] = "r" /\ (StarStopsAtSlash => Len(p) = 2)
    [] g = "r*" -> p[1] = "r" /\ (StarStopsAtSlash => Len(p) = 1)
    [] g = "*x" -> p[Len(p)] = "x" /\ (StarStopsAtSlash => Len(p) = 1)
    [] g = "y/x" -> p = <<"y", "x">>
    [] g = "*/x" -> Len(p) >= 2 /\ p[Len(p)] = "x" /\ (StarStopsAtSlash => Len(p) = 2)
    [] OTHER -> Len(p) = 1                                             \* "?": exactly one character
Entry == [path : Paths, kind : {"dir", "file"}]
WellFormed(a) == /\ \A i, j \in 1..Len(a) : i # j => a[i].path # a[j].path
                 /\ \A i, j \in 1..Len(a) : (i # j /\ IsPrefix(a[i].path, a[j].path)) => (a[i].kind = "dir" /\ i < j)
Excluded(a, gs, i) == \/ \E g \in gs : Match(g, a[i].path)
                      \/ ExcludeTakesSubtree /\ \E j \in 1..Len(a) : IsPrefix(a[j].path, a[i].path) /\ \E g \in gs : Match(g, a[j].path)
Root == <<"r">>
(* what reaches the image: explicit entries (with the member's attributes) and implied parent directories (defaults) *)
Image(a, gs, rb) ==
  LET keptIdx == {i \in 1..Len(a) : ~Excluded(a, gs, i) /\ (rb => IsPrefix(Root, a[i].path))}
      path(i) == IF rb THEN Drop(a[i].path, 1) ELSE a[i].path
      explicit == {[path |-> path(i), kind |-> a[i].kind, implicit |-> FALSE] : i \in {k \in keptIdx : path(k) # <<>>}}
      implied == UNION {{[path |-> SubSeq(path(i), 1, k), kind |-> "dir", implicit |-> TRUE] : k \in 1..(Len(path(i)) - 1)} : i \in keptIdx}
  IN explicit \cup {n \in implied : ~\E e \in explicit : e.path = n.path}
Refused(a, gs, rb) == rb /\ \E i \in 1..Len(a) : ~Excluded(a, gs, i) /\ a[i].path = Root /\ a[i].kind # "dir"

VARIABLES arch, gs, rb
Init == /\ \E k \in 1..MaxEntries : arch \in [1..k -> Entry]
        /\ WellFormed(arch)
        /\ gs \in {{}} \cup {{g} : g \in Globs} \cup {{"r", "y/x"}, {"*x", "r"}}
        /\ rb \in BOOLEAN
Next == UNCHANGED <<arch, gs, rb>>
(* exactly the matching members are missing: every other member is in the image under its (possibly re-rooted) name *)
OnlyMatchesDropped == Refused(arch, gs, rb) \/ \A i \in 1..Len(arch) :
     LET p == IF rb THEN Drop(arch[i].path, 1) ELSE arch[i].path
         inScope == ~rb \/ (IsPrefix(Root, arch[i].path) /\ arch[i].path # Root)
     IN inScope => (((\E g \in gs : Match(g, arch[i].path)) /\ ~\E e \in Image(arch, gs, rb) : e.path = p /\ ~e.implicit)
                    \/ (~(\E g \in gs : Match(g, arch[i].path)) /\ \E e \in Image(arch, gs, rb) : e.path = p /\ e.kind = arch[i].kind /\ ~e.implicit))
(* without FNM_PATHNAME a star crosses directory separators: -E '*x' also drops y/x *)
StarCrossesSlash == ("*x" \in gs /\ ~rb) => ~\E e \in Image(arch, gs, rb) : e.path = <<"y", "x">> /\ ~e.implicit
NoExcludeNoChange == gs = {} => \A i \in 1..Len(arch) : (~rb) => \E e \in Image(arch, gs, rb) : e.path = arch[i].path /\ ~e.implicit
EmitOK == Emit => PrintT(<<"RESULT", ToJson([arch |-> arch, gs |-> gs, rb |-> rb, refused |-> Refused(arch, gs, rb), out |-> Image(arch, gs, rb)])>>)
=============================================================================
