----------------------------- MODULE DirWriter -----------------------------
(* The directory writer of libsquashfs (lib/sqfs/src/dir_writer.c: get_conseq_entry_count, add_header,                     *)
(* sqfs_dir_writer_end): a directory listing is cut into RUNS, each behind a header [count, inode block, base inode number]; *)
(* an entry stores the offset of its inode inside that block and its inode number as a signed 16 bit difference to the base. *)
(* A run ends before an entry whose inode lives in another metadata block, whose number is more than L away from the base,   *)
(* after M entries, and (unless it is the first entry of the run) before an entry that would carry the run past the end of   *)
(* the current metadata block of the directory table.                                                                          *)
(* C01 / C03: whatever the entries, decoding the runs gives the entries back (names, inode references, inode numbers), every   *)
(* count is 1..M, every difference fits, no run straddles a block boundary with more than its first entry.                     *)
(* The constants are the real ones (M = 256, L = 32767, Cap = 8192, Hdr = 12, Ent = 8) when TLC evaluates explicit long        *)
(* inputs handed in from outside, and small ones for the exhaustive runs.                                                      *)
EXTENDS Naturals, Integers, Sequences, FiniteSets, TLC, Json
CONSTANTS M, L, Cap, Hdr, Ent,
          MaxEntries, Blocks, Nums, NameLens, Offsets,     \* bounds of the exhaustive input space
          Explicit,                                        \* {} or a set of explicit inputs [off, ents]
          Emit,
          DeltaLimit,       \* "both" as built: -L..L | deviation "plusone": L + 1 is still put into the run (the stored 16 bit value wraps)
          CountLimit,       \* "M" as built | deviation "Mplus1"
          BlockChecked,     \* TRUE as built: an entry in another inode block ends the run
          IndexAfterHeader, \* deviation: the index entry of a run takes the metadata block number AFTER the header was appended (wrong when the
                            \* header ends at or crosses the block boundary)
          SizeFromOffset    \* TRUE as built: the size budget of a run starts at (offset + header) mod Cap | FALSE: at 0

Entry == [blk : Blocks, num : Nums, nlen : NameLens]
Abs(x) == IF x < 0 THEN 0 - x ELSE x
Fits(d) == IF DeltaLimit = "plusone" THEN d <= L + 1 /\ d >= 0 - L - 1 ELSE d <= L /\ d >= 0 - L
Wrap(d) == IF d > L THEN d - 2 * (L + 1) ELSE IF d < 0 - L - 1 THEN d + 2 * (L + 1) ELSE d       \* what a signed field of range -L-1..L keeps

(* get_conseq_entry_count(offset, list) *)
RECURSIVE Conseq(_, _, _, _, _)
Conseq(list, i, head, size, count) ==
  IF i > Len(list) THEN count
  ELSE LET e == list[i] IN
       IF BlockChecked /\ e.blk # head.blk THEN count
       ELSE IF ~Fits(e.num - head.num) THEN count
       ELSE LET size2 == size + Ent + e.nlen IN
            IF count > 0 /\ size2 > Cap THEN count
            ELSE IF count + 1 = (IF CountLimit = "M" THEN M ELSE M + 1) THEN count + 1
            ELSE Conseq(list, i + 1, head, size2, count + 1)

RECURSIVE NameSum(_, _)
NameSum(ents, k) == IF k = 0 THEN 0 ELSE ents[k].nlen + NameSum(ents, k - 1)

(* sqfs_dir_writer_end: sequence of runs [hdr: [count, blk, base], at: offset of the header, ents: <<[off, delta, nlen]>>] *)
RECURSIVE Runs(_, _, _)
Runs(list, i, off) ==
  IF i > Len(list) THEN <<>>
  ELSE LET start == IF SizeFromOffset THEN (off + Hdr) % Cap ELSE 0
           c == Conseq(list, i, list[i], start, 0)
           body == [k \in 1..c |-> [blk |-> list[i + k - 1].blk, delta |-> Wrap(list[i + k - 1].num - list[i].num), nlen |-> list[i + k - 1].nlen]]
           bytes == Hdr + c * Ent + NameSum(body, c)
       IN <<[count |-> c, blk |-> list[i].blk, base |-> list[i].num, at |-> off % Cap, pos |-> off, ents |-> body]>> \o Runs(list, i + c, off + bytes)

RECURSIVE Decode(_)
Decode(r) == IF r = <<>> THEN <<>>
             ELSE [k \in 1..Len(Head(r).ents) |-> [blk |-> Head(r).blk, num |-> Head(r).base + Head(r).ents[k].delta, nlen |-> Head(r).ents[k].nlen]] \o Decode(Tail(r))

VARIABLES input, runs          \* runs is computed once per input (TLC would re-evaluate the operator at every mention)
Inputs == IF Explicit # {} THEN Explicit
          ELSE [off : Offsets, ents : UNION {[1..n -> Entry] : n \in 1..MaxEntries}]
Init == input \in Inputs /\ runs = Runs(input.ents, 1, input.off)
Next == UNCHANGED <<input, runs>>
Spec == Init /\ [][Next]_<<input, runs>>

R == runs
RoundTrip == Decode(runs) = input.ents
CountsOK == \A i \in 1..Len(R) : R[i].count >= 1 /\ R[i].count <= M
OneBlockPerRun == \A i \in 1..Len(R) : \A k \in 1..R[i].count : R[i].ents[k].blk = R[i].blk
(* a run that holds more than one entry lies inside one metadata block of the directory table *)
RunInsideBlock == \A i \in 1..Len(R) :
                    LET sz == ((R[i].at + Hdr) % Cap) + R[i].count * Ent + NameSum(R[i].ents, R[i].count)
                    IN R[i].count > 1 => sz <= Cap
(* the directory index of the extended inode (add_header): one entry per run - byte offset of the header inside the listing, the metadata block *)
(* of the directory table in which the header STARTS (counted from the block the listing starts in), the name of the run's first entry           *)
Index == [i \in 1..Len(R) |-> [index |-> R[i].pos - input.off,
                               blkno |-> (IF IndexAfterHeader THEN R[i].pos + Hdr ELSE R[i].pos) \div Cap,
                               nlen |-> R[i].ents[1].nlen]]
IndexPointsAtHeaders == \A i \in 1..Len(R) : Index[i].blkno = R[i].pos \div Cap /\ (i > 1 => Index[i].index > Index[i - 1].index)
EmitOK == Emit => PrintT(<<"RESULT", ToJson([input |-> input, runs |-> [i \in 1..Len(R) |-> [count |-> R[i].count, blk |-> R[i].blk, base |-> R[i].base]], index |-> Index])>>)
=============================================================================
