------------------------------- MODULE Stream -------------------------------
(* Buffered input stream of the tools: lib/sqfs/src/io/istream.c (file_istream: precache = compact + *)
(* refill loop around read(), get_buffered_data, advance_buffer) under sqfs_istream_read / skip        *)
(* (stream_api.c), against an operating system that answers a read of n bytes with any count 1..n,     *)
(* with EINTR, or with 0 at end of file (property C12).                                                *)
(* File = sequence 1..FileLen (distinct values, so delivered data can be compared by position).        *)
(* One action per loop iteration; the OS answer is a nondeterministic choice inside the action.        *)
EXTENDS Naturals, Sequences, TLC, Json
CONSTANTS BUFSZ, FileLen, Requests, MaxEintr, Dev, Emit,
          ProbeFirst      \* > 0: before the requests the consumer looks at the stream once with get_buffered_data(ProbeFirst) and consumes nothing
                          \* (lib/tar/src/iterator.c tar_iterator_create: format / compressor detection from the first 512 bytes)
VARIABLES pos,            \* file position of the descriptor
          buf, boff, eof, \* buffer contents (Len(buf) = buffer_used), buffer_offset, eof flag
          pc, want, got,  \* consumer: "idle" | "loop" | "refill" | "copy"; current request, bytes so far
          reqs,           \* remaining requests (sizes)
          delivered,      \* everything handed to the consumer so far
          results,        \* per finished request: number of bytes returned
          eintr, script,  \* EINTR budget used; history of OS answers (for replay)
          orig,           \* the request sequence of this behaviour
          mode, peeked    \* "probe" until the single look is done, then "read"; number of bytes the look could see (999 = not yet)
vars == <<pos, buf, boff, eof, pc, want, got, reqs, delivered, results, eintr, script, orig, mode, peeked>>
File == [i \in 1..FileLen |-> i]
Avail == Len(buf) - boff
Min(a, b) == IF a < b THEN a ELSE b

Init == /\ pos = 0 /\ buf = <<>> /\ boff = 0 /\ eof = FALSE /\ pc = "idle" /\ want = 0 /\ got = 0
        /\ reqs \in Requests /\ orig = reqs /\ delivered = <<>> /\ results = <<>> /\ eintr = 0 /\ script = <<>>
        /\ mode = (IF ProbeFirst > 0 THEN "probe" ELSE "read") /\ peeked = 999

StartProbe == /\ pc = "idle" /\ mode = "probe" /\ peeked = 999
              /\ want' = ProbeFirst /\ got' = 0 /\ pc' = "loop"
              /\ UNCHANGED <<pos, buf, boff, eof, reqs, delivered, results, eintr, script, orig, mode, peeked>>

Start == /\ pc = "idle" /\ reqs # <<>> /\ mode = "read"
         /\ want' = Head(reqs) /\ got' = 0 /\ reqs' = Tail(reqs) /\ pc' = "loop"
         /\ UNCHANGED <<pos, buf, boff, eof, delivered, results, eintr, script, orig, mode, peeked>>

(* sqfs_istream_read loop head + file_get_buffered_data: decide whether precache is needed *)
LoopHead ==
  /\ pc = "loop"
  /\ IF got = want
     THEN /\ pc' = "idle" /\ results' = Append(results, got) /\ UNCHANGED <<buf, boff>>
     ELSE LET w == Min(want - got, BUFSZ) IN
          IF (Len(buf) = 0 \/ Avail < w) /\ ~eof
          THEN /\ buf' = (IF Dev = "RefillDropsTail" THEN <<>> ELSE SubSeq(buf, boff + 1, Len(buf)))   \* compact
               /\ boff' = 0 /\ pc' = "refill" /\ UNCHANGED results
          ELSE /\ pc' = "copy" /\ UNCHANGED <<buf, boff, results>>
  /\ UNCHANGED <<pos, eof, want, got, reqs, delivered, eintr, script, orig, mode, peeked>>

(* one iteration of the read() loop in precache *)
Refill ==
  /\ pc = "refill"
  /\ IF Len(buf) >= BUFSZ
     THEN pc' = "copy" /\ UNCHANGED <<pos, buf, eof, eintr, script>>
     ELSE \/ /\ eintr < MaxEintr /\ eintr' = eintr + 1 /\ script' = Append(script, "E")             \* EINTR
             /\ (IF Dev = "EintrIsError" THEN pc' = "error" ELSE UNCHANGED pc)
             /\ UNCHANGED <<pos, buf, eof>>
          \/ /\ pos = FileLen /\ eof' = TRUE /\ pc' = "copy" /\ script' = Append(script, 0)          \* read() = 0
             /\ UNCHANGED <<pos, buf, eintr>>
          \/ /\ pos < FileLen
             /\ \E k \in 1..(BUFSZ - Len(buf)) :
                  /\ k <= FileLen - pos
                  /\ buf' = buf \o SubSeq(File, pos + 1, pos + k) /\ pos' = pos + k
                  /\ script' = Append(script, k)
                  /\ IF Dev = "ShortReadIsEOF" /\ k < BUFSZ - Len(buf)
                     THEN eof' = TRUE /\ pc' = "copy"
                     ELSE IF Dev = "PrecacheSingleRead" THEN pc' = "copy" /\ UNCHANGED eof        \* "readers loop anyway"
                     ELSE UNCHANGED <<eof, pc>>
             /\ UNCHANGED eintr
  /\ UNCHANGED <<boff, want, got, reqs, delivered, results, orig, mode, peeked>>

(* get_buffered_data returns; memcpy + advance_buffer *)
CopyRead ==
  IF eof /\ Avail = 0
  THEN /\ pc' = "idle" /\ results' = Append(results, got) /\ UNCHANGED <<buf, boff, got, delivered>>
  ELSE LET d == Min(Avail, want - got) IN
       /\ delivered' = delivered \o SubSeq(buf, boff + 1, boff + d) /\ got' = got + d
       /\ (IF d < Avail THEN boff' = boff + d /\ UNCHANGED buf ELSE boff' = 0 /\ buf' = <<>>)
       /\ pc' = "loop" /\ UNCHANGED results
Copy ==
  /\ pc = "copy"
  /\ IF mode = "probe"
     THEN /\ peeked' = Avail /\ mode' = "read" /\ pc' = "idle" /\ UNCHANGED <<buf, boff, got, delivered, results>>        \* look, consume nothing
     ELSE /\ UNCHANGED <<mode, peeked>> /\ CopyRead
  /\ UNCHANGED <<pos, eof, want, reqs, eintr, script, orig>>

Done == pc = "idle" /\ reqs = <<>>
Next == StartProbe \/ Start \/ LoopHead \/ Refill \/ Copy \/ (Done /\ UNCHANGED vars)
Spec == Init /\ [][Next]_vars
FairSpec == Spec /\ WF_vars(StartProbe) /\ WF_vars(Start) /\ WF_vars(LoopHead) /\ WF_vars(Refill) /\ WF_vars(Copy)

(* what an OS that always completes requests would have delivered: the property *)
PrefixOK == delivered = SubSeq(File, 1, Len(delivered))
NoError  == pc # "error"
RECURSIVE Ideal(_, _)
Ideal(rs, p) == IF rs = <<>> THEN <<>> ELSE LET n == Min(Head(rs), FileLen - p) IN <<n>> \o Ideal(Tail(rs), p + n)
SplitIndependent == Done => results = Ideal(orig, 0)
(* a single look at the stream shows what a complete read would: callers that sniff a magic number do not loop *)
ProbeComplete == peeked # 999 => peeked >= Min(Min(ProbeFirst, BUFSZ), FileLen)
Terminates == <>Done
EmitOK == (Emit /\ Done) => PrintT(<<"RESULT", ToJson([script |-> script, reqs |-> orig, results |-> results, ndelivered |-> Len(delivered), probe |-> ProbeFirst, peeked |-> peeked])>>)
=============================================================================
