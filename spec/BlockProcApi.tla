---------------------------- MODULE BlockProcApi ----------------------------
(* The call protocol of the block processor front end (lib/sqfs/src/block_processor/frontend.c, block_processor.c):            *)
(* begin_file / append / end_file / submit_block / sync / finish in ANY order, legal or not.  Every call has a specified result *)
(* (0, SEQUENCE, OVERFLOW, UNSUPPORTED); a refused call changes nothing; every file that was begun and ended holds exactly the    *)
(* bytes appended in between - full blocks + one tail fragment, or (DONT_FRAGMENT) a short last block; manually submitted       *)
(* blocks are written once each.  BlockProc.tla models the legal sequences down to the backend; this module is the envelope.    *)
(* Unit = 1/4 block.  Every append carries fresh bytes (no deduplication, no zero blocks).                                      *)
EXTENDS Naturals, Sequences, FiniteSets, TLC, Json
CONSTANTS MaxCalls, Emit,
          OpSet,                \* the calls the sequences are made of (all of Ops, or a subset for longer sequences)
          EndKeepsBegun,        \* deviation: end_file leaves begin_called set
          SubmitIgnoresBegun    \* deviation: submit_block does not look at begin_called (a manual block lands between the blocks of a file)

Ops == {"B0", "BF", "BX", "A1", "A4", "A5", "E", "M1", "M4", "M5", "MX", "S", "F"}
Units(op) == CASE op \in {"A1", "M1", "MX"} -> 1 [] op \in {"A4", "M4"} -> 4 [] op \in {"A5", "M5"} -> 5 [] OTHER -> 0

VARIABLES begun, df, units,      \* the open file: DONT_FRAGMENT, units appended so far
          files,                 \* ended files: [units, nblk, frag]
          manual,                \* accepted manual blocks (units), in order
          inFileManual,          \* ghost: a manual block was accepted while a file was open
          stats,                 \* sqfs_block_processor_get_stats: units read by append, data blocks handed to the writer (full blocks as they fill up,
                                 \* the short last block of a DONT_FRAGMENT file, manual blocks), files that ended in a tail fragment
          log                    \* <<op, result>>
vars == <<begun, df, units, files, manual, inFileManual, stats, log>>
Init == begun = FALSE /\ df = FALSE /\ units = 0 /\ files = <<>> /\ manual = <<>> /\ inFileManual = FALSE /\ log = <<>>
        /\ stats = [input |-> 0, dblk |-> 0, frags |-> 0]

Result(op) ==
  CASE op \in {"B0", "BF", "BX"} -> (IF begun THEN "SEQUENCE" ELSE IF op = "BX" THEN "UNSUPPORTED" ELSE "OK")
    [] op \in {"A1", "A4", "A5", "E"} -> (IF begun THEN "OK" ELSE "SEQUENCE")
    [] op \in {"M1", "M4", "M5", "MX"} -> (IF begun /\ ~SubmitIgnoresBegun THEN "SEQUENCE" ELSE IF op = "M5" THEN "OVERFLOW" ELSE IF op = "MX" THEN "UNSUPPORTED" ELSE "OK")
    [] OTHER -> "OK"
Ended == [units |-> units, nblk |-> IF df THEN (units + 3) \div 4 ELSE units \div 4, frag |-> (~df /\ (units % 4) # 0)]
Call(op) ==
  /\ Len(log) < MaxCalls
  /\ log' = Append(log, <<op, Result(op)>>)
  /\ stats' = IF Result(op) # "OK" THEN stats
               ELSE CASE op \in {"A1", "A4", "A5"} -> [stats EXCEPT !.input = @ + Units(op), !.dblk = @ + ((units + Units(op)) \div 4) - (units \div 4)]
                      [] op = "E" -> [stats EXCEPT !.dblk = @ + (IF df /\ units % 4 # 0 THEN 1 ELSE 0), !.frags = @ + (IF ~df /\ units % 4 # 0 THEN 1 ELSE 0)]
                      [] op \in {"M1", "M4"} -> [stats EXCEPT !.dblk = @ + 1]
                      [] OTHER -> stats
  /\ IF Result(op) # "OK" THEN UNCHANGED <<begun, df, units, files, manual, inFileManual>>
     ELSE CASE op \in {"B0", "BF"} -> begun' = TRUE /\ df' = (op = "BF") /\ units' = 0 /\ UNCHANGED <<files, manual, inFileManual>>
            [] op \in {"A1", "A4", "A5"} -> units' = units + Units(op) /\ UNCHANGED <<begun, df, files, manual, inFileManual>>
            [] op = "E" -> files' = Append(files, Ended) /\ begun' = EndKeepsBegun /\ units' = 0 /\ UNCHANGED <<df, manual, inFileManual>>
            [] op \in {"M1", "M4"} -> manual' = Append(manual, Units(op)) /\ inFileManual' = (inFileManual \/ begun) /\ UNCHANGED <<begun, df, units, files>>
            [] OTHER -> UNCHANGED <<begun, df, units, files, manual, inFileManual>>
Next == \E op \in OpSet : Call(op)
Spec == Init /\ [][Next]_vars

Count(P(_)) == Cardinality({i \in 1..Len(log) : P(log[i])})
OkBegin(e) == e[1] \in {"B0", "BF"} /\ e[2] = "OK"
OkEnd(e) == e[1] = "E" /\ e[2] = "OK"
BegunConsistent == begun = (Count(OkBegin) = Count(OkEnd) + 1) /\ (~begun => Count(OkBegin) = Count(OkEnd))
FilesAreEnds == Len(files) = Count(OkEnd)
(* the data blocks of one file are contiguous (C03): nothing else is written while a file is open *)
NothingBetweenBlocks == ~inFileManual
(* every unit accepted by append between begin and end is in exactly one place *)
(* the counters agree with what was stored: every data block of an ended file was counted *)
StatsCoverFiles == stats.dblk >= Len(manual) /\ stats.frags <= Len(files)
UnitsAccounted == \A i \in 1..Len(files) : LET f == files[i]  r == (f.units % 4)  full == IF f.frag \/ r = 0 THEN f.nblk ELSE f.nblk - 1 IN f.units = (4 * full) + r
EmitOK == (Emit /\ Len(log) = MaxCalls) => PrintT(<<"RESULT", ToJson([log |-> log, files |-> files, manual |-> manual, stats |-> stats])>>)
=============================================================================
