----------------------------- MODULE LinkGraph -----------------------------
(* Hard link resolution of the packers (lib/fstree/src/hardlink.c: fstree_resolve_hard_links / resolve_link), at the     *)
(* granularity of one loop iteration.  Nodes 1..N are names of one directory; each is a regular file, a directory or a   *)
(* hard link to another name (or to a name that does not exist, 0).  Links are declared in some order; the unresolved     *)
(* list is LIFO (fstree.c prepends), the model takes ANY order.  Resolving a link walks the chain: a link that was         *)
(* resolved before is a short cut to its final node; a second pointer follows at half speed (cycle that does not contain   *)
(* the start), the start itself is recognised directly.                                                                     *)
(* Properties (C07: "cyclic or dangling hard links never cause ... an endless loop"; C01: hard-link groups):               *)
(*   Terminates  every walk ends within 2N+2 iterations                                                                     *)
(*   Correct     the run succeeds iff every chain ends in something that is not a link and not a directory; then every      *)
(*               link points at the end of its chain and the link counts are the sizes of the groups                        *)
EXTENDS Naturals, Sequences, FiniteSets, TLC, Json
CONSTANTS N, Emit,
          CycleCheck       \* "halfspeed" (as built) | deviations: "startonly" (pinned tree before fix 3886cb8: hangs), "window" (a mark moved to
                           \* the current node every other hop: never inside a cycle of length >= 3), "everyhop" (second pointer at full speed: refuses chains)

Node == 1..N
File == N + 1
Dir == N + 2
Kinds == 0..(N + 2)                                   \* 0..N: hard link to that name (0 = a name that does not exist); File; Dir
IsLink(k) == k <= N
Tgt(k) == k

(* ---- declarative meaning ---- *)
RECURSIVE ChainEnd(_, _, _)
ChainEnd(g, n, fuel) ==                               \* node the chain from n ends in; 0 = dangling; N + 1 = cycle
  IF ~IsLink(g[n]) THEN n
  ELSE IF Tgt(g[n]) = 0 THEN 0
  ELSE IF fuel = 0 THEN N + 1
  ELSE ChainEnd(g, Tgt(g[n]), fuel - 1)
End(g, n) == ChainEnd(g, n, N)
Good(g) == \A n \in Node : IsLink(g[n]) => (End(g, n) \in Node /\ g[End(g, n)] = File)
Group(g, n) == {m \in Node : IsLink(g[m]) /\ End(g, m) = n}

VARIABLES g,            \* Node -> Kinds
          todo,         \* sequence of links still unresolved (head = next)
          res,          \* Node -> resolved target (0 = not resolved)
          nlink,        \* Node -> number of links resolved to it
          pc,           \* "pick" | "walk" | "ok" | "err"
          start, node, slow, hops, total
vars == <<g, todo, res, nlink, pc, start, node, slow, hops, total>>

Perms(S) == {s \in [1..Cardinality(S) -> S] : \A i, j \in 1..Cardinality(S) : i # j => s[i] # s[j]}
Init == /\ g \in [Node -> Kinds]
        /\ todo \in Perms({n \in Node : IsLink(g[n])})
        /\ res = [n \in Node |-> 0] /\ nlink = [n \in Node |-> 0]
        /\ pc = "pick" /\ start = 0 /\ node = 0 /\ slow = 0 /\ hops = 0 /\ total = 0

Pick == /\ pc = "pick"
        /\ IF todo = <<>> THEN pc' = "ok" /\ UNCHANGED <<start, node, slow, hops, todo>>
           ELSE /\ pc' = "walk" /\ start' = Head(todo) /\ node' = Head(todo) /\ slow' = Head(todo) /\ hops' = 0
                /\ UNCHANGED todo
        /\ UNCHANGED <<g, res, nlink, total>>

Follow(n) == IF res[n] # 0 THEN res[n] ELSE Tgt(g[n])      \* 0 = the path does not exist

Finish == /\ pc = "walk" /\ ~IsLink(g[node])
          /\ IF g[node] = Dir THEN pc' = "err" /\ UNCHANGED <<res, nlink, todo>>
             ELSE /\ res' = [res EXCEPT ![start] = node]
                  /\ nlink' = [nlink EXCEPT ![node] = @ + 1]
                  /\ todo' = Tail(todo) /\ pc' = "pick"
          /\ UNCHANGED <<g, start, node, slow, hops, total>>

Hop == /\ pc = "walk" /\ IsLink(g[node])
       /\ total' = total + 1
       /\ LET nxt == Follow(node) IN
          IF nxt = 0 THEN pc' = "err" /\ UNCHANGED <<node, slow, hops>>
          ELSE IF nxt = start THEN pc' = "err" /\ node' = nxt /\ UNCHANGED <<slow, hops>>
          ELSE LET h == hops + 1
                   s2 == CASE CycleCheck = "halfspeed" -> IF h % 2 = 0 THEN Follow(slow) ELSE slow
                           [] CycleCheck = "everyhop" -> Follow(slow)
                           [] CycleCheck = "window" -> slow                 \* compared first, moved afterwards
                           [] OTHER -> 0
                   meet == CASE CycleCheck = "startonly" -> FALSE
                             [] OTHER -> nxt = s2
               IN /\ node' = nxt /\ hops' = h
                  /\ slow' = IF CycleCheck = "window" /\ ~meet /\ h % 2 = 0 THEN nxt ELSE s2
                  /\ pc' = IF meet THEN "err" ELSE "walk"
       /\ UNCHANGED <<g, todo, res, nlink, start>>

Done == pc \in {"ok", "err"} /\ UNCHANGED vars
Next == Pick \/ Finish \/ Hop \/ Done
Spec == Init /\ [][Next]_vars
FairSpec == Spec /\ WF_vars(Pick \/ Finish \/ Hop)

Terminates == hops <= 2 * N + 2
Eventually == <>(pc \in {"ok", "err"})
Correct == /\ (pc = "ok" => /\ Good(g)
                            /\ \A n \in Node : IsLink(g[n]) => res[n] = End(g, n)
                            /\ \A n \in Node : ~IsLink(g[n]) => nlink[n] = Cardinality(Group(g, n)))
           /\ (pc = "err" => ~Good(g))
OrderFree == pc \in {"ok", "err"} => (pc = "ok") = Good(g)          \* whatever the order of the unresolved list
WorkBound == total <= N * (2 * N + 2)
EmitOK == (Emit /\ pc = "pick" /\ total = 0 /\ start = 0 /\ \A i \in 1..(Len(todo) - 1) : todo[i] < todo[i + 1]) =>      \* once per graph
            PrintT(<<"RESULT", ToJson([g |-> g,
                                        good |-> Good(g), groups |-> [n \in Node |-> Cardinality(Group(g, n))]])>>)
=============================================================================
