------------------------------ MODULE FailStop ------------------------------
(* Fail-stop behaviour of the tools (property C13).  A run is a sequence of fallible steps           *)
(* (allocation, open, read-like, write-like, truncate/fsync), one of which is hit by an injected       *)
(* fault; the code reacts per step with one of the handlers found in the sources:                      *)
(*   "propagate"  return the error up, clean up (packers: unlink the output), diagnostic, exit != 0    *)
(*   "retry"      EINTR on read/write/pread/pwrite: call again                                         *)
(*   "ignore"     drop the return value and carry on            (deviation / defect)                    *)
(*   "leave"      report and exit != 0 but leave the partial output behind   (deviation / defect)       *)
(*   "crash"      dereference the NULL / use the short buffer    (deviation / defect)                    *)
(* Outcome rule (the property): a run either exits 0 with exactly the fault-free output, or exits       *)
(* non-zero with a diagnostic and (packers) no output file; it never dies on a signal or hangs.         *)
(* The same rule, Allowed, judges the records of real faulted runs in TraceFailStop.                    *)
EXTENDS Naturals, Sequences, FiniteSets, TLC
CONSTANTS Steps,        \* sequence of [class, affectsOutput]: the fallible steps of one tool run
          Packer,       \* TRUE: the tool creates an output file that must be removed on failure
          Handler       \* [class -> [kind -> handler]]
Kinds == {"ERR", "EINTR", "EINTR_THEN_ERR", "NULL"}
KindsOf(c) == IF c = "alloc" THEN {"NULL"} ELSE IF c \in {"read", "write"} THEN {"ERR", "EINTR", "EINTR_THEN_ERR"} ELSE {"ERR"}

VARIABLES pc, faultAt, faultKind, retried, exit, signal, diag, outExists, outSame, done
vars == <<pc, faultAt, faultKind, retried, exit, signal, diag, outExists, outSame, done>>

Init == /\ pc = 1 /\ faultAt \in 1..Len(Steps) /\ faultKind \in KindsOf(Steps[faultAt].class)
        /\ retried = FALSE /\ exit = 0 /\ signal = FALSE /\ diag = FALSE
        /\ outExists = FALSE /\ outSame = TRUE /\ done = FALSE

Finish == /\ pc > Len(Steps) /\ ~done /\ done' = TRUE
          /\ UNCHANGED <<pc, faultAt, faultKind, retried, exit, signal, diag, outExists, outSame>>

StepOK == /\ pc <= Len(Steps) /\ ~done
          /\ (pc # faultAt \/ (retried /\ faultKind = "EINTR"))
          /\ pc' = pc + 1 /\ retried' = FALSE
          /\ outExists' = (outExists \/ Steps[pc].class = "open_out")
          /\ UNCHANGED <<faultAt, faultKind, exit, signal, diag, outSame, done>>

Fault == /\ pc <= Len(Steps) /\ ~done /\ pc = faultAt /\ ~(retried /\ faultKind = "EINTR")
         /\ LET c == Steps[pc].class
                k == IF retried THEN "ERR" ELSE IF faultKind = "EINTR_THEN_ERR" THEN "EINTR" ELSE faultKind
                h == Handler[c][k]
            IN CASE h = "retry" -> /\ retried' = TRUE
                                   /\ UNCHANGED <<pc, exit, signal, diag, outExists, outSame, done>>
                 [] h = "propagate" -> /\ exit' = 1 /\ diag' = TRUE /\ done' = TRUE
                                       /\ outExists' = (IF Packer THEN FALSE ELSE outExists)
                                       /\ UNCHANGED <<pc, retried, signal, outSame>>
                 [] h = "leave" -> /\ exit' = 1 /\ diag' = TRUE /\ done' = TRUE
                                   /\ UNCHANGED <<pc, retried, signal, outExists, outSame>>
                 [] h = "ignore" -> /\ pc' = pc + 1 /\ outSame' = (outSame /\ ~Steps[pc].affectsOutput)
                                    /\ UNCHANGED <<retried, exit, signal, diag, outExists, done>>
                 [] h = "crash" -> /\ signal' = TRUE /\ done' = TRUE
                                   /\ UNCHANGED <<pc, retried, exit, diag, outExists, outSame>>
         /\ UNCHANGED <<faultAt, faultKind>>

Next == StepOK \/ Fault \/ Finish \/ (done /\ UNCHANGED vars)
Spec == Init /\ [][Next]_vars

(* the outcome rule; r = [exit, signal, timeout, diag, outExists, outSame, packer, class, kind] *)
Allowed(r) ==
  /\ ~r.signal /\ ~r.timeout
  /\ IF r.exit = 0 THEN r.outSame
     ELSE r.diag /\ (r.packer => ~r.outExists)
  /\ ((r.kind = "EINTR" /\ r.class \in {"read", "write"}) => (r.exit = 0 /\ r.outSame))

FailStopOK == done => Allowed([exit |-> exit, signal |-> signal, timeout |-> FALSE, diag |-> diag, outExists |-> outExists,
                               outSame |-> outSame, packer |-> Packer, class |-> Steps[faultAt].class, kind |-> faultKind])
=============================================================================
