------------------------------ MODULE TarOpts ------------------------------
(* The path-transforming options of the two converters (property C04):                                          *)
(*   tar2sqfs --root-becomes R [--no-symlink-retarget]        bin/tar2sqfs/src/process_tarball.c                  *)
(*   sqfs2tar --subdir D ... [--keep-as-dir] [--root-becomes N] [--no-hard-links]   bin/sqfs2tar/src/iterator.c   *)
(* Paths are sequences over the components {"r", "x", "y"}.  An archive / image is a sequence of entries in      *)
(* name order (parents first).  Symlink targets are named strings with three given facts each: the canonical     *)
(* form (or "fail"), whether that form lies below "r/", and the rest behind "r".                                  *)
EXTENDS Naturals, Sequences, FiniteSets, TLC, Json
CONSTANTS Emit, MaxEntries,
          Side,                   \* "t2s": archives x tar2sqfs options;  "s2t": the fixed image x sqfs2tar options
          CanonMutatesTarget,     \* deviation (pinned tree before the fix): canonicalize_name() runs on the target itself, so targets
                                  \* that are NOT below the new root come out normalised (absolute -> relative, '//' and './' removed)
          NoRetargetCoversHardLinks   \* deviation: --no-symlink-retarget also leaves HARD link targets alone (they name archive members and
                                      \* have to follow the members to their new place, whatever -S says)

IsPrefix(p, q) == Len(p) <= Len(q) /\ SubSeq(q, 1, Len(p)) = p
Drop(p, n) == SubSeq(p, n + 1, Len(p))

(* ---- symlink targets ---- *)
Targets == {"x", "/etc", "r/x", "/r/x", "r", "rr/x", "../x", "r//x", "y//x", "./x"}
Canon(t) == CASE t = "/etc" -> "etc" [] t = "/r/x" -> "r/x" [] t = "r//x" -> "r/x" [] t = "y//x" -> "y/x" [] t = "./x" -> "x"
              [] t = "../x" -> "fail" [] OTHER -> t
BelowR(c) == c \in {"r/x"}                              \* canonical form starts with "r/"
Rest(c) == "/x"                                         \* what is left behind "r" (all prefixed forms here end in /x)
Retarget(t, noRetarget) ==                              \* documented: adjusted iff prefixed by the root path, else left untouched
  IF noRetarget THEN t
  ELSE IF Canon(t) # "fail" /\ BelowR(Canon(t)) THEN Rest(Canon(t))
  ELSE IF CanonMutatesTarget /\ Canon(t) # "fail" THEN Canon(t)
  ELSE t

(* ---- tar2sqfs --root-becomes r ---- *)
Comp == {"r", "x", "y"}
Paths == {<<"r">>, <<"r", "x">>, <<"r", "y">>, <<"x">>, <<"y">>, <<"y", "x">>, <<"r", "x", "y">>}
HTargets == {"r/x", "x"}                                \* hard link targets: the member r/x (below the new root) or x (outside)
HPath(t) == IF t = "r/x" THEN <<"r", "x">> ELSE <<"x">>
Entry == [path : Paths, kind : {"dir", "file"}, tgt : {"-"}] \cup [path : Paths, kind : {"slink"}, tgt : Targets]
         \cup [path : Paths, kind : {"hlink"}, tgt : HTargets]
Root == <<"r">>
T2S(arch, rootBecomes, noRetarget) ==       \* sequence of output entries [path, kind, tgt]; path <<>> = attributes of the image root
  IF ~rootBecomes THEN arch
  ELSE LET kept == SelectSeq(arch, LAMBDA e : IsPrefix(Root, e.path)) IN
       [i \in 1..Len(kept) |->
          [path |-> Drop(kept[i].path, 1), kind |-> kept[i].kind,
           tgt |-> IF kept[i].kind = "slink" THEN Retarget(kept[i].tgt, noRetarget)
                   ELSE IF kept[i].kind = "hlink"
                   THEN (IF kept[i].tgt = "r/x" /\ ~(NoRetargetCoversHardLinks /\ noRetarget) THEN "x" ELSE kept[i].tgt)      \* follows the member, -S or not
                   ELSE "-"]]
(* the entry that equals the new root must be a directory, else the run is refused *)
T2SRefused(arch, rootBecomes) ==
  \/ rootBecomes /\ \E i \in 1..Len(arch) : arch[i].path = Root /\ arch[i].kind # "dir"
  \/ rootBecomes /\ \E i \in 1..Len(arch) : arch[i].kind = "hlink" /\ IsPrefix(Root, arch[i].path) /\ arch[i].tgt = "x"     \* the member it names is dropped: dangling

(* ---- sqfs2tar --subdir ... --keep-as-dir --root-becomes n ---- *)
(* image: the fixed tree  r/ r/x r/y(=hard link of r/x) x y/ y/x ; entries in scan order *)
Img == << [path |-> <<"r">>, kind |-> "dir", ino |-> 1], [path |-> <<"r", "x">>, kind |-> "file", ino |-> 2],
          [path |-> <<"r", "y">>, kind |-> "file", ino |-> 2], [path |-> <<"x">>, kind |-> "file", ino |-> 3],
          [path |-> <<"y">>, kind |-> "dir", ino |-> 4], [path |-> <<"y", "x">>, kind |-> "file", ino |-> 2] >>
SubdirSets == {{}, {<<"r">>}, {<<"y">>}, {<<"r">>, <<"y">>}, {<<"r", "x">>}, {<<"y">>, <<"x">>}}
KeepEntry(p, subs) == subs = {} \/ \E s \in subs : IsPrefix(p, s) \/ IsPrefix(s, p)
Single(subs, keepAsDir) == Cardinality(subs) = 1 /\ ~keepAsDir
TheSub(subs) == CHOOSE s \in subs : TRUE
S2T(subs, keepAsDir, rootName, noLinks) ==      \* sequence of [path, kind, link]: link = path of the first name of the same inode, or <<>>
  LET kept0 == SelectSeq(Img, LAMBDA e : KeepEntry(e.path, subs))
      kept1 == IF Single(subs, keepAsDir) THEN SelectSeq(kept0, LAMBDA e : Len(e.path) > Len(TheSub(subs))) ELSE kept0
      strip(p) == IF Single(subs, keepAsDir) THEN Drop(p, Len(TheSub(subs))) ELSE p
      pre(p) == IF rootName = "-" THEN p ELSE <<rootName>> \o p
      out == [i \in 1..Len(kept1) |-> [path |-> pre(strip(kept1[i].path)), kind |-> kept1[i].kind, ino |-> kept1[i].ino]]
      first(i) == CHOOSE j \in 1..i : out[j].ino = out[i].ino /\ \A k \in 1..(j - 1) : out[k].ino # out[i].ino
      body == [i \in 1..Len(out) |->
                 [path |-> out[i].path, kind |-> out[i].kind,
                  link |-> IF ~noLinks /\ out[i].kind = "file" /\ first(i) # i THEN out[first(i)].path ELSE <<>>]]
  IN (IF rootName = "-" THEN <<>> ELSE << [path |-> <<rootName>>, kind |-> "dir", link |-> <<>>] >>) \o body

(* ---- tar2sqfs attribute options: --no-keep-time (-k) and --no-xattr (-x), with and without --root-becomes ---- *)
(* one archive entry with a time stamp and possibly an xattr; directories that are only implied get the defaults (time 0) *)
(* time stamps are symbolic: "5" in range, "big" = 2^33 + 5 (PAX / base-256), "neg" = -86400; the image holds 32 bit unsigned seconds, *)
(* out of range values are clamped ("max" = 2^32 - 1, "0").  late = the entry is a directory whose record comes AFTER one of its      *)
(* children, i.e. the directory exists implicitly by the time its own attributes arrive.                                              *)
AEntry == [path : {<<"r">>, <<"r", "x">>, <<"y", "x">>}, kind : {"dir", "file"}, mtime : {"5", "big", "neg"}, xa : BOOLEAN, late : BOOLEAN]
Clamp(m) == CASE m = "big" -> "max" [] m = "neg" -> "0" [] OTHER -> m
T2SAttr(e, rootBecomes, noKeepTime, noXattr) ==      \* set of [path, mtime, xa, implicit] in the image; path <<>> = the root inode
  LET kept == ~rootBecomes \/ IsPrefix(Root, e.path)
      p == IF rootBecomes THEN Drop(e.path, 1) ELSE e.path
      own == [path |-> p, mtime |-> (IF noKeepTime THEN "0" ELSE Clamp(e.mtime)), xa |-> (e.xa /\ ~noXattr), implicit |-> FALSE]
      parents == {[path |-> SubSeq(p, 1, k), mtime |-> "0", xa |-> FALSE, implicit |-> TRUE] : k \in 0..(Len(p) - 1)}
  IN IF ~kept THEN {[path |-> <<>>, mtime |-> "0", xa |-> FALSE, implicit |-> TRUE]}
     ELSE {own} \cup {q \in parents : q.path # p}
AttrRefused(e, rootBecomes) == rootBecomes /\ e.path = Root /\ e.kind # "dir"

(* ---- properties of the specification itself ---- *)
VARIABLES arch, rb, nr, subs, kad, rn, nl, ae, nk, nx
vars == <<arch, rb, nr, subs, kad, rn, nl, ae, nk, nx>>
AE0 == [path |-> <<"r">>, kind |-> "dir", mtime |-> "5", xa |-> FALSE, late |-> FALSE]
WellFormed(a) == /\ \A i, j \in 1..Len(a) : i # j => a[i].path # a[j].path
                 /\ \A j \in 1..Len(a) : a[j].kind = "hlink" => \E i \in 1..(j - 1) : a[i].kind = "file" /\ a[i].path = HPath(a[j].tgt)      \* a hard link names an earlier regular member
                 /\ \A i, j \in 1..Len(a) : (i # j /\ IsPrefix(a[i].path, a[j].path)) => (a[i].kind = "dir" /\ i < j)   \* parents are directories and come first
A1 == << [path |-> <<"x">>, kind |-> "file", tgt |-> "-"] >>
Init == IF Side = "t2s"
        THEN /\ \E k \in 1..MaxEntries : arch \in [1..k -> Entry]
             /\ WellFormed(arch)
             /\ rb \in BOOLEAN /\ nr \in BOOLEAN
             /\ subs = {} /\ kad = FALSE /\ rn = "-" /\ nl = FALSE /\ ae = AE0 /\ nk = FALSE /\ nx = FALSE
        ELSE IF Side = "attr"
        THEN /\ arch = A1 /\ nr = FALSE /\ subs = {} /\ kad = FALSE /\ rn = "-" /\ nl = FALSE
             /\ ae \in AEntry /\ (ae.late => ae.kind = "dir") /\ rb \in BOOLEAN /\ nk \in BOOLEAN /\ nx \in BOOLEAN
        ELSE /\ arch = A1 /\ rb = FALSE /\ nr = FALSE /\ ae = AE0 /\ nk = FALSE /\ nx = FALSE
             /\ subs \in SubdirSets /\ kad \in BOOLEAN /\ rn \in {"-", ".", "n"} /\ nl \in BOOLEAN
Next == UNCHANGED vars
Spec == Init /\ [][Next]_vars
(* a target that does not lie below the new root is stored byte for byte *)
HardLinksFollow == T2SRefused(arch, rb) \/ \A i \in 1..Len(T2S(arch, rb, nr)) :
                     LET e == T2S(arch, rb, nr)[i] IN
                     e.kind = "hlink" => \E j \in 1..Len(T2S(arch, rb, nr)) : T2S(arch, rb, nr)[j].kind = "file" /\ T2S(arch, rb, nr)[j].path = HPath(e.tgt)
TargetsUntouched == \A i \in 1..Len(T2S(arch, rb, nr)) :
                      LET e == T2S(arch, rb, nr)[i] IN
                      e.kind = "slink" => \E a \in 1..Len(arch) : arch[a].kind = "slink" /\
                                            (e.tgt = arch[a].tgt \/ (rb /\ ~nr /\ Canon(arch[a].tgt) # "fail" /\ BelowR(Canon(arch[a].tgt)) /\ e.tgt = Rest(Canon(arch[a].tgt))))
(* every hard link in the archive names an entry of the archive that comes earlier *)
LinksResolve == LET o == S2T(subs, kad, rn, nl) IN
                \A i \in 1..Len(o) : o[i].link # <<>> => \E j \in 1..(i - 1) : o[j].path = o[i].link /\ o[j].link = <<>>
(* selecting everything and prefixing it with n, then making n the root again, gives the image back *)
RoundTripShape == LET o == S2T({}, FALSE, "n", nl) IN
                  [i \in 1..(Len(o) - 1) |-> Drop(o[i + 1].path, 1)] = [i \in 1..Len(Img) |-> Img[i].path]
(* the options only ever remove information: with -k no archive time stamp, with -x no xattr reaches the image *)
AttrOptionsHonoured == \A n \in T2SAttr(ae, rb, nk, nx) : (nk => n.mtime = "0") /\ (nx => ~n.xa) /\ (n.implicit => (n.mtime = "0" /\ ~n.xa))
                                                        /\ n.mtime \in {"0", "5", "max"}          \* always representable in 32 bit
EmitAttr == Emit => PrintT(<<"ATTR", ToJson([e |-> ae, rb |-> rb, nk |-> nk, nx |-> nx, refused |-> AttrRefused(ae, rb), out |-> T2SAttr(ae, rb, nk, nx)])>>)
EmitOK == Emit => PrintT(<<"RESULT", ToJson([arch |-> arch, rb |-> rb, nr |-> nr, refused |-> T2SRefused(arch, rb), out |-> T2S(arch, rb, nr)])>>)
EmitS2T == Emit => PrintT(<<"S2T", ToJson([subs |-> subs, kad |-> kad, rn |-> rn, nl |-> nl, out |-> S2T(subs, kad, rn, nl)])>>)
=============================================================================
