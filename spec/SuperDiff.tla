----------------------------- MODULE SuperDiff -----------------------------
(* sqfsdiff --super (bin/sqfsdiff/src/super.c compare_super_blocks), outside the 19 properties: after the trees compared equal, *)
(* the two super blocks are compared; every differing field gives one line, in a fixed order; status 1 iff the 96 bytes differ. *)
(* A super block here: counts and sizes as numbers, table locations as opaque strings (only equality matters), flags as a set   *)
(* of bit numbers 0..15, 'rest' = the fields that are never printed (magic, version).                                           *)
EXTENDS Naturals, Integers, Sequences, FiniteSets, TLC, Json
CONSTANTS Emit,
          Pairs,              \* concrete pairs <<a, b>> (decoded from real images by the independent decoder); <<>> = use the abstract domain
          HeaderOnlyWhenPrinted   \* deviation: the banner is printed only if some printed field differs (status still from memcmp)

FlagNames == <<"uncompressed inodes", "uncompressed data", "", "uncompressed fragments", "no fragments", "always fragments", "no duplicates",
               "exportable", "uncompressed xattrs", "no xattrs", "compressor options", "uncompressed ids">>          \* bit 2 (check) has no name
Named == {i \in 0..11 : FlagNames[i + 1] # ""}
ValueFields == <<"inode count", "modification time", "block size", "block log", "fragment table entries", "ID table entries">>
ValueKeys == <<"inodes", "mtime", "bs", "blog", "frags", "ids">>
OffsetFields == <<"root inode", "ID table", "xattr ID table", "inode table", "directory table", "fragment table", "export table">>
OffsetKeys == <<"root", "idt", "xat", "ino", "dir", "frt", "exp">>
CompName(c) == CASE c = 1 -> "gzip" [] c = 2 -> "lzma" [] c = 3 -> "lzo" [] c = 4 -> "xz" [] c = 5 -> "lz4" [] c = 6 -> "zstd" [] OTHER -> "(null)"

ValLine(name, x, y) == IF x = y THEN <<>> ELSE IF x < y THEN <<name \o ": +" \o ToString(y - x)>> ELSE <<name \o ": -" \o ToString(x - y)>>
OffLine(name, x, y) == IF x = y THEN <<>> ELSE <<"Location of " \o name \o " differs">>
RECURSIVE Cat(_, _)
Cat(f(_), n) == IF n = 0 THEN <<>> ELSE Cat(f, n - 1) \o f(n)
FlagLines(fa, fb) ==
  LET diff == (fa \ fb) \cup (fb \ fa)
      named(i) == IF (i - 1) \in Named /\ (i - 1) \in diff THEN <<"\t" \o (IF (i - 1) \in fa THEN "<" ELSE ">") \o FlagNames[i]>> ELSE <<>>
      unk(i) == IF (i - 1) \notin Named /\ (i - 1) \in diff THEN <<"\t" \o (IF (i - 1) \in fa THEN "<" ELSE ">") \o " additional unknown">> ELSE <<>>
  IN IF diff = {} THEN <<>> ELSE <<"flags:">> \o Cat(named, 12) \o Cat(unk, 16)
Body(a, b) ==
  LET vals(i) == ValLine(ValueFields[i], a[ValueKeys[i]], b[ValueKeys[i]])
      offs(i) == OffLine(OffsetFields[i], a[OffsetKeys[i]], b[OffsetKeys[i]])
  IN Cat(vals, 6)
     \o (IF a.comp = b.comp THEN <<>> ELSE <<"compressor: " \o CompName(a.comp) \o " vs " \o CompName(b.comp)>>)
     \o FlagLines(a.flags, b.flags)
     \o ValLine("total bytes used", a.used, b.used)
     \o Cat(offs, 7)
Report(a, b) ==
  IF a = b THEN [status |-> 0, lines |-> <<>>]
  ELSE [status |-> 1, lines |-> (IF HeaderOnlyWhenPrinted /\ Body(a, b) = <<>> THEN <<>> ELSE <<"======== super blocks are different ========">>) \o Body(a, b)]

(* ---- abstract domain: a base super block and every variation of up to two fields ---- *)
Base == [inodes |-> 5, mtime |-> 100, bs |-> 4096, blog |-> 12, frags |-> 1, ids |-> 2, comp |-> 1, flags |-> {6, 7}, used |-> 500,
         root |-> "r", idt |-> "i", xat |-> "none", ino |-> "n", dir |-> "d", frt |-> "f", exp |-> "e", rest |-> "v4.0"]
Vary(s, k) ==
  CASE k = "inodes" -> [s EXCEPT !.inodes = 7] [] k = "mtime" -> [s EXCEPT !.mtime = 90] [] k = "bs" -> [s EXCEPT !.bs = 8192] [] k = "blog" -> [s EXCEPT !.blog = 13]
    [] k = "frags" -> [s EXCEPT !.frags = 0] [] k = "ids" -> [s EXCEPT !.ids = 3] [] k = "comp" -> [s EXCEPT !.comp = 4] [] k = "comp9" -> [s EXCEPT !.comp = 9]
    [] k = "flagnamed" -> [s EXCEPT !.flags = {6, 9}] [] k = "flagunk" -> [s EXCEPT !.flags = {6, 7, 2, 14}] [] k = "used" -> [s EXCEPT !.used = 400]
    [] k = "root" -> [s EXCEPT !.root = "r2"] [] k = "idt" -> [s EXCEPT !.idt = "i2"] [] k = "xat" -> [s EXCEPT !.xat = "x"] [] k = "ino" -> [s EXCEPT !.ino = "n2"]
    [] k = "dir" -> [s EXCEPT !.dir = "d2"] [] k = "frt" -> [s EXCEPT !.frt = "none"] [] k = "exp" -> [s EXCEPT !.exp = "none"] [] k = "rest" -> [s EXCEPT !.rest = "v4.1"]
    [] OTHER -> s
Keys == {"same", "inodes", "mtime", "bs", "blog", "frags", "ids", "comp", "comp9", "flagnamed", "flagunk", "used", "root", "idt", "xat", "ino", "dir", "frt", "exp", "rest"}
VARIABLES a, b
Init == IF Pairs = <<>> THEN \E k1, k2, k3 \in Keys : a = Vary(Base, k1) /\ b = Vary(Vary(Base, k2), k3)
        ELSE \E i \in 1..Len(Pairs) : a = Pairs[i][1] /\ b = Pairs[i][2]
Next == UNCHANGED <<a, b>>
StatusIffDifferent == (Report(a, b).status = 0) = (a = b)
Mirror == Len(Report(a, b).lines) = Len(Report(b, a).lines) /\ Report(a, b).status = Report(b, a).status
(* a difference is never silent: status 1 comes with at least the banner *)
NeverSilent == Report(a, b).status = 1 => Len(Report(a, b).lines) >= 1
EmitOK == Emit => PrintT(<<"RESULT", ToJson([a |-> a, b |-> b, r |-> Report(a, b)])>>)
=============================================================================
