------------------------------ MODULE CliOpts ------------------------------
(* What the value-carrying options of gensquashfs mean for the image (bin/gensquashfs/src/options.c, lib/common/src/         *)
(* parse_size.c, fstree_cli.c, lib/util/src/source_date_epoch.c, lib/sqfs/src/super.c):                                       *)
(*   -b <size>     data block size: number with optional k / m suffix (either case); power of two in 4 KiB .. 1 MiB          *)
(*   -B <size>     device block size the image is padded to: >= 1024                                                           *)
(*   --defaults uid=,gid=,mode=,mtime=    attributes of the root and of directories that exist only implicitly              *)
(*   SOURCE_DATE_EPOCH   default for mtime (non-numbers and values beyond 32 bit are ignored with a warning)                *)
(* The meaning is a record [refused, block, pad, uid, gid, mode, mtime]; values are symbolic strings mapped by the driver.   *)
EXTENDS Naturals, Sequences, FiniteSets, TLC, Json
CONSTANTS Emit,
          EpochOverridesDefaults,   \* deviation: SOURCE_DATE_EPOCH wins over --defaults mtime=
          SuffixCaseSensitive       \* deviation: only the lower case suffixes are understood

B  == {"none", "4096", "4k", "4K", "8K", "1M", "1m", "2M", "3000", "12k", "4x", "k", "0", "1048577"}
DB == {"none", "1024", "512", "8K", "65536", "1m"}
Uid == {"none", "5", "0x10", "-1"}
Gid == {"none", "7"}
Mode == {"none", "0700", "755", "010000"}            \* strtol base 0: 0700 is octal, 755 is decimal (= 01363), 010000 is beyond 07777
Mtime == {"none", "12345", "0"}
Epoch == {"unset", "1000", "abc", "99999999999", ""}

Opts == [b : B, db : DB, uid : Uid, gid : Gid, mode : Mode, mtime : Mtime, epoch : Epoch]

BlockOf(b) == CASE b = "none" -> "128K" [] b \in {"4096", "4k"} -> "4K" [] b = "4K" -> (IF SuffixCaseSensitive THEN "bad" ELSE "4K")
                [] b = "8K" -> (IF SuffixCaseSensitive THEN "bad" ELSE "8K") [] b = "1m" -> "1M" [] b = "1M" -> (IF SuffixCaseSensitive THEN "bad" ELSE "1M")
                [] OTHER -> "bad"                         \* 2M too large, 3000 / 12k no power of two, 4x / k malformed, 0 too small, 1048577 too large
PadOf(db) == CASE db = "none" -> "4K" [] db = "1024" -> "1K" [] db = "8K" -> (IF SuffixCaseSensitive THEN "bad" ELSE "8K") [] db = "65536" -> "64K" [] db = "1m" -> "1M"
               [] OTHER -> "bad"                          \* 512: below 1024
EpochOf(e) == IF e = "1000" THEN "1000" ELSE "0"          \* unset, empty, not a number, too large: 0
Meaning(o) ==
  LET bad == BlockOf(o.b) = "bad" \/ PadOf(o.db) = "bad" \/ o.uid = "-1" \/ o.mode = "010000" IN
  IF bad THEN [refused |-> TRUE, block |-> "-", pad |-> "-", uid |-> "-", gid |-> "-", mode |-> "-", mtime |-> "-"]
  ELSE [refused |-> FALSE, block |-> BlockOf(o.b), pad |-> PadOf(o.db),
        uid |-> (CASE o.uid = "5" -> "5" [] o.uid = "0x10" -> "16" [] OTHER -> "0"),
        gid |-> (IF o.gid = "7" THEN "7" ELSE "0"),
        mode |-> (CASE o.mode = "0700" -> "0700" [] o.mode = "755" -> "01363" [] OTHER -> "0755"),
        mtime |-> (IF o.mtime # "none" /\ ~(EpochOverridesDefaults /\ EpochOf(o.epoch) # "0") THEN o.mtime ELSE EpochOf(o.epoch))]

VARIABLE o
Init == o \in Opts
Next == UNCHANGED o
Spec == Init /\ [][Next]_o
(* an explicit --defaults mtime wins over the environment; the environment never makes a run fail *)
ExplicitWins == (~Meaning(o).refused /\ o.mtime # "none") => Meaning(o).mtime = o.mtime
EnvNeverRefuses == Meaning(o).refused = Meaning([o EXCEPT !.epoch = "unset"]).refused
SuffixCaseFree == o \in Opts /\ BlockOf("4k") = BlockOf("4K") /\ BlockOf("1m") = BlockOf("1M")
EmitOK == Emit => PrintT(<<"RESULT", ToJson([o |-> o, m |-> Meaning(o)])>>)
=============================================================================
