----------------------------- MODULE TableLoad -----------------------------
(* Loading the two-level tables of an untrusted image into a reader OBJECT, as a state machine over the object's         *)
(* pointer fields (property C05: "never corrupts memory"; C10: answers do not depend on history).  An image class makes   *)
(* one step of the loader fail; what matters is the state the object is LEFT in: a later load, a query and the destructor  *)
(* run on that state.  A field is "null", "live" (points to its own allocation) or "dangling" (freed, pointer kept).        *)
(*   xattr reader  lib/sqfs/src/xattr/xattr_reader.c   fields locs (id_block_starts), idrd, kvrd                             *)
(*   id table      lib/sqfs/src/id_table.c + read_table.c            field tab (array data)                                 *)
(*   frag table    lib/sqfs/src/frag_table.c + read_table.c          field tab                                               *)
(*   data reader   lib/sqfs/src/data_reader.c (fragment table + cached fragment block)   fields tab, blk                     *)
(* Programs: any sequence of <= MaxOps loads (each with an image class) and queries, then the destructor.                    *)
EXTENDS Naturals, Sequences, FiniteSets, TLC, Json
CONSTANTS Kind, MaxOps, Emit,
          FailKeepsPointer,     \* deviation: the error exit frees the location list but keeps the pointer (xattr reader)
          ReloadSkipsCleanup,   \* deviation: a second load does not release what the first one loaded
          QueryChecksLoaded     \* TRUE as built (after fix 298f46f): a query on an object without tables fails cleanly; FALSE: it dereferences

(* image classes = the step of the loader that fails ("ok": none; "none": the image has no such table, load returns 0 early) *)
Classes == IF Kind = "xattr" THEN {"ok", "none", "start_oob", "hdr_cut", "list_cut", "entry_oob"}
           ELSE IF Kind = "idtable" THEN {"ok", "start_oob", "list_cut", "entry_oob", "block_bad"}
           ELSE {"ok", "none", "start_oob", "list_cut", "entry_oob", "block_bad"}
Ops == {<<"load", c>> : c \in Classes} \cup {<<"query">>}
Fields == IF Kind = "xattr" THEN {"locs", "idrd", "kvrd"} ELSE IF Kind = "datareader" THEN {"tab", "blk"} ELSE {"tab"}

VARIABLES prog, pc, obj,          \* obj: field -> "null" | "live" | "dangling"
          heap,                   \* number of live allocations owned through obj
          bad,                    \* set of memory errors seen: "double-free", "use-after-free", "null-deref", "leak"
          answers                 \* per executed op: "ok" | "err" (what the caller sees)
vars == <<prog, pc, obj, heap, bad, answers>>

Free(o, f) == [o EXCEPT ![f] = "null"]                      \* free + reset
Err(o, f) == IF o[f] = "dangling" THEN {"double-free"} ELSE {}
Live(o) == Cardinality({f \in Fields : o[f] = "live"})

Init == /\ \E n \in 1..MaxOps : prog \in [1..n -> Ops]
        /\ pc = 1 /\ obj = [f \in Fields |-> "null"] /\ heap = 0 /\ bad = {} /\ answers = <<>>

(* ---- one load, as built; returns <<obj', errors, answer>> ---- *)
LoadXattr(o, c) ==
  IF c \in {"none", "start_oob"} THEN <<o, {}, IF c = "none" THEN "ok" ELSE "err">>           \* returns before anything is touched
  ELSE LET e0 == IF ReloadSkipsCleanup THEN (IF \E f \in Fields : o[f] = "live" THEN {"leak"} ELSE {})
                 ELSE Err(o, "locs")                                                          \* free(xr->id_block_starts) of the cleanup
           o0 == [f \in Fields |-> "null"]                                                     \* cleanup of pre-existing data (drop, drop, free, = NULL)
       IN IF c = "hdr_cut" THEN <<o0, e0, "err">>
          ELSE IF c \in {"list_cut", "entry_oob"}
               THEN <<[o0 EXCEPT !["locs"] = IF FailKeepsPointer THEN "dangling" ELSE "null"], e0, "err">>   \* fail_blocks
          ELSE <<[f \in Fields |-> "live"], e0, "ok">>
LoadSingle(o, c) ==
  LET e0 == IF ReloadSkipsCleanup /\ o["tab"] = "live" THEN {"leak"} ELSE Err(o, "tab")
      o0 == [o EXCEPT !["tab"] = "null"]                                                       \* array_cleanup before anything else
      o1 == IF Kind = "datareader" THEN [o0 EXCEPT !["blk"] = "null"] ELSE o0                   \* free(frag_block); = NULL
  IN IF Kind = "idtable" /\ c = "start_oob" THEN <<o, {}, "err">>                                \* id_table_read tests the super block before it touches the object
     ELSE IF c \in {"none"} THEN <<o1, e0, "ok">>
     ELSE IF c \in {"start_oob", "list_cut", "entry_oob", "block_bad"} THEN <<o1, e0, "err">>   \* read_table frees its own buffers, *out = NULL
     ELSE <<[o1 EXCEPT !["tab"] = "live"], e0, "ok">>
Load(o, c) == IF Kind = "xattr" THEN LoadXattr(o, c) ELSE LoadSingle(o, c)

(* ---- a query (read set 0 / id 0 / the tail of a file in fragment 0) ---- *)
Query(o) ==
  LET need == IF Kind = "xattr" THEN {"locs", "idrd", "kvrd"} ELSE {"tab"}
  IN IF \E f \in need : o[f] = "dangling" THEN <<o, {"use-after-free"}, "err">>
     ELSE IF \E f \in need : o[f] = "null" THEN <<o, IF QueryChecksLoaded THEN {} ELSE {"null-deref"}, "err">>
     ELSE <<IF Kind = "datareader" THEN [o EXCEPT !["blk"] = "live"] ELSE o, {}, "ok">>

Step == /\ pc <= Len(prog)
        /\ LET op == prog[pc]
               r == IF op[1] = "load" THEN Load(obj, op[2]) ELSE Query(obj)
           IN /\ obj' = r[1] /\ bad' = bad \cup r[2] /\ answers' = Append(answers, r[3])
              /\ heap' = Live(r[1])
        /\ pc' = pc + 1 /\ UNCHANGED prog
Destroy == /\ pc = Len(prog) + 1
           /\ bad' = bad \cup UNION {Err(obj, f) : f \in Fields}
           /\ obj' = [f \in Fields |-> "null"] /\ heap' = 0
           /\ pc' = pc + 1 /\ UNCHANGED <<prog, answers>>
Next == Step \/ Destroy \/ (pc = Len(prog) + 2 /\ UNCHANGED vars)
Spec == Init /\ [][Next]_vars

MemorySafe == bad = {}
NoDangling == \A f \in Fields : obj[f] # "dangling"              \* the invariant the error exits have to restore
EmitOK == (Emit /\ pc = Len(prog) + 2) => PrintT(<<"RESULT", ToJson([prog |-> prog, answers |-> answers])>>)
=============================================================================
