------------------------------- MODULE FsScan -------------------------------
(* Packing a directory (gensquashfs --pack-dir / glob): lib/sqfs/src/io/dir_unix.c (native iterator,    *)
(* entries in the order readdir returns them), dir_rec.c (pre-order recursion), dir_hl.c (hard link       *)
(* filter: the first path seen for an inode is the file, later ones become hard links to it),              *)
(* lib/fstree (sorted insertion), post_process.c (alloc_inode_num_dfs, reorder_hard_links, file_list_dfs). *)
(* Property C11: the image meaning - inode table as a sequence of source identities, entry -> inode       *)
(* number, data order - is the same for every enumeration order of every directory.                       *)
(* The source is a root directory with files a, b, c and a sub-directory d with files a, b; src maps      *)
(* the present file paths to inode identities (equal identity = hard link group).  Family Upper: root      *)
(* with file a, sub-directory d {a, b} and a sub-directory D {a} whose name differs from d in letter case   *)
(* only: the scan sorts with a comparator - byte order as built; a comparator that folds case (deviation    *)
(* ScanCaseFold) leaves D and d in the order readdir returned them.                                         *)
EXTENDS Naturals, Sequences, FiniteSets, TLC, Json
CONSTANTS Ids, SortBeforeScan, Emit,
          Upper,          \* the tree family with the directories d and D
          ScanCaseFold    \* deviation: the scan's comparator ignores letter case, ties keep the readdir order

TopFiles == IF Upper THEN {<<"a">>} ELSE {<<"a">>, <<"b">>, <<"c">>}
SubFiles == IF Upper THEN {<<"d", "a">>, <<"d", "b">>, <<"D", "a">>} ELSE {<<"d", "a">>, <<"d", "b">>}
AllFiles == TopFiles \cup SubFiles
Dirs == {"d", "D"}
NameIdx(n) == CASE n = "D" -> 0 [] n = "a" -> 1 [] n = "b" -> 2 [] n = "c" -> 3 [] n = "d" -> 4          \* byte order: upper case first
ScanKey(n) == IF ScanCaseFold /\ n = "D" THEN 4 ELSE NameIdx(n)

VARIABLES src, permRoot, permSub
Perms(S) == {p \in [1..Cardinality(S) -> S] : \A i, j \in 1..Cardinality(S) : i # j => p[i] # p[j]}
DirNames(s) == {p[1] : p \in {q \in DOMAIN s : Len(q) = 2}}
RootNames(s) == {p[1] : p \in {q \in DOMAIN s : Len(q) = 1}} \cup DirNames(s)
SubNamesOf(s, dn) == {p[2] : p \in {q \in DOMAIN s : Len(q) = 2 /\ q[1] = dn}}
SubNames(s)  == SubNamesOf(s, "d")                                  \* D holds at most one entry: its listing has one order only

Init == /\ src \in UNION {[P -> Ids] : P \in (SUBSET AllFiles) \ {{}}}
        /\ permRoot \in Perms(RootNames(src))
        /\ permSub \in Perms(SubNames(src))
Next == UNCHANGED <<src, permRoot, permSub>>
Spec == Init /\ [][Next]_<<src, permRoot, permSub>>

SortNames(S) == [i \in 1..Cardinality(S) |-> CHOOSE n \in S : Cardinality({m \in S : NameIdx(m) < NameIdx(n)}) = i - 1]
(* the scan's sort of one listing: by the comparator's key, equal keys stay in the order readdir gave (perm) *)
PosIn(perm, n) == CHOOSE i \in 1..Len(perm) : perm[i] = n
ScanSort(S, perm) == LET less(m, n) == ScanKey(m) < ScanKey(n) \/ (ScanKey(m) = ScanKey(n) /\ PosIn(perm, m) < PosIn(perm, n)) IN
                     [i \in 1..Cardinality(S) |-> CHOOSE n \in S : Cardinality({m \in S : less(m, n)}) = i - 1]
RECURSIVE Flatten(_, _, _, _)
Flatten(s, rootOrder, subOrder, i) ==            \* dir_rec.c: pre-order, a directory is followed by its entries
  IF i > Len(rootOrder) THEN <<>>
  ELSE IF rootOrder[i] = "d"
       THEN [k \in 1..Len(subOrder) |-> <<"d", subOrder[k]>>] \o Flatten(s, rootOrder, subOrder, i + 1)
       ELSE IF rootOrder[i] = "D"
       THEN [k \in 1..Cardinality(SubNamesOf(s, "D")) |-> <<"D", SortNames(SubNamesOf(s, "D"))[k]>>] \o Flatten(s, rootOrder, subOrder, i + 1)
       ELSE <<<<rootOrder[i]>>>> \o Flatten(s, rootOrder, subOrder, i + 1)
ScanSeq(s, pr, ps) ==
  LET ro == IF SortBeforeScan THEN ScanSort(RootNames(s), pr) ELSE pr
      so == IF SortBeforeScan THEN ScanSort(SubNames(s), ps) ELSE ps
  IN Flatten(s, ro, so, 1)

(* dir_hl.c: first path seen per inode identity is the real file *)
Primary(s, seq, id) == seq[CHOOSE i \in 1..Len(seq) : s[seq[i]] = id /\ \A j \in 1..(i - 1) : s[seq[j]] # id]
IsPrimary(s, seq, p) == Primary(s, seq, s[p]) = p

(* fstree: children sorted by name; numbering: sub-directories' children first, then own children *)
SortedSubOf(s, dn) == [i \in 1..Cardinality(SubNamesOf(s, dn)) |-> <<dn, SortNames(SubNamesOf(s, dn))[i]>>]
SortedSub(s)  == SortedSubOf(s, "d")
SortedRoot(s) == [i \in 1..Cardinality(RootNames(s)) |-> <<SortNames(RootNames(s))[i]>>]
IsDirPath(p) == p = <<>> \/ (Len(p) = 1 /\ p[1] \in Dirs)
NonLinks(s, seq, paths) == SelectSeq(paths, LAMBDA p : IsDirPath(p) \/ IsPrimary(s, seq, p))
NumberTab(s, seq) ==            \* inode table after alloc_inode_num_dfs: sequence of node paths, root last; D sorts before d
  NonLinks(s, seq, SortedSubOf(s, "D")) \o NonLinks(s, seq, SortedSubOf(s, "d")) \o NonLinks(s, seq, SortedRoot(s)) \o <<<<>>>>

(* reorder_hard_links: a hard link's target must not be numbered after the directory holding the link *)
IndexOf(tab, p) == CHOOSE i \in 1..Len(tab) : tab[i] = p
ChildrenOf(s, dirp) == IF dirp = <<>> THEN SortedRoot(s) ELSE IF IsDirPath(dirp) THEN SortedSubOf(s, dirp[1]) ELSE <<>>
MoveBefore(tab, from, to) ==    \* element at index from (> to) is moved to index to, the others shift up
  [k \in 1..Len(tab) |-> IF k < to \/ k > from THEN tab[k] ELSE IF k = to THEN tab[from] ELSE tab[k - 1]]
RECURSIVE ReorderKids(_, _, _, _, _)
ReorderKids(s, seq, tab, i, kids) ==          \* returns <<tab, i>>
  IF kids = <<>> THEN <<tab, i>>
  ELSE LET c == Head(kids) IN
       IF IsDirPath(c) \/ IsPrimary(s, seq, c) THEN ReorderKids(s, seq, tab, i, Tail(kids))
       ELSE LET tgt == Primary(s, seq, s[c])  ti == IndexOf(tab, tgt) IN
            IF ti <= i THEN ReorderKids(s, seq, tab, i, Tail(kids))
            ELSE ReorderKids(s, seq, MoveBefore(tab, ti, i), i + 1, Tail(kids))
RECURSIVE Reorder(_, _, _, _)
Reorder(s, seq, tab, i) ==
  IF i > Len(tab) THEN tab
  ELSE IF ~IsDirPath(tab[i]) THEN Reorder(s, seq, tab, i + 1)
  ELSE LET r == ReorderKids(s, seq, tab, i, ChildrenOf(s, tab[i])) IN Reorder(s, seq, r[1], r[2] + 1)

Ident(s, p) == IF p \in DOMAIN s THEN <<"file", s[p]>> ELSE <<"dir", p>>
Result(s, pr, ps) ==
  LET seq == ScanSeq(s, pr, ps)
      tab == Reorder(s, seq, NumberTab(s, seq), 1)
      num(p) == IF p \in DOMAIN s THEN IndexOf(tab, Primary(s, seq, s[p])) ELSE IndexOf(tab, p)
  IN [table   |-> [i \in 1..Len(tab) |-> Ident(s, tab[i])],
      entries |-> {<<p, num(p)>> : p \in DOMAIN s}]

DataOrder(s, pr, ps) ==
  LET seq == ScanSeq(s, pr, ps)
      RECURSIVE Walk(_)
      Walk(paths) == IF paths = <<>> THEN <<>>
                     ELSE IF IsDirPath(Head(paths)) THEN SelectSeq(SortedSubOf(s, Head(paths)[1]), LAMBDA p : IsPrimary(s, seq, p)) \o Walk(Tail(paths))
                     ELSE IF IsPrimary(s, seq, Head(paths)) THEN <<Head(paths)>> \o Walk(Tail(paths))
                     ELSE Walk(Tail(paths))
  IN [i \in 1..Len(Walk(SortedRoot(s))) |-> s[Walk(SortedRoot(s))[i]]]

Meaning(s, pr, ps) == [table |-> Result(s, pr, ps).table, entries |-> Result(s, pr, ps).entries, data |-> DataOrder(s, pr, ps)]
OrderIndependent == Meaning(src, permRoot, permSub) = Meaning(src, SortNames(RootNames(src)), SortNames(SubNames(src)))
EmitOK == Emit => PrintT(<<"RESULT", ToJson([files |-> {[p |-> p, id |-> src[p]] : p \in DOMAIN src}, root |-> permRoot, sub |-> permSub,
                                              table |-> Result(src, permRoot, permSub).table,
                                              data |-> DataOrder(src, permRoot, permSub)])>>)
=============================================================================
