----------------------------- MODULE PaxSparse -----------------------------
(* The GNU sparse keys inside one PAX 'x' record as lib/tar/src/pax_header.c read_pax_header / pax_sparse_map    *)
(* process them (property C07): format 0.0 sends repeated GNU.sparse.offset / GNU.sparse.numbytes pairs, format  *)
(* 0.1 one GNU.sparse.map string; nothing stops an archive from mixing them.  The reader keeps the map as a      *)
(* linked list of heap nodes (out->sparse) and, across the lines of the record, a local pointer to the last node *)
(* it appended (sparse_last).  A map line frees the whole list and builds a new one.                             *)
(* Heap model: node ids 1.., `live` = allocated and not freed, `list` = out->sparse, `last` = sparse_last.        *)
EXTENDS Naturals, Sequences, FiniteSets, TLC, Json
CONSTANTS MaxKeys, Emit,
          MapKeepsLast       \* deviation (pinned tree before the fix): a map line leaves sparse_last pointing into the list it freed

Keys == {"offset", "numbytes", "map", "map_bad", "size", "other"}
S0 == [live |-> {}, list |-> <<>>, last |-> 0, next |-> 1, res |-> "go", uaf |-> FALSE]
Range(s) == {s[i] : i \in 1..Len(s)}
Step(st, k) ==
  IF st.res # "go" THEN st
  ELSE CASE k = "numbytes" ->
              LET n == st.next IN
              IF st.last = 0
              THEN [st EXCEPT !.live = (@ \ Range(st.list)) \cup {n}, !.list = <<n>>, !.last = n, !.next = n + 1]       \* free_sparse_list(out->sparse); start over
              ELSE [st EXCEPT !.uaf = @ \/ st.last \notin st.live,                                                     \* sparse_last->next = sparse
                              !.live = @ \cup {n}, !.list = IF st.last \in Range(st.list) THEN Append(@, n) ELSE @,
                              !.last = n, !.next = n + 1]
         [] k = "map" ->
              LET n == st.next IN
              [st EXCEPT !.live = (@ \ Range(st.list)) \cup {n}, !.list = <<n>>, !.next = n + 1,
                         !.last = IF MapKeepsLast THEN @ ELSE 0]
         [] k = "map_bad" -> [st EXCEPT !.live = @ \ Range(st.list), !.list = <<>>, !.res = "refused"]                  \* list freed, parse error
         [] OTHER -> st                                                                                                \* offset, size, unknown keys: no heap change
RECURSIVE Run(_, _)
Run(st, ks) == IF ks = <<>> THEN st ELSE Run(Step(st, Head(ks)), Tail(ks))

VARIABLE keys
Init == \E n \in 0..MaxKeys : keys \in [1..n -> Keys]
Next == UNCHANGED keys
Spec == Init /\ [][Next]_keys
Final == Run(S0, keys)
NoUseAfterFree == ~Final.uaf
NoLeak == Final.live = Range(Final.list)                   \* every node still allocated is reachable from out->sparse (freed with the header)
ListLive == Range(Final.list) \subseteq Final.live         \* out->sparse never holds a freed node
EmitOK == Emit => PrintT(<<"RESULT", ToJson([keys |-> keys, refused |-> Final.res = "refused"])>>)
=============================================================================
