------------------------------ MODULE BlockProc ------------------------------
(* Implementation-shaped specification of the data path of the packers:                          *)
(*   lib/sqfs/src/block_processor/{frontend,backend,block_processor}.c  (main-thread logic)      *)
(*   lib/sqfs/src/block_writer.c                                         (append + deduplicate)   *)
(* on top of the abstract pool (spec/PoolAbs.tla, established for threadpool.c by C09): the pool  *)
(* hands processed blocks back in submission order, a worker's effect on a block is the pure      *)
(* function Process.  One TLA+ action = one public API call (begin_file, append of one block's    *)
(* worth of data, end_file, finish); the loops of the C code are recursive operators.             *)
(*                                                                                               *)
(* Scaling: block size = B units.  File data = full blocks (one content id each) + optional tail  *)
(* <<c, n>> of n < B units.  Per content id: Zero (all-zero bytes), H (checksum class), CS        *)
(* (units after compression; CS >= units means "does not shrink").  Compression is deterministic  *)
(* and injective, so equality of stored bytes = equality of (compressed flag, atoms).             *)
(*                                                                                               *)
(* Two instances run in lock step on the same input: T (under test: MaxBacklog from Backlogs, the *)
(* deviation Dev, an oracle for deviating pool orders) and R (reference: backlog 3, FIFO).        *)
(* Properties: Deterministic (C02), DataIntegrity + Sharing (C08), StoredNotLarger + Contiguous   *)
(* (C03), FlagsHonoured (C17), NoLeak.                                                            *)
EXTENDS Naturals, Integers, Sequences, FiniteSets, TLC, Json

CONSTANTS B,               \* units per block
          ContentIds, Zero, H, CS,
          MaxFiles, MaxBlocks, FlagSets, Backlogs, TailSizes,
          PerfectHash,                \* TRUE: checksums never collide (the checksum is the data itself)
          Emit,                       \* TRUE: print <<input, result>> of every finished run as JSON (for replay)
          SparseCheckOnFragBlock,     \* TRUE = pinned tree (defect: all-zero fragment block dropped)
          Dev,                        \* "none" or the name of a deviation
          FailIds,                    \* content ids whose block makes the compressor fail (the worker returns an error; the pool records it)
          FinishChecksStatus,         \* TRUE = repaired tree: sqfs_block_processor_finish / sync look at the pool status after draining
          ExplicitInputs,             \* {} or a set of inputs given from outside (families the general bounds cannot reach, e.g. fragment blocks
                                      \* that are on disk / cached / raw / compressed in a particular order)
          ChainSeq                    \* <<>>, or a sequence of distinct content ids: the inputs are then the long collision chain
                                      \* (one single-block file per id, all of one stored size and one checksum) followed by nothing or by a
                                      \* copy of one of them - the candidate search of deduplicate_blocks at a depth the general bounds cannot reach

UserFlags == {"DONT_COMPRESS", "DONT_FRAGMENT", "IGNORE_SPARSE", "DONT_DEDUP"}
NoFrag == 0 - 1

Min(a, b) == IF a < b THEN a ELSE b
RECURSIVE SumN(_)
SumN(d) == IF d = <<>> THEN 0 ELSE Head(d).n + SumN(Tail(d))
Units(d) == SumN(d)
AllZero(d) == \A i \in 1..Len(d) : d[i].c = Zero
RECURSIVE SumH(_)
SumH(d) == IF d = <<>> THEN 0 ELSE H[Head(d).c] + SumH(Tail(d))
HashData(d) == IF PerfectHash THEN d ELSE IF Len(d) = 1 THEN H[d[1].c] ELSE (SumH(d) + Len(d)) % 3
RECURSIVE CompUnits(_)
CompUnits(d) == IF d = <<>> THEN 0 ELSE Min(CS[Head(d).c], Head(d).n) + CompUnits(Tail(d))

NullBlk == [file |-> 0, index |-> 0, flags |-> {}, data |-> <<>>, size |-> 0, csum |-> 0, ioSeq |-> 0]

(* ---------------- worker: process_block ---------------- *)
CompFails(b) == \E i \in 1..Len(b.data) : b.data[i].c \in FailIds
Process(b) ==
  IF b.size = 0 THEN b
  ELSE IF ("IGNORE_SPARSE" \notin b.flags \/ Dev = "IgnoreNoSparse") /\ (SparseCheckOnFragBlock \/ "FRAGMENT_BLOCK" \notin b.flags)
          /\ AllZero(b.data)
       THEN [b EXCEPT !.flags = @ \cup {"IS_SPARSE"}]
  ELSE LET b1 == [b EXCEPT !.csum = HashData(b.data)] IN
       IF "IS_FRAGMENT" \in b.flags \/ ("DONT_COMPRESS" \in b.flags /\ Dev # "IgnoreDontCompress") THEN b1
       ELSE IF CompFails(b) THEN b1                                     \* do_block failed: data untouched, the callback returns the error
       ELSE LET r == CompUnits(b.data) IN
            IF r < b.size /\ Dev # "NeverCompress"
            THEN [b1 EXCEPT !.size = r, !.flags = @ \cup {"COMPRESSED"}] ELSE b1
(* whether the worker's callback fails on this block (same path as Process up to the compressor call) *)
WorkerFails(b) ==
  /\ b.size # 0
  /\ ~(("IGNORE_SPARSE" \notin b.flags \/ Dev = "IgnoreNoSparse") /\ (SparseCheckOnFragBlock \/ "FRAGMENT_BLOCK" \notin b.flags) /\ AllZero(b.data))
  /\ ~("IS_FRAGMENT" \in b.flags \/ ("DONT_COMPRESS" \in b.flags /\ Dev # "IgnoreDontCompress"))
  /\ CompFails(b)

(* ---------------- block writer ---------------- *)
Key(b) == <<b.size, "COMPRESSED" \in b.flags, b.csum>>
Dedup(s, flags) ==
  LET wb == s.wb  fs == s.fileStart  count == Len(wb) - fs IN
  IF count = 0 THEN <<s, 0>>
  ELSE IF "DONT_DEDUP" \in flags THEN <<s, wb[fs + 1].off>>
  ELSE LET cands == {i \in 0..(fs - 1) :
                       /\ \A j \in 0..(count - 1) : wb[i + j + 1].key = wb[fs + j + 1].key
                       /\ (Dev = "DedupHashOnly" \/
                           \A j \in 0..(count - 1) : /\ wb[i + j + 1].data = wb[fs + j + 1].data
                                                     /\ wb[i + j + 1].comp = wb[fs + j + 1].comp)} IN
       IF cands = {} THEN <<s, wb[fs + 1].off>>
       ELSE LET i == CHOOSE x \in cands : \A y \in cands : x <= y
                used == IF count >= fs - i THEN i + count ELSE fs
                nwb == SubSeq(wb, 1, used)
            IN <<[s EXCEPT !.wb = nwb, !.dsize = nwb[used].off + nwb[used].size], wb[i + 1].off>>

WriteBlock(s, b) ==
  LET s1 == IF "FIRST" \in b.flags THEN [s EXCEPT !.fileStart = Len(s.wb)] ELSE s
      loc == s1.dsize
      s2 == IF b.size # 0 /\ "IS_SPARSE" \notin b.flags
            THEN [s1 EXCEPT !.wb = Append(@, [off |-> loc, size |-> b.size, comp |-> "COMPRESSED" \in b.flags,
                                              data |-> b.data, key |-> Key(b)]),
                            !.dsize = @ + b.size]
            ELSE s1
  IN IF "LAST" \in b.flags THEN Dedup(s2, b.flags) ELSE <<s2, loc>>

(* ---------------- backend ---------------- *)
SetBlk(blocks, idx, v) ==     \* set_block_size: extra[idx] = v (idx is 0-based)
  LET n == IF Len(blocks) > idx THEN Len(blocks) ELSE idx + 1 IN
  [i \in 1..n |-> IF i = idx + 1 THEN v ELSE IF i <= Len(blocks) THEN blocks[i] ELSE <<0, FALSE>>]

Release(s) == [s EXCEPT !.backlog = @ - 1]

Completed(s, b) ==            \* process_completed_block
  LET s0 == IF "FRAGMENT_BLOCK" \in b.flags
            THEN [s EXCEPT !.inflight = {x \in @ : x.index # b.index}] ELSE s
      r  == WriteBlock(s0, b)
      s1 == r[1]
      loc == r[2]
      hasIno == b.file # 0
      s2 == IF "IS_SPARSE" \in b.flags
            THEN (IF hasIno
                  THEN [s1 EXCEPT !.ino[b.file].sparse = @ + b.size, !.ino[b.file].ext = TRUE,
                                  !.ino[b.file].blocks = SetBlk(@, b.index, <<0, FALSE>>)]
                  ELSE s1)
            ELSE IF b.size # 0
            THEN (IF "FRAGMENT_BLOCK" \in b.flags
                  THEN [s1 EXCEPT !.ftbl[b.index + 1] = [loc |-> loc, size |-> b.size,
                                                         comp |-> "COMPRESSED" \in b.flags]]
                  ELSE IF hasIno
                  THEN [s1 EXCEPT !.ino[b.file].blocks = SetBlk(@, b.index, <<b.size, "COMPRESSED" \in b.flags>>)]
                  ELSE s1)
            ELSE s1
      s3 == IF "LAST" \in b.flags /\ hasIno THEN [s2 EXCEPT !.ino[b.file].start = loc] ELSE s2
  IN Release(s3)

Enqueue(s, b) ==              \* frontend.c: enqueue_block (in-flight copy of fragment blocks)
  LET s1 == IF "FRAGMENT_BLOCK" \in b.flags /\ Dev # "InFlightCopyDropped"
            THEN [s EXCEPT !.inflight = @ \cup {[index |-> b.index, data |-> b.data]}] ELSE s
  IN IF s1.pfail THEN [s1 EXCEPT !.err = TRUE]                          \* pool submit() returns the recorded status
     ELSE [s1 EXCEPT !.pool = Append(@, b)]

RECURSIVE AtomAtAcc(_, _)
AtomAtAcc(d, off) == IF d = <<>> THEN [c |-> "none", n |-> 0]
                     ELSE IF off = 0 THEN Head(d)
                     ELSE IF off < Head(d).n THEN [c |-> "mid", n |-> 0]
                     ELSE AtomAtAcc(Tail(d), off - Head(d).n)
DiskData(s, index) ==         \* load_frag_block: what is stored where the fragment table says
  LET e == s.ftbl[index + 1]
      hit == {k \in 1..Len(s.wb) : s.wb[k].off = e.loc /\ s.wb[k].size = e.size}
  IN IF hit = {} THEN <<>> ELSE s.wb[CHOOSE k \in hit : TRUE].data
FragData(s, index) ==         \* chunk_info_equals: where the bytes of fragment block <index> live
  IF \E x \in s.inflight : x.index = index THEN (CHOOSE x \in s.inflight : x.index = index).data
  ELSE IF s.hasFrag /\ s.frag.index = index THEN s.frag.data
  ELSE DiskData(s, index)
ChunkEq(s, e, f) ==
  /\ e.size = f.size /\ e.hash = f.csum
  /\ (Dev = "FragHashOnly" \/ AtomAtAcc(FragData(s, e.index), e.offset) = f.data[1])

FirstHit(s, f) ==             \* hash table probe order = insertion order among equal hashes
  LET hits == {k \in 1..Len(s.ht) : ChunkEq(s, s.ht[k], f)} IN
  IF hits = {} THEN 0 ELSE CHOOSE k \in hits : \A j \in hits : k <= j

CompletedFrag(s, f) ==        \* process_completed_fragment
  IF "IS_SPARSE" \in f.flags
  THEN Release([s EXCEPT !.ino[f.file].blocks = SetBlk(@, f.index, <<0, FALSE>>),
                         !.ino[f.file].sparse = @ + f.size, !.ino[f.file].ext = TRUE])
  ELSE LET hit == IF "DONT_DEDUP" \in f.flags \/ ("DONT_COMPRESS" \in f.flags /\ Dev # "DontCompressTailDeduped")     \* a tail that must stay uncompressed
                   THEN 0 ELSE FirstHit(s, f) IN                                                                      \* cannot share a chunk of another block
       IF hit # 0
       THEN Release([s EXCEPT !.ino[f.file].fidx = s.ht[hit].index, !.ino[f.file].foff = s.ht[hit].offset])
       ELSE LET s1 == IF s.hasFrag /\ s.frag.size + f.size > B         \* overflow: number it now, submit
                      THEN [Enqueue([s EXCEPT !.ioSeq = IF Dev = "FragSeqAtCompletion" THEN @ ELSE @ + 1],
                                    [s.frag EXCEPT !.ioSeq = s.ioSeq]) EXCEPT !.hasFrag = FALSE]
                      ELSE s
                newblk == ~s1.hasFrag
                index  == IF newblk THEN Len(s1.ftbl) ELSE s1.frag.index
                offset == IF newblk THEN 0 ELSE s1.frag.size
                s2 == IF newblk
                      THEN [s1 EXCEPT !.ftbl = Append(@, [loc |-> 0, size |-> 0, comp |-> FALSE]),
                                      !.hasFrag = TRUE,
                                      !.frag = [f EXCEPT !.index = index,
                                                         !.flags = (f.flags \cap {"DONT_COMPRESS"}) \cup {"FRAGMENT_BLOCK"}]]
                      ELSE Release([s1 EXCEPT !.frag.data = @ \o f.data, !.frag.size = @ + f.size,
                                              !.frag.flags = @ \cup (f.flags \cap {"DONT_COMPRESS"})])
                chunk == [index |-> index, offset |-> offset, size |-> f.size, hash |-> f.csum]
                rep == FirstHit(s2, f)             \* insert replaces an entry that compares equal
                nht == IF rep # 0 THEN [s2.ht EXCEPT ![rep] = chunk] ELSE Append(s2.ht, chunk)
            IN [s2 EXCEPT !.ht = nht, !.ino[f.file].fidx = index, !.ino[f.file].foff = offset]

RECURSIVE InsertIo(_, _)
InsertIo(q, b) == IF q = <<>> THEN <<b>>
                  ELSE IF Dev # "IoQueueUnsorted" /\ Head(q).ioSeq < b.ioSeq THEN <<Head(q)>> \o InsertIo(Tail(q), b)
                  ELSE <<b>> \o q

RECURSIVE Drain(_)
Drain(s) == IF s.ioq # <<>> /\ Head(s.ioq).ioSeq = s.ioDeq
            THEN Drain(Completed([s EXCEPT !.ioq = Tail(@), !.ioDeq = @ + 1], Head(s.ioq)))
            ELSE s

PoolPick(s) == IF Dev = "PoolUnordered" /\ s.orc # <<>> THEN 1 + (Head(s.orc) % Len(s.pool)) ELSE 1
RemoveAt(q, k) == SubSeq(q, 1, k - 1) \o SubSeq(q, k + 1, Len(q))

RECURSIVE DeqLoop(_, _)
DeqLoop(s, old) ==            \* backend.c: dequeue_block
  LET s1 == Drain(s) IN
  IF s1.backlog < old THEN s1
  ELSE IF s1.backlog = 1 /\ (s1.hasFrag \/ s1.hasCur) THEN s1
  ELSE IF s1.backlog = 2 /\ s1.hasFrag /\ s1.hasCur THEN s1
  ELSE IF s1.pool = <<>> \/ s1.pfail THEN [s1 EXCEPT !.err = TRUE]      \* pool dequeue returned NULL (nothing queued, or a worker failed earlier)
  ELSE LET k  == PoolPick(s1)
           b  == Process(s1.pool[k])
           s2 == [s1 EXCEPT !.pool = RemoveAt(@, k), !.orc = IF @ = <<>> THEN @ ELSE Tail(@),
                            !.pfail = WorkerFails(s1.pool[k])]                  \* the failed item itself is still handed back
           s3 == IF "IS_FRAGMENT" \in b.flags THEN CompletedFrag(s2, b)
                 ELSE IF "FRAGMENT_BLOCK" \notin b.flags \/ Dev = "FragSeqAtCompletion"
                      THEN [s2 EXCEPT !.ioq = InsertIo(@, [b EXCEPT !.ioSeq = s2.ioSeq]), !.ioSeq = @ + 1]
                      ELSE [s2 EXCEPT !.ioq = InsertIo(@, b)]
       IN IF s3.backlog >= old /\ ~s3.err THEN DeqLoop(s3, old) ELSE s3

RECURSIVE GetNew(_)
GetNew(s) == IF s.err THEN s
             ELSE IF s.backlog >= s.mb THEN GetNew(DeqLoop(s, s.backlog))
             ELSE [s EXCEPT !.backlog = @ + 1]

Sentinel(s) == LET s1 == GetNew(s) IN       \* add_sentinel_block: size 0, LAST_BLOCK
  IF s1.err THEN s1
  ELSE Enqueue(s1, [NullBlk EXCEPT !.file = s1.curFile, !.flags = s1.blkFlags \cup {"LAST"}])

(* ---------------- frontend: public calls ---------------- *)
BeginFile(s, f, flags) ==
  [s EXCEPT !.curFile = f, !.blkFlags = flags \cup {"FIRST"}, !.blkIndex = 0]

AppendAtom(s, atom) ==        \* sqfs_block_processor_append with one block's worth (or a tail) of data
  LET s0 == [s EXCEPT !.ino[s.curFile].size = @ + atom.n]
      s1 == IF s0.hasCur THEN s0
            ELSE LET g == GetNew(s0) IN
                 IF g.err THEN g
                 ELSE [g EXCEPT !.hasCur = TRUE,
                                !.cur = [NullBlk EXCEPT !.file = g.curFile, !.flags = g.blkFlags,
                                                        !.index = g.blkIndex],
                                !.blkIndex = @ + 1, !.blkFlags = @ \ {"FIRST"}]
  IN IF s1.err THEN s1
     ELSE LET s2 == [s1 EXCEPT !.cur.data = Append(@, atom), !.cur.size = @ + atom.n] IN
          IF s2.cur.size = B THEN Enqueue([s2 EXCEPT !.hasCur = FALSE], s2.cur) ELSE s2

EndFile(s) ==
  LET s1 ==
    IF ~s.hasCur
    THEN (IF "FIRST" \notin s.blkFlags THEN Sentinel(s) ELSE s)            \* empty file: nothing at all
    ELSE IF ("DONT_FRAGMENT" \in s.blkFlags /\ Dev # "IgnoreDontFragment") \/ Dev = "TailPackNever"
         THEN Enqueue([s EXCEPT !.hasCur = FALSE], [s.cur EXCEPT !.flags = @ \cup {"LAST"}])
         ELSE LET s2 == IF "FIRST" \notin s.cur.flags THEN Sentinel(s) ELSE s IN
              IF s2.err THEN s2
              ELSE Enqueue([s2 EXCEPT !.hasCur = FALSE], [s2.cur EXCEPT !.flags = @ \cup {"IS_FRAGMENT"}])
  IN [s1 EXCEPT !.curFile = 0, !.blkFlags = {}]

SyncDone(s) == \/ s.backlog = 0
               \/ (s.backlog = 1 /\ (s.hasFrag \/ s.hasCur))
               \/ (s.backlog = 2 /\ s.hasFrag /\ s.hasCur)
RECURSIVE Sync(_)
Sync(s) == IF s.err \/ SyncDone(s) THEN s ELSE Sync(DeqLoop(s, s.backlog))
StatusCheck(s) == IF FinishChecksStatus /\ s.pfail THEN [s EXCEPT !.err = TRUE] ELSE s
Finish(s) ==                  \* sqfs_block_processor_finish
  LET s1 == StatusCheck(Sync(s)) IN
  IF s1.err \/ ~s1.hasFrag THEN s1
  ELSE StatusCheck(Sync(Enqueue([s1 EXCEPT !.hasFrag = FALSE, !.ioSeq = @ + 1], [s1.frag EXCEPT !.ioSeq = s1.ioSeq])))

(* ---------------- inputs and the lock-step driver ---------------- *)
BlockSeqs == UNION {[1..k -> ContentIds] : k \in 0..MaxBlocks}
Tails     == {<<>>} \cup {<<[c |-> c, n |-> n]>> : c \in ContentIds, n \in TailSizes}
FileSpecs == [blocks : BlockSeqs, tail : Tails, flags : FlagSets]
ChainFile(c) == [blocks |-> <<c>>, tail |-> <<>>, flags |-> {}]
ChainBase == [i \in 1..Len(ChainSeq) |-> ChainFile(ChainSeq[i])]
Inputs    == IF ExplicitInputs # {} THEN ExplicitInputs
             ELSE IF ChainSeq = <<>> THEN UNION {[1..k -> FileSpecs] : k \in 1..MaxFiles}
             ELSE {SubSeq(ChainBase, 1, k) : k \in 2..Len(ChainSeq)} \cup {Append(ChainBase, ChainFile(ChainSeq[j])) : j \in 1..Len(ChainSeq)}
Oracles   == IF Dev = "PoolUnordered" THEN {<<0, 0, 0, 0, 0, 0>>, <<1, 0, 1, 0, 1, 0>>, <<1, 1, 1, 1, 1, 1>>, <<0, 1, 2, 0, 1, 2>>}
             ELSE {<<>>}

Ino0 == [size |-> 0, blocks |-> <<>>, start |-> 0, fidx |-> NoFrag, foff |-> 0, sparse |-> 0, ext |-> FALSE]
S0(mb, orc, nfiles) ==
  [backlog |-> 0, hasCur |-> FALSE, cur |-> NullBlk, blkFlags |-> {}, blkIndex |-> 0, curFile |-> 0,
   hasFrag |-> FALSE, frag |-> NullBlk, pool |-> <<>>, ioq |-> <<>>, ioSeq |-> 0, ioDeq |-> 0,
   inflight |-> {}, ht |-> <<>>, ftbl |-> <<>>, wb |-> <<>>, fileStart |-> 0, dsize |-> 0,
   ino |-> [f \in 1..nfiles |-> Ino0], err |-> FALSE, mb |-> mb, orc |-> orc, pfail |-> FALSE]

Result(s) == [disk |-> [k \in 1..Len(s.wb) |-> [size |-> s.wb[k].size, comp |-> s.wb[k].comp, data |-> s.wb[k].data]],
              ino |-> s.ino, ftbl |-> s.ftbl, pfail |-> s.pfail, err |-> s.err]

VARIABLES input, T, R, fileNo, step, done
vars == <<input, T, R, fileNo, step, done>>

Init == /\ input \in Inputs
        /\ \E mb \in Backlogs, orc \in Oracles : T = S0(mb, orc, Len(input))
        /\ R = S0(3, <<>>, Len(input))
        /\ fileNo = 1 /\ step = 0 /\ done = FALSE

\* step 0 = begin_file, 1..Len(blocks) = append block, Len+1 = append tail (if any) + end_file
CallOn(s, ref) ==
  LET spec == input[fileNo]  nb == Len(spec.blocks) IN
  IF step = 0 THEN BeginFile(s, fileNo, spec.flags)
  ELSE IF step <= nb THEN AppendAtom(s, [c |-> spec.blocks[step], n |-> B])
  ELSE EndFile(IF spec.tail = <<>> THEN s ELSE AppendAtom(s, spec.tail[1]))

\* the reference instance never deviates: evaluate it with Dev-free operators is not possible in one
\* module, so deviations are only switched on through T-specific fields (mb, orc) or are global; for the
\* global ones R is compared against Expected instead (DataIntegrity) and Deterministic compares T runs
\* with different backlogs through RefResult below.
Next ==
  /\ ~done
  /\ IF fileNo <= Len(input)
     THEN LET nb == Len(input[fileNo].blocks) IN
          /\ T' = CallOn(T, FALSE) /\ R' = CallOn(R, TRUE)
          /\ IF step < nb + 1 THEN step' = step + 1 /\ fileNo' = fileNo
             ELSE step' = 0 /\ fileNo' = fileNo + 1
          /\ UNCHANGED <<input, done>>
     ELSE /\ T' = Finish(T) /\ R' = Finish(R) /\ done' = TRUE
          /\ (Emit => PrintT(<<"RESULT", ToJson([input |-> input, mb |-> T.mb, err |-> T'.err, res |-> Result(T')])>>))
          /\ UNCHANGED <<input, fileNo, step>>
Spec == Init /\ [][Next]_vars

(* ---------------- properties ---------------- *)
Expected(f) == [i \in 1..Len(input[f].blocks) |-> [c |-> input[f].blocks[i], n |-> B]] \o input[f].tail
ZeroAtoms(n) == <<[c |-> Zero, n |-> n]>>

RECURSIVE ReadBlocks(_, _, _, _, _)
ReadBlocks(s, blocks, pos, left, acc) ==       \* follow the block list from the start offset
  IF blocks = <<>> THEN <<acc, left>>
  ELSE LET w == Head(blocks)  want == Min(B, left) IN
       IF w[1] = 0 THEN ReadBlocks(s, Tail(blocks), pos, left - want, acc \o ZeroAtoms(want))
       ELSE LET hit == {k \in 1..Len(s.wb) : s.wb[k].off = pos /\ s.wb[k].size = w[1] /\ s.wb[k].comp = w[2]} IN
            IF hit = {} THEN <<acc \o <<[c |-> "garbage", n |-> want]>>, left - want>>
            ELSE ReadBlocks(s, Tail(blocks), pos + w[1], left - want, acc \o s.wb[CHOOSE k \in hit : TRUE].data)
ReadBack(s, f) ==
  LET i == s.ino[f]
      r == ReadBlocks(s, i.blocks, i.start, i.size, <<>>)
  IN IF r[2] = 0 THEN r[1]
     ELSE IF i.fidx = NoFrag \/ i.fidx >= Len(s.ftbl) THEN r[1] \o <<[c |-> "missing", n |-> r[2]]>>
     ELSE LET a == AtomAtAcc(DiskData(s, i.fidx), i.foff) IN r[1] \o <<a>>

RECURSIVE Normalize(_)
Normalize(d) ==               \* zero atoms are compared by length only (sparse blocks read back as zeros)
  IF d = <<>> THEN <<>> ELSE <<Head(d)>> \o Normalize(Tail(d))

NoError       == done => ~T.err /\ ~R.err
(* a failure of the compressor in any worker reaches the caller: some call up to and including finish() returns an error *)
ErrorReported == done => (T.pfail => T.err)
Deterministic == done => Result(T) = Result(R)
DataIntegrity == done => \A f \in 1..Len(input) : ReadBack(T, f) = Expected(f)
NoLeak        == done => T.backlog = 0 /\ T.pool = <<>> /\ T.ioq = <<>> /\ T.inflight = {} /\ ~T.hasFrag /\ ~T.hasCur
StoredNotLarger == \A k \in 1..Len(T.wb) : /\ T.wb[k].size <= Units(T.wb[k].data)
                                            /\ (T.wb[k].comp => T.wb[k].size < Units(T.wb[k].data))
                                            /\ T.wb[k].size <= B
FragTableSane == done => \A k \in 1..Len(T.ftbl) : T.ftbl[k].size > 0
                                                   /\ \E j \in 1..Len(T.wb) : T.wb[j].off = T.ftbl[k].loc /\ T.wb[j].size = T.ftbl[k].size
SameStorage(f, g) == /\ T.ino[f].start = T.ino[g].start /\ T.ino[f].fidx = T.ino[g].fidx /\ T.ino[f].foff = T.ino[g].foff
                     /\ T.ino[f].blocks = T.ino[g].blocks
(* a flag-free file that repeats an earlier flag-free file adds no storage: its block run is the run of some earlier  *)
(* file with the same blocks, its tail the fragment chunk of some earlier file with the same tail - not necessarily  *)
(* of the same file (a dont_deduplicate twin in between re-registers the chunk, and chunks are shared between files  *)
(* that differ elsewhere)                                                                                              *)
Sharing == done => \A g \in 1..Len(input) :
              (input[g].flags = {} /\ Expected(g) # <<>> /\ \E f \in 1..(g - 1) : Expected(f) = Expected(g) /\ input[f].flags = {})
              => /\ (input[g].blocks # <<>> =>
                       \E h \in 1..(g - 1) : input[h].blocks = input[g].blocks /\ T.ino[h].start = T.ino[g].start /\ T.ino[h].blocks = T.ino[g].blocks)
                 /\ (T.ino[g].fidx # NoFrag =>
                       \E h \in 1..(g - 1) : input[h].tail = input[g].tail /\ T.ino[h].fidx = T.ino[g].fidx /\ T.ino[h].foff = T.ino[g].foff)
StoredBlocksOf(s, f) ==       \* indices into wb of the stored blocks of file f (by position walk)
  LET i == s.ino[f] IN {k \in 1..Len(s.wb) : s.wb[k].off >= i.start /\ i.blocks # <<>>}
FlagsHonoured == done => \A f \in 1..Len(input) :
  LET fl == input[f].flags  i == T.ino[f] IN
  /\ ("DONT_FRAGMENT" \in fl => i.fidx = NoFrag)
  /\ ("DONT_COMPRESS" \in fl => \A k \in 1..Len(i.blocks) : ~i.blocks[k][2])
  /\ ("IGNORE_SPARSE" \in fl => (i.sparse = 0 /\ \A k \in 1..Len(i.blocks) : i.blocks[k][1] # 0))
  /\ ("DONT_FRAGMENT" \notin fl /\ input[f].tail # <<>> /\ ~("IGNORE_SPARSE" \notin fl /\ AllZero(input[f].tail))
        => i.fidx # NoFrag)
  /\ Len(i.blocks) = Len(input[f].blocks) + (IF input[f].tail # <<>> /\ i.fidx = NoFrag THEN 1 ELSE 0)
(* dont_compress: "if tail-end packing is performed, the entire fragment block is left uncompressed"  *)
FragShared(f) == \E g \in 1..(f - 1) : T.ino[g].fidx = T.ino[f].fidx /\ T.ino[g].foff = T.ino[f].foff
FlagDontCompressFrag == done => \A f \in 1..Len(input) :
   ("DONT_COMPRESS" \in input[f].flags /\ T.ino[f].fidx # NoFrag) => ~T.ftbl[T.ino[f].fidx + 1].comp
(* ... the same, except for a tail that was deduplicated against an earlier file's fragment (known finding) *)
FlagDontCompressFragOwn == done => \A f \in 1..Len(input) :
   ("DONT_COMPRESS" \in input[f].flags /\ T.ino[f].fidx # NoFrag /\ ~FragShared(f)) => ~T.ftbl[T.ino[f].fidx + 1].comp
Safety == NoError /\ DataIntegrity /\ NoLeak /\ StoredNotLarger /\ FragTableSane /\ Sharing /\ FlagsHonoured
          /\ FlagDontCompressFragOwn
=============================================================================
