------------------------------ MODULE XfrmIn ------------------------------
(* Input side of the stream decompression wrapper (lib/xfrm/src/istream.c precache + codecs); see XfrmOut.tla *)
EXTENDS Naturals, Sequences, TLC, Json
Min(a, b) == IF a < b THEN a ELSE b
RECURSIVE Sum(_)
Sum(s) == IF s = <<>> THEN 0 ELSE Head(s) + Sum(Tail(s))
CONSTANTS Members, EofMidMemberAccepted, DataErrorIgnored
(* ------------------------------- input side ------------------------------- *)
(* units of the compressed file: <<m, k>> payload unit k of member m, <<m, 0>> its trailer *)
RECURSIVE Layout(_, _)
Layout(ms, m) == IF ms = <<>> THEN <<>>
                 ELSE [k \in 1..Head(ms) |-> <<m, k>>] \o <<<<m, 0>>>> \o Layout(Tail(ms), m + 1)
VARIABLES file, cut, bad, rd, decoded, inMember, ipc, spin
ivars == <<file, cut, bad, rd, decoded, inMember, ipc, spin>>
IInit == /\ file = Layout(Members, 1)
         /\ cut \in 0..Len(Layout(Members, 1)) /\ bad \in 0..Len(Layout(Members, 1))
         /\ rd = 0 /\ decoded = <<>> /\ inMember = FALSE /\ ipc = "run" /\ spin = 0
IStep ==
  /\ ipc = "run"
  /\ IF rd >= cut
     THEN ipc' = (IF inMember /\ ~EofMidMemberAccepted THEN "error" ELSE "eof") /\ UNCHANGED <<rd, decoded, inMember, spin>>
     ELSE IF rd + 1 = bad
     THEN (IF DataErrorIgnored THEN spin' = Min(spin + 1, 3) /\ UNCHANGED <<ipc, rd, decoded, inMember>>   \* no progress, no error
           ELSE ipc' = "error" /\ UNCHANGED <<rd, decoded, inMember, spin>>)
     ELSE LET u == file[rd + 1] IN
          /\ rd' = rd + 1
          /\ IF u[2] = 0 THEN inMember' = FALSE /\ UNCHANGED decoded
             ELSE inMember' = TRUE /\ decoded' = Append(decoded, u)
          /\ UNCHANGED <<ipc, spin>>
  /\ UNCHANGED <<file, cut, bad>>
INext == IStep \/ (ipc # "run" /\ UNCHANGED ivars)
ISpec == IInit /\ [][INext]_ivars
IFair == ISpec /\ WF_ivars(IStep)
CompleteCut == cut = Len(file) \/ (cut > 0 /\ file[cut][2] = 0) \/ cut = 0
Transparent == (ipc = "eof") => decoded = SelectSeq(SubSeq(file, 1, cut), LAMBDA u : u[2] # 0)
TruncationReported == (ipc = "eof") => (CompleteCut /\ (bad = 0 \/ bad > cut))
IEnds == <>(ipc # "run")
NoSpin == spin < 3
=============================================================================
