------------------------------ MODULE XfrmIn ------------------------------
(* Input side of the stream decompression wrapper (lib/xfrm/src/istream.c: precache, xfrm_get_buffered_data, and the      *)
(* codecs' process_data); see XfrmOut.tla for the output side.                                                            *)
(* The compressed file is a sequence of members; member m has Members[m] payload units (0 = an EMPTY member, e.g. the      *)
(* output of `xz -c </dev/null`) and one trailer.  One step = one call of get_buffered_data by the consumer: if the buffer  *)
(* is empty, precache runs its refill loop - decode until the buffer (Cap units) is full or the input is exhausted; the      *)
(* end of a member does NOT end the loop - and the consumer takes what is buffered; an empty buffer after precache means     *)
(* end of file to the consumer.  Input that ends inside a member is an error, a damaged unit is an error.                   *)
EXTENDS Naturals, Sequences, TLC, Json
Min(a, b) == IF a < b THEN a ELSE b
RECURSIVE Sum(_)
Sum(s) == IF s = <<>> THEN 0 ELSE Head(s) + Sum(Tail(s))
CONSTANTS Members, Cap,
          EofMidMemberAccepted,    \* deviation (pinned tree): input that ends inside a member is a normal end of file
          DataErrorIgnored,        \* deviation (pinned gzip wrapper): a damaged unit makes no progress and no error
          RefillStopsAtMemberEnd   \* deviation: the refill loop hands out what it has once a member is complete
(* units of the compressed file: <<m, k>> payload unit k of member m, <<m, 0>> its trailer *)
RECURSIVE Layout(_, _)
Layout(ms, m) == IF ms = <<>> THEN <<>>
                 ELSE [k \in 1..Head(ms) |-> <<m, k>>] \o <<<<m, 0>>>> \o Layout(Tail(ms), m + 1)
VARIABLES file, cut, bad, rd, decoded, inMember, ipc, spin
ivars == <<file, cut, bad, rd, decoded, inMember, ipc, spin>>
IInit == /\ file = Layout(Members, 1)
         /\ cut \in 0..Len(Layout(Members, 1)) /\ bad \in 0..Len(Layout(Members, 1))
         /\ rd = 0 /\ decoded = <<>> /\ inMember = FALSE /\ ipc = "run" /\ spin = 0

(* the refill loop from position r with n units buffered: <<r', buffered units, inMember', outcome>>, outcome "ok" | "error" | "spin" *)
RECURSIVE Refill(_, _, _)
Refill(r, got, inm) ==
  IF Len(got) >= Cap THEN <<r, got, inm, "ok">>
  ELSE IF r >= cut THEN <<r, got, inm, IF inm /\ ~EofMidMemberAccepted THEN "error" ELSE "ok">>          \* input exhausted (FLUSH_FULL round)
  ELSE IF r + 1 = bad THEN <<r, got, inm, IF DataErrorIgnored THEN "spin" ELSE "error">>
  ELSE LET u == file[r + 1] IN
       IF u[2] = 0 THEN (IF RefillStopsAtMemberEnd THEN <<r + 1, got, FALSE, "ok">> ELSE Refill(r + 1, got, FALSE))
       ELSE Refill(r + 1, Append(got, u), TRUE)

IStep ==
  /\ ipc = "run"
  /\ LET f == Refill(rd, <<>>, inMember) IN
     /\ rd' = f[1] /\ inMember' = f[3]
     /\ decoded' = decoded \o f[2]
     /\ CASE f[4] = "error" -> ipc' = "error" /\ spin' = spin
          [] f[4] = "spin" -> ipc' = ipc /\ spin' = Min(spin + 1, 3)
          [] OTHER -> ipc' = (IF f[2] = <<>> THEN "eof" ELSE "run") /\ spin' = spin              \* nothing buffered after precache: end of file
  /\ UNCHANGED <<file, cut, bad>>
INext == IStep \/ (ipc # "run" /\ UNCHANGED ivars)
ISpec == IInit /\ [][INext]_ivars
IFair == ISpec /\ WF_ivars(IStep)
CompleteCut == cut = Len(file) \/ (cut > 0 /\ file[cut][2] = 0) \/ cut = 0
Transparent == (ipc = "eof") => decoded = SelectSeq(SubSeq(file, 1, cut), LAMBDA u : u[2] # 0)
TruncationReported == (ipc = "eof") => (CompleteCut /\ (bad = 0 \/ bad > cut))
IEnds == <>(ipc # "run")
NoSpin == spin < 3
=============================================================================
