------------------------------ MODULE SortFile ------------------------------
(* bin/gensquashfs/src/sort_by_file.c (fstree_sort_files + sort_file_list): which sort-file line      *)
(* decides priority and flags of a file, and the order in which file data is packed.                  *)
(* Declarative meaning (gensquashfs.1): a file is governed by the FIRST line that matches it;         *)
(* unmatched files have priority 0 and no flags; data is laid out in ascending priority, ties keep    *)
(* the default order (stable).  ImplAssign / ImplOrder transcribe the C loops (ALREADY_MATCHED marks, *)
(* selection sort with a strict comparison); TLC checks they agree on every sort file over the bound. *)
(* A line is [prio, flags, exact, match]: match = set of files its pattern matches (the pattern        *)
(* language itself - fnmatch with/without FNM_PATHNAME - is concretised by the replay driver).         *)
EXTENDS Naturals, Integers, Sequences, FiniteSets, TLC, Json
CONSTANTS NFiles, MaxLines, Prios, FlagSets, Dev, Emit
Files == 1..NFiles
LineSet == {l \in [prio : Prios, flags : FlagSets, exact : BOOLEAN, match : SUBSET Files] :
              l.exact => Cardinality(l.match) <= 1}
VARIABLE lines
Init == lines \in UNION {[1..k -> LineSet] : k \in 0..MaxLines}

(* ---- declarative ---- *)
Hits(f) == {i \in 1..Len(lines) : f \in lines[i].match}
Gov(f)  == IF Hits(f) = {} THEN 0
           ELSE IF Dev = "LastMatchWins" THEN CHOOSE i \in Hits(f) : \A j \in Hits(f) : i >= j
           ELSE CHOOSE i \in Hits(f) : \A j \in Hits(f) : i <= j
SpecPrio(f)  == IF Gov(f) = 0 THEN 0 ELSE lines[Gov(f)].prio
SpecFlags(f) == IF Gov(f) = 0 THEN {} ELSE lines[Gov(f)].flags
Before(f, g) == SpecPrio(f) < SpecPrio(g) \/ (SpecPrio(f) = SpecPrio(g) /\ f < g)
SpecOrder == [k \in 1..NFiles |-> CHOOSE f \in Files : Cardinality({g \in Files : Before(g, f)}) = k - 1]

(* ---- transcription ---- *)
RECURSIVE ScanFiles(_, _, _, _)
ScanFiles(st, l, f, stop) ==          \* inner loop over fs->files for one line; st = [prio, flags, matched]
  IF f > NFiles \/ stop THEN st
  ELSE IF st.matched[f] THEN ScanFiles(st, l, f + 1, FALSE)
  ELSE IF f \in l.match
       THEN ScanFiles([prio |-> [st.prio EXCEPT ![f] = l.prio], flags |-> [st.flags EXCEPT ![f] = l.flags],
                       matched |-> [st.matched EXCEPT ![f] = TRUE]], l, f + 1, l.exact)
       ELSE ScanFiles(st, l, f + 1, FALSE)
RECURSIVE ScanLines(_, _)
ScanLines(st, i) == IF i > Len(lines) THEN st ELSE ScanLines(ScanFiles(st, lines[i], 1, FALSE), i + 1)
Assigned == ScanLines([prio |-> [f \in Files |-> 0], flags |-> [f \in Files |-> {}], matched |-> [f \in Files |-> FALSE]], 1)

RECURSIVE PickLow(_, _, _)
PickLow(rest, low, pr) ==             \* first strictly lowest element of the list
  IF rest = <<>> THEN low
  ELSE IF (IF Dev = "UnstableSort" THEN pr[Head(rest)] <= pr[low] ELSE pr[Head(rest)] < pr[low])
       THEN PickLow(Tail(rest), Head(rest), pr) ELSE PickLow(Tail(rest), low, pr)
RECURSIVE SelSort(_, _)
SelSort(list, pr) == IF list = <<>> THEN <<>>
                     ELSE LET low == PickLow(Tail(list), Head(list), pr) IN
                          <<low>> \o SelSort(SelectSeq(list, LAMBDA x : x # low), pr)
ImplOrder == SelSort([k \in 1..NFiles |-> k], Assigned.prio)

Next == UNCHANGED lines
Spec == Init /\ [][Next]_lines
FirstMatchWins == \A f \in Files : Assigned.prio[f] = SpecPrio(f) /\ Assigned.flags[f] = SpecFlags(f)
StableOrder    == ImplOrder = SpecOrder
EmitOK == Emit => PrintT(<<"RESULT", ToJson([lines |-> lines, order |-> SpecOrder,
                                              flags |-> [f \in Files |-> SpecFlags(f)], prio |-> [f \in Files |-> SpecPrio(f)]])>>)
=============================================================================
