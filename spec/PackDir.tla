------------------------------ MODULE PackDir ------------------------------
(* gensquashfs --pack-dir: what the scanned directory becomes under the options that touch attributes                     *)
(* (bin/gensquashfs/src/options.c, lib/common/src/dir_tree_iterator.c apply_changes, lib/sqfs/src/io/dir_hl.c,            *)
(* bin/gensquashfs/src/apply_xattr.c, lib/common/src/fstree_cli.c).  The source tree is fixed:                            *)
(*   a   file  7:8   time 5000  xattr user.t      d/b = hard link of a                                                    *)
(*   d   dir   11:12 time 5000                     l   symlink 9:10 time 5000                                              *)
(* and the directory itself (11:12, time 5000), whose own attributes never reach the image: the root inode takes the       *)
(* defaults.  Options: -k, --all-root | --set-uid 3, --set-gid 4, -H, -x, -o, --defaults mtime=99 / uid=55.                *)
EXTENDS Naturals, Sequences, FiniteSets, TLC, Json
CONSTANTS Emit,
          KeepTimeAppliesToRoot,   \* deviation: with -k the root takes the time stamp of the scanned directory
          ForcedOwnerSkipsRoot,    \* deviation (pinned tree before fix 742dec9): --set-uid / --all-root do not reach the root inode
          SelinuxBeforeMap,        \* deviation: the SELinux label is added before the map file is applied, so a security.selinux pair of the map file wins
          MapFileGetsHostPath      \* deviation: with -x the --xattr-file is looked up by the host path of the entry, so no line of it ever matches

Opts == [k : BOOLEAN, own : {"none", "allroot", "u3"}, g4 : BOOLEAN, H : BOOLEAN, x : BOOLEAN, A : BOOLEAN, o : BOOLEAN, dm : {"none", "99"}, du : {"none", "55"}, s : BOOLEAN]
(* s: --selinux with a context file that labels /a a_t and /d with everything below d_t; whatever no line matches gets the fall back label     *)
(* "unl" (system_u:object_r:unlabeled_t:s0).  The map file (A) also carries security.selinux="frommap" for /a: the label is added LAST and       *)
(* replaces it (apply_xattr.c: disk scan, map file, SELinux; same key = replace).                                                                *)
Ctx(m) == CASE m = "a" -> "a_t" [] m \in {"d", "b"} -> "d_t" [] OTHER -> "unl"
Sel(o, m) == LET map == o.A /\ m = "a" /\ ~MapFileGetsHostPath IN
             IF o.s THEN (IF SelinuxBeforeMap /\ map THEN "map" ELSE Ctx(m)) ELSE IF map THEN "map" ELSE "none"
(* A: an --xattr-file that gives /a the pair user.map and /d the pair user.dirmap (paths of the IMAGE); -x reads user.t of a from disk *)
Src == [a |-> [kind |-> "file", uid |-> 7, gid |-> 8, t |-> 5000, xa |-> TRUE],
        d |-> [kind |-> "dir", uid |-> 11, gid |-> 12, t |-> 5000, xa |-> FALSE],
        b |-> [kind |-> "file", uid |-> 7, gid |-> 8, t |-> 5000, xa |-> TRUE],        \* d/b, second name of a's inode
        l |-> [kind |-> "slink", uid |-> 9, gid |-> 10, t |-> 5000, xa |-> FALSE]]
Uid(o, u) == CASE o.own = "allroot" -> 0 [] o.own = "u3" -> 3 [] OTHER -> u
Gid(o, g) == IF o.g4 THEN 4 ELSE IF o.own = "allroot" THEN 0 ELSE g        \* the later option wins; the driver puts --set-gid behind --all-root
DefT(o) == IF o.dm = "99" THEN 99 ELSE 0
Node(o, n) == [kind |-> Src[n].kind, uid |-> Uid(o, Src[n].uid), gid |-> Gid(o, Src[n].gid),
               mtime |-> (IF o.k THEN Src[n].t ELSE DefT(o)),
               xattr |-> LET own(m) == (IF o.x /\ Src[m].xa THEN {"t"} ELSE {}) \cup
                                      (IF o.A /\ ~MapFileGetsHostPath THEN (IF m = "a" THEN {"map"} ELSE IF m = "d" THEN {"dirmap"} ELSE {}) ELSE {})
                         IN IF n = "b" /\ ~o.H THEN own("a") ELSE own(n),              \* d/b is a's inode unless -H
               sel |-> IF n = "b" /\ ~o.H THEN Sel(o, "a") ELSE Sel(o, n)]
Meaning(o) ==
  [root |-> [uid |-> (IF ForcedOwnerSkipsRoot THEN (IF o.du = "55" THEN 55 ELSE 0) ELSE Uid(o, IF o.du = "55" THEN 55 ELSE 0)),
             gid |-> (IF ForcedOwnerSkipsRoot THEN 0 ELSE Gid(o, 0)),
             mtime |-> (IF KeepTimeAppliesToRoot /\ o.k THEN 5000 ELSE DefT(o)), sel |-> Sel(o, "root")],
   a |-> Node(o, "a"), d |-> Node(o, "d"), b |-> Node(o, "b"), l |-> Node(o, "l"),
   linked |-> ~o.H]                                 \* a and d/b share one inode unless -H

VARIABLE o
Init == o \in Opts
Next == UNCHANGED o
Spec == Init /\ [][Next]_o
(* a forced owner reaches every inode; the time stamps of the image are either all the default or (entries, with -k) the sources' *)
ForcedOwnerEverywhere == (o.own = "u3") => \A n \in {"root", "a", "d", "b", "l"} : Meaning(o)[n].uid = 3
RootFromDefaults == Meaning(o).root.mtime = DefT(o)
MapFileApplies == o.A => ("map" \in Meaning(o).a.xattr /\ "dirmap" \in Meaning(o).d.xattr)
LabelEverywhere == o.s => \A n \in {"root", "a", "d", "b", "l"} : Meaning(o)[n].sel \notin {"none", "map"}
EmitOK == Emit => PrintT(<<"RESULT", ToJson([o |-> o, m |-> Meaning(o)])>>)
=============================================================================
