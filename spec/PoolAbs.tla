------------------------------ MODULE PoolAbs ------------------------------
(* Abstract (property-level) worker pool: what any correct implementation of                *)
(* include/util/threadpool.h looks like from outside.  Tickets 1..N are handed in, each is  *)
(* processed at most once (exactly once before it is handed back), and they are handed back *)
(* in submission order.  After a failure nothing more needs to be processed.                *)
EXTENDS Naturals, FiniteSets
CONSTANT N
VARIABLES aSub,      \* number of tickets accepted so far
          aProc,     \* set of tickets whose callback has run (to completion)
          aRet,      \* number of tickets handed back
          aFail      \* a callback reported failure (or the pool was shut down)

aVars == <<aSub, aProc, aRet, aFail>>

AInit == aSub = 0 /\ aProc = {} /\ aRet = 0 /\ aFail = FALSE

ASubmit  == ~aFail /\ aSub < N /\ aSub' = aSub + 1 /\ UNCHANGED <<aProc, aRet, aFail>>
AProcess == \E t \in 1..aSub : t \notin aProc /\ aProc' = aProc \cup {t}
                               /\ UNCHANGED <<aSub, aRet>> /\ aFail' \in {aFail, TRUE}
AReturn  == aRet < aSub /\ (aRet + 1) \in aProc /\ aRet' = aRet + 1 /\ UNCHANGED <<aSub, aProc, aFail>>
AShutdown == aFail' = TRUE /\ UNCHANGED <<aSub, aProc, aRet>>

ANext == ASubmit \/ AProcess \/ AReturn \/ AShutdown
ASpec == AInit /\ [][ANext]_aVars

AFifoOnce == aRet <= aSub /\ \A t \in 1..aRet : t \in aProc
=============================================================================
