------------------------------ MODULE CompOpts ------------------------------
(* Compressor options: the -X string of gensquashfs / tar2sqfs (lib/common/src/comp_opt.c compressor_cfg_init_options), the     *)
(* validation in the compressor constructors, the option record written behind the super block (write_options: nothing when     *)
(* everything persistent has its default value) and what read_options accepts (lib/sqfs/src/comp/{gzip,xz,lzma,zstd,lz4}.c).     *)
(* C01: an accepted option string gives an image that reads back; the stored record is the persistent part of the configuration  *)
(* C05: a hostile option record is refused or accepted by the rules below, never anything else.                                   *)
(* Flags are sets of bit values. Tokens: [k, v, s] - kind, integer value, the text that is put on the command line.               *)
EXTENDS Integers, Sequences, FiniteSets, TLC, Json
CONSTANTS Emit, MaxToks,
          PercentSuffix,          \* "rejected" as built (parse_size never steps over the '%': observation in DESIGN 0.8) | "accepted" (as documented)
          CreateChecksDictShape,  \* TRUE as built: xz constructor refuses a dictionary size that is not 2^n or 3*2^(n-1)
          ReadChecksFields        \* TRUE as built: read_options validates level / window / strategy bits / dictionary shape / flag bits / lz4 version

Tok(k, v, s) == [k |-> k, v |-> v, s |-> s]
Comps == {"gzip", "xz", "lzma", "zstd", "lz4"}
Toks(c) ==
  CASE c = "gzip" -> {Tok("level", 1, "level=1"), Tok("level", 9, "level=9"), Tok("level", 0, "level=0"), Tok("level", 10, "level=10"),
                      Tok("window", 8, "window=8"), Tok("window", 15, "window=15"), Tok("window", 16, "window=16"), Tok("missing", 0, "window"),
                      Tok("flag", 1, "default"), Tok("flag", 4, "huffman"), Tok("flag", 16, "fixed"),
                      Tok("unknown", 0, "hc"), Tok("na", 0, "dictsize=8192"), Tok("unknown", 0, "foo=1")}
    [] c = "xz" -> {Tok("level", 0, "level=abc"), Tok("level", 9, "level=9"), Tok("level", 10, "level=10"),
                    Tok("dict", 8192, "dictsize=8192"), Tok("dict", 65536, "dictsize=64k"), Tok("dict", 98304, "dictsize=96K"), Tok("dict", 10000, "dictsize=10000"),
                    Tok("dict", 4096, "dictsize=4096"), Tok("dict", 2097152, "dictsize=2m"), Tok("dict", 1048576, "dictsize=1M"), Tok("dict", 786432, "dictsize=768k"), Tok("dictpct", 50, "dictsize=50%"), Tok("dict", 131072, "dictsize=131072"),
                    Tok("lc", 4, "lc=4"), Tok("lc", 0, "lc=0"), Tok("lp", 1, "lp=1"), Tok("lp", 4, "lp=4"), Tok("pb", 4, "pb=4"), Tok("pb", 5, "pb=5"),
                    Tok("flag", 1, "x86"), Tok("flag", 8, "arm"), Tok("flag", 256, "extreme"), Tok("unknown", 0, "rle"), Tok("na", 0, "window=15")}
    [] c = "lzma" -> {Tok("level", 9, "level=9"), Tok("level", 10, "level=10"), Tok("dict", 8192, "dictsize=8192"), Tok("lc", 4, "lc=4"), Tok("lp", 1, "lp=1"),
                      Tok("flag", 1, "extreme"), Tok("unknown", 0, "x86")}
    [] c = "zstd" -> {Tok("level", 1, "level=1"), Tok("level", 15, "level=15"), Tok("level", 22, "level=22"), Tok("level", 23, "level=23"), Tok("level", 0, "level=0"),
                      Tok("unknown", 0, "hc"), Tok("na", 0, "window=15")}
    [] OTHER -> {Tok("flag", 1, "hc"), Tok("na", 0, "level=3"), Tok("unknown", 0, "x86")}
BlockSizes == {4096, 131072}
Inputs == {[c |-> c, bs |-> bs, toks |-> t] : c \in Comps, bs \in BlockSizes, t \in {<<>>}} \cup
          UNION {{[c |-> c, bs |-> bs, toks |-> t] : t \in UNION {[1..n -> Toks(c)] : n \in 1..MaxToks}} : c \in Comps, bs \in BlockSizes}

Max(a, b) == IF a > b THEN a ELSE b
Range(c, k) ==
  CASE c = "gzip" /\ k = "level" -> <<1, 9>> [] c = "gzip" /\ k = "window" -> <<8, 15>>
    [] c = "zstd" /\ k = "level" -> <<1, 22>>
    [] k = "level" -> <<0, 9>> [] k = "dict" -> <<8192, 1048576>> [] OTHER -> <<0, 4>>      \* xz / lzma: lc, lp, pb
Default(c, bs) ==
  CASE c = "gzip" -> [level |-> 9, window |-> 15, dict |-> 0, lc |-> 0, lp |-> 0, pb |-> 0, flags |-> {}]
    [] c = "xz" -> [level |-> 6, window |-> 0, dict |-> Max(bs, 8192), lc |-> 3, lp |-> 0, pb |-> 2, flags |-> {}]
    [] c = "lzma" -> [level |-> 5, window |-> 0, dict |-> Max(bs, 8192), lc |-> 3, lp |-> 0, pb |-> 2, flags |-> {}]
    [] c = "zstd" -> [level |-> 15, window |-> 0, dict |-> 0, lc |-> 0, lp |-> 0, pb |-> 0, flags |-> {}]
    [] OTHER -> [level |-> 0, window |-> 0, dict |-> 0, lc |-> 0, lp |-> 0, pb |-> 0, flags |-> {}]
Refused == [refused |-> TRUE]
Set(cfg, k, v) == CASE k = "level" -> [cfg EXCEPT !.level = v] [] k = "window" -> [cfg EXCEPT !.window = v] [] k = "dict" -> [cfg EXCEPT !.dict = v]
                    [] k = "lc" -> [cfg EXCEPT !.lc = v] [] k = "lp" -> [cfg EXCEPT !.lp = v] [] OTHER -> [cfg EXCEPT !.pb = v]
InRange(c, k, v) == v >= Range(c, k)[1] /\ v <= Range(c, k)[2]
(* one getsubopt round *)
Apply(c, bs, cfg, t) ==
  IF cfg = Refused THEN Refused
  ELSE CASE t.k \in {"unknown", "na", "missing"} -> Refused
         [] t.k = "flag" -> [cfg EXCEPT !.flags = @ \cup {t.v}]
         [] t.k = "dictpct" -> (IF PercentSuffix = "rejected" THEN Refused
                                ELSE IF InRange(c, "dict", (bs * t.v) \div 100) THEN Set(cfg, "dict", (bs * t.v) \div 100) ELSE Refused)
         [] OTHER -> IF InRange(c, t.k, t.v) THEN Set(cfg, t.k, t.v) ELSE Refused
RECURSIVE Fold(_, _, _, _)
Fold(c, bs, cfg, ts) == IF ts = <<>> THEN cfg ELSE Fold(c, bs, Apply(c, bs, cfg, Head(ts)), Tail(ts))
Pow2 == {2^n : n \in 0..21}
DictShapeOK(d) == d = 0 \/ d \in Pow2 \/ \E p \in Pow2 : d = p + p \div 2 /\ p >= 2        \* is_dict_size_valid: 0 passes as well
Parsed(i) == LET cfg == Fold(i.c, i.bs, Default(i.c, i.bs), i.toks) IN
             IF cfg = Refused THEN Refused
             ELSE IF i.c \in {"xz", "lzma"} /\ cfg.lc + cfg.lp > 4 THEN Refused ELSE cfg
Created(i) == LET cfg == Parsed(i) IN
              IF cfg = Refused THEN Refused
              ELSE IF i.c = "xz" /\ CreateChecksDictShape /\ ~DictShapeOK(cfg.dict) THEN Refused ELSE cfg

(* ---- the record behind the super block: None or the persistent fields ---- *)
None == [kind |-> "none"]
Stored(c, bs, cfg) ==
  CASE c = "gzip" -> IF cfg.level = 9 /\ cfg.window = 15 /\ cfg.flags = {} THEN None ELSE [kind |-> "gzip", level |-> cfg.level, window |-> cfg.window, flags |-> cfg.flags]
    [] c = "xz" -> IF cfg.flags = {} /\ cfg.dict = bs THEN None ELSE [kind |-> "xz", dict |-> cfg.dict, flags |-> cfg.flags \ {256}]      \* 'extreme' is not persistent
    [] c = "zstd" -> IF cfg.level = 15 THEN None ELSE [kind |-> "zstd", level |-> cfg.level]
    [] c = "lz4" -> [kind |-> "lz4", version |-> 1, flags |-> cfg.flags]
    [] OTHER -> None
(* ---- what read_options makes of a record ---- *)
GzipBits == {1, 2, 4, 8, 16}
XzBits == {1, 2, 4, 8, 16, 32, 256}
ReadOK(r) ==
  CASE r.kind = "none" -> TRUE
    [] ~ReadChecksFields -> TRUE
    [] r.kind = "gzip" -> r.level >= 1 /\ r.level <= 9 /\ r.window >= 8 /\ r.window <= 15 /\ r.flags \subseteq GzipBits
    [] r.kind = "xz" -> DictShapeOK(r.dict) /\ r.flags \subseteq XzBits
    [] r.kind = "lz4" -> r.version = 1
    [] OTHER -> TRUE
(* what a sane reader could work with (the values the constructor itself would take) *)
Usable(r) ==
  CASE r.kind = "gzip" -> r.level >= 1 /\ r.level <= 9 /\ r.window >= 8 /\ r.window <= 15 /\ r.flags \subseteq GzipBits
    [] r.kind = "xz" -> DictShapeOK(r.dict) /\ r.flags \subseteq XzBits
    [] r.kind = "lz4" -> r.version = 1
    [] OTHER -> TRUE
HostileRecords ==
  {[kind |-> "gzip", level |-> l, window |-> w, flags |-> f] : l \in {0, 1, 9, 10}, w \in {7, 8, 15, 16}, f \in {{}, GzipBits, {32}, {1, 32768}}} \cup
  {[kind |-> "xz", dict |-> d, flags |-> f] : d \in {0, 4096, 8192, 98304, 10000, 2097152, 3}, f \in {{}, {1, 8}, {256}, {64}, {512}}} \cup
  {[kind |-> "lz4", version |-> v, flags |-> f] : v \in {0, 1, 2}, f \in {{}, {1}, {2}}} \cup
  {[kind |-> "zstd", level |-> l] : l \in {0, 1, 22, 23, 100000}}

(* the 2 byte header in front of the record: 0x8000 | size, the size being exactly the one the compressor expects; anything else is refused *)
(* BEFORE the record is copied (it goes into a 64 byte buffer on the stack)                                                                *)
HeaderClasses == {"ok", "shorter", "longer", "fills64", "block8k", "max", "compressed"}
ReadAccepts(r, h) == h = "ok" /\ ReadOK(r)
VARIABLE inp
Init == inp \in Inputs
Next == UNCHANGED inp
Spec == Init /\ [][Next]_inp
Out(i) == LET cfg == Created(i) IN IF cfg = Refused THEN [refused |-> TRUE, stored |-> None] ELSE [refused |-> FALSE, stored |-> Stored(i.c, i.bs, cfg)]
(* the writer never produces a record its own reader refuses *)
WrittenReadsBack == ~Out(inp).refused => (ReadOK(Out(inp).stored) /\ Usable(Out(inp).stored))
(* tokens of different kinds commute; of the same kind the later one wins; flags accumulate *)
Swap(i) == [i EXCEPT !.toks = <<i.toks[2], i.toks[1]>>]
OrderFree == (Len(inp.toks) = 2 /\ (inp.toks[1].k # inp.toks[2].k \/ inp.toks[1].k = "flag")) => Out(inp) = Out(Swap(inp))
LaterWins == (Len(inp.toks) = 2 /\ inp.toks[1].k = inp.toks[2].k /\ inp.toks[1].k \notin {"flag", "unknown", "na", "missing"}
              /\ ~Out([inp EXCEPT !.toks = <<inp.toks[1]>>]).refused)
             => Out(inp) = Out([inp EXCEPT !.toks = <<inp.toks[2]>>])
DefaultsStoreNothing == (inp.toks = <<>> /\ inp.c \notin {"lz4"} /\ ~(inp.c = "xz" /\ inp.bs < 8192)) => Out(inp).stored = None
(* the reader's side: accepted exactly the usable records *)
HostileJudged == inp = inp /\ \A r \in HostileRecords : ReadOK(r) = Usable(r) /\ \A h \in HeaderClasses \ {"ok"} : ~ReadAccepts(r, h)
RenderSet(S) == S
EmitOK == Emit => PrintT(<<"RESULT", ToJson([c |-> inp.c, bs |-> inp.bs, toks |-> [j \in 1..Len(inp.toks) |-> inp.toks[j].s], out |-> Out(inp)])>>)
EmitHostile == (Emit /\ inp.toks = <<>> /\ inp.c = "gzip" /\ inp.bs = 4096) => PrintT(<<"HOSTILE", ToJson([recs |-> {[r |-> r, h |-> h, ok |-> ReadAccepts(r, h)] : r \in HostileRecords, h \in HeaderClasses}])>>)
=============================================================================
