----------------------------- MODULE PoolSerial -----------------------------
(* The serial implementation of the pool interface (lib/util/src/threadpool_serial.c): the degenerate member of C09 - no         *)
(* interleavings, but the same contract: every submitted item is processed exactly once, by dequeue, in submission order, handed *)
(* back exactly once; dequeue on an empty pool answers NULL; after a failing item submit reports the status; destroy returns.    *)
(* Implementation-shaped: heap nodes with a next pointer, the work queue (head, last) and the recycle list as in the C file.      *)
(* Node 0 = NULL.  Items are 1, 2, 3, ... in submission order.                                                                    *)
EXTENDS Naturals, Sequences, FiniteSets, TLC, Json
CONSTANTS MaxOps,             \* length of the call sequence
          Nodes,              \* heap node ids, e.g. 1..4
          FailItems,          \* which item numbers may be the failing one (0 = none)
          RecycledKeepsNext,  \* deviation: submit takes a node from the recycle list without clearing its next pointer
          LastNotReset,       \* deviation: dequeue does not reset queue_last when the queue becomes empty
          Emit

VARIABLES next, data, alive,       \* heap
          qhead, qlast, recycle,   \* the pool object
          status, failing,
          nsub,                    \* items submitted so far (accepted or not: the caller's counter)
          absq,                    \* ghost: the abstract queue (PoolAbs: submitted, not yet handed back)
          log                      \* per call: <<"S", rc>> | <<"D", returned item (0 = NULL), item the worker saw (0 = not called)>>
vars == <<next, data, alive, qhead, qlast, recycle, status, failing, nsub, absq, log>>

Init == /\ next = [n \in Nodes |-> 0] /\ data = [n \in Nodes |-> 0] /\ alive = {}
        /\ qhead = 0 /\ qlast = 0 /\ recycle = 0 /\ status = 0 /\ failing \in FailItems
        /\ nsub = 0 /\ absq = <<>> /\ log = <<>>

Submit ==
  /\ Len(log) < MaxOps
  /\ IF status # 0
     THEN /\ log' = Append(log, <<"S", 1, 0>>) /\ nsub' = nsub + 1
          /\ UNCHANGED <<next, data, alive, qhead, qlast, recycle, status, failing, absq>>
     ELSE LET reuse == recycle # 0
              item == IF reuse THEN recycle ELSE CHOOSE n \in Nodes : n \notin alive
              nx1 == IF reuse /\ ~RecycledKeepsNext THEN [next EXCEPT ![item] = 0] ELSE next
          IN /\ (reuse \/ \E n \in Nodes : n \notin alive)                \* the model's heap is large enough by construction (see HeapEnough)
             /\ recycle' = IF reuse THEN next[item] ELSE recycle
             /\ alive' = alive \cup {item}
             /\ data' = [data EXCEPT ![item] = nsub + 1]
             /\ next' = IF qlast = 0 THEN nx1 ELSE [nx1 EXCEPT ![qlast] = item]
             /\ qhead' = IF qlast = 0 THEN item ELSE qhead
             /\ qlast' = item
             /\ nsub' = nsub + 1
             /\ absq' = Append(absq, nsub + 1)
             /\ log' = Append(log, <<"S", 0, 0>>)
             /\ UNCHANGED <<status, failing>>

Dequeue ==
  /\ Len(log) < MaxOps
  /\ IF qhead = 0
     THEN /\ log' = Append(log, <<"D", 0, 0>>)
          /\ UNCHANGED <<next, data, alive, qhead, qlast, recycle, status, failing, nsub, absq>>
     ELSE LET item == qhead  ptr == data[item] IN
          /\ qhead' = next[item]
          /\ qlast' = IF next[item] = 0 /\ ~LastNotReset THEN 0 ELSE qlast
          /\ data' = [data EXCEPT ![item] = 0]
          /\ next' = [next EXCEPT ![item] = recycle]
          /\ recycle' = item
          /\ status' = IF ptr = failing /\ status = 0 THEN 1 ELSE status
          /\ absq' = IF absq # <<>> THEN Tail(absq) ELSE absq
          /\ log' = Append(log, <<"D", ptr, ptr>>)
          /\ UNCHANGED <<alive, failing, nsub>>
Next == Submit \/ Dequeue
Spec == Init /\ [][Next]_vars

(* ---- list shapes ---- *)
RECURSIVE Walk(_, _, _)
Walk(n, nx, fuel) == IF n = 0 \/ fuel = 0 THEN <<>> ELSE <<n>> \o Walk(nx[n], nx, fuel - 1)
QNodes == Walk(qhead, next, Cardinality(Nodes) + 1)
RNodes == Walk(recycle, next, Cardinality(Nodes) + 1)
NoDup(s) == \A i, j \in 1..Len(s) : i # j => s[i] # s[j]
ListsSound == /\ Len(QNodes) <= Cardinality(Nodes) /\ Len(RNodes) <= Cardinality(Nodes)       \* acyclic
              /\ NoDup(QNodes \o RNodes)                                                       \* disjoint: destroy frees every node once
              /\ {QNodes[i] : i \in 1..Len(QNodes)} \cup {RNodes[i] : i \in 1..Len(RNodes)} = alive   \* nothing leaks
              /\ (qhead = 0) = (qlast = 0) /\ (qlast # 0 => qlast = QNodes[Len(QNodes)])
(* ---- the contract (refinement of the abstract queue) ---- *)
QueueIsAbstract == [i \in 1..Len(QNodes) |-> data[QNodes[i]]] = absq
Returned == SelectSeq(log, LAMBDA e : e[1] = "D" /\ e[2] # 0)
Accepted == Len(SelectSeq(log, LAMBDA e : e[1] = "S" /\ e[2] = 0))
(* the accepted items carry the numbers of their submit calls; handed back = those numbers in order, each once *)
AcceptedItems == LET idx == {i \in 1..Len(log) : log[i][1] = "S" /\ log[i][2] = 0}
                     num(i) == Cardinality({j \in 1..i : log[j][1] = "S"})
                 IN {num(i) : i \in idx}
FifoOnce == /\ \A i \in 1..Len(Returned) : Returned[i][2] \in AcceptedItems /\ Returned[i][3] = Returned[i][2]
            /\ \A i, j \in 1..Len(Returned) : i < j => Returned[i][2] < Returned[j][2]
            /\ Len(Returned) + Len(absq) = Accepted
NullOnlyWhenEmpty == \A i \in 1..Len(log) : (log[i][1] = "D" /\ log[i][2] = 0) =>
                       Cardinality({j \in 1..(i - 1) : log[j][1] = "D" /\ log[j][2] # 0}) = Cardinality({j \in 1..(i - 1) : log[j][1] = "S" /\ log[j][2] = 0})
StatusReported == \A i \in 1..Len(log) : (log[i][1] = "S" /\ log[i][2] # 0) => \E j \in 1..(i - 1) : log[j][1] = "D" /\ log[j][2] = failing /\ failing # 0
HeapEnough == Cardinality(alive) <= Cardinality(Nodes)
EmitOK == (Emit /\ Len(log) = MaxOps) => PrintT(<<"RESULT", ToJson([failing |-> failing, log |-> log, status |-> status, live |-> Cardinality(alive)])>>)
=============================================================================
