------------------------------- MODULE TarSem -------------------------------
(* Meaning of a tar header sequence as read by lib/tar/src/read_header.c: extension records (GNU 'L' long    *)
(* name, 'K' long link, PAX 'x' local, 'g' global) followed by the entry header.  Impl folds the records     *)
(* the way the C loop does (pending values + set_by mask, 'x' clears what came before, 'g' is skipped);      *)
(* Spec is the declarative rule: a field of an entry has the value of the LAST extension record since the    *)
(* previous entry that sets it, else the header's own value, and nothing leaks into the next entry.          *)
(* (Mixing 'L'/'K' BEFORE an 'x' for the same entry is implementation-defined and excluded: ValidSeq.)       *)
(* Also: the meaning of a sparse map (segments of data inside a file of a given real size).                  *)
EXTENDS Naturals, Sequences, FiniteSets, TLC, Json
CONSTANTS MaxExt, Emit, Pairs,
          NVals,                    \* number of distinguishable values per field (2 for C04, 1 for the robustness runs of C07)
          AnySeq,                   \* TRUE = every extension sequence (C07), FALSE = only ValidSeq (C04)
          SetByPaxSurvivesClear,    \* deviation: an 'x' record clears the pending values but not the "already set" mask
          WriterXLast               \* deviation: sqfs2tar writes the 'x' record (xattrs) after the 'K' / 'L' records
Vals == 1..NVals                                 \* value ids; 0 = the header's own value
Ext == [t : {"L"}, v : Vals] \cup [t : {"K"}, v : Vals] \cup [t : {"g"}, v : {0}]
       \cup [t : {"x"}, name : {0} \cup Vals, link : {0} \cup Vals, uid : {0} \cup Vals]
Kinds == {"file", "slink", "hlink", "dir"}
Entry == [exts : UNION {[1..k -> Ext] : k \in 0..MaxExt}, kind : Kinds]
ValidSeq(exts) == \A i, j \in 1..Len(exts) : (i < j /\ exts[j].t = "x") => exts[i].t = "g"     \* at most one 'x', before any L / K

(* ---- transcription of the read loop ---- *)
RECURSIVE FoldExt(_, _)
FoldExt(exts, acc) ==
  IF exts = <<>> THEN acc
  ELSE LET e == Head(exts) IN
       FoldExt(Tail(exts),
         CASE e.t = "L" -> [acc EXCEPT !.name = e.v]
           [] e.t = "K" -> [acc EXCEPT !.link = e.v]
           [] e.t = "g" -> acc
           [] e.t = "x" -> [name |-> e.name, link |-> e.link, uid |-> e.uid])        \* clear_header + set_by_pax = 0
Impl(entry) == LET p == FoldExt(entry.exts, [name |-> 0, link |-> 0, uid |-> 0]) IN
               [name |-> p.name, uid |-> p.uid,
                link |-> IF entry.kind \in {"slink", "hlink"} THEN p.link ELSE 0 - 1]  \* link only meaningful for links

(* ---- the same loop with the set_by_pax mask spelled out: pending value 0 = NULL pointer.  The entry header   *)
(* fills in every field whose bit is clear; a set bit with a NULL value is a NULL dereference later on           *)
(* (canonicalize_name(NULL), strlen(NULL)).                                                                       *)
RECURSIVE FoldBits(_, _)
FoldBits(exts, acc) ==
  IF exts = <<>> THEN acc
  ELSE LET e == Head(exts) IN
       FoldBits(Tail(exts),
         CASE e.t = "L" -> [acc EXCEPT !.name = e.v, !.nameBit = TRUE]
           [] e.t = "K" -> [acc EXCEPT !.link = e.v, !.linkBit = TRUE]
           [] e.t = "g" -> acc
           [] e.t = "x" -> [name |-> e.name, link |-> e.link, uid |-> e.uid,
                            nameBit |-> (e.name # 0) \/ (SetByPaxSurvivesClear /\ acc.nameBit),
                            linkBit |-> (e.link # 0) \/ (SetByPaxSurvivesClear /\ acc.linkBit)])
Pending(entry) == FoldBits(entry.exts, [name |-> 0, link |-> 0, uid |-> 0, nameBit |-> FALSE, linkBit |-> FALSE])
NullDeref(entry) == \/ Pending(entry).nameBit /\ Pending(entry).name = 0
                    \/ entry.kind \in {"slink", "hlink"} /\ Pending(entry).linkBit /\ Pending(entry).link = 0

(* ---- the writer side (lib/tar/src/write_header.c write_tar_header): which extension records sqfs2tar puts in  *)
(* front of an entry with a long name / long symlink target / xattrs, and in which order: x, K, L.              *)
Attr == [kind : {"file", "dir", "slink"}, longname : BOOLEAN, longlink : BOOLEAN, xattr : BOOLEAN]
WriterExts(a) ==
  LET x == IF a.xattr THEN << [t |-> "x", name |-> 0, link |-> 0, uid |-> 0] >> ELSE << >>
      k == IF a.kind = "slink" /\ a.longlink THEN << [t |-> "K", v |-> 1] >> ELSE << >>
      l == IF a.longname THEN << [t |-> "L", v |-> 1] >> ELSE << >>
  IN IF WriterXLast THEN k \o l \o x ELSE x \o k \o l
(* reading back what the writer wrote yields the entry's own name and target (1 = the long value carried by L / K) *)
WriterRoundTrip ==
  \A a \in Attr : LET e == [exts |-> WriterExts(a), kind |-> a.kind]  p == Pending(e) IN
     /\ ~NullDeref(e)
     /\ p.name = (IF a.longname THEN 1 ELSE 0)
     /\ (a.kind = "slink" => p.link = (IF a.longlink THEN 1 ELSE 0))

(* ---- declarative rule ---- *)
Setters(exts, f) == {i \in 1..Len(exts) : \/ (exts[i].t = "x" /\ exts[i][f] # 0)
                                          \/ (f = "name" /\ exts[i].t = "L") \/ (f = "link" /\ exts[i].t = "K")}
LastVal(exts, f) == IF Setters(exts, f) = {} THEN 0
                    ELSE LET i == CHOOSE k \in Setters(exts, f) : \A j \in Setters(exts, f) : k >= j IN
                         IF exts[i].t = "x" THEN exts[i][f] ELSE exts[i].v
SpecOf(entry) == [name |-> LastVal(entry.exts, "name"), uid |-> LastVal(entry.exts, "uid"),
                  link |-> IF entry.kind \in {"slink", "hlink"} THEN LastVal(entry.exts, "link") ELSE 0 - 1]

VARIABLES e1, e2
Init == /\ \E k \in 0..MaxExt : \E x \in [1..k -> Ext] : \E kd \in Kinds : e1 = [exts |-> x, kind |-> kd]
        /\ (AnySeq \/ ValidSeq(e1.exts))
        /\ e2 \in (IF Pairs THEN Entry ELSE {[exts |-> <<[t |-> "L", v |-> NVals]>>, kind |-> "file"], [exts |-> <<>>, kind |-> "slink"]}) /\ ValidSeq(e2.exts)
Next == UNCHANGED <<e1, e2>>
Spec == Init /\ [][Next]_<<e1, e2>>
ImplIsSpec == (ValidSeq(e1.exts) => Impl(e1) = SpecOf(e1)) /\ Impl(e2) = SpecOf(e2)
(* whatever precedes an entry, the reader never ends up with a "set" field that has no value *)
WriterReaderRoundTrip == e1.kind \in Kinds /\ WriterRoundTrip       \* (state-level so that TLC reports it as an invariant violation)
NoNullDeref == ~NullDeref(e1) /\ ~NullDeref(e2)
BitsAgree == Pending(e1).name = FoldExt(e1.exts, [name |-> 0, link |-> 0, uid |-> 0]).name
EmitOK == Emit => PrintT(<<"RESULT", ToJson([e1 |-> e1, e2 |-> e2, m1 |-> Impl(e1), m2 |-> Impl(e2), valid |-> ValidSeq(e1.exts)])>>)

(* ---- sparse maps: Units of a file, Data = set of units that carry data ---- *)
Expand(n, data) == [i \in 1..n |-> IF i \in data THEN i ELSE 0]
Segments(n, data) ==      \* maximal runs of data units as <<offset, length>> (0-based offset), in ascending order
  LET starts == {i \in data : i = 1 \/ (i - 1) \notin data} IN
  {<<i - 1, (CHOOSE l \in 1..n : (\A k \in i..(i + l - 1) : k \in data) /\ (i + l) \notin data)>> : i \in starts}
FromSegments(n, segs) == [i \in 1..n |-> IF \E s \in segs : s[1] < i /\ i <= s[1] + s[2] THEN i ELSE 0]
SparseRoundTrip == \A n \in 1..5 : \A data \in SUBSET (1..n) : FromSegments(n, Segments(n, data)) = Expand(n, data)
=============================================================================
