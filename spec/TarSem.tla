------------------------------- MODULE TarSem -------------------------------
(* Meaning of a tar header sequence as read by lib/tar/src/read_header.c: extension records (GNU 'L' long    *)
(* name, 'K' long link, PAX 'x' local, 'g' global) followed by the entry header.  Impl folds the records     *)
(* the way the C loop does (pending values + set_by mask, 'x' clears what came before, 'g' is skipped);      *)
(* Spec is the declarative rule: a field of an entry has the value of the LAST extension record since the    *)
(* previous entry that sets it, else the header's own value, and nothing leaks into the next entry.          *)
(* (Mixing 'L'/'K' BEFORE an 'x' for the same entry is implementation-defined and excluded: ValidSeq.)       *)
(* Also: the meaning of a sparse map (segments of data inside a file of a given real size).                  *)
EXTENDS Naturals, Sequences, FiniteSets, TLC, Json
CONSTANTS MaxExt, Emit, Pairs
Vals == {1, 2}                                   \* value ids; 0 = the header's own value
Ext == [t : {"L"}, v : Vals] \cup [t : {"K"}, v : Vals] \cup [t : {"g"}, v : {0}]
       \cup [t : {"x"}, name : {0} \cup Vals, link : {0} \cup Vals, uid : {0} \cup Vals]
Kinds == {"file", "slink", "hlink", "dir"}
Entry == [exts : UNION {[1..k -> Ext] : k \in 0..MaxExt}, kind : Kinds]
ValidSeq(exts) == \A i, j \in 1..Len(exts) : (i < j /\ exts[j].t = "x") => exts[i].t = "g"     \* at most one 'x', before any L / K

(* ---- transcription of the read loop ---- *)
RECURSIVE FoldExt(_, _)
FoldExt(exts, acc) ==
  IF exts = <<>> THEN acc
  ELSE LET e == Head(exts) IN
       FoldExt(Tail(exts),
         CASE e.t = "L" -> [acc EXCEPT !.name = e.v]
           [] e.t = "K" -> [acc EXCEPT !.link = e.v]
           [] e.t = "g" -> acc
           [] e.t = "x" -> [name |-> e.name, link |-> e.link, uid |-> e.uid])        \* clear_header + set_by_pax = 0
Impl(entry) == LET p == FoldExt(entry.exts, [name |-> 0, link |-> 0, uid |-> 0]) IN
               [name |-> p.name, uid |-> p.uid,
                link |-> IF entry.kind \in {"slink", "hlink"} THEN p.link ELSE 0 - 1]  \* link only meaningful for links

(* ---- declarative rule ---- *)
Setters(exts, f) == {i \in 1..Len(exts) : \/ (exts[i].t = "x" /\ exts[i][f] # 0)
                                          \/ (f = "name" /\ exts[i].t = "L") \/ (f = "link" /\ exts[i].t = "K")}
LastVal(exts, f) == IF Setters(exts, f) = {} THEN 0
                    ELSE LET i == CHOOSE k \in Setters(exts, f) : \A j \in Setters(exts, f) : k >= j IN
                         IF exts[i].t = "x" THEN exts[i][f] ELSE exts[i].v
SpecOf(entry) == [name |-> LastVal(entry.exts, "name"), uid |-> LastVal(entry.exts, "uid"),
                  link |-> IF entry.kind \in {"slink", "hlink"} THEN LastVal(entry.exts, "link") ELSE 0 - 1]

VARIABLES e1, e2
Init == /\ e1 \in Entry /\ ValidSeq(e1.exts)
        /\ e2 \in (IF Pairs THEN Entry ELSE {[exts |-> <<[t |-> "L", v |-> 2]>>, kind |-> "file"], [exts |-> <<>>, kind |-> "slink"]}) /\ ValidSeq(e2.exts)
Next == UNCHANGED <<e1, e2>>
Spec == Init /\ [][Next]_<<e1, e2>>
ImplIsSpec == Impl(e1) = SpecOf(e1) /\ Impl(e2) = SpecOf(e2)
EmitOK == Emit => PrintT(<<"RESULT", ToJson([e1 |-> e1, e2 |-> e2, m1 |-> SpecOf(e1), m2 |-> SpecOf(e2)])>>)

(* ---- sparse maps: Units of a file, Data = set of units that carry data ---- *)
Expand(n, data) == [i \in 1..n |-> IF i \in data THEN i ELSE 0]
Segments(n, data) ==      \* maximal runs of data units as <<offset, length>> (0-based offset), in ascending order
  LET starts == {i \in data : i = 1 \/ (i - 1) \notin data} IN
  {<<i - 1, (CHOOSE l \in 1..n : (\A k \in i..(i + l - 1) : k \in data) /\ (i + l) \notin data)>> : i \in starts}
FromSegments(n, segs) == [i \in 1..n |-> IF \E s \in segs : s[1] < i /\ i <= s[1] + s[2] THEN i ELSE 0]
SparseRoundTrip == \A n \in 1..5 : \A data \in SUBSET (1..n) : FromSegments(n, Segments(n, data)) = Expand(n, data)
=============================================================================
