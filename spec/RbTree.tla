------------------------------- MODULE RbTree -------------------------------
(* The left-leaning red-black tree of lib/util/src/rbtree.c (insert, lookup, copy) - the index behind the directory reader's     *)
(* inode-reference cache and the xattr writer's table of distinct sets.  Transcription of subtree_insert / subtree_balance /      *)
(* rotate_left / rotate_right / flip_colors over functional trees; every insertion sequence of <= MaxIns keys over 1..K (with     *)
(* duplicates) is a behaviour.  Checked: search order, the red-black shape rules, every inserted key is found, a copy is the      *)
(* same tree (C19) and a later insert into one of them leaves the other alone.                                                    *)
EXTENDS Naturals, Sequences, FiniteSets, TLC, Json
CONSTANTS K, MaxIns, Emit,
          BalanceOrder,     \* "lrf" as built: rotate left, rotate right, flip | deviation "frl": the three steps of subtree_balance in reverse order
          RootStaysRed      \* deviation: rbtree_insert does not blacken the root

Nil == [nil |-> TRUE]
Node(k, red, l, r) == [nil |-> FALSE, k |-> k, red |-> red, l |-> l, r |-> r]
IsRed(n) == ~n.nil /\ n.red
Flip(n) == [n EXCEPT !.red = ~@, !.l = [n.l EXCEPT !.red = ~@], !.r = [n.r EXCEPT !.red = ~@]]
RotR(n) == LET x == n.l IN Node(x.k, n.red, x.l, Node(n.k, TRUE, x.r, n.r))
RotL(n) == LET x == n.r IN Node(x.k, n.red, Node(n.k, TRUE, n.l, x.l), x.r)
StepL(n) == IF IsRed(n.r) /\ ~IsRed(n.l) THEN RotL(n) ELSE n
StepR(n) == IF IsRed(n.l) /\ IsRed(n.l.l) THEN RotR(n) ELSE n
StepF(n) == IF IsRed(n.l) /\ IsRed(n.r) THEN Flip(n) ELSE n
Balance(n) == IF BalanceOrder = "lrf" THEN StepF(StepR(StepL(n))) ELSE StepL(StepR(StepF(n)))
RECURSIVE Ins(_, _)
Ins(root, k) == IF root.nil THEN Node(k, TRUE, Nil, Nil)
                ELSE IF k < root.k THEN Balance([root EXCEPT !.l = Ins(root.l, k)])
                ELSE Balance([root EXCEPT !.r = Ins(root.r, k)])                       \* equal keys go right
Insert(root, k) == LET t == Ins(root, k) IN IF RootStaysRed THEN t ELSE [t EXCEPT !.red = FALSE]
RECURSIVE Lookup(_, _)
Lookup(n, k) == IF n.nil THEN FALSE ELSE IF k = n.k THEN TRUE ELSE IF k < n.k THEN Lookup(n.l, k) ELSE Lookup(n.r, k)
RECURSIVE InOrder(_)
InOrder(n) == IF n.nil THEN <<>> ELSE InOrder(n.l) \o <<n.k>> \o InOrder(n.r)
RECURSIVE BlackHeights(_)
BlackHeights(n) == IF n.nil THEN {1} ELSE {h + (IF n.red THEN 0 ELSE 1) : h \in BlackHeights(n.l) \cup BlackHeights(n.r)}
RECURSIVE Shape(_)
Shape(n) == n.nil \/ (/\ ~IsRed(n.r)                                   \* left leaning: no red right link
                      /\ ~(IsRed(n) /\ IsRed(n.l))                      \* no two red links in a row
                      /\ Shape(n.l) /\ Shape(n.r))
RECURSIVE Pre(_)
Pre(n) == IF n.nil THEN <<>> ELSE <<<<n.k, n.red>>>> \o Pre(n.l) \o Pre(n.r)      \* with the in-order sequence this determines the tree

VARIABLES tree, ins, copy, copied
vars == <<tree, ins, copy, copied>>
Init == tree = Nil /\ ins = <<>> /\ copy = Nil /\ copied = FALSE
DoInsert(k) == /\ Len(ins) < MaxIns
               /\ tree' = Insert(tree, k) /\ ins' = Append(ins, k)
               /\ UNCHANGED <<copy, copied>>
DoCopy == /\ ~copied /\ ~tree.nil
          /\ copy' = tree /\ copied' = TRUE
          /\ UNCHANGED <<tree, ins>>
Next == (\E k \in 1..K : DoInsert(k)) \/ DoCopy
Spec == Init /\ [][Next]_vars

Sorted(s) == \A i \in 1..(Len(s) - 1) : s[i] <= s[i + 1]
SearchOrder == Sorted(InOrder(tree)) /\ Len(InOrder(tree)) = Len(ins)
RedBlack == Shape(tree) /\ Cardinality(BlackHeights(tree)) = 1 /\ ~IsRed(tree)
AllFound == \A i \in 1..Len(ins) : Lookup(tree, ins[i])
NothingElseFound == \A k \in 1..K : Lookup(tree, k) => \E i \in 1..Len(ins) : ins[i] = k
(* the copy is the tree as it was when it was taken (the real copy is compared with it after further inserts into the original: a shared node would show) *)
CopyIndependent == copied => (Len(InOrder(copy)) <= Len(ins) /\ Shape(copy) /\ Sorted(InOrder(copy)) /\ \A i \in 1..Len(InOrder(copy)) : Lookup(tree, InOrder(copy)[i]))
EmitOK == (Emit /\ Len(ins) = MaxIns) => PrintT(<<"RESULT", ToJson([ins |-> ins, pre |-> Pre(tree), inorder |-> InOrder(tree), copied |-> copied, cpre |-> Pre(copy), cat |-> Len(InOrder(copy))])>>)
=============================================================================
