---------------------------- MODULE PoolAbsInd ----------------------------
(* PoolAbs with Apalache type annotations and an inductive invariant: AFifoOnce holds for every N <= MaxN and    *)
(* behaviours of every length, not only the bounded instances TLC explores (integer ranges must be constant for  *)
(* Apalache, hence the quantifiers over 1..MaxN with a guard).  See checks/c09.py for the three calls:            *)
(*   initiation    --init=AInit   --inv=IndInv    --length=0                                                     *)
(*   consecution   --init=IndInit --inv=IndInv    --length=1                                                     *)
(*   implication   --init=IndInit --inv=AFifoOnce --length=0                                                     *)
EXTENDS Naturals, FiniteSets
CONSTANT
  \* @type: Int;
  N
VARIABLES
  \* @type: Int;
  aSub,
  \* @type: Set(Int);
  aProc,
  \* @type: Int;
  aRet,
  \* @type: Bool;
  aFail

MaxN == 24
ConstInit == N \in 1..MaxN
AInit == aSub = 0 /\ aProc = {} /\ aRet = 0 /\ aFail = FALSE
ASubmit  == ~aFail /\ aSub < N /\ aSub' = aSub + 1 /\ UNCHANGED <<aProc, aRet, aFail>>
AProcess == \E t \in 1..MaxN : t <= aSub /\ t \notin aProc /\ aProc' = aProc \cup {t}
                               /\ UNCHANGED <<aSub, aRet>> /\ aFail' \in {aFail, TRUE}
AReturn  == aRet < aSub /\ (aRet + 1) \in aProc /\ aRet' = aRet + 1 /\ UNCHANGED <<aSub, aProc, aFail>>
AShutdown == aFail' = TRUE /\ UNCHANGED <<aSub, aProc, aRet>>
ANext == ASubmit \/ AProcess \/ AReturn \/ AShutdown

AFifoOnce == aRet <= aSub /\ \A t \in 1..MaxN : t <= aRet => t \in aProc
IndInv == /\ aSub >= 0 /\ aSub <= N /\ aRet >= 0 /\ aRet <= aSub
          /\ \A t \in aProc : t >= 1 /\ t <= aSub
          /\ \A t \in 1..MaxN : t <= aRet => t \in aProc
IndInit == /\ aSub \in 0..MaxN /\ aRet \in 0..MaxN /\ aProc \in SUBSET (1..MaxN) /\ aFail \in BOOLEAN
           /\ IndInv
=============================================================================
