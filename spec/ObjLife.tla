------------------------------ MODULE ObjLife ------------------------------
(* Life cycle of libsquashfs objects (include/sqfs/predef.h: sqfs_object_t with refcount,       *)
(* destroy and copy hooks; sqfs_grab / sqfs_drop / sqfs_copy) and of their copy hooks.          *)
(*                                                                                              *)
(* An object owns buffers (deep-copied by a correct copy hook), may own a child object (the     *)
(* data reader owns its fragment table: copied with sqfs_copy, released with sqfs_drop) and     *)
(* shares resources (file, compressor: grabbed by a correct copy hook).  The abstract state of   *)
(* an object is the sequence of mutations applied to it; it lives in its first buffer (so that   *)
(* a shallow copy makes mutations leak between objects) or, for bufferless kinds, in the object. *)
(* Property C19: the copy answers as the original would have, operations on one never affect     *)
(* the other, both can be released in either order without crash, double free or leak.           *)
EXTENDS Naturals, Sequences, FiniteSets, TLC

CONSTANTS NBufs,          \* buffers owned by the object kind (0..2)
          HasChild,       \* owns a child object with one buffer (fragment table inside data reader)
          NShared,        \* shared resources grabbed (0 or 2: file + compressor)
          MaxObj, MaxMut, MaxOps,
          Dev             \* "none" | "CopyWithoutObjectInit" | "ChildCopyWithoutObjectInit" | "ShallowBuffer"
                          \* | "SharedNotGrabbed" | "RefcountCopied" | "ChildNotCopied"
                          \* | "FailedCopyReleasesOriginal" (a copy hook that runs out of memory drops the child of the ORIGINAL)

Objs == 1..MaxObj
VARIABLES alive,          \* set of live object ids
          rc, hasDestroy, \* per object
          bufs,           \* per object: sequence of buffer ids (own buffers, then the child's buffer)
          childInit,      \* per object: the child object has its hooks
          own,            \* per object: abstract state for bufferless kinds
          expect,         \* per object: mutations that SHOULD be visible (ghost)
          content,        \* per buffer id: sequence of mutations stored
          heap, freed,    \* live / freed buffer ids
          nextBuf,
          shr,            \* reference count of the shared resources (harness holds 1)
          harnessHolds,   \* harness still holds its reference to the shared resources
          err, lastAns, lastObj, nops,
          held            \* references the client program holds on each object (ghost)
vars == <<alive, rc, hasDestroy, bufs, childInit, own, expect, content, heap, freed, nextBuf, shr,
          harnessHolds, err, lastAns, lastObj, nops, held>>

TotalBufs == NBufs + (IF HasChild THEN 1 ELSE 0)
Range(s) == {s[i] : i \in 1..Len(s)}

Init ==
  /\ alive = {1} /\ rc = [o \in Objs |-> IF o = 1 THEN 1 ELSE 0]
  /\ hasDestroy = [o \in Objs |-> o = 1]
  /\ bufs = [o \in Objs |-> IF o = 1 THEN [i \in 1..TotalBufs |-> i] ELSE <<>>]
  /\ childInit = [o \in Objs |-> o = 1]
  /\ own = [o \in Objs |-> <<>>] /\ expect = [o \in Objs |-> <<>>]
  /\ content = [b \in 1..(3 * (MaxOps + 2)) |-> <<>>]
  /\ heap = 1..TotalBufs /\ freed = {} /\ nextBuf = TotalBufs + 1
  /\ shr = (IF NShared > 0 THEN 2 ELSE 0) /\ harnessHolds = (NShared > 0)
  /\ err = "none" /\ lastAns = <<>> /\ lastObj = 0 /\ nops = 0
  /\ held = [o \in Objs |-> IF o = 1 THEN 1 ELSE 0]

Live(o) == Range(bufs[o]) \subseteq heap /\ (NShared = 0 \/ shr > 0)

State(o) == IF TotalBufs > 0 THEN content[bufs[o][1]] ELSE own[o]

Mut(o, a) ==
  /\ err = "none" /\ o \in alive /\ held[o] > 0 /\ nops < MaxOps /\ Len(expect[o]) < MaxMut
  /\ nops' = nops + 1
  /\ IF ~Live(o) THEN err' = "use-after-free" /\ UNCHANGED <<content, own, expect>>
     ELSE /\ expect' = [expect EXCEPT ![o] = Append(@, a)]
          /\ IF TotalBufs > 0
             THEN content' = [content EXCEPT ![bufs[o][1]] = Append(@, a)] /\ UNCHANGED own
             ELSE own' = [own EXCEPT ![o] = Append(@, a)] /\ UNCHANGED content
          /\ UNCHANGED err
  /\ UNCHANGED <<alive, rc, hasDestroy, bufs, childInit, heap, freed, nextBuf, shr, harnessHolds, lastAns, lastObj, held>>

Query(o) ==
  /\ err = "none" /\ o \in alive /\ held[o] > 0 /\ nops < MaxOps
  /\ nops' = nops + 1
  /\ IF ~Live(o) THEN err' = "use-after-free" /\ UNCHANGED <<lastAns, lastObj>>
     ELSE lastAns' = State(o) /\ lastObj' = o /\ UNCHANGED err
  /\ UNCHANGED <<alive, rc, hasDestroy, bufs, childInit, own, expect, content, heap, freed, nextBuf, shr, harnessHolds, held>>

Copy(o) ==
  /\ err = "none" /\ o \in alive /\ held[o] > 0 /\ nops < MaxOps /\ Cardinality(alive) < MaxObj
  /\ LET n == CHOOSE x \in Objs : x \notin alive /\ rc[x] = 0 /\ \A y \in Objs : (y \notin alive /\ rc[y] = 0) => x <= y
         shallow == Dev = "ShallowBuffer"
         nb == IF shallow THEN bufs[o]
               ELSE [i \in 1..TotalBufs |->
                       IF Dev = "ChildNotCopied" /\ HasChild /\ i = TotalBufs THEN bufs[o][i] ELSE nextBuf + i - 1]
         fresh == Range(nb) \ Range(bufs[o])
     IN /\ alive' = alive \cup {n}
        /\ rc' = [rc EXCEPT ![n] = IF Dev = "RefcountCopied" THEN rc[o] ELSE 1]
        /\ hasDestroy' = [hasDestroy EXCEPT ![n] = Dev # "CopyWithoutObjectInit"]
        /\ childInit' = [childInit EXCEPT ![n] = Dev # "ChildCopyWithoutObjectInit"]
        /\ bufs' = [bufs EXCEPT ![n] = nb]
        /\ heap' = heap \cup fresh /\ nextBuf' = nextBuf + TotalBufs
        /\ content' = [b \in DOMAIN content |->
                         IF \E i \in 1..TotalBufs : nb[i] = b /\ b \in fresh
                         THEN content[bufs[o][CHOOSE i \in 1..TotalBufs : nb[i] = b]] ELSE content[b]]
        /\ own' = [own EXCEPT ![n] = own[o]]
        /\ expect' = [expect EXCEPT ![n] = expect[o]]
        /\ shr' = (IF NShared > 0 /\ Dev # "SharedNotGrabbed" THEN shr + 1 ELSE shr)
  /\ nops' = nops + 1
  /\ held' = [held EXCEPT ![CHOOSE x \in Objs : x \notin alive /\ rc[x] = 0 /\ \A y \in Objs : (y \notin alive /\ rc[y] = 0) => x <= y] = 1]
  /\ UNCHANGED <<freed, harnessHolds, err, lastAns, lastObj>>

(* sqfs_copy when an allocation inside the copy hook fails: the hook returns NULL after releasing exactly what it had   *)
(* acquired for the copy; the original is untouched.  (Pinned xattr reader: the half-built copy still holds the          *)
(* original's child pointers after the memcpy and drops those.)                                                          *)
CopyFails(o) ==
  /\ err = "none" /\ o \in alive /\ held[o] > 0 /\ nops < MaxOps
  /\ nops' = nops + 1
  /\ IF Dev = "FailedCopyReleasesOriginal" /\ HasChild
     THEN /\ heap' = heap \ {bufs[o][TotalBufs]} /\ freed' = freed \cup {bufs[o][TotalBufs]}
     ELSE UNCHANGED <<heap, freed>>
  /\ UNCHANGED <<alive, rc, hasDestroy, bufs, childInit, own, expect, content, nextBuf, shr, harnessHolds, err, lastAns, lastObj, held>>

Grab(o) ==
  /\ err = "none" /\ o \in alive /\ held[o] = 1 /\ nops < MaxOps
  /\ rc' = [rc EXCEPT ![o] = @ + 1] /\ nops' = nops + 1 /\ held' = [held EXCEPT ![o] = 2]
  /\ UNCHANGED <<alive, hasDestroy, bufs, childInit, own, expect, content, heap, freed, nextBuf, shr, harnessHolds,
                 err, lastAns, lastObj>>

Drop(o) ==
  /\ err = "none" /\ o \in alive /\ held[o] > 0 /\ nops' = nops + 1 /\ held' = [held EXCEPT ![o] = @ - 1]
  /\ IF rc[o] > 1
     THEN /\ rc' = [rc EXCEPT ![o] = @ - 1]
          /\ UNCHANGED <<alive, heap, freed, shr, err>>
     ELSE IF ~hasDestroy[o] THEN /\ err' = "null-destroy-hook" /\ UNCHANGED <<alive, rc, heap, freed, shr>>
     ELSE IF HasChild /\ ~childInit[o] THEN /\ err' = "null-destroy-hook(child)" /\ UNCHANGED <<alive, rc, heap, freed, shr>>
     ELSE IF \E b \in Range(bufs[o]) : b \in freed
          THEN /\ err' = "double-free" /\ UNCHANGED <<alive, rc, heap, freed, shr>>
     ELSE /\ alive' = alive \ {o} /\ rc' = [rc EXCEPT ![o] = 0]
          /\ heap' = heap \ Range(bufs[o]) /\ freed' = freed \cup Range(bufs[o])
          /\ shr' = (IF NShared > 0 THEN (IF shr > 0 THEN shr - 1 ELSE 0) ELSE shr)
          /\ UNCHANGED err
  /\ UNCHANGED <<hasDestroy, bufs, childInit, own, expect, content, nextBuf, harnessHolds, lastAns, lastObj>>

HarnessRelease ==
  /\ err = "none" /\ harnessHolds /\ \A o \in Objs : held[o] = 0
  /\ harnessHolds' = FALSE /\ shr' = (IF shr > 0 THEN shr - 1 ELSE 0)
  /\ UNCHANGED <<alive, rc, hasDestroy, bufs, childInit, own, expect, content, heap, freed, nextBuf, err,
                 lastAns, lastObj, nops, held>>

Finished == (err # "none" \/ ((\A o \in Objs : held[o] = 0) /\ ~harnessHolds)) /\ UNCHANGED vars

Next == \/ \E o \in Objs : Query(o) \/ Copy(o) \/ CopyFails(o) \/ Drop(o) \/ Grab(o) \/ \E a \in 1..2 : Mut(o, a)
        \/ HarnessRelease \/ Finished
Spec == Init /\ [][Next]_vars

NoCrash      == err = "none"
Equivalent   == lastObj # 0 => lastAns = expect[lastObj] \/ lastObj \notin alive
Independent  == \A o \in alive : (held[o] > 0 /\ Live(o)) => State(o) = expect[o]
NoLeak       == ((\A o \in Objs : held[o] = 0) /\ ~harnessHolds) => (alive = {} /\ heap = {} /\ shr = 0)
RcSane       == \A o \in alive : rc[o] >= 1
Safety == NoCrash /\ Independent /\ NoLeak /\ RcSane
=============================================================================
