---------------------------- MODULE TraceFailStop ----------------------------
(* Trace check for C13: one JSON record per real faulted run (harness/preload.c injection on the real  *)
(* tools); every record must satisfy FailStop!Allowed.                                                  *)
EXTENDS FailStop, Json, IOUtils
Records == ndJsonDeserialize(IOEnv.TRACE)
VARIABLE bad
TInit == /\ bad = {i \in 1..Len(Records) : ~Allowed(Records[i])}
         /\ pc = 1 /\ faultAt = 1 /\ faultKind = "ERR" /\ retried = FALSE /\ exit = 0 /\ signal = FALSE /\ diag = FALSE
         /\ outExists = FALSE /\ outSame = TRUE /\ done = TRUE
TNext == UNCHANGED <<vars, bad>>
AllRunsFailStop == bad = {}
=============================================================================
