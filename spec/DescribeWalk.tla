---------------------------- MODULE DescribeWalk ----------------------------
(* The ORDER and COMPLETENESS of the listing printed by rdsquashfs --describe (bin/rdsquashfs/src/describe.c describe_tree): *)
(* a walk over the directory tree that prints every entry exactly once and a directory before its content, so that          *)
(* gensquashfs --pack-file can rebuild the tree line by line (C16).  Trees: shapes of depth <= 3 in which a directory is     *)
(* the first / the last / the only entry of its parent and is followed (or not) by entries on the levels above.              *)
(* A tree is a sequence of nodes [name, kids]; kids = <<>> for a non-directory or an empty directory (isdir tells which).    *)
EXTENDS Naturals, Sequences, FiniteSets, TLC, Json
CONSTANTS Emit,
          Walk          \* "recursive" (as built) | deviations: "climb_one" (an iterative walk that climbs only one level at the end of a directory),
                        \* "children_first" (content before the directory line)

Leaf(n) == [name |-> n, isdir |-> FALSE, kids |-> <<>>]
Dir(n, k) == [name |-> n, isdir |-> TRUE, kids |-> k]
(* level 3 / 2 / 1 building blocks *)
L3 == {<<>>, <<Leaf("p")>>, <<Leaf("p"), Leaf("q")>>}
D2 == {Dir("m", k) : k \in L3}
L2 == {<<>>, <<Leaf("x")>>} \cup {<<d>> : d \in D2} \cup {<<Leaf("x"), d>> : d \in D2} \cup {<<d, Leaf("z")>> : d \in D2}
D1 == {Dir("d", k) : k \in L2}
Tops == {<<d>> : d \in D1} \cup {<<Leaf("a"), d>> : d \in D1} \cup {<<d, Leaf("v")>> : d \in D1} \cup {<<d, Dir("w", <<Leaf("y")>>), Leaf("zz")>> : d \in D1}

(* ---- declarative: pre-order ---- *)
RECURSIVE Pre(_, _)
Pre(nodes, prefix) ==
  IF nodes = <<>> THEN <<>>
  ELSE LET n == Head(nodes)  p == prefix \o <<n.name>> IN
       (IF Walk = "children_first" THEN Pre(n.kids, p) \o <<p>> ELSE <<p>> \o Pre(n.kids, p)) \o Pre(Tail(nodes), prefix)

(* ---- the iterative variant: node addresses are index paths into the tree ---- *)
RECURSIVE NodeAt(_, _)
NodeAt(nodes, addr) == IF Len(addr) = 1 THEN nodes[addr[1]] ELSE NodeAt(nodes[addr[1]].kids, Tail(addr))
RECURSIVE Sibs(_, _)
Sibs(nodes, addr) == IF Len(addr) = 1 THEN nodes ELSE Sibs(nodes[addr[1]].kids, Tail(addr))
RECURSIVE PathOf(_, _)
PathOf(nodes, addr) == IF addr = <<>> THEN <<>> ELSE <<nodes[addr[1]].name>> \o PathOf(nodes[addr[1]].kids, Tail(addr))
Parent(addr) == SubSeq(addr, 1, Len(addr) - 1)
HasNext(nodes, addr) == addr[Len(addr)] < Len(Sibs(nodes, addr))
NextSib(addr) == [addr EXCEPT ![Len(addr)] = @ + 1]
RECURSIVE Iter(_, _, _, _)
Iter(nodes, addr, out, fuel) ==
  IF addr = <<>> \/ fuel = 0 THEN out
  ELSE LET n == NodeAt(nodes, addr)  out2 == Append(out, PathOf(nodes, addr)) IN
       IF n.kids # <<>> THEN Iter(nodes, Append(addr, 1), out2, fuel - 1)
       ELSE IF HasNext(nodes, addr) THEN Iter(nodes, NextSib(addr), out2, fuel - 1)
       ELSE LET up == Parent(addr) IN                         \* end of a directory: climb (one level only) and continue behind the parent
            IF up = <<>> THEN out2
            ELSE IF HasNext(nodes, up) THEN Iter(nodes, NextSib(up), out2, fuel - 1) ELSE out2

Listing(t) == IF Walk = "climb_one" THEN Iter(t, <<1>>, <<>>, 40) ELSE Pre(t, <<>>)

VARIABLE tree
Init == tree \in Tops
Next == UNCHANGED tree
Spec == Init /\ [][Next]_tree
RECURSIVE AllPaths(_, _)
AllPaths(nodes, prefix) == IF nodes = <<>> THEN {} ELSE {prefix \o <<Head(nodes).name>>} \cup AllPaths(Head(nodes).kids, prefix \o <<Head(nodes).name>>) \cup AllPaths(Tail(nodes), prefix)
L == Listing(tree)
Complete == {L[i] : i \in 1..Len(L)} = AllPaths(tree, <<>>) /\ Len(L) = Cardinality(AllPaths(tree, <<>>))      \* every entry exactly once
ParentsFirst == \A i \in 1..Len(L) : Len(L[i]) > 1 => \E j \in 1..(i - 1) : L[j] = SubSeq(L[i], 1, Len(L[i]) - 1)
EmitOK == Emit => PrintT(<<"RESULT", ToJson([tree |-> tree, listing |-> Pre(tree, <<>>)])>>)
=============================================================================
