----------------------------- MODULE TraceTarNum -----------------------------
(* Trace check: every record {w, v, neg, bytes, back, rc} written by harness/replay_tarnum.c (the real write_number /              *)
(* write_number_signed on the value v - or -v when neg - at field width w, the real read_number on the result) agrees with TarNum. *)
EXTENDS TarNum, Json, IOUtils
Table == ndJsonDeserialize(IOEnv.TRACE)
VARIABLE bad
RecordOK(r) ==
  LET val == IF r.neg THEN 0 - r.v ELSE r.v
      spec == WriteSigned(val, r.w)
  IN /\ r.bytes = spec
     /\ r.rc = 0
     /\ r.back = r.v                      \* the reader's unsigned result; for negative numbers the harness negates the two's complement
TInit == v = 0 /\ w = 3 /\ bad = {i \in 1..Len(Table) : ~RecordOK(Table[i])}
TNext == UNCHANGED <<v, w, bad>>
AllRecordsAgree == bad = {}
NonEmpty == Len(Table) > 0
=============================================================================
