----------------------------- MODULE ImageReader -----------------------------
(* Reading an untrusted image (property C05): the readers of libsquashfs and the tools as a catalogue of     *)
(* steps over an adversarial image.  Every on-disk field ranges over value classes ("ok" or a hostile class); *)
(* a plan corrupts at most two fields.  Each step either rejects the image (a bounds / sanity check exists),  *)
(* or performs an access with an explicit length against a buffer with an explicit capacity, or recurses.     *)
(* Safe: no access beyond its buffer, no unbounded recursion / loop, whatever the plan.  The constants name   *)
(* the checks found in the code (lib/sqfs/src/read_super.c, read_table.c, meta_reader.c, read_inode.c,         *)
(* readdir.c, dir_reader.c, data_reader.c, xattr/xattr_reader.c, lib/common/src/read_tree.c, dir_iterator.c);   *)
(* a check set to FALSE is the corresponding deviation.  The plans are also the generator of the hostile       *)
(* images that are encoded by the independent encoder and fed to the real (ASan) readers.                       *)
EXTENDS Naturals, Sequences, FiniteSets, TLC, Json
CONSTANTS MetaSizeChecked, InodeTypeChecked, DirCountChecked, NameSizeChecked, FragIdxChecked, FragBoundsChecked,
          DiskSizeCheckedRead, DiskSizeCheckedStream, LoopCheckedTree, LoopCheckedIter, XattrIdxChecked, IdIdxChecked,
          TableBoundsChecked,
          FragSumNoWrap,      \* sqfs_data_reader_get_fragment: offset + tail size is compared without 32 bit wrap-around
          XattrAbsenceChecked, \* reading the xattrs of an inode checks that the xattr tables were loaded at all
          XattrKvChecked,      \* the key/value area is read with bounds: prefix id known, key / value sizes inside the area, out-of-line references inside it
          LongLinkBySize,     \* sqfs2tar decides "needs a GNU long link record" by the same length it later copies (the on-disk target size)
          Emit

Fields == [ super_block_size : {"ok", "zero", "notpow2", "huge"},
            super_id_count   : {"ok", "zero", "huge"},
            table_start      : {"ok", "beyond", "self"},
            meta_hdr_size    : {"ok", "over8k"},
            inode_type       : {"ok", "bad"},
            dir_count        : {"ok", "over256"},
            dir_size         : {"ok", "huge"},
            name_size        : {"ok", "huge"},
            entry_ref        : {"ok", "nowhere", "ancestor", "self"},
            blk_word         : {"ok", "oversize"},
            blk_count        : {"ok", "huge_filesize"},
            frag_idx         : {"ok", "outofrange"},
            frag_off         : {"ok", "beyond", "wrap"},             \* wrap: offset close to 2^32, offset + tail size wraps
            xattr_idx        : {"ok", "outofrange"},
            id_idx           : {"ok", "outofrange"},
            slink_size       : {"ok", "beyond_string", "huge"},
            xattr_kv         : {"ok", "prefix_bad", "key_huge", "val_huge", "ool_oob", "count_huge"},    \* first pair of set 0 / pair count of set 0
            xattr_table      : {"ok", "absent"} ]     \* super block: no xattr table (start = ~0) although the NO_XATTRS flag is clear and an inode names set 0   \* target size field: larger than the string (runs into the next inodes, NUL inside) / huge
Names == DOMAIN [super_block_size |-> 0, super_id_count |-> 0, table_start |-> 0, meta_hdr_size |-> 0, inode_type |-> 0, dir_count |-> 0,
                 dir_size |-> 0, name_size |-> 0, entry_ref |-> 0, blk_word |-> 0, blk_count |-> 0, frag_idx |-> 0, frag_off |-> 0,
                 xattr_idx |-> 0, id_idx |-> 0, slink_size |-> 0, xattr_kv |-> 0, xattr_table |-> 0]
Corrupted(p) == {f \in Names : p[f] # "ok"}

(* outcome of one consumer over plan p: "ok" | "reject" | "overflow" | "hang" *)
SuperStep(p) == IF p.super_block_size # "ok" \/ p.super_id_count = "zero" THEN "reject" ELSE "go"
TableStep(p) == IF p.table_start # "ok" \/ p.super_id_count = "huge" THEN (IF TableBoundsChecked THEN "reject" ELSE "overflow") ELSE "go"
MetaStep(p)  == IF p.meta_hdr_size = "over8k" THEN (IF MetaSizeChecked THEN "reject" ELSE "overflow") ELSE "go"
InodeStep(p) == IF p.inode_type = "bad" THEN (IF InodeTypeChecked THEN "reject" ELSE "overflow")
                ELSE IF p.blk_count = "huge_filesize" THEN "reject"            \* block count overflow / allocation failure / read beyond table
                ELSE IF p.slink_size = "huge" THEN "reject"                    \* the target read runs off the inode table (or the allocation fails)
                ELSE IF p.id_idx = "outofrange" THEN (IF IdIdxChecked THEN "reject" ELSE "overflow") ELSE "go"
DirStep(p)   == IF p.dir_count = "over256" THEN (IF DirCountChecked THEN "reject" ELSE "overflow")
                ELSE IF p.name_size = "huge" THEN (IF NameSizeChecked THEN "reject" ELSE "overflow")
                ELSE IF p.dir_size = "huge" THEN "reject"                      \* listing runs into the end of the table
                ELSE "go"
WalkStep(p, loopChecked) ==
                IF p.entry_ref = "nowhere" THEN "reject"
                ELSE IF p.entry_ref \in {"ancestor", "self"} THEN (IF loopChecked THEN "reject" ELSE "hang") ELSE "go"
DataStep(p, diskChecked) ==
                IF p.blk_word = "oversize" THEN (IF diskChecked THEN "reject" ELSE "overflow")
                ELSE IF p.frag_idx = "outofrange" THEN (IF FragIdxChecked THEN "reject" ELSE "overflow")
                ELSE IF p.frag_off \in {"beyond", "wrap"} THEN (IF FragBoundsChecked THEN "reject" ELSE "overflow") ELSE "go"
(* the library call that hands out a file's tail (no tool uses it): its own bounds test *)
FragApiStep(p) == IF p.frag_idx = "outofrange" THEN (IF FragIdxChecked THEN "reject" ELSE "overflow")
                  ELSE IF p.frag_off = "beyond" THEN (IF FragBoundsChecked THEN "reject" ELSE "overflow")
                  ELSE IF p.frag_off = "wrap" THEN (IF FragBoundsChecked /\ FragSumNoWrap THEN "reject" ELSE "overflow") ELSE "go"
(* lib/tar/src/write_header.c: the target is copied with its on-disk size into the 100 byte linkname field unless a  *)
(* GNU long link record was written; both decisions must use the same length (the string may be shorter: NUL inside) *)
LinkHdrStep(p) == IF p.slink_size = "beyond_string" THEN (IF LongLinkBySize THEN "go" ELSE "overflow") ELSE "go"
XattrStep(p) == IF p.xattr_table = "absent" THEN (IF XattrAbsenceChecked THEN "go" ELSE "overflow")       \* set 0 without tables: empty list (or an error), not a NULL reader
                ELSE IF p.xattr_idx = "outofrange" THEN (IF XattrIdxChecked THEN "reject" ELSE "overflow")
                ELSE IF p.xattr_kv # "ok" THEN (IF XattrKvChecked THEN "reject" ELSE "overflow") ELSE "go"

RECURSIVE Chain(_)
Chain(steps) == IF steps = <<>> THEN "ok" ELSE IF Head(steps) = "go" THEN Chain(Tail(steps)) ELSE Head(steps)
(* consumers: tree readers (rdsquashfs -l/-d/-u, sqfsdiff) use read_tree.c; sqfs2tar uses the directory iterator;           *)
(* rdsquashfs -c and sqfs2tar read file data through the stream API, rdsquashfs -u / the library API through positional reads *)
(* "api": the reader API called directly on every inode (meta reader, dir reader, positional read, get_block,                *)
(* get_fragment, stream, xattr reader, id table) - harness/replay_readers.c                                                 *)
Consumers == {"list", "cat", "unpack", "sqfs2tar", "xattr", "api"}
Outcome(p, c) ==
  CASE c = "list"     -> Chain(<<SuperStep(p), TableStep(p), MetaStep(p), InodeStep(p), DirStep(p), WalkStep(p, LoopCheckedTree)>>)
    [] c = "cat"      -> Chain(<<SuperStep(p), TableStep(p), MetaStep(p), InodeStep(p), DirStep(p), WalkStep(p, LoopCheckedTree), DataStep(p, DiskSizeCheckedStream)>>)
    [] c = "unpack"   -> Chain(<<SuperStep(p), TableStep(p), MetaStep(p), InodeStep(p), DirStep(p), WalkStep(p, LoopCheckedTree), DataStep(p, DiskSizeCheckedStream)>>)
    [] c = "sqfs2tar" -> Chain(<<SuperStep(p), TableStep(p), MetaStep(p), InodeStep(p), DirStep(p), WalkStep(p, LoopCheckedIter), LinkHdrStep(p), XattrStep(p), DataStep(p, DiskSizeCheckedStream)>>)
    [] c = "api"      -> LET pre == <<SuperStep(p), TableStep(p), MetaStep(p), InodeStep(p), DirStep(p)>>       \* the calls are independent of each other
                             rs == {Chain(Append(pre, DataStep(p, DiskSizeCheckedRead))), Chain(Append(pre, FragApiStep(p))), Chain(Append(pre, XattrStep(p)))}
                         IN IF "overflow" \in rs THEN "overflow" ELSE IF "hang" \in rs THEN "hang" ELSE IF "reject" \in rs THEN "reject" ELSE "ok"
    [] c = "xattr"    -> Chain(<<SuperStep(p), TableStep(p), MetaStep(p), InodeStep(p), DirStep(p), WalkStep(p, LoopCheckedTree), XattrStep(p)>>)

VARIABLE plan
Init == plan \in Fields /\ Cardinality(Corrupted(plan)) <= 2
Next == UNCHANGED plan
Spec == Init /\ [][Next]_plan
Safe == \A c \in Consumers : Outcome(plan, c) \in {"ok", "reject"}
EmitOK == Emit => PrintT(<<"RESULT", ToJson([plan |-> plan, outcome |-> [c \in Consumers |-> Outcome(plan, c)]])>>)
=============================================================================
