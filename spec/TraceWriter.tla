---------------------------- MODULE TraceWriter ----------------------------
(* Trace check for C14: the output-file system calls recorded under a real gensquashfs / tar2sqfs *)
(* run (harness/preload.c log, classified by offset against the independently decoded final image) *)
(* are fed through Writer!Step; CrashSafe and NothingAfterCommit are evaluated after every call,    *)
(* i.e. at every crash point of the real run.                                                       *)
EXTENDS Writer, Json, IOUtils
TraceLines == ndJsonDeserialize(IOEnv.TRACE)
TraceOrder == TraceLines[1].order
TraceSize  == TraceLines[1].size
SeqToSet(s) == {s[i] : i \in 1..Len(s)}
TraceProg  == [i \in 1..(Len(TraceLines) - 1) |->
                 LET e == TraceLines[i + 1] IN
                 IF e.k = "super" THEN [k |-> "super", idc |-> e.idc, refs |-> SeqToSet(e.refs)] ELSE e]
TraceConsumed == pc > Len(Prog)
=============================================================================
