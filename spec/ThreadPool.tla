----------------------------- MODULE ThreadPool -----------------------------
(* Implementation-shaped specification of lib/util/src/threadpool.c.                         *)
(*                                                                                           *)
(* Granularity (DESIGN 2.1): one step = "perform the pending blocking operation (lock,       *)
(* wake-up after cond_wait, join) and run to the next potentially blocking operation or      *)
(* yield point".  unlock/broadcast are folded into the step executing them, hence the mutex  *)
(* is never observed held between two steps.  This is exactly one step of the controlled     *)
(* scheduler in harness/sched.c, so TLC behaviours replay 1:1 on the real code.              *)
(*                                                                                           *)
(* Threads: the client ("main", the only caller of the API, as documented) and workers 1..W. *)
(* Park points of a worker:  "lock" (pthread_mutex_lock at the loop head), "waitq"           *)
(* (cond_wait on queue_cond), "relock" (woken, must re-acquire), "infun" (inside the worker  *)
(* callback), "exit".  Park points of the client: "idle" (between API calls), "sub_lock",    *)
(* "dq_lock", "dq_wait", "dq_relock", "st_lock", "sp_lock", "destroy_lock", "join",          *)
(* "destroyed".                                                                              *)
(*                                                                                           *)
(* Dev names one deviation (a realistic wrong variant); "none" is the code as intended.      *)
(* FixDequeue = FALSE is the pinned tree before the fix: commit (dequeue waits for a ticket  *)
(* nobody will finish after a worker failure).                                               *)
EXTENDS Naturals, Integers, Sequences, FiniteSets, TLC

CONSTANTS W, N, FailSet, MaxSpurious, FixDequeue, Dev, MaxAllocFail

Workers == 1..W
Tickets == 1..N

VARIABLES queue, done, safeDone,          \* ticket sequences: work list, completed (sorted), main-only list
          nextTicket, nextDeq, itemCount, \* counters (tickets are 1-based here, 0-based in C)
          status,                         \* 0, worker status (1), or -1 after destroy
          wpc, witem, wstat,              \* per worker: park point, ticket held (0 = none), last callback rc
          ctx,                            \* per worker: user pointer as set by set_worker_ptr
          mpc, joinIdx, spArg,            \* client park point, join progress, pending set_worker_ptr argument
          returned, processed, inCtx,     \* observables: tickets handed back; callback runs per ticket; ctx in use
          spur, allocFails, lastRet,      \* environment budget; last API result <<call, value>>
          failSeen, badSubmit, badNull, crashed   \* monitors

vars == <<queue, done, safeDone, nextTicket, nextDeq, itemCount, status, wpc, witem, wstat, ctx,
          mpc, joinIdx, spArg, returned, processed, inCtx, spur, allocFails, lastRet,
          failSeen, badSubmit, badNull, crashed>>

shared  == <<queue, done, safeDone, nextTicket, nextDeq, itemCount, status>>
monitors == <<failSeen, badSubmit, badNull, crashed>>

InsertSorted(s, t) ==
  LET k == Cardinality({i \in 1..Len(s) : s[i] < t})
  IN  SubSeq(s, 1, k) \o <<t>> \o SubSeq(s, k + 1, Len(s))

TryDeq(d, nd) == d # <<>> /\ (Dev = "DequeueAnyTicket" \/ Head(d) = nd)

RECURSIVE Drain(_, _, _)
Drain(d, nd, acc) == IF TryDeq(d, nd) THEN Drain(Tail(d), nd + 1, Append(acc, Head(d)))
                     ELSE <<d, nd, acc>>

WakeAllQ(pcs) == [w \in Workers |-> IF pcs[w] = "waitq" THEN "relock" ELSE pcs[w]]
WakeOneQ(pcs) == IF \E w \in Workers : pcs[w] = "waitq"
                 THEN LET w == CHOOSE x \in Workers : pcs[x] = "waitq" /\ \A y \in Workers : pcs[y] = "waitq" => x <= y
                      IN [pcs EXCEPT ![w] = "relock"]
                 ELSE pcs

Init ==
  /\ queue = <<>> /\ done = <<>> /\ safeDone = <<>>
  /\ nextTicket = 1 /\ nextDeq = 1 /\ itemCount = 0 /\ status = 0
  /\ wpc = [w \in Workers |-> "lock"] /\ witem = [w \in Workers |-> 0] /\ wstat = [w \in Workers |-> 0]
  /\ ctx = [w \in Workers |-> w]
  /\ mpc = "idle" /\ joinIdx = 1 /\ spArg = <<0, 0>>
  /\ returned = <<>> /\ processed = [t \in Tickets |-> 0] /\ inCtx = [w \in Workers |-> 0]
  /\ spur = 0 /\ allocFails = 0 /\ lastRet = <<"none", 0>>
  /\ failSeen = FALSE /\ badSubmit = FALSE /\ badNull = FALSE /\ crashed = FALSE

-----------------------------------------------------------------------------
(* worker_proc: lock; store_completed; get_next_work_item; unlock; (callback entry)          *)
WCS(w) ==
  /\ ~crashed
  /\ wpc[w] \in {"lock", "relock"}
  /\ LET first   == wpc[w] = "lock"
         storing == first /\ witem[w] # 0
         d2  == IF storing
                THEN (IF Dev = "DoneUnsorted" THEN <<witem[w]>> \o done ELSE InsertSorted(done, witem[w]))
                ELSE done
         st2 == IF storing /\ Dev = "StatusOverwritten" THEN wstat[w]
                ELSE IF storing /\ wstat[w] # 0 /\ status = 0 THEN wstat[w] ELSE status
         mustWait == queue = <<>> /\ st2 = 0 /\ ~(Dev = "IfNotWhile" /\ ~first)
     IN /\ done' = d2 /\ status' = st2
        /\ failSeen' = (failSeen \/ (storing /\ wstat[w] # 0))
        /\ IF storing /\ Dev # "NoBcastStore" /\ mpc = "dq_wait"       \* broadcast(done_cond)
           THEN mpc' = "dq_relock" ELSE UNCHANGED mpc
        /\ IF mustWait                                                   \* cond_wait(queue_cond)
           THEN /\ wpc' = [wpc EXCEPT ![w] = "waitq"]
                /\ witem' = [witem EXCEPT ![w] = 0]
                /\ UNCHANGED <<queue, inCtx, crashed>>
           ELSE IF st2 = 0
           THEN IF queue = <<>>                                          \* only with IfNotWhile: NULL deref
                THEN /\ crashed' = TRUE /\ UNCHANGED <<queue, inCtx, wpc, witem>>
                ELSE /\ witem' = [witem EXCEPT ![w] = Head(queue)]
                     /\ queue' = (IF Dev = "NoPop" THEN queue ELSE Tail(queue))
                     /\ wpc' = [wpc EXCEPT ![w] = "infun"]
                     /\ inCtx' = [inCtx EXCEPT ![w] = IF Dev = "SharedCtx" THEN ctx[1] ELSE ctx[w]]
                     /\ UNCHANGED crashed
           ELSE /\ witem' = [witem EXCEPT ![w] = 0]                      \* worker leaves its loop
                /\ wpc' = [wpc EXCEPT ![w] = "exit"]
                /\ UNCHANGED <<queue, inCtx, crashed>>
  /\ UNCHANGED <<safeDone, nextTicket, nextDeq, itemCount, wstat, ctx, joinIdx, spArg, returned, processed,
                 spur, allocFails, lastRet, badSubmit, badNull>>

(* the callback returns; the worker runs on to pthread_mutex_lock                             *)
WFunEnd(w) ==
  /\ ~crashed
  /\ wpc[w] = "infun"
  /\ processed' = [processed EXCEPT ![witem[w]] = @ + 1]
  /\ wstat' = [wstat EXCEPT ![w] = IF witem[w] \in FailSet THEN 1 ELSE 0]
  /\ wpc' = [wpc EXCEPT ![w] = "lock"]
  /\ inCtx' = [inCtx EXCEPT ![w] = 0]
  /\ UNCHANGED <<shared, witem, ctx, mpc, joinIdx, spArg, returned, spur, allocFails, lastRet, monitors>>

WSpurious(w) ==
  /\ ~crashed
  /\ wpc[w] = "waitq" /\ spur < MaxSpurious
  /\ wpc' = [wpc EXCEPT ![w] = "relock"] /\ spur' = spur + 1
  /\ UNCHANGED <<shared, witem, wstat, ctx, mpc, joinIdx, spArg, returned, processed, inCtx, allocFails,
                 lastRet, monitors>>

-----------------------------------------------------------------------------
(* submit(): recycle/calloc outside the lock, then park at pthread_mutex_lock                 *)
MSubmitStart ==
  /\ ~crashed
  /\ mpc = "idle" /\ nextTicket <= N
  /\ \/ /\ mpc' = "sub_lock" /\ UNCHANGED <<allocFails, lastRet>>
     \/ /\ allocFails < MaxAllocFail /\ allocFails' = allocFails + 1      \* calloc failed: -1, nothing changed
        /\ lastRet' = <<"submit", -1>> /\ UNCHANGED mpc
  /\ UNCHANGED <<shared, wpc, witem, wstat, ctx, joinIdx, spArg, returned, processed, inCtx, spur, monitors>>

MSubmitCS ==
  /\ ~crashed
  /\ mpc = "sub_lock"
  /\ LET ok == status = 0 \/ Dev = "SubmitIgnoresStatus"
         r  == Drain(done, nextDeq, <<>>)
     IN /\ queue' = (IF ok THEN Append(queue, nextTicket) ELSE queue)
        /\ nextTicket' = (IF ok THEN nextTicket + 1 ELSE nextTicket)
        /\ itemCount' = (IF ok THEN itemCount + 1 ELSE itemCount)
        /\ done' = r[1] /\ nextDeq' = r[2]
        /\ safeDone' = (IF Dev = "SafeDoneLIFO" THEN r[3] \o safeDone ELSE safeDone \o r[3])
        /\ wpc' = (IF Dev = "NoBcastSubmit" THEN wpc ELSE
                   IF Dev = "SignalSubmit" THEN WakeOneQ(wpc) ELSE WakeAllQ(wpc))   \* broadcast(queue_cond)
        /\ lastRet' = <<"submit", IF ok THEN 0 ELSE status>>
        /\ badSubmit' = (badSubmit \/ (ok /\ failSeen /\ status # 0))
  /\ mpc' = "idle"
  /\ UNCHANGED <<status, witem, wstat, ctx, joinIdx, spArg, returned, processed, inCtx, spur, allocFails,
                 failSeen, badNull, crashed>>

(* dequeue(): the lock-free fast paths run in the start step                                  *)
MDequeueStart ==
  /\ ~crashed
  /\ mpc = "idle"
  /\ IF itemCount = 0
     THEN /\ lastRet' = <<"dequeue", 0>>
          /\ UNCHANGED <<mpc, safeDone, returned, itemCount, badNull>>
     ELSE IF safeDone # <<>>
     THEN /\ returned' = Append(returned, Head(safeDone)) /\ safeDone' = Tail(safeDone)
          /\ itemCount' = (IF Dev = "NoItemCountDec" THEN itemCount ELSE itemCount - 1)
          /\ lastRet' = <<"dequeue", Head(safeDone)>>
          /\ UNCHANGED <<mpc, badNull>>
     ELSE /\ mpc' = "dq_lock" /\ UNCHANGED <<safeDone, returned, itemCount, lastRet, badNull>>
  /\ UNCHANGED <<queue, done, nextTicket, nextDeq, status, wpc, witem, wstat, ctx, joinIdx, spArg, processed,
                 inCtx, spur, allocFails, failSeen, badSubmit, crashed>>

MDequeueCS ==
  /\ ~crashed
  /\ mpc \in {"dq_lock", "dq_relock"}
  /\ LET blind == Dev = "DequeueIfNotWhile" /\ mpc = "dq_relock" IN
     IF TryDeq(done, nextDeq) \/ (blind /\ done # <<>>)
     THEN /\ returned' = Append(returned, Head(done)) /\ done' = Tail(done)
          /\ nextDeq' = nextDeq + 1
          /\ itemCount' = (IF Dev = "NoItemCountDec" THEN itemCount ELSE itemCount - 1)
          /\ lastRet' = <<"dequeue", Head(done)>> /\ mpc' = "idle"
          /\ UNCHANGED <<badNull, crashed>>
     ELSE IF blind
     THEN /\ crashed' = TRUE /\ UNCHANGED <<returned, done, nextDeq, itemCount, lastRet, mpc, badNull>>
     ELSE IF FixDequeue /\ status # 0                                    \* the fix: report instead of waiting
     THEN /\ mpc' = "idle" /\ lastRet' = <<"dequeue", 0>>
          /\ UNCHANGED <<returned, done, nextDeq, itemCount, badNull, crashed>>
     ELSE /\ mpc' = "dq_wait"                                            \* cond_wait(done_cond)
          /\ UNCHANGED <<returned, done, nextDeq, itemCount, lastRet, badNull, crashed>>
  /\ UNCHANGED <<queue, safeDone, nextTicket, status, wpc, witem, wstat, ctx, joinIdx, spArg, processed, inCtx,
                 spur, allocFails, failSeen, badSubmit>>

MSpurious ==
  /\ ~crashed
  /\ mpc = "dq_wait" /\ spur < MaxSpurious
  /\ mpc' = "dq_relock" /\ spur' = spur + 1
  /\ UNCHANGED <<shared, wpc, witem, wstat, ctx, joinIdx, spArg, returned, processed, inCtx, allocFails,
                 lastRet, monitors>>

MStatusStart ==
  /\ ~crashed /\ mpc = "idle" /\ mpc' = "st_lock"
  /\ UNCHANGED <<shared, wpc, witem, wstat, ctx, joinIdx, spArg, returned, processed, inCtx, spur, allocFails,
                 lastRet, monitors>>
MStatusCS ==
  /\ ~crashed /\ mpc = "st_lock" /\ mpc' = "idle" /\ lastRet' = <<"status", status>>
  /\ UNCHANGED <<shared, wpc, witem, wstat, ctx, joinIdx, spArg, returned, processed, inCtx, spur, allocFails,
                 monitors>>

(* set_worker_ptr(idx, ptr): the block processor gives every worker its own context           *)
MSetPtrStart(w, p) ==
  /\ ~crashed /\ mpc = "idle" /\ nextTicket = 1 /\ ctx[w] # p
  /\ mpc' = "sp_lock" /\ spArg' = <<w, p>>
  /\ UNCHANGED <<shared, wpc, witem, wstat, ctx, joinIdx, returned, processed, inCtx, spur, allocFails,
                 lastRet, monitors>>
MSetPtrCS ==
  /\ ~crashed /\ mpc = "sp_lock" /\ mpc' = "idle"
  /\ ctx' = [ctx EXCEPT ![spArg[1]] = spArg[2]] /\ spArg' = <<0, 0>>
  /\ UNCHANGED <<shared, wpc, witem, wstat, joinIdx, returned, processed, inCtx, spur, allocFails,
                 lastRet, monitors>>

MDestroyStart ==
  /\ ~crashed /\ mpc = "idle" /\ mpc' = "destroy_lock"
  /\ UNCHANGED <<shared, wpc, witem, wstat, ctx, joinIdx, spArg, returned, processed, inCtx, spur, allocFails,
                 lastRet, monitors>>
MDestroyCS ==
  /\ ~crashed /\ mpc = "destroy_lock"
  /\ status' = -1
  /\ wpc' = (IF Dev = "DestroyNoBcast" THEN wpc ELSE WakeAllQ(wpc))
  /\ mpc' = "join" /\ joinIdx' = 1
  /\ UNCHANGED <<queue, done, safeDone, nextTicket, nextDeq, itemCount, witem, wstat, ctx, spArg, returned,
                 processed, inCtx, spur, allocFails, lastRet, monitors>>
MJoin ==
  /\ ~crashed /\ mpc = "join" /\ joinIdx <= W /\ wpc[joinIdx] = "exit"
  /\ joinIdx' = joinIdx + 1                      \* the shim parks at every pthread_join
  /\ mpc' = (IF joinIdx + 1 > W THEN "destroyed" ELSE "join")
  /\ UNCHANGED <<shared, wpc, witem, wstat, ctx, spArg, returned, processed, inCtx, spur, allocFails,
                 lastRet, monitors>>

Finished == (mpc = "destroyed" \/ crashed) /\ UNCHANGED vars

Next == \/ \E w \in Workers : WCS(w) \/ WFunEnd(w) \/ WSpurious(w)
        \/ MSubmitStart \/ MSubmitCS \/ MDequeueStart \/ MDequeueCS \/ MSpurious
        \/ MStatusStart \/ MStatusCS \/ MDestroyStart \/ MDestroyCS \/ MJoin
        \/ \E w \in Workers : MSetPtrStart(w, W + w)
        \/ MSetPtrCS
        \/ Finished

Spec == Init /\ [][Next]_vars

Fair == /\ \A w \in Workers : WF_vars(WCS(w)) /\ WF_vars(WFunEnd(w))
        /\ WF_vars(MSubmitCS) /\ WF_vars(MDequeueCS) /\ WF_vars(MStatusCS)
        /\ WF_vars(MSetPtrCS) /\ WF_vars(MDestroyCS) /\ WF_vars(MJoin)
FairSpec == Spec /\ Fair

-----------------------------------------------------------------------------
(* Properties (statement of C09)                                                              *)
FIFO          == \A i \in 1..Len(returned) : returned[i] = i
ExactlyOnce   == \A t \in Tickets : processed[t] <= 1
RetProcessed  == \A i \in 1..Len(returned) : processed[returned[i]] = 1
CtxExclusive  == \A a, b \in Workers : a # b /\ wpc[a] = "infun" /\ wpc[b] = "infun" => inCtx[a] # inCtx[b]
NoCrash       == ~crashed
FailureSticky == failSeen => status # 0
SubmitReports == ~badSubmit
CountSane     == itemCount = (nextTicket - 1) - Len(returned)
Safety == FIFO /\ ExactlyOnce /\ RetProcessed /\ CtxExclusive /\ NoCrash /\ FailureSticky /\ SubmitReports
          /\ CountSane

(* every API call that starts, returns                                                        *)
CallsReturn == (mpc \notin {"idle", "destroyed"}) ~> (mpc \in {"idle", "destroyed"} \/ crashed)

(* refinement of the abstract pool                                                            *)
Abs == INSTANCE PoolAbs WITH aSub <- nextTicket - 1,
                             aProc <- {t \in Tickets : processed[t] >= 1},
                             aRet <- Len(returned),
                             aFail <- (status # 0)
Refines == Abs!ASpec

SpurBound == spur <= MaxSpurious
=============================================================================
