----------------------------- MODULE MetaReader -----------------------------
(* lib/sqfs/src/meta_reader.c: a one-block cache (tag = block_offset, buf = data[], used =       *)
(* data_used, next = next_block, off = offset) in front of a table of metadata blocks, and the   *)
(* pure reference function Ref it must implement (property C10: answers depend only on image and *)
(* query, never on earlier queries, successful or failed).                                       *)
(*                                                                                               *)
(* The image is a chain of blocks 1..NB (block b is followed by b+1; NB+1 is the table limit).   *)
(* Per block: Used[b] (uncompressed length, scaled: a full block has 3 units), Ok[b] (FALSE =    *)
(* decompression fails), HdrOk[b] (FALSE = header announces more than 8 KiB: rejected before the *)
(* buffer is touched).  A payload byte is the pair <<block, index>> so equal results means equal *)
(* provenance.                                                                                   *)
(* One public query = seek(b, o) followed, if it succeeded, by read(n).                          *)
EXTENDS Naturals, Sequences, TLC

CONSTANTS NB, Used, Ok, HdrOk,
          InvalidateBeforeLoad,     \* TRUE = tree after the fix: commit; FALSE = pinned tree (stale tag)
          Dev, MaxHist

Blocks == 1..NB
NoTag  == 0
Err    == <<"err">>

Min(a, b) == IF a < b THEN a ELSE b

(* ---------- reference semantics ---------- *)
RECURSIVE RefRead(_, _, _, _)
RefRead(b, o, n, acc) ==            \* bytes from position (b, o), o < Used[b] or o = Used[b] (end of block)
  IF n = 0 THEN <<"ok", acc>>
  ELSE IF o = Used[b]
       THEN (IF b + 1 \notin Blocks \/ ~HdrOk[b + 1] \/ ~Ok[b + 1] \/ Used[b + 1] = 0 THEN Err
             ELSE RefRead(b + 1, 0, n, acc))
       ELSE LET d == Min(Used[b] - o, n) IN
            RefRead(b, o + d, n - d, acc \o [i \in 1..d |-> <<b, o + i - 1>>])
Ref(b, o, n) ==
  IF b \notin Blocks \/ ~HdrOk[b] \/ ~Ok[b] \/ o >= Used[b] THEN Err ELSE RefRead(b, o, n, <<>>)

(* ---------- the implementation ---------- *)
VARIABLES tag, buf, used, off, next,       \* reader state
          call, last, hist                 \* last query, its result, number of queries so far
vars == <<tag, buf, used, off, next, call, last, hist>>
St == [tag |-> tag, buf |-> buf, used |-> used, off |-> off, next |-> next]

Seek(st, b, o) ==                          \* returns [st, ok]
  IF b \notin Blocks THEN [st |-> st, ok |-> FALSE]                       \* out of bounds
  ELSE IF b = st.tag /\ Dev # "NoCache"
  THEN (IF o >= st.used THEN [st |-> st, ok |-> FALSE]
        ELSE [st |-> [st EXCEPT !.off = o], ok |-> TRUE])
  ELSE IF ~HdrOk[b] THEN [st |-> st, ok |-> FALSE]                        \* size > 8192 / beyond limit
  ELSE LET s1 == [st EXCEPT !.buf = IF Ok[b] THEN b ELSE b + 100,          \* data[] overwritten (raw bytes)
                            !.tag = IF InvalidateBeforeLoad THEN NoTag ELSE @]
       IN IF ~Ok[b] THEN [st |-> s1, ok |-> FALSE]                        \* decompression failed
          ELSE LET s2 == [s1 EXCEPT !.used = Used[b]] IN
               IF o >= Used[b] /\ Dev # "OffsetUnchecked" THEN [st |-> s2, ok |-> FALSE]
               ELSE [st |-> [s2 EXCEPT !.tag = b, !.off = o,
                                       !.next = IF Dev = "NextNotUpdated" THEN @ ELSE b + 1],
                     ok |-> TRUE]

RECURSIVE Read(_, _, _)
Read(st, n, acc) ==                        \* returns [st, ok, data]
  IF n = 0 THEN [st |-> st, ok |-> TRUE, data |-> acc]
  ELSE IF st.off > st.used THEN [st |-> st, ok |-> TRUE, data |-> <<<<0, 999>>>>]   \* wild read beyond the data
  ELSE LET diff == st.used - st.off IN
       IF diff = 0
       THEN LET r == Seek(st, st.next, 0) IN
            IF ~r.ok THEN [st |-> r.st, ok |-> FALSE, data |-> acc] ELSE Read(r.st, n, acc)
       ELSE LET d == Min(diff, n) IN
            Read([st EXCEPT !.off = @ + d], n - d, acc \o [i \in 1..d |-> <<st.buf, st.off + i - 1>>])

Init == /\ tag = NoTag /\ buf = 0 /\ used = 0 /\ off = 0 /\ next = 0
        /\ call = <<0, 0, 0>> /\ last = Err /\ hist = 0

Query(b, o, n) ==
  /\ hist < MaxHist
  /\ LET r == Seek(St, b, o) IN
     IF ~r.ok
     THEN /\ last' = Err
          /\ tag' = r.st.tag /\ buf' = r.st.buf /\ used' = r.st.used /\ off' = r.st.off /\ next' = r.st.next
     ELSE LET q == Read(r.st, n, <<>>) IN
          /\ last' = (IF q.ok THEN <<"ok", q.data>> ELSE Err)
          /\ tag' = q.st.tag /\ buf' = q.st.buf /\ used' = q.st.used /\ off' = q.st.off /\ next' = q.st.next
  /\ call' = <<b, o, n>> /\ hist' = hist + 1

Next == \E b \in 0..(NB + 1), o \in 0..3, n \in 1..4 : Query(b, o, n)
Spec == Init /\ [][Next]_vars

HistoryFree == call = <<0, 0, 0>> \/ last = Ref(call[1], call[2], call[3])
Coherent    == tag # NoTag => (buf = tag /\ used = Used[tag])
=============================================================================
