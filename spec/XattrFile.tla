----------------------------- MODULE XattrFile -----------------------------
(* The xattr map file of `gensquashfs -A` (bin/gensquashfs/src/filemap_xattr.c: xattr_open_map_file,        *)
(* parse_file_name, parse_xattr, decode, xattr_close_map_file, xattr_apply_map_file) as a line-class state     *)
(* machine, properties C07 (never a memory error, refuse with a diagnostic or produce a valid image) and C01   *)
(* (the xattrs that reach the image).  A file is a sequence of up to MaxLines lines, each of one class.  The   *)
(* parser keeps a list of sections (heap nodes); a node is linked into the list and, in the pinned code,       *)
(* freed again while still linked when its path is rejected - the cleanup walk then touches freed memory.      *)
(* The image contains one file `f`; sections name `f`, `/f` (same file after canonicalisation), `zz` (no such  *)
(* file), `../x` (rejected path).                                                                              *)
EXTENDS Naturals, Sequences, FiniteSets, TLC, Json
CONSTANTS MaxLines, Emit,
          LinkBeforeValidate,   \* deviation (pinned tree before the fix): the section node is linked before its path is validated
          SilentStoreFailure    \* deviation (pinned tree before the fix): a key the writer cannot store ends the run without a message

Classes == {"F_f", "F_abs", "F_nomatch", "F_dotdot", "F_nospace",       \* "# file: f" | "# file: /f" | "# file: zz" | "# file: ../x" | "# file:" (a comment)
            "KV_hex", "KV_hex_odd", "KV_hex_bad", "KV_b64", "KV_b64_bad", "KV_text", "KV_quoted", "KV_empty",
            "KV_nokey", "KV_badprefix", "COMMENT", "GARBAGE"}
IsSection(c) == c \in {"F_f", "F_abs", "F_nomatch", "F_dotdot"}
IsKV(c) == c \in {"KV_hex", "KV_hex_odd", "KV_hex_bad", "KV_b64", "KV_b64_bad", "KV_text", "KV_quoted", "KV_empty", "KV_nokey", "KV_badprefix"}
BadEncoding(c) == c \in {"KV_hex_bad", "KV_b64_bad"}
Unstorable(c) == c \in {"KV_nokey", "KV_badprefix"}       \* no / unknown key prefix: sqfs_xattr_writer_add refuses

(* parser state: sections = sequence of [match: BOOLEAN, live: BOOLEAN, kvs: sequence of line numbers]; newest first *)
S0 == [secs |-> <<>>, res |-> "go", uaf |-> FALSE]
Cleanup(st) == [st EXCEPT !.uaf = \E i \in 1..Len(st.secs) : ~st.secs[i].live]       \* xattr_close_map_file walks the list
Fail(st) == [Cleanup(st) EXCEPT !.res = "refused"]
Line(st, c, n) ==
  IF st.res # "go" THEN st
  ELSE IF IsSection(c) THEN
         IF c = "F_dotdot"
         THEN (IF LinkBeforeValidate THEN Fail([st EXCEPT !.secs = <<[match |-> FALSE, live |-> FALSE, kvs |-> <<>>]>> \o @])
               ELSE Fail(st))
         ELSE [st EXCEPT !.secs = <<[match |-> c \in {"F_f", "F_abs"}, live |-> TRUE, kvs |-> <<>>]>> \o @]
  ELSE IF IsKV(c) THEN
         IF st.secs = <<>> THEN Fail(st)                                   \* "no file specified yet"
         ELSE IF BadEncoding(c) THEN Fail(st)                              \* "bad input encoding"
         ELSE [st EXCEPT !.secs[1].kvs = <<n>> \o @]                       \* prepended: applied newest first
  ELSE IF c = "GARBAGE" THEN Fail(st)                                      \* "not a key-value pair"
  ELSE st                                                                  \* comments, "# file:" without a name
RECURSIVE Parse(_, _, _)
Parse(st, f, n) == IF n > Len(f) THEN st ELSE Parse(Line(st, f[n], n), f, n + 1)

(* applying the map to the file f: every section that matches, every pair of it *)
Applied(st) == UNION {{st.secs[i].kvs[k] : k \in 1..Len(st.secs[i].kvs)} : i \in {j \in 1..Len(st.secs) : st.secs[j].match}}
Outcome(f) ==
  LET st == Parse(S0, f, 1) IN
  IF st.uaf THEN [res |-> "memory-error", keys |-> {}, diag |-> TRUE]
  ELSE IF st.res = "refused" THEN [res |-> "refused", keys |-> {}, diag |-> TRUE]
  ELSE IF \E n \in Applied(st) : Unstorable(f[n]) THEN [res |-> "refused", keys |-> {}, diag |-> ~SilentStoreFailure]
  ELSE [res |-> "image", keys |-> Applied(st), diag |-> TRUE]

VARIABLE file
Init == \E k \in 0..MaxLines : file \in [1..k -> Classes]
Next == UNCHANGED file
Spec == Init /\ [][Next]_file
(* C07: never a memory error; a refusal comes with a diagnostic *)
Robust == Outcome(file).res \in {"image", "refused"} /\ Outcome(file).diag
(* a pair reaches the image iff it stands in a section naming the file, and a file that is accepted loses none *)
Faithful == Outcome(file).res = "image" =>
              Outcome(file).keys = {n \in 1..Len(file) : IsKV(file[n]) /\
                                      \E s \in 1..(n - 1) : /\ file[s] \in {"F_f", "F_abs"}
                                                            /\ \A t \in (s + 1)..(n - 1) : ~IsSection(file[t])}
EmitOK == Emit => PrintT(<<"RESULT", ToJson([file |-> file, outcome |-> Outcome(file)])>>)
=============================================================================
