------------------------------ MODULE HashTable ------------------------------
(* The open-addressing hash table of lib/util/src/hash_table.c (double hashing over prime sizes, growth by re-insertion) - the index  *)
(* behind the block processor's fragment de-duplication (frag_ht: pre-hashed keys, equality by content).  Transcription of            *)
(* hash_table_insert / hash_table_search / hash_table_rehash / hash_table_insert_rehash (no deletions: the library never removes).    *)
(* Keys are <<hash, id>>: several keys may carry one hash (the equality function tells them apart); the hashes are chosen to collide   *)
(* in the start slot and in the step for the first table sizes (5/3, 7/5, 13/11, 19/17).  Inserting a key that is present replaces it. *)
(* Checked (C08 Sharing rests on it): every key inserted so far is found - also after growth -, nothing else is, count = distinct keys. *)
EXTENDS Naturals, Sequences, FiniteSets, TLC, Json
CONSTANTS Keys, MaxIns, Emit,
          SearchStopsAtOtherHash,   \* deviation: search gives up at the first occupied slot that holds another hash
          ReinsertNoProbe           \* deviation: growing re-inserts every entry at its start slot without probing (a collision overwrites)

Sizes == <<[max |-> 2, size |-> 5, re |-> 3], [max |-> 4, size |-> 7, re |-> 5], [max |-> 8, size |-> 13, re |-> 11], [max |-> 16, size |-> 19, re |-> 17]>>
Free == <<>>                                          \* an empty slot; a used one holds the key <<hash, id>>
Start(h, si) == h % Sizes[si].size
Step(h, si, stepIdx) == 1 + (h % Sizes[stepIdx].re)
Nxt(a, st, si) == IF a + st >= Sizes[si].size THEN a + st - Sizes[si].size ELSE a + st

VARIABLES tbl, si, stepIdx, entries, ins
vars == <<tbl, si, stepIdx, entries, ins>>
Empty(i) == [a \in 0..(Sizes[i].size - 1) |-> Free]
Init == tbl = Empty(1) /\ si = 1 /\ stepIdx = 1 /\ entries = 0 /\ ins = <<>>

(* hash_table_insert_rehash: first free slot on the probe sequence *)
RECURSIVE PlaceAt(_, _, _, _, _, _)
PlaceAt(t, k, a, st, i, fuel) == IF fuel = 0 THEN t ELSE IF t[a] = Free THEN [t EXCEPT ![a] = k] ELSE PlaceAt(t, k, Nxt(a, st, i), st, i, fuel - 1)
Place(t, k, i, sx) == IF ReinsertNoProbe THEN [t EXCEPT ![Start(k[1], i)] = k] ELSE PlaceAt(t, k, Start(k[1], i), Step(k[1], i, sx), i, Sizes[i].size)
RECURSIVE Reinsert(_, _, _, _, _)
Reinsert(old, a, t, i, sx) == IF a >= Len(old) THEN t      \* hash_table_foreach: slots in index order
                              ELSE Reinsert(old, a + 1, IF old[a + 1] = Free THEN t ELSE Place(t, old[a + 1], i, sx), i, sx)
AsSeq(t, i) == [a \in 1..Sizes[i].size |-> t[a - 1]]
Grown(t, i) == Reinsert(AsSeq(t, i), 0, Empty(i + 1), i + 1, i + 1)

(* hash_table_insert after the growth decision: walk the probe sequence; a slot with the same key is replaced, else the first free slot is taken *)
RECURSIVE InsWalk(_, _, _, _, _, _)
InsWalk(t, k, a, st, i, fuel) ==          \* returns <<table, added>>
  IF fuel = 0 THEN <<t, FALSE>>
  ELSE IF t[a] = Free THEN <<[t EXCEPT ![a] = k], TRUE>>
  ELSE IF t[a] = k THEN <<t, FALSE>>
  ELSE InsWalk(t, k, Nxt(a, st, i), st, i, fuel - 1)
RECURSIVE Find(_, _, _, _, _, _)
Find(t, k, a, st, i, fuel) ==
  IF fuel = 0 \/ t[a] = Free THEN FALSE
  ELSE IF t[a] = k THEN TRUE
  ELSE IF SearchStopsAtOtherHash /\ t[a][1] # k[1] THEN FALSE
  ELSE Find(t, k, Nxt(a, st, i), st, i, fuel - 1)
Found(k) == Find(tbl, k, Start(k[1], si), Step(k[1], si, stepIdx), si, Sizes[si].size)

Insert(k) ==
  /\ Len(ins) < MaxIns
  /\ LET grow == entries >= Sizes[si].max /\ si < Len(Sizes)
         t0 == IF grow THEN Grown(tbl, si) ELSE tbl
         i0 == IF grow THEN si + 1 ELSE si
         sx == i0
         r == InsWalk(t0, k, Start(k[1], i0), Step(k[1], i0, sx), i0, Sizes[i0].size)
     IN /\ tbl' = r[1] /\ si' = i0 /\ stepIdx' = sx
        /\ entries' = IF r[2] THEN entries + 1 ELSE entries
  /\ ins' = Append(ins, k)
Next == \E k \in Keys : Insert(k)
Spec == Init /\ [][Next]_vars

Inserted == {ins[i] : i \in 1..Len(ins)}
AllFound == \A k \in Inserted : Found(k)
NothingElse == \A k \in Keys \ Inserted : ~Found(k)
CountRight == entries = Cardinality(Inserted) /\ Cardinality({a \in DOMAIN tbl : tbl[a] # Free}) = entries
RoomLeft == entries < Sizes[si].size                        \* the probe loops end: there is always a free slot
EmitOK == (Emit /\ Len(ins) = MaxIns) => PrintT(<<"RESULT", ToJson([ins |-> ins, size |-> Sizes[si].size, slots |-> AsSeq(tbl, si), entries |-> entries])>>)
=============================================================================
