---------------------------- MODULE XattrWriter ----------------------------
(* The extended attribute writer of libsquashfs (lib/sqfs/src/xattr/xattr_writer*.c) and what a reader gets back:      *)
(*   begin / add_kv* / end per inode   -> an index into the table of DISTINCT attribute sets (or none)                 *)
(*   flush                              -> key/value area (sets in creation order, shared long values stored once and   *)
(*                                         referenced "out of line" afterwards) + id table                              *)
(* Keys and values are interned (str_table: index in order of first appearance, values carry a reference count); a     *)
(* pair is <<key index, value index>>; adding a key twice inside one begin/end replaces the value (last one wins);      *)
(* `end` sorts the pairs and looks the sequence up in a search tree ordered by (count, pairs): found = share.            *)
(* Properties C01 relies on: every inode reads back exactly the attributes that were added for it (Fidelity), whatever *)
(* other inodes carry; the set table has no duplicates (Dedup); out-of-line references resolve to an earlier in-line     *)
(* copy of the same value (OolSound).                                                                                    *)
EXTENDS Naturals, Sequences, FiniteSets, TLC, Json
CONSTANTS Emit, MaxInodes, MaxAdds,
          Compare,              \* how `end` decides that a set exists already: "pairs" (as built) | deviations: "values" (low halves of
                                \* the pairs only), "keys", "count", "first" (first pair only)
          ReplaceSameKey,       \* TRUE as built; FALSE: a key added twice is stored twice
          OolNeedsLong,         \* TRUE as built: only values longer than 8 bytes are shared out of line; FALSE: any shared value (a layout variant, no property breaks)
          OolByValue,           \* TRUE as built: the remembered in-line place is per value; FALSE: one place for all shared values
          NLong                 \* number of distinct long values (1 or 2)

Keys == {"user.a", "user.b", "trusted.a"}         \* two prefixes with the SAME suffix: on disk a key is (prefix id, suffix)
Vals == IF NLong = 2 THEN {"s", "L", "M"} ELSE {"s", "L"}      \* "s" short (<= 8 bytes), "L" / "M" long (> 8 bytes)
KV == Keys \X Vals
IsLong(v) == v \in {"L", "M"}

(* ---- input: per inode the sequence of add_kv calls ---- *)
AddSeqs == UNION {[1..n -> KV] : n \in 0..MaxAdds}
Meaning(adds) ==                                    \* last add of a key wins: function from the keys present to values
  [k \in {adds[i][1] : i \in 1..Len(adds)} |->
     LET last == CHOOSE i \in 1..Len(adds) : adds[i][1] = k /\ \A j \in (i + 1)..Len(adds) : adds[j][1] # k IN adds[last][2]]

VARIABLES input,         \* sequence of AddSeqs, one per inode
          pc, ino, pos,  \* "add" / "end" / "flush" / "done"; current inode; next add of the current inode
          keys, vals,    \* interned strings in index order
          refc,          \* value index -> reference count
          cur,           \* pairs of the inode in progress (sequence of <<key index, value index>>)
          sets,          \* distinct sets in creation order: each a sorted sequence of pairs
          idx,           \* per finished inode: index into sets, or 0 = none
          disk           \* after flush: per set a sequence of [key, inl, val, ref] (ref = <<set, position>> of the in-line copy)
vars == <<input, pc, ino, pos, keys, vals, refc, cur, sets, idx, disk>>

IndexOf(seq, x) == CHOOSE i \in 1..Len(seq) : seq[i] = x
Intern(seq, x) == IF \E i \in 1..Len(seq) : seq[i] = x THEN seq ELSE Append(seq, x)

PairLess(p, q) == p[1] < q[1] \/ (p[1] = q[1] /\ p[2] < q[2])       \* compare_u64 over key << 32 | value
(* `end` sorts with compare_u64; cur holds a pair twice only under the deviation, SortSeq (module TLC) keeps duplicates *)

SameSet(a, b) ==
  /\ Len(a) = Len(b)
  /\ CASE Compare = "pairs" -> a = b
       [] Compare = "values" -> \A i \in 1..Len(a) : a[i][2] = b[i][2]
       [] Compare = "keys" -> \A i \in 1..Len(a) : a[i][1] = b[i][1]
       [] Compare = "first" -> a[1] = b[1]
       [] OTHER -> TRUE

Init == /\ \E n \in 1..MaxInodes : input \in [1..n -> AddSeqs]
        /\ pc = "add" /\ ino = 1 /\ pos = 1
        /\ keys = <<>> /\ vals = <<>> /\ refc = <<>> /\ cur = <<>> /\ sets = <<>> /\ idx = <<>> /\ disk = <<>>

AddKV == /\ pc = "add" /\ pos <= Len(input[ino])
         /\ LET k == input[ino][pos][1]
                v == input[ino][pos][2]
                keys2 == Intern(keys, k)
                vals2 == Intern(vals, v)
                ki == IndexOf(keys2, k)
                vi == IndexOf(vals2, v)
                refc1 == IF vi > Len(refc) THEN Append(refc, 1) ELSE [refc EXCEPT ![vi] = @ + 1]      \* add_ref happens before the look at cur
                same == {i \in 1..Len(cur) : cur[i] = <<ki, vi>>}
                samekey == {i \in 1..Len(cur) : cur[i][1] = ki}
            IN /\ keys' = keys2 /\ vals' = vals2
               /\ IF same # {} /\ ReplaceSameKey
                  THEN cur' = cur /\ refc' = refc1                                                   \* identical pair: nothing to do (the reference stays counted)
                  ELSE IF samekey # {} /\ ReplaceSameKey
                  THEN LET i == CHOOSE i \in samekey : TRUE IN
                       /\ cur' = [cur EXCEPT ![i] = <<ki, vi>>]
                       /\ refc' = [refc1 EXCEPT ![cur[i][2]] = @ - 1]
                  ELSE cur' = Append(cur, <<ki, vi>>) /\ refc' = refc1
         /\ pos' = pos + 1
         /\ UNCHANGED <<input, pc, ino, sets, idx, disk>>

EndAdds == /\ pc = "add" /\ pos > Len(input[ino])
           /\ pc' = "end"
           /\ UNCHANGED <<input, ino, pos, keys, vals, refc, cur, sets, idx, disk>>

End == /\ pc = "end"
       /\ LET s == SortSeq(cur, PairLess)
              hit == {i \in 1..Len(sets) : SameSet(sets[i], s)}
          IN IF Len(cur) = 0 THEN idx' = Append(idx, 0) /\ sets' = sets
             ELSE IF hit # {} THEN idx' = Append(idx, CHOOSE i \in hit : TRUE) /\ sets' = sets
             ELSE idx' = Append(idx, Len(sets) + 1) /\ sets' = Append(sets, s)
       /\ cur' = <<>>
       /\ IF ino < Len(input) THEN pc' = "add" /\ ino' = ino + 1 /\ pos' = 1
          ELSE pc' = "flush" /\ ino' = ino /\ pos' = pos
       /\ UNCHANGED <<input, keys, vals, refc, disk>>

(* flush: sets in creation order, pairs in sorted order; a value is written in line the first time; if it is referenced more   *)
(* than once (and long) that place is remembered and later occurrences become references                                       *)
FlatPos == [s \in 1..Len(sets) |-> [p \in 1..Len(sets[s]) |-> <<s, p>>]]
Before(a, b) == a[1] < b[1] \/ (a[1] = b[1] /\ a[2] < b[2])
Shared(vi) == refc[vi] >= 2 /\ (IsLong(vals[vi]) \/ ~OolNeedsLong)
Tracked(vi, wi) == IF OolByValue THEN wi = vi ELSE Shared(wi)
FirstUse(vi) == CHOOSE a \in {<<s, p>> : s \in 1..Len(sets), p \in 1..3} :
                   /\ a[2] <= Len(sets[a[1]]) /\ Tracked(vi, sets[a[1]][a[2]][2])
                   /\ \A s \in 1..Len(sets) : \A p \in 1..Len(sets[s]) : Tracked(vi, sets[s][p][2]) => (<<s, p>> = a \/ Before(a, <<s, p>>))
Flush == /\ pc = "flush"
         /\ disk' = [s \in 1..Len(sets) |-> [p \in 1..Len(sets[s]) |->
                       LET vi == sets[s][p][2] IN
                       IF Shared(vi) /\ FirstUse(vi) # <<s, p>>
                       THEN [key |-> keys[sets[s][p][1]], inl |-> FALSE, val |-> "-", ref |-> FirstUse(vi)]
                       ELSE [key |-> keys[sets[s][p][1]], inl |-> TRUE, val |-> vals[vi], ref |-> <<0, 0>>]]]
         /\ pc' = "done"
         /\ UNCHANGED <<input, ino, pos, keys, vals, refc, cur, sets, idx>>

Next == AddKV \/ EndAdds \/ End \/ Flush \/ (pc = "done" /\ UNCHANGED vars)
Spec == Init /\ [][Next]_vars

(* ---- what a reader gets: the multiset of (key, value) of set i, references resolved ---- *)
Resolve(e) == IF e.inl THEN e.val ELSE disk[e.ref[1]][e.ref[2]].val
ReadBack(i) == IF idx[i] = 0 THEN {} ELSE {<<disk[idx[i]][p].key, Resolve(disk[idx[i]][p])>> : p \in 1..Len(disk[idx[i]])}
Want(i) == LET m == Meaning(input[i]) IN {<<k, m[k]>> : k \in DOMAIN m}

Fidelity == pc = "done" => \A i \in 1..Len(input) : ReadBack(i) = Want(i) /\ (idx[i] # 0 => Len(disk[idx[i]]) = Cardinality(Want(i)))
Dedup == \A i, j \in 1..Len(sets) : i # j => sets[i] # sets[j]
OolSound == pc = "done" => \A s \in 1..Len(disk) : \A p \in 1..Len(disk[s]) :
               ~disk[s][p].inl => /\ Before(disk[s][p].ref, <<s, p>>)
                                  /\ disk[disk[s][p].ref[1]][disk[s][p].ref[2]].inl
RefCountCovers == pc = "flush" => \A vi \in 1..Len(vals) :                   \* the count is an upper bound of the stored uses (over-counting only wastes a look-up)
                     refc[vi] >= Cardinality({<<s, p>> \in UNION {{<<s, p>> : p \in 1..Len(sets[s])} : s \in 1..Len(sets)} : sets[s][p][2] = vi})
NoEmptySet == \A i \in 1..Len(sets) : Len(sets[i]) > 0
EmitOK == (Emit /\ pc = "done") =>
            PrintT(<<"RESULT", ToJson([input |-> input, idx |-> idx, nsets |-> Len(sets),
                                        layout |-> [s \in 1..Len(disk) |-> [p \in 1..Len(disk[s]) |-> [key |-> disk[s][p].key, inl |-> disk[s][p].inl]]]])>>)
=============================================================================
