----------------------------- MODULE TraceCanon -----------------------------
(* Trace check for C18: every record {s, rc, o, sane} written by harness/canon_table.c (the real   *)
(* canonicalize_name / is_filename_sane run on string s) must agree with CanonSpec / SaneSpec.     *)
EXTENDS Canon, Json, IOUtils
Table == ndJsonDeserialize(IOEnv.TRACE)
VARIABLE bad
RecordOK(r) ==
  /\ (r.rc = 0  => CanonSpec(r.s) = r.o)
  /\ (r.rc # 0  => CanonSpec(r.s) = Fail)
  /\ (r.sane = SaneSpec(r.s))
TInit == str = <<>> /\ bad = {i \in 1..Len(Table) : ~RecordOK(Table[i])}
TNext == UNCHANGED <<str, bad>>
AllRecordsAgree == bad = {}
NonEmpty == Len(Table) > 0
=============================================================================
