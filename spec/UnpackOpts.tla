----------------------------- MODULE UnpackOpts -----------------------------
(* rdsquashfs --unpack-path with the filter options (bin/rdsquashfs/src/options.c, lib/common/src/read_tree.c fill_dir):     *)
(*   --no-dev  --no-sock  --no-fifo  --no-slink   entries of that type are not unpacked                                      *)
(*   --no-empty-dir                               directories that END UP empty (also through the other filters, recursively) *)
(*   --unpack-path /<dir>                         the content of that directory is unpacked into the unpack root              *)
(* over a fixed tree with one entry of every type, an empty directory, a directory holding only a symlink, a directory       *)
(* holding only an empty directory and a directory with a file.  C01: what is unpacked is exactly this selection.             *)
EXTENDS Naturals, Sequences, FiniteSets, TLC, Json
CONSTANTS Emit,
          EmptyPruneRecursive      \* TRUE as built: a directory whose only content was pruned is pruned too

Tree == { [p |-> <<"f">>, t |-> "file"], [p |-> <<"l">>, t |-> "slink"], [p |-> <<"c">>, t |-> "dev"], [p |-> <<"s">>, t |-> "sock"],
          [p |-> <<"p">>, t |-> "fifo"], [p |-> <<"e">>, t |-> "dir"],
          [p |-> <<"d">>, t |-> "dir"], [p |-> <<"d", "l2">>, t |-> "slink"],
          [p |-> <<"dd">>, t |-> "dir"], [p |-> <<"dd", "e2">>, t |-> "dir"],
          [p |-> <<"k">>, t |-> "dir"], [p |-> <<"k", "f2">>, t |-> "file"] }
Opts == [D : BOOLEAN, S : BOOLEAN, F : BOOLEAN, L : BOOLEAN, E : BOOLEAN, u : {<<>>, <<"d">>, <<"dd">>, <<"k">>}]
IsPrefix(a, b) == Len(a) <= Len(b) /\ SubSeq(b, 1, Len(a)) = a
TypeKept(o, t) == ~((o.D /\ t = "dev") \/ (o.S /\ t = "sock") \/ (o.F /\ t = "fifo") \/ (o.L /\ t = "slink"))
Below(o) == {e \in Tree : IsPrefix(o.u, e.p) /\ e.p # o.u /\ TypeKept(o, e.t)}
(* pruning: a directory survives if something that is not a pruned directory lies below it; two rounds suffice for depth 2 *)
HasContent(S, e) == \E c \in S : c # e /\ IsPrefix(e.p, c.p)
Prune1(S) == {e \in S : e.t # "dir" \/ HasContent(S, e)}
Kept(o) == IF ~o.E THEN Below(o) ELSE IF EmptyPruneRecursive THEN Prune1(Prune1(Below(o))) ELSE Prune1(Below(o))
Rel(o, e) == SubSeq(e.p, Len(o.u) + 1, Len(e.p))
Meaning(o) == {[p |-> Rel(o, e), t |-> e.t] : e \in Kept(o)}

VARIABLE o
Init == o \in Opts
Next == UNCHANGED o
Spec == Init /\ [][Next]_o
NoEmptyDirLeft == o.E => \A e \in Meaning(o) : e.t = "dir" => \E c \in Meaning(o) : c # e /\ IsPrefix(e.p, c.p)
OnlyFiltersRemove == \A e \in Below([o EXCEPT !.D = FALSE, !.S = FALSE, !.F = FALSE, !.L = FALSE, !.E = FALSE]) :
                       (e \notin Kept(o)) => (~TypeKept(o, e.t) \/ (o.E /\ e.t = "dir"))
EmitOK == Emit => PrintT(<<"RESULT", ToJson([o |-> o, m |-> Meaning(o)])>>)
=============================================================================
