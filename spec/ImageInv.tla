------------------------------ MODULE ImageInv ------------------------------
(* On-disk invariants of SquashFS 4.0 images (doc/format.adoc; what the Linux kernel and other readers     *)
(* rely on) as a trace specification over the event log that the independent decoder (tools/sqfsimg.py)    *)
(* produces from an image: the image is the writer's append-only log, one event per on-disk record          *)
(* (superblock, data / fragment block, metadata block, inode, directory header, entry, index, tables).      *)
(* Each event kind has a guard = the format rule; Update carries the little state the rules need.           *)
(* A batch file holds many images; every "Super" event starts a new one.  BadEvents = for every image the    *)
(* index of the first event whose guard fails (property C03: BadEvents = {}).                               *)
EXTENDS Naturals, Integers, Sequences, SequencesExt, FiniteSets, TLC, Json, IOUtils
Events == ndJsonDeserialize(IOEnv.TRACE)

Has(s, x) == \E i \in 1..Len(s) : s[i] = x
RECURSIVE IsSubOrder(_, _)
IsSubOrder(s, full) ==           \* s is a subsequence of full
  IF s = <<>> THEN TRUE ELSE IF full = <<>> THEN FALSE
  ELSE IF Head(s) = Head(full) THEN IsSubOrder(Tail(s), Tail(full)) ELSE IsSubOrder(s, Tail(full))
Pow2(n) == 2 ^ n

St0 == [sup |-> [inodes |-> 0], nums |-> {}, ninodes |-> 0, hdrLeft |-> 0, inDir |-> 0, ndirent |-> 0, expectEnt |-> 0,
        sawId |-> FALSE, sawExport |-> FALSE, image |-> 0]

GuardSuper(e) ==
  /\ e.block_log \in 12..20 /\ e.block_size = Pow2(e.block_log)
  /\ e.ids >= 1 /\ e.inodes >= 1
  /\ e.bytes_used_le_len /\ e.tables_in_file /\ e.root_is_dir
  /\ e.file_len_mod4k = 0                                             \* padded to the device block size
  /\ IsSubOrder(e.table_order, <<"data", "inode", "dir", "frag", "export", "id", "xattr">>)
  /\ (e.has_export <=> Has(e.flags, "EXPORTABLE"))
  /\ (e.has_xattr <=> ~Has(e.flags, "NO_XATTRS"))
  /\ (e.frags > 0 => (e.has_frag_tbl /\ ~Has(e.flags, "NO_FRAGS")))
  /\ e.comp \in 1..6
  \* compressor options: one uncompressed metadata block right behind the super block iff the flag is set; its size is fixed
  \* per compressor (gzip 8, lzo 8, xz 8, lz4 8, zstd 4; lzma has none)
  /\ (Has(e.flags, "COMP_OPTS") <=> e.comp_opts_len >= 0)
  /\ (e.comp_opts_len >= 0 => e.comp_opts_len = (CASE e.comp = 1 -> 8 [] e.comp = 3 -> 8 [] e.comp = 4 -> 8 [] e.comp = 5 -> 8 [] e.comp = 6 -> 4 [] OTHER -> 0 - 1))

GuardData(st, e) ==
  /\ e.stored <= st.sup.block_size /\ e.usize <= st.sup.block_size
  /\ (e.sparse => e.stored = 0)
  /\ (~e.sparse => (e.in_data_area /\ e.expands_ok))
  /\ (e.compressed => e.stored <= e.usize)
  /\ ((~e.compressed /\ ~e.sparse) => e.stored = e.usize)
GuardFrag(st, e) ==
  /\ e.stored >= 1 /\ e.stored <= st.sup.block_size /\ e.in_data_area
  /\ e.usize >= 1 /\ e.usize <= st.sup.block_size
  /\ (e.compressed => e.stored <= e.usize) /\ (~e.compressed => e.stored = e.usize)
GuardMeta(e) == /\ e.stored <= 8192 /\ e.usize <= 8192 /\ e.usize >= 1
                /\ (e.compressed => e.stored <= e.usize) /\ (~e.compressed => e.stored = e.usize)
GuardInode(st, e) ==
  /\ e.num \in 1..st.sup.inodes /\ e.num \notin st.nums
  /\ e.nlink >= 1
  /\ (e.type # "dir" => e.nlink = e.refs)                              \* as many links as directory entries name the inode (basic inodes: exactly one)
  /\ e.uid_idx < st.sup.ids /\ e.gid_idx < st.sup.ids
  /\ (e.xattr # 0 - 1 => st.sup.has_xattr)
  /\ (e.type = "dir" => (e.nlink >= 2 /\ (e.is_root \/ e.parent \in 1..st.sup.inodes) /\ e.size >= 3))
  /\ (e.type = "file" => /\ (e.frag # 0 - 1 => e.frag < st.sup.frags)
                         /\ e.frag_fits
                         /\ (e.needs_ext => e.ext)
                         /\ (e.frag = 0 - 1 => e.tail = 0))
GuardDirHeader(st, e) == /\ st.hdrLeft = 0 /\ e.count \in 1..256 /\ e.dir = st.inDir
GuardDirEnt(st, e) ==
  /\ st.hdrLeft > 0 /\ e.dir = st.inDir
  /\ e.gt_prev                                                         \* strictly sorted listing
  /\ e.name_len \in 1..256
  /\ e.resolves /\ e.tgt_num = e.num                                   \* header inode number + delta names the inode
  /\ e.type = e.tgt_type
  /\ (e.tgt_type = "dir" => e.tgt_parent = e.dir)
GuardDirIndex(st, e) == e.points_at_header /\ e.name_matches /\ e.block_matches
GuardEnd(st) == /\ st.ninodes = st.sup.inodes /\ Cardinality(st.nums) = st.sup.inodes
                /\ st.sawId /\ (st.sup.has_export => st.sawExport) /\ st.hdrLeft = 0

Guard(st, e) ==
  CASE e.e = "Super" -> GuardSuper(e)
    [] e.e = "DataBlock" -> GuardData(st, e)
    [] e.e = "FragBlock" -> GuardFrag(st, e)
    [] e.e = "DataArea" -> ~e.partial_overlap
    [] e.e = "MetaBlock" -> GuardMeta(e)
    [] e.e = "Inode" -> GuardInode(st, e)
    [] e.e = "DirBegin" -> st.hdrLeft = 0 /\ e.nlink >= 2
    [] e.e = "DirHeader" -> GuardDirHeader(st, e)
    [] e.e = "DirEnt" -> GuardDirEnt(st, e)
    [] e.e = "DirIndex" -> GuardDirIndex(st, e)
    [] e.e = "DirEnd" -> st.hdrLeft = 0 /\ st.ndirent = st.expectEnt
    [] e.e = "IndexLayout" -> /\ e.xattr_exact /\ e.id_exact /\ e.export_exact /\ e.frag_exact     \* every index list ends exactly where the next structure starts
                              /\ e.xattr_ascending /\ e.id_ascending /\ e.export_ascending /\ e.frag_ascending
    [] e.e = "IdTable" -> e.count = st.sup.ids /\ e.count >= 1
    [] e.e = "ExportTable" -> e.count = st.sup.inodes /\ e.correct = e.count
    [] e.e = "XattrTable" -> st.sup.has_xattr
    [] e.e = "End" -> GuardEnd(st)
    [] OTHER -> FALSE

Update(st, e) ==
  CASE e.e = "Super" -> [St0 EXCEPT !.sup = e, !.image = st.image + 1]
    [] e.e = "Inode" -> [st EXCEPT !.nums = @ \cup {e.num}, !.ninodes = @ + 1]
    [] e.e = "DirBegin" -> [st EXCEPT !.inDir = e.dir, !.ndirent = 0, !.expectEnt = e.nentries, !.hdrLeft = 0]
    [] e.e = "DirHeader" -> [st EXCEPT !.hdrLeft = e.count]
    [] e.e = "DirEnt" -> [st EXCEPT !.hdrLeft = @ - 1, !.ndirent = @ + 1]
    [] e.e = "IdTable" -> [st EXCEPT !.sawId = TRUE]
    [] e.e = "ExportTable" -> [st EXCEPT !.sawExport = TRUE]
    [] OTHER -> st

(* fold over the batch (FoldLeft is evaluated iteratively by TLC's SequencesExt override) *)
Step(acc, e) ==
  LET i == acc.i + 1  st == acc.st IN
  IF e.e = "Super"
  THEN (IF GuardSuper(e) THEN [st |-> Update(st, e), skip |-> FALSE, bad |-> acc.bad, i |-> i]
        ELSE [st |-> [St0 EXCEPT !.image = st.image + 1], skip |-> TRUE, bad |-> acc.bad \cup {<<st.image + 1, i>>}, i |-> i])
  ELSE IF acc.skip THEN [acc EXCEPT !.i = i]
  ELSE IF Guard(st, e) THEN [st |-> Update(st, e), skip |-> FALSE, bad |-> acc.bad, i |-> i]
  ELSE [st |-> st, skip |-> TRUE, bad |-> acc.bad \cup {<<st.image, i>>}, i |-> i]
Fold == FoldLeft(Step, [st |-> St0, skip |-> FALSE, bad |-> {}, i |-> 0], Events).bad

VARIABLE badEvents
Init == badEvents = Fold
Next == UNCHANGED badEvents
AllImagesValid == badEvents = {}
=============================================================================
