------------------------------ MODULE TarReader ------------------------------
(* Untrusted tar streams (property C07): lib/tar/src/read_header.c, pax_header.c, number.c,                  *)
(* read_sparse_map_*.c, iterator.c, bin/tar2sqfs/src/process_tarball.c as a record-sequence state machine.   *)
(* An archive plan is a sequence of up to MaxRec records, each valid or malformed in one catalogued way,      *)
(* optionally cut (truncated) at a record boundary / inside a header / inside a payload, with or without the  *)
(* two-block terminator.  The reader consumes records one by one; the loop variant is the number of records   *)
(* left, every malformed class is either rejected (diagnostic, non-zero exit, no output) or - for the classes  *)
(* the format tolerates - read as end of archive.  Property: the run terminates and its outcome is "image"     *)
(* (a valid image of the records before the end) or "refused"; never "crash" or "hang".                        *)
EXTENDS Naturals, Sequences, FiniteSets, TLC, Json
CONSTANTS MaxRec, Emit,
          ChecksumChecked, PaxLenChecked, SparseCountBounded, SizeFieldValidated, LinkCycleDetected,
          Sparse10Validated      \* the GNU 1.0 sparse map in front of the file data (read_sparse_map_new.c) is parsed with every number and the map length checked
Classes == {"ok", "badchecksum", "badmagic", "size_nonnumeric", "size_huge", "size_negative_b256",
            "pax_len_zero", "pax_len_over", "pax_no_equals", "pax_no_newline", "pax_huge",
            "longname_over_limit", "longname_zero", "sparse_unordered", "sparse_overlap", "sparse_beyond", "sparse_count_mismatch",
            "name_dotdot", "name_empty", "hlink_dangling", "hlink_self", "hlink_cycle", "hlink_to_dir",
            "dup_name", "file_under_file", "unknown_type",
            "sp10_count_nonnumeric", "sp10_count_huge", "sp10_entry_nonnumeric", "sp10_map_truncated", "sp10_no_newline", "sp10_number_overflow"}
Cuts == {"none", "boundary", "in_header", "in_payload"}
Plan == [recs : UNION {[1..k -> Classes] : k \in 1..MaxRec}, cut : Cuts, cutAt : 1..MaxRec, term : BOOLEAN]

(* what the reader does with one record of a given class: "next" | "refuse" | "eof" | "crash" | "hang" *)
Step(c) ==
  CASE c = "ok" -> "next"
    [] c = "badchecksum" -> IF ChecksumChecked THEN "refuse" ELSE "next"
    [] c = "badmagic" -> "refuse"
    [] c \in {"size_nonnumeric", "size_huge", "size_negative_b256"} -> IF SizeFieldValidated THEN "refuse" ELSE "crash"
    [] c \in {"pax_len_zero", "pax_len_over", "pax_no_equals", "pax_no_newline", "pax_huge"} -> IF PaxLenChecked THEN "refuse" ELSE "crash"
    [] c \in {"longname_over_limit", "longname_zero"} -> "refuse"
    [] c \in {"sparse_unordered", "sparse_overlap", "sparse_beyond"} -> "refuse"
    [] c = "sparse_count_mismatch" -> IF SparseCountBounded THEN "refuse" ELSE "hang"
    [] c \in {"name_dotdot", "name_empty"} -> "refuse"
    [] c \in {"hlink_dangling", "hlink_self", "hlink_to_dir"} -> "refuse"            \* at link resolution
    [] c = "hlink_cycle" -> IF LinkCycleDetected THEN "refuse" ELSE "hang"
    [] c \in {"dup_name", "file_under_file"} -> "refuse"
    [] c \in {"sp10_count_nonnumeric", "sp10_count_huge", "sp10_entry_nonnumeric", "sp10_map_truncated", "sp10_no_newline", "sp10_number_overflow"}
         -> IF Sparse10Validated THEN "refuse" ELSE "crash"
    [] c = "unknown_type" -> "next"                                                     \* skipped with its payload
RECURSIVE Run(_, _, _)
Run(p, i, left) ==
  IF left = 0 THEN "hang"                                                               \* cannot happen: each step consumes a record
  ELSE IF i > Len(p.recs) THEN "image"                                                  \* terminator or plain EOF
  ELSE IF p.cut # "none" /\ i = p.cutAt
       THEN (IF p.cut = "boundary" THEN "image" ELSE IF p.cut = "in_header" THEN "image" ELSE "refuse")   \* short payload = read error
  ELSE LET s == Step(p.recs[i]) IN IF s = "next" THEN Run(p, i + 1, left - 1) ELSE IF s = "eof" THEN "image" ELSE s
Outcome(p) == Run(p, 1, Len(p.recs) + 2)

VARIABLE plan
Init == plan \in Plan /\ plan.cutAt <= Len(plan.recs)
        /\ Cardinality({i \in 1..Len(plan.recs) : plan.recs[i] # "ok"}) <= 2
Next == UNCHANGED plan
Spec == Init /\ [][Next]_plan
Robust == Outcome(plan) \in {"image", "refuse"}
EmitOK == Emit => PrintT(<<"RESULT", ToJson([plan |-> plan, outcome |-> Outcome(plan)])>>)
=============================================================================
