------------------------------- MODULE TarNum -------------------------------
(* Numeric header fields of the tar writer and reader (lib/tar/src/write_header.c write_number / write_number_signed / write_binary,  *)
(* lib/tar/src/number.c read_number): a field of w bytes holds w-1 octal digits and a blank, w octal digits without a terminator,     *)
(* or - first bit set - the value in base 256.  C04: what sqfs2tar writes (owner ids up to 2^32 - 1, sizes beyond 8 GiB, device       *)
(* numbers) is read back by tar2sqfs as the same number.  Checked for every value up to Max at the widths 3 and 4 (all three forms     *)
(* and both boundaries are reached there) and for the boundary values of the 8 byte fields (uid, gid, devmajor, devminor);            *)
(* the table of the real functions over the same domain is validated against Write / Read (trace spec TraceTarNum).                   *)
EXTENDS Integers, Sequences, FiniteSets, TLC
CONSTANTS Max,
          BinaryWithoutFlag,    \* deviation: write_binary does not set the first bit
          FullFormShort         \* deviation: the w digit form writes w-1 digits

Pow(b, n) == b ^ n
Mask(w) == Pow(8, w - 1) - 1
Full(w) == Pow(8, w) - 1
RECURSIVE DigitsOf(_, _, _)
DigitsOf(v, base, n) == IF n = 0 THEN <<>> ELSE Append(DigitsOf(v \div base, base, n - 1), v % base)
Oct(v, n) == [i \in 1..n |-> 48 + DigitsOf(v, 8, n)[i]]
Bin(v, w) == LET d == DigitsOf(v, 256, w) IN [i \in 1..w |-> IF i = 1 /\ ~BinaryWithoutFlag THEN (IF d[1] >= 128 THEN d[1] ELSE d[1] + 128) ELSE d[i]]
Write(v, w) == IF v <= Mask(w) THEN Oct(v, w - 1) \o <<32>>
               ELSE IF v <= Full(w) THEN (IF FullFormShort THEN Oct(v, w - 1) \o <<32>> ELSE Oct(v, w))
               ELSE Bin(v, w)
(* negative numbers: two's complement over w bytes (only those whose first byte is 0xFF are read back as negative) *)
WriteSigned(v, w) == IF v >= 0 THEN Write(v, w) ELSE <<255>> \o DigitsOf(Pow(256, w - 1) + v, 256, w - 1)      \* for -256^(w-1) <= v < 0

RECURSIVE OctVal(_, _, _)
OctVal(s, i, acc) == IF i > Len(s) \/ s[i] < 48 \/ s[i] > 55 THEN acc ELSE OctVal(s, i + 1, acc * 8 + (s[i] - 48))
RECURSIVE SkipSp(_, _)
SkipSp(s, i) == IF i <= Len(s) /\ s[i] \in {32, 9, 10, 11, 12, 13} THEN SkipSp(s, i + 1) ELSE i
RECURSIVE BinVal(_, _, _)
BinVal(s, i, acc) == IF i > Len(s) THEN acc ELSE BinVal(s, i + 1, acc * 256 + s[i])
Read(s) == IF s[1] >= 128
           THEN (IF s[1] = 255 THEN BinVal(s, 2, -1) ELSE BinVal(s, 2, s[1] - 128))
           ELSE OctVal(s, SkipSp(s, 1), 0)

VARIABLE v, w
Init == w \in {3, 4} /\ v \in 0..Max
Next == UNCHANGED <<v, w>>
RoundTrip == Read(Write(v, w)) = v
FieldWidth == Len(Write(v, w)) = w
(* the three forms are used exactly in their ranges *)
FormByRange == LET s == Write(v, w) IN
               /\ (v <= Mask(w)) = (s[1] < 128 /\ s[w] = 32)
               /\ (v > Full(w)) = (s[1] >= 128)
NegRoundTrip == (v >= 1 /\ v <= Pow(256, w - 1)) => Read(WriteSigned(0 - v, w)) = 0 - v
=============================================================================
